import CJ.Lemmas.Codec
/-! DNS names and messages: the writer's output is decoded by the reader (C15), and the reader
terminates without panicking on every input (C11). Core Lean only. -/
namespace CJ.Codec

/-! ### `NewName` -/

theorem checkLabels_none_iff (n : Name) : checkLabels n = none ↔ ∀ l ∈ n, 0 < l.length ∧ l.length ≤ 63 := by
  induction n with
  | nil => simp [checkLabels]
  | cons l ls ih =>
    simp only [checkLabels, List.mem_cons, forall_eq_or_imp]
    by_cases h0 : l.length = 0
    · simp [h0]
    · by_cases h1 : l.length > 63
      · simp [h0, h1]; omega
      · simp [h0, h1, ih]; omega

theorem validName_iff (n : Name) :
    validName n ↔ (∀ l ∈ n, 0 < l.length ∧ l.length ≤ 63) ∧ nameWireLen n ≤ 255 := by
  unfold validName newName
  rw [← checkLabels_none_iff]
  cases h : checkLabels n with
  | some e => simp
  | none =>
    by_cases hl : nameWireLen n > 255
    · simp [hl]
    · simp [hl]; omega

theorem newName_ok {n : Name} (h : validName n) : newName n = .ok n := h

theorem newName_ok_eq {ls : List Label} {n : Name} (h : newName ls = .ok n) : n = ls := by
  unfold newName at h
  split at h
  · cases h
  · split at h <;> cases h; rfl

/-! ### the reader terminates -/

theorem finishName_ne_hang (labels : List Label) (np seekTo pos : Nat) :
    finishName labels np seekTo pos ≠ .hang ∧ ∀ s, finishName labels np seekTo pos ≠ .panic s := by
  unfold finishName newName
  split
  · simp [Outcome.bind]
  · split <;> simp [Outcome.bind]

/-- the loop variant of `readName`: pointers left, then bytes left -/
def nameMeasure (L np pos : Nat) : Nat :=
  (compressionPointerLimit - np) * (L + 2) + (L + 1 - min pos (L + 1))

theorem readNameLoop_safe (buf : Bytes) :
    ∀ fuel pos labels np seekTo, np ≤ compressionPointerLimit → nameMeasure buf.length np pos < fuel →
      (readNameLoop buf fuel pos labels np seekTo).Safe := by
  intro fuel
  induction fuel with
  | zero => intro pos labels np seekTo _ h; omega
  | succ fuel ih =>
    intro pos labels np seekTo hnp hm
    rw [readNameLoop]
    cases hb : buf[pos]? with
    | none => simp [Outcome.Safe]
    | some t =>
      have hpos : pos < buf.length := by
        rcases List.getElem?_eq_some_iff.mp hb with ⟨h, _⟩; exact h
      simp only
      split
      · split
        · have := finishName_ne_hang labels np seekTo (pos + 1)
          exact ⟨this.2, this.1⟩
        · split
          · rename_i hlen
            apply ih _ _ _ _ hnp
            unfold nameMeasure at *
            omega
          · simp [Outcome.Safe]
      · split
        · cases hl : buf[pos + 1]? with
          | none => simp [Outcome.Safe]
          | some lower =>
            simp only
            split
            · simp [Outcome.Safe]
            · rename_i hlim
              have hlt : np < compressionPointerLimit := by omega
              apply ih _ _ _ _ (by omega)
              unfold nameMeasure at *
              obtain ⟨k, hk⟩ : ∃ k, compressionPointerLimit - np = k + 1 := ⟨compressionPointerLimit - np - 1, by omega⟩
              have hk' : compressionPointerLimit - (np + 1) = k := by omega
              rw [hk'] ; rw [hk, Nat.succ_mul] at hm
              omega
        · simp [Outcome.Safe]

theorem nameMeasure_lt_fuel (buf : Bytes) (pos : Nat) : nameMeasure buf.length 0 pos < nameFuel buf := by
  unfold nameMeasure nameFuel compressionPointerLimit
  omega

/-- `readName` terminates and does not panic, whatever the buffer and the start position -/
theorem readName_safe (buf : Bytes) (pos : Nat) : (readName buf pos).Safe :=
  readNameLoop_safe buf _ pos [] 0 0 (by simp [compressionPointerLimit]) (nameMeasure_lt_fuel buf pos)

/-! ### what the writer produces is what the reader decodes -/

/-- `DecodesAt w off s d e`: starting at offset `off` of `w` there is an encoding of the name `s`
that a reader decodes by following `d` compression pointers, and `e` is where the reader stands
afterwards (just past the terminating zero, or just past the first pointer). -/
inductive DecodesAt (w : Bytes) : Nat → Name → Nat → Nat → Prop
  | nil {off : Nat} : w[off]? = some 0 → DecodesAt w off [] 0 (off + 1)
  | label {off : Nat} {l : Label} {rest : Name} {d e : Nat} :
      0 < l.length → l.length ≤ 63 → w[off]? = some (UInt8.ofNat l.length) →
      off + 1 + l.length ≤ w.length → (w.drop (off + 1)).take l.length = l →
      DecodesAt w (off + 1 + l.length) rest d e → DecodesAt w off (l :: rest) d e
  | ptr {off : Nat} {hi lo : UInt8} {s : Name} {d e : Nat} :
      w[off]? = some hi → hi &&& 0xc0 = 0xc0 → w[off + 1]? = some lo →
      DecodesAt w ((hi &&& 0x3f).toNat * 256 + lo.toNat) s d e → DecodesAt w off s (d + 1) (off + 2)

theorem getElem?_append_left' {w x : Bytes} {i : Nat} {v : UInt8} (h : w[i]? = some v) : (w ++ x)[i]? = some v := by
  rcases List.getElem?_eq_some_iff.mp h with ⟨hi, _⟩
  rw [List.getElem?_append_left hi]; exact h

theorem take_drop_append {w x : Bytes} {a n : Nat} (h : a + n ≤ w.length) :
    ((w ++ x).drop a).take n = (w.drop a).take n := by
  rw [List.drop_append_of_le_length (by omega), List.take_append_of_le_length (by simp [List.length_drop]; omega)]

theorem DecodesAt.mono {w : Bytes} {off : Nat} {s : Name} {d e : Nat} (h : DecodesAt w off s d e) (x : Bytes) :
    DecodesAt (w ++ x) off s d e := by
  induction h with
  | nil h => exact .nil (getElem?_append_left' h)
  | label h0 h63 hb hlen htk _ ih =>
    exact .label h0 h63 (getElem?_append_left' hb) (by simp; omega) (by rw [take_drop_append (by omega)]; exact htk) ih
  | ptr hh hc hl _ ih => exact .ptr (getElem?_append_left' hh) hc (getElem?_append_left' hl) ih

/-- partial correctness of the `readName` loop, for every amount of fuel -/
theorem readNameLoop_decodes {w : Bytes} {off : Nat} {s : Name} {d e : Nat} (h : DecodesAt w off s d e) :
    ∀ fuel labels np seekTo, np + d ≤ compressionPointerLimit →
      readNameLoop w fuel off labels np seekTo = .hang ∨
      readNameLoop w fuel off labels np seekTo =
        (newName (labels ++ s)).bind fun n => .ok (n, if np = 0 then e else seekTo) := by
  induction h with
  | @nil off hb =>
    intro fuel labels np seekTo _
    cases fuel with
    | zero => left; rfl
    | succ fuel =>
      right
      rw [readNameLoop, hb]
      have h1 : (0 : UInt8) &&& 0xc0 = 0x00 := by decide
      have h2 : ((0 : UInt8) &&& 0x3f).toNat = 0 := by decide
      simp only [h1, h2, if_true, finishName, List.append_nil]
      by_cases hnp : np = 0
      · simp [hnp]
      · have : np > 0 := by omega
        simp [hnp, this]
  | @label off l rest d e h0 h63 hb hlen htk _ ih =>
    intro fuel labels np seekTo hd
    cases fuel with
    | zero => left; rfl
    | succ fuel =>
      rw [readNameLoop, hb]
      obtain ⟨h1, h2⟩ := label_byte l.length h63
      have h3 : ¬ (l.length = 0) := by omega
      simp only [h1, h2, if_true, h3, if_false, hlen, htk]
      have := ih fuel (labels ++ [l]) np seekTo hd
      simpa [List.append_assoc] using this
  | @ptr off hi lo s d e hh hc hl _ ih =>
    intro fuel labels np seekTo hd
    cases fuel with
    | zero => left; rfl
    | succ fuel =>
      rw [readNameLoop, hh]
      have h1 : ¬ (hi &&& 0xc0 = 0x00) := by rw [hc]; decide
      simp only [hc, if_true, hl]
      have h2 : ¬ (np + 1 > compressionPointerLimit) := by omega
      simp only [h2, if_false]
      have := ih fuel labels (np + 1) (if np = 0 then off + 2 else seekTo) (by omega)
      simpa using this

/-- `readName` on a buffer in which a valid name is encoded at `off` -/
theorem readName_decodes {w : Bytes} {off : Nat} {s : Name} {d e : Nat} (h : DecodesAt w off s d e)
    (hd : d ≤ compressionPointerLimit) (hv : validName s) : readName w off = .ok (s, e) := by
  have hs := (readName_safe w off).2
  unfold readName at *
  rcases readNameLoop_decodes h (nameFuel w) [] 0 0 (by omega) with h1 | h1
  · exact absurd h1 hs
  · rw [h1]; simp [newName_ok hv, Outcome.bind]

/-! ### the writer -/

def encLabels (ls : List Label) : Bytes := (ls.map fun l => UInt8.ofNat l.length :: l).flatten

theorem encLabels_cons (l : Label) (ls : List Label) :
    encLabels (l :: ls) = (UInt8.ofNat l.length :: l) ++ encLabels ls := by simp [encLabels]

/-- cache entries stored by `writeLabels`, oldest first -/
def entriesOf (off pointers : Nat) : List Label → Name → List CacheEntry
  | [], _ => []
  | l :: ls, tail => ⟨l :: ls ++ tail, off, pointers⟩ :: entriesOf (off + 1 + l.length) pointers ls tail

theorem writeLabels_spec (pointers : Nat) (tail : Name) :
    ∀ (ls : List Label) (b : Builder), (∀ l ∈ ls, 0 < l.length ∧ l.length ≤ 63) →
      writeLabels b pointers ls tail =
        .ok ⟨b.w ++ encLabels ls, (entriesOf b.w.length pointers ls tail).reverse ++ b.cache⟩ := by
  intro ls
  induction ls with
  | nil => intro b _; simp [writeLabels, encLabels, entriesOf]
  | cons l ls ih =>
    intro b hv
    have hl := hv l (by simp)
    have h1 : ¬ (l.length = 0 ∨ l.length > 63) := by omega
    rw [writeLabels]
    simp only [h1, if_false]
    rw [ih _ (fun l' hl' => hv l' (by simp [hl']))]
    simp only [encLabels_cons, entriesOf, List.reverse_cons, List.append_assoc, List.length_append, List.length_cons,
      List.singleton_append, Outcome.ok.injEq, Builder.mk.injEq, true_and]
    have : b.w.length + (l.length + 1) = b.w.length + 1 + l.length := by omega
    rw [this]

/-- labels written verbatim in front of something that decodes as `tail` decode as `ls ++ tail`, and so
does every suffix recorded in the cache on the way -/
theorem decodes_prepend (B : Bytes) (tail : Name) (d e : Nat) :
    ∀ (ls : List Label) (A : Bytes), (∀ l ∈ ls, 0 < l.length ∧ l.length ≤ 63) →
      DecodesAt (A ++ encLabels ls ++ B) (A.length + (encLabels ls).length) tail d e →
      DecodesAt (A ++ encLabels ls ++ B) A.length (ls ++ tail) d e ∧
      ∀ en ∈ entriesOf A.length d ls tail, DecodesAt (A ++ encLabels ls ++ B) en.offset en.suffix en.pointers e := by
  intro ls
  induction ls with
  | nil => intro A _ h; simpa [encLabels, entriesOf] using h
  | cons l ls ih =>
    intro A hv ht
    have hl := hv l (by simp)
    have hW : A ++ encLabels (l :: ls) ++ B = (A ++ (UInt8.ofNat l.length :: l)) ++ encLabels ls ++ B := by
      simp [encLabels_cons, List.append_assoc]
    have hlen : (A ++ (UInt8.ofNat l.length :: l)).length = A.length + 1 + l.length := by simp; omega
    have ht' : DecodesAt ((A ++ (UInt8.ofNat l.length :: l)) ++ encLabels ls ++ B)
        ((A ++ (UInt8.ofNat l.length :: l)).length + (encLabels ls).length) tail d e := by
      rw [← hW, hlen]
      have : A.length + 1 + l.length + (encLabels ls).length = A.length + (encLabels (l :: ls)).length := by
        simp [encLabels_cons]; omega
      rw [this]; exact ht
    obtain ⟨ih1, ih2⟩ := ih (A ++ (UInt8.ofNat l.length :: l)) (fun l' hl' => hv l' (by simp [hl'])) ht'
    rw [← hW, hlen] at ih1 ih2
    have hhead : DecodesAt (A ++ encLabels (l :: ls) ++ B) A.length (l :: ls ++ tail) d e := by
      apply DecodesAt.label hl.1 hl.2 _ _ _ ih1
      · simp [encLabels_cons, List.append_assoc]
      · simp [encLabels_cons]; omega
      · simp [encLabels_cons, List.append_assoc]
    refine ⟨hhead, ?_⟩
    intro en hen
    simp only [entriesOf, List.mem_cons] at hen
    rcases hen with rfl | hen
    · exact hhead
    · exact ih2 en hen

/-- every cache entry points at an encoding of its suffix that is still within the reader's limit -/
def CacheOK (w : Bytes) (c : List CacheEntry) : Prop :=
  ∀ en ∈ c, ∃ e, DecodesAt w en.offset en.suffix en.pointers e

theorem CacheOK.mono {w : Bytes} {c : List CacheEntry} (h : CacheOK w c) (x : Bytes) : CacheOK (w ++ x) c :=
  fun en hen => let ⟨e, he⟩ := h en hen; ⟨e, he.mono x⟩

theorem cacheLookup_some {c : List CacheEntry} {s : Name} {en : CacheEntry} (h : cacheLookup c s = some en) :
    en ∈ c ∧ en.suffix = s := by
  unfold cacheLookup at h
  exact ⟨List.mem_of_find?_eq_some h, by simpa using List.find?_some h⟩

theorem splitName_spec (c : List CacheEntry) :
    ∀ (n : Name), n = (splitName c n).1 ++ (match (splitName c n).2 with | none => [] | some en => en.suffix) ∧
      (∀ en, (splitName c n).2 = some en → en ∈ c ∧ usable en = true) := by
  intro n
  induction n with
  | nil => simp [splitName]
  | cons l rest ih =>
    rw [splitName]
    cases hlk : cacheLookup c (l :: rest) with
    | none => simp only; exact ⟨by simp; exact ih.1, ih.2⟩
    | some en =>
      simp only
      obtain ⟨hm, hs⟩ := cacheLookup_some hlk
      by_cases hu : usable en = true
      · simp only [hu, if_true]
        refine ⟨by simp [hs], ?_⟩
        intro en' h'; cases h'; exact ⟨hm, hu⟩
      · simp only [hu]
        exact ⟨by simp; exact ih.1, ih.2⟩

theorem writeName_spec (b : Builder) (n : Name) (hn : ∀ l ∈ n, 0 < l.length ∧ l.length ≤ 63)
    (hc : CacheOK b.w b.cache) :
    ∃ b' enc d, writeName b n = .ok b' ∧ b'.w = b.w ++ enc ∧ CacheOK b'.w b'.cache ∧
      d ≤ compressionPointerLimit ∧ DecodesAt b'.w b.w.length n d b'.w.length := by
  obtain ⟨hsplit, hmem⟩ := splitName_spec b.cache n
  unfold writeName
  generalize hsp : splitName b.cache n = sp at hsplit hmem
  obtain ⟨pre, r⟩ := sp
  simp only at hsplit hmem
  have hpre : ∀ l ∈ pre, 0 < l.length ∧ l.length ≤ 63 := by
    intro l hl; apply hn; rw [hsplit]; simp [hl]
  cases r with
  | none =>
    simp only at hsplit
    rw [List.append_nil] at hsplit
    have hpn : pre = n := hsplit.symm
    subst hpn
    simp only
    rw [writeLabels_spec 0 [] pre b hpre]
    simp only [Outcome.bind]
    refine ⟨_, encLabels pre ++ [0], 0, rfl, by simp [List.append_assoc], ?_, by omega, ?_⟩
    · -- cache
      have hterm : DecodesAt (b.w ++ encLabels pre ++ [0]) (b.w.length + (encLabels pre).length) [] 0
          (b.w.length + (encLabels pre).length + 1) := by
        apply DecodesAt.nil
        rw [List.getElem?_append_right (by simp)]
        simp
      obtain ⟨_, h2⟩ := decodes_prepend [0] [] 0 _ pre b.w hpre hterm
      intro en hen
      simp only [List.mem_append, List.mem_reverse] at hen
      rcases hen with hen | hen
      · exact ⟨_, h2 en hen⟩
      · obtain ⟨e, he⟩ := hc en hen
        exact ⟨e, by simpa [List.append_assoc] using he.mono (encLabels pre ++ [0])⟩
    · have hterm : DecodesAt (b.w ++ encLabels pre ++ [0]) (b.w.length + (encLabels pre).length) [] 0
          (b.w.length + (encLabels pre).length + 1) := by
        apply DecodesAt.nil
        rw [List.getElem?_append_right (by simp)]
        simp
      obtain ⟨h1, _⟩ := decodes_prepend [0] [] 0 _ pre b.w hpre hterm
      simpa [List.append_assoc, Nat.add_assoc] using h1
  | some en =>
    simp only at hsplit
    obtain ⟨hmem1, husable⟩ := hmem en rfl
    simp only
    rw [writeLabels_spec (en.pointers + 1) en.suffix pre b hpre]
    simp only [Outcome.bind]
    simp only [usable, Bool.and_eq_true, decide_eq_true_eq] at husable
    obtain ⟨e0, he0⟩ := hc en hmem1
    let P : Bytes := [UInt8.ofNat (192 + en.offset / 256), UInt8.ofNat en.offset]
    have hterm : DecodesAt (b.w ++ encLabels pre ++ P) (b.w.length + (encLabels pre).length) en.suffix
        (en.pointers + 1) (b.w.length + (encLabels pre).length + 2) := by
      obtain ⟨p1, p2⟩ := ptr_byte (en.offset / 256) (by omega)
      refine DecodesAt.ptr (hi := UInt8.ofNat (192 + en.offset / 256)) (lo := UInt8.ofNat en.offset) (e := e0) ?g1 p1 ?g2 ?g3
      case g1 => rw [List.getElem?_append_right (by simp)]; simp [P]
      case g2 =>
        rw [List.getElem?_append_right (by simp)]
        have : b.w.length + (encLabels pre).length + 1 - (b.w ++ encLabels pre).length = 1 := by simp
        rw [this]; simp [P]
      case g3 =>
        rw [p2, u8_toNat_ofNat_mod]
        have : en.offset / 256 * 256 + en.offset % 256 = en.offset := by omega
        rw [this]
        have := he0.mono (encLabels pre ++ P)
        simp only [← List.append_assoc] at this
        exact this
    obtain ⟨h1, h2⟩ := decodes_prepend P en.suffix (en.pointers + 1) _ pre b.w hpre hterm
    refine ⟨_, encLabels pre ++ P, en.pointers + 1, rfl, by simp only [List.append_assoc, P], ?_, by omega, ?_⟩
    · intro en' hen'
      simp only [List.mem_append, List.mem_reverse] at hen'
      rcases hen' with hen' | hen'
      · exact ⟨_, h2 en' hen'⟩
      · obtain ⟨e, he⟩ := hc en' hen'
        refine ⟨e, ?_⟩
        have := he.mono (encLabels pre ++ P)
        simp only [← List.append_assoc] at this
        exact this
    · rw [hsplit]
      have hl : (b.w ++ encLabels pre ++ P).length = b.w.length + (encLabels pre).length + 2 := by
        simp [P, Nat.add_assoc]
      show DecodesAt (b.w ++ encLabels pre ++ P) b.w.length (pre ++ en.suffix) (en.pointers + 1)
        (b.w ++ encLabels pre ++ P).length
      rw [hl]; exact h1

/-! ### fixed-width fields -/

theorem getElem?_append_mid (A M B : Bytes) (i : Nat) (h : i < M.length) :
    (A ++ (M ++ B))[A.length + i]? = M[i]? := by
  rw [List.getElem?_append_right (by omega)]
  have : A.length + i - A.length = i := by omega
  rw [this, List.getElem?_append_left h]

theorem readU16_append (A B : Bytes) (n : Nat) (h : n < 65536) :
    readU16 (A ++ (be16 n ++ B)) A.length = .ok (UInt16.ofNat n, A.length + 2) := by
  unfold readU16
  have h0 := getElem?_append_mid A (be16 n) B 0 (by simp [be16])
  have h1 := getElem?_append_mid A (be16 n) B 1 (by simp [be16])
  rw [Nat.add_zero] at h0
  rw [h0, h1]
  simp only [be16, List.getElem?_cons_zero, List.getElem?_cons_succ]
  rw [rd16_be16 h]

theorem readU16_append' (A B : Bytes) (v : UInt16) :
    readU16 (A ++ (be16 v.toNat ++ B)) A.length = .ok (v, A.length + 2) := by
  rw [readU16_append A B v.toNat v.toNat_lt]; simp

theorem readU32_append (A B : Bytes) (v : UInt32) :
    readU32 (A ++ (be32 v.toNat ++ B)) A.length = .ok (v, A.length + 4) := by
  unfold readU32
  have h0 := getElem?_append_mid A (be32 v.toNat) B 0 (by simp [be32])
  have h1 := getElem?_append_mid A (be32 v.toNat) B 1 (by simp [be32])
  have h2 := getElem?_append_mid A (be32 v.toNat) B 2 (by simp [be32])
  have h3 := getElem?_append_mid A (be32 v.toNat) B 3 (by simp [be32])
  rw [Nat.add_zero] at h0
  rw [h0, h1, h2, h3]
  simp only [be32, List.getElem?_cons_zero, List.getElem?_cons_succ]
  have hv := v.toNat_lt
  have e : (((UInt8.ofNat (v.toNat / 16777216)).toNat * 256 + (UInt8.ofNat (v.toNat / 65536)).toNat) * 256 +
      (UInt8.ofNat (v.toNat / 256)).toNat) * 256 + (UInt8.ofNat v.toNat).toNat = v.toNat := by
    simp only [u8_toNat_ofNat_mod]; omega
  rw [e]; simp

/-! ### questions and resource records -/

theorem writeQuestion_spec (b : Builder) (q : Question) (hq : validName q.name) (hc : CacheOK b.w b.cache) :
    ∃ b' enc, writeQuestion b q = .ok b' ∧ b'.w = b.w ++ enc ∧ CacheOK b'.w b'.cache ∧
      ∀ x, readQuestion (b'.w ++ x) b.w.length = .ok (q, b'.w.length) := by
  obtain ⟨b1, enc1, d, hw, hw1, hc1, hd, hdec⟩ := writeName_spec b q.name ((validName_iff _).mp hq).1 hc
  refine ⟨{ b1 with w := b1.w ++ be16 q.qtype.toNat ++ be16 q.qclass.toNat },
    enc1 ++ be16 q.qtype.toNat ++ be16 q.qclass.toNat, ?_, ?_, ?_, ?_⟩
  · simp [writeQuestion, hw, Outcome.bind]
  · simp [hw1, List.append_assoc]
  · have := hc1.mono (be16 q.qtype.toNat ++ be16 q.qclass.toNat)
    simpa [List.append_assoc] using this
  · intro x
    simp only [List.append_assoc]
    unfold readQuestion
    rw [readName_decodes (hdec.mono _) hd hq]
    simp only [Outcome.bind]
    rw [readU16_append']
    simp only
    have := readU16_append' (b1.w ++ be16 q.qtype.toNat) x q.qclass
    simp only [List.append_assoc, List.length_append] at this
    have hl : (be16 q.qtype.toNat).length = 2 := by simp [be16]
    rw [hl] at this
    rw [this]
    simp [be16, Nat.add_assoc]

theorem writeRR_spec (b : Builder) (r : RR) (hq : validName r.name) (hdl : r.data.length ≤ 65535)
    (hc : CacheOK b.w b.cache) :
    ∃ b' enc, writeRR b r = .ok b' ∧ b'.w = b.w ++ enc ∧ CacheOK b'.w b'.cache ∧
      ∀ x, readRR (b'.w ++ x) b.w.length = .ok (r, b'.w.length) := by
  obtain ⟨b1, enc1, d, hw, hw1, hc1, hd, hdec⟩ := writeName_spec b r.name ((validName_iff _).mp hq).1 hc
  let fixed := be16 r.rtype.toNat ++ (be16 r.rclass.toNat ++ (be32 r.ttl.toNat ++ (be16 r.data.length ++ r.data)))
  refine ⟨{ b1 with w := b1.w ++ fixed }, enc1 ++ fixed, ?_, ?_, ?_, ?_⟩
  · have : ¬ (r.data.length > 65535) := by omega
    simp [writeRR, hw, Outcome.bind, this, fixed, List.append_assoc]
  · simp [hw1, List.append_assoc]
  · exact hc1.mono fixed
  · intro x
    have hl16 : ∀ n, (be16 n).length = 2 := by intro n; simp [be16]
    have hl32 : ∀ n, (be32 n).length = 4 := by intro n; simp [be32]
    show readRR (b1.w ++ fixed ++ x) b.w.length = .ok (r, (b1.w ++ fixed).length)
    simp only [fixed, List.append_assoc]
    unfold readRR
    rw [readName_decodes (hdec.mono _) hd hq]
    simp only [Outcome.bind]
    rw [readU16_append']
    simp only
    have e2 := readU16_append' (b1.w ++ be16 r.rtype.toNat)
      (be32 r.ttl.toNat ++ (be16 r.data.length ++ (r.data ++ x))) r.rclass
    simp only [List.append_assoc, List.length_append, hl16] at e2
    rw [e2]
    simp only
    have e3 := readU32_append (b1.w ++ be16 r.rtype.toNat ++ be16 r.rclass.toNat)
      (be16 r.data.length ++ (r.data ++ x)) r.ttl
    simp only [List.append_assoc, List.length_append, hl16] at e3
    rw [Nat.add_assoc] at e3
    rw [e3]
    simp only
    have e4 := readU16_append (b1.w ++ be16 r.rtype.toNat ++ be16 r.rclass.toNat ++ be32 r.ttl.toNat)
      (r.data ++ x) r.data.length (by omega)
    simp only [List.append_assoc, List.length_append, hl16, hl32] at e4
    have ea : b1.w.length + 2 + 2 + 4 = b1.w.length + (2 + (2 + 4)) := by omega
    rw [ea, e4]
    simp only
    have hrd : (UInt16.ofNat r.data.length).toNat = r.data.length := by
      simp [UInt16.toNat_ofNat']; omega
    rw [hrd]
    have hle : b1.w.length + (2 + (2 + 4)) + 2 + r.data.length ≤
        (b1.w ++ (be16 r.rtype.toNat ++ (be16 r.rclass.toNat ++ (be32 r.ttl.toNat ++ (be16 r.data.length ++ (r.data ++ x)))))).length := by
      simp [hl16, hl32]; omega
    simp only [hle, if_true]
    have hdrop : List.drop (b1.w.length + (2 + (2 + 4)) + 2)
        (b1.w ++ (be16 r.rtype.toNat ++ (be16 r.rclass.toNat ++ (be32 r.ttl.toNat ++ (be16 r.data.length ++ (r.data ++ x)))))) =
        r.data ++ x := by
      have : b1.w ++ (be16 r.rtype.toNat ++ (be16 r.rclass.toNat ++ (be32 r.ttl.toNat ++ (be16 r.data.length ++ (r.data ++ x))))) =
          (b1.w ++ be16 r.rtype.toNat ++ be16 r.rclass.toNat ++ be32 r.ttl.toNat ++ be16 r.data.length) ++ (r.data ++ x) := by
        simp [List.append_assoc]
      rw [this, List.drop_left' (by simp [hl16, hl32])]
    rw [hdrop, List.take_left' rfl]
    simp [hl16, hl32]; omega

/-! ### sections and whole messages -/

theorem writeQuestions_spec : ∀ (qs : List Question) (b : Builder), (∀ q ∈ qs, validName q.name) →
    CacheOK b.w b.cache →
    ∃ b' enc, writeQuestions b qs = .ok b' ∧ b'.w = b.w ++ enc ∧ CacheOK b'.w b'.cache ∧
      ∀ x, readQuestions (b'.w ++ x) qs.length b.w.length = .ok (qs, b'.w.length) := by
  intro qs
  induction qs with
  | nil => intro b _ hc; exact ⟨b, [], rfl, by simp, hc, fun x => rfl⟩
  | cons q qs ih =>
    intro b hv hc
    obtain ⟨b1, e1, hw1, hb1, hc1, hr1⟩ := writeQuestion_spec b q (hv q (by simp)) hc
    obtain ⟨b2, e2, hw2, hb2, hc2, hr2⟩ := ih b1 (fun q' h' => hv q' (by simp [h'])) hc1
    refine ⟨b2, e1 ++ e2, ?_, by simp [hb2, hb1, List.append_assoc], hc2, ?_⟩
    · simp [writeQuestions, hw1, Outcome.bind, hw2]
    · intro x
      simp only [List.length_cons, readQuestions]
      have h1 := hr1 (e2 ++ x)
      rw [← List.append_assoc, ← hb2] at h1
      rw [h1]
      simp only [Outcome.bind]
      rw [hr2 x]

theorem writeRRs_spec : ∀ (rs : List RR) (b : Builder),
    (∀ r ∈ rs, validName r.name ∧ r.data.length ≤ 65535) → CacheOK b.w b.cache →
    ∃ b' enc, writeRRs b rs = .ok b' ∧ b'.w = b.w ++ enc ∧ CacheOK b'.w b'.cache ∧
      ∀ x, readRRs (b'.w ++ x) rs.length b.w.length = .ok (rs, b'.w.length) := by
  intro rs
  induction rs with
  | nil => intro b _ hc; exact ⟨b, [], rfl, by simp, hc, fun x => rfl⟩
  | cons r rs ih =>
    intro b hv hc
    obtain ⟨b1, e1, hw1, hb1, hc1, hr1⟩ := writeRR_spec b r (hv r (by simp)).1 (hv r (by simp)).2 hc
    obtain ⟨b2, e2, hw2, hb2, hc2, hr2⟩ := ih b1 (fun r' h' => hv r' (by simp [h'])) hc1
    refine ⟨b2, e1 ++ e2, ?_, by simp [hb2, hb1, List.append_assoc], hc2, ?_⟩
    · simp [writeRRs, hw1, Outcome.bind, hw2]
    · intro x
      simp only [List.length_cons, readRRs]
      have h1 := hr1 (e2 ++ x)
      rw [← List.append_assoc, ← hb2] at h1
      rw [h1]
      simp only [Outcome.bind]
      rw [hr2 x]

/-- the messages `WireFormat` accepts and `MessageFromWireFormat` can return: names built by
`NewName`, at most 65535 entries per section and 65535 bytes of RDATA per record -/
structure Message.WF (m : Message) : Prop where
  qnames : ∀ q ∈ m.question, validName q.name
  an : ∀ r ∈ m.answer, validName r.name ∧ r.data.length ≤ 65535
  ns : ∀ r ∈ m.authority, validName r.name ∧ r.data.length ≤ 65535
  ar : ∀ r ∈ m.additional, validName r.name ∧ r.data.length ≤ 65535
  qd_count : m.question.length ≤ 65535
  an_count : m.answer.length ≤ 65535
  ns_count : m.authority.length ≤ 65535
  ar_count : m.additional.length ≤ 65535

theorem u16_count {n : Nat} (h : n ≤ 65535) : (UInt16.ofNat n).toNat = n := by
  simp [UInt16.toNat_ofNat']; omega

theorem wireFormat_roundtrip (m : Message) (h : m.WF) :
    ∃ buf, wireFormat m = .ok buf ∧ messageFromWireFormat buf = .ok m := by
  let hdr : Bytes := be16 m.id.toNat ++ (be16 m.flags.toNat ++ (be16 m.question.length ++
    (be16 m.answer.length ++ (be16 m.authority.length ++ be16 m.additional.length))))
  have hl16 : ∀ n, (be16 n).length = 2 := by intro n; simp [be16]
  have hcounts : writeCounts (([] : Bytes) ++ be16 m.id.toNat ++ be16 m.flags.toNat)
      [m.question.length, m.answer.length, m.authority.length, m.additional.length] = .ok hdr := by
    have h1 : ¬ m.question.length > 65535 := by have := h.qd_count; omega
    have h2 : ¬ m.answer.length > 65535 := by have := h.an_count; omega
    have h3 : ¬ m.authority.length > 65535 := by have := h.ns_count; omega
    have h4 : ¬ m.additional.length > 65535 := by have := h.ar_count; omega
    simp [writeCounts, h1, h2, h3, h4, hdr, List.append_assoc]
  let b0 : Builder := { w := hdr, cache := [] }
  have hc0 : CacheOK b0.w b0.cache := by intro en hen; cases hen
  obtain ⟨b1, e1, hw1, hb1, hc1, hr1⟩ := writeQuestions_spec m.question b0 h.qnames hc0
  obtain ⟨b2, e2, hw2, hb2, hc2, hr2⟩ := writeRRs_spec m.answer b1 h.an hc1
  obtain ⟨b3, e3, hw3, hb3, hc3, hr3⟩ := writeRRs_spec m.authority b2 h.ns hc2
  obtain ⟨b4, e4, hw4, hb4, hc4, hr4⟩ := writeRRs_spec m.additional b3 h.ar hc3
  refine ⟨b4.w, ?_, ?_⟩
  · unfold wireFormat writeMessage
    show ((writeCounts (([] : Bytes) ++ be16 m.id.toNat ++ be16 m.flags.toNat) _).bind _).bind _ = _
    rw [hcounts]
    simp only [Outcome.bind]
    show ((writeQuestions b0 m.question).bind _).bind _ = _
    rw [hw1]; simp only [Outcome.bind]
    rw [hw2]; simp only
    rw [hw3]; simp only
    rw [hw4]
  · have hW1 : b4.w = b1.w ++ (e2 ++ (e3 ++ e4)) := by rw [hb4, hb3, hb2]; simp [List.append_assoc]
    have hW2 : b4.w = b2.w ++ (e3 ++ e4) := by rw [hb4, hb3]; simp [List.append_assoc]
    have hW3 : b4.w = b3.w ++ e4 := hb4
    have hW0 : b4.w = hdr ++ (e1 ++ (e2 ++ (e3 ++ e4))) := by rw [hW1, hb1]; simp [List.append_assoc, b0]
    have q1 := hr1 (e2 ++ (e3 ++ e4)); rw [← hW1] at q1
    have q2 := hr2 (e3 ++ e4); rw [← hW2] at q2
    have q3 := hr3 e4; rw [← hW3] at q3
    have q4 := hr4 []; rw [List.append_nil] at q4
    have hb0 : b0.w.length = 12 := by simp [b0, hdr, hl16]
    rw [hb0] at q1
    unfold messageFromWireFormat readMessage
    -- header
    generalize hrest : e1 ++ (e2 ++ (e3 ++ e4)) = rest at hW0
    have r1 := readU16_append' [] (be16 m.flags.toNat ++ (be16 m.question.length ++
      (be16 m.answer.length ++ (be16 m.authority.length ++ (be16 m.additional.length ++ rest))))) m.id
    have r2 := readU16_append' (be16 m.id.toNat) (be16 m.question.length ++
      (be16 m.answer.length ++ (be16 m.authority.length ++ (be16 m.additional.length ++ rest)))) m.flags
    have r3 := readU16_append (be16 m.id.toNat ++ be16 m.flags.toNat)
      (be16 m.answer.length ++ (be16 m.authority.length ++ (be16 m.additional.length ++ rest))) m.question.length
      (by have := h.qd_count; omega)
    have r4 := readU16_append (be16 m.id.toNat ++ be16 m.flags.toNat ++ be16 m.question.length)
      (be16 m.authority.length ++ (be16 m.additional.length ++ rest)) m.answer.length
      (by have := h.an_count; omega)
    have r5 := readU16_append (be16 m.id.toNat ++ be16 m.flags.toNat ++ be16 m.question.length ++ be16 m.answer.length)
      (be16 m.additional.length ++ rest) m.authority.length (by have := h.ns_count; omega)
    have r6 := readU16_append (be16 m.id.toNat ++ be16 m.flags.toNat ++ be16 m.question.length ++ be16 m.answer.length
      ++ be16 m.authority.length) rest m.additional.length (by have := h.ar_count; omega)
    have hWW : b4.w = be16 m.id.toNat ++ (be16 m.flags.toNat ++ (be16 m.question.length ++
      (be16 m.answer.length ++ (be16 m.authority.length ++ (be16 m.additional.length ++ rest))))) := by
      rw [hW0]; simp [hdr, List.append_assoc]
    simp only [List.nil_append, List.length_nil, List.append_assoc, List.length_append, hl16] at r1 r2 r3 r4 r5 r6
    rw [← hWW] at r1 r2 r3 r4 r5 r6
    rw [r1]; simp only [Outcome.bind]
    rw [r2]; simp only
    rw [r3]; simp only
    rw [r4]; simp only
    rw [r5]; simp only
    rw [r6]; simp only
    rw [u16_count h.qd_count, u16_count h.an_count, u16_count h.ns_count, u16_count h.ar_count]
    rw [q1]; simp only
    rw [q2]; simp only
    rw [q3]; simp only
    rw [q4]; simp only
    simp

/-! ### chunks and the query name -/

theorem chunks_flatten (n : Nat) (hn : 0 < n) (p : Bytes) : (chunks p n).flatten = p := by
  induction p using chunks.induct n with
  | case1 p h =>
    rw [chunks, dif_pos h]
    rcases h with h | h
    · simp [List.length_eq_zero_iff.mp h]
    · omega
  | case2 p h ih =>
    rw [chunks, dif_neg h]
    simp [ih]

theorem chunks_bounds (n : Nat) (hn : 0 < n) (p : Bytes) : ∀ c ∈ chunks p n, 0 < c.length ∧ c.length ≤ n := by
  induction p using chunks.induct n with
  | case1 p h => rw [chunks, dif_pos h]; simp
  | case2 p h ih =>
    rw [chunks, dif_neg h]
    intro c hc
    simp only [List.mem_cons] at hc
    rcases hc with rfl | hc
    · simp [List.length_take]; omega
    · exact ih c hc

theorem trimSuffix_append (pre dom : Name) : trimSuffix (pre ++ dom) dom = some pre := by
  unfold trimSuffix
  have h1 : ¬ ((pre ++ dom).length < dom.length) := by simp
  have h2 : (pre ++ dom).length - dom.length = pre.length := by simp
  simp only [h1, if_false, h2]
  simp

/-- the name `send` builds is taken apart again by `responseFor`: the text handed to the base32
decoder is the text the base32 encoder produced -/
theorem recvEncoded_sendName (enc : Bytes) (dom name : Name) (hu : ∀ b ∈ enc, ¬ (97 ≤ b ∧ b ≤ 122))
    (h : sendName enc dom = .ok name) : recvEncoded name dom = some enc := by
  unfold sendName queryName at h
  have hn := newName_ok_eq h
  subst hn
  unfold recvEncoded
  rw [trimSuffix_append, Option.map_some, chunks_flatten 63 (by omega), List.map_map]
  congr 1
  conv => rhs; rw [← List.map_id enc]
  apply List.map_congr_left
  intro b hb
  simp [upper_lower b (hu b hb)]

end CJ.Codec
