import CJ.Model.RelayClock
/-! Lemmas about the virtual-clock model of the relay's deadlines (`CJ/Model/RelayClock.lean`). -/
namespace CJ.RelayClock

/-- every call uses the timeout `t`, and both the source and the destination are addressed -/
def Covers (as : List Arm) (t : Tmo) : Prop := (∀ a ∈ as, a.2 = t) ∧ (true, t) ∈ as ∧ (false, t) ∈ as

theorem newDl_covers (c : Cfg) (up : Bool) (as : List Arm) (t : Tmo) (h : Covers as t) (client : Bool)
    (now : Nat) (old : Option Nat) : newDl c up as client now old = some (now + t.val c.init c.stall) := by
  obtain ⟨hall, hs, hd⟩ := h
  unfold newDl
  have hne : (as.filter (fun a => (a.1 == up) == client)) ≠ [] := by
    intro h0
    have hm : ((up == client), t) ∈ as.filter (fun a => (a.1 == up) == client) := by
      rw [List.mem_filter]
      refine ⟨?_, ?_⟩
      · cases up <;> cases client <;> simp_all
      · cases up <;> cases client <;> rfl
    rw [h0] at hm; cases hm
  cases hl : (as.filter (fun a => (a.1 == up) == client)).getLast? with
  | none => exact absurd (List.getLast?_eq_none_iff.mp hl) hne
  | some a =>
    have ha : a ∈ as := (List.mem_filter.mp (List.mem_of_getLast? hl)).1
    simp only [hall a ha]

/-- tunnel alive, both deadlines armed and at least `limit - idle` ahead of the clock, nothing lost -/
def Inv (s : St) (limit idle : Nat) (u d : Bytes) : Prop :=
  s.alive = true ∧ (∃ a b, s.dlClient = some a ∧ s.dlCovert = some b ∧ s.now + limit ≤ a + idle ∧ s.now + limit ≤ b + idle) ∧
  s.up = u ∧ s.down = d ∧ s.lost = 0 ∧ s.cli = "" ∧ s.cov = ""

theorem refresh_covers (c : Cfg) (up : Bool) (as : List Arm) (t : Tmo) (h : Covers as t) (s : St) :
    refresh c up as s = { s with dlClient := some (s.now + t.val c.init c.stall), dlCovert := some (s.now + t.val c.init c.stall) } := by
  simp only [refresh, newDl_covers c up as t h]

theorem start_inv (c : Cfg) (hi : Covers c.initArms .init) : Inv (start c) c.init 0 [] [] := by
  simp only [start, refresh_covers c _ _ _ hi]
  exact ⟨rfl, ⟨_, _, rfl, rfl, by simp [Tmo.val], by simp [Tmo.val]⟩, rfl, rfl, rfl, rfl, rfl⟩

theorem foldl_inv (c : Cfg) (hl : Covers c.loopArms .stall) (evs : List Evt) :
    ∀ (s : St) (limit idle : Nat) (u d : Bytes), Inv s limit idle u d → paced c.stall limit idle evs = true →
      ∃ limit' idle', Inv (evs.foldl (step c) s) limit' idle' (u ++ sent true evs) (d ++ sent false evs) := by
  induction evs with
  | nil => intro s limit idle u d h _; exact ⟨limit, idle, by simpa [sent] using h⟩
  | cons e es ih =>
    intro s limit idle u d h hp
    obtain ⟨hal, ⟨a, b, ha, hb, hla, hlb⟩, hu, hd, hlost, hcli, hcov⟩ := h
    cases e with
    | wait dt =>
      simp only [paced, Bool.and_eq_true, decide_eq_true_eq] at hp
      have hstep : step c s (.wait dt) = { s with now := s.now + dt } := by
        simp only [step, hal, ha, hb, expired]
        have h1 : ¬ (a < s.now + dt) := by omega
        have h2 : ¬ (b < s.now + dt) := by omega
        simp [h1, h2]
      simp only [List.foldl_cons, hstep, sent]
      exact ih _ limit (idle + dt) u d
        ⟨hal, ⟨a, b, ha, hb, by simp only []; omega, by simp only []; omega⟩, hu, hd, hlost, hcli, hcov⟩ hp.2
    | chunk up bs =>
      simp only [paced] at hp
      simp only [List.foldl_cons, sent]
      cases up with
      | true =>
        have hstep : step c s (.chunk true bs) =
            { s with up := s.up ++ bs, dlClient := some (s.now + c.stall), dlCovert := some (s.now + c.stall) } := by
          simp only [step, hal, refresh_covers c _ _ _ hl, Tmo.val]; rfl
        rw [hstep]
        have := ih { s with up := s.up ++ bs, dlClient := some (s.now + c.stall), dlCovert := some (s.now + c.stall) }
          c.stall 0 (u ++ bs) d
          ⟨hal, ⟨_, _, rfl, rfl, by simp, by simp⟩, by simp [hu], hd, hlost, hcli, hcov⟩ hp
        simpa [List.append_assoc] using this
      | false =>
        have hstep : step c s (.chunk false bs) =
            { s with down := s.down ++ bs, dlClient := some (s.now + c.stall), dlCovert := some (s.now + c.stall) } := by
          simp only [step, hal, refresh_covers c _ _ _ hl, Tmo.val]; rfl
        rw [hstep]
        have := ih { s with down := s.down ++ bs, dlClient := some (s.now + c.stall), dlCovert := some (s.now + c.stall) }
          c.stall 0 u (d ++ bs)
          ⟨hal, ⟨_, _, rfl, rfl, by simp, by simp⟩, hu, by simp [hd], hlost, hcli, hcov⟩ hp
        simpa [List.append_assoc] using this
    | eof up => simp [paced] at hp

end CJ.RelayClock
