import CJ.Model.HalfPipe
/-! GENERATED on every run by go/harness/C05/zz_verif_c05_extract_test.go from pkg/station/lib/proxies.go of the
tree under check: the top-level statements of `halfPipe` and of `Proxy`, in source order.  Do not edit. -/
namespace CJ.Gen
open CJ.HalfPipe

def halfPipeStmts : List Stmt := [
  .other,
  .other,
  .other,
  .deferActs [.duration, .completed, .wgDone],
  .other,
  .deferActs [.spawnCloseSrc, .closeDst],
  .arm true,
  .retIfErr true,
  .arm false,
  .retIfErr true,
  .other,
  .loop
]

def proxyStmts : List PStmt := [
  .other,
  .other,
  .other,
  .other,
  .dial,
  .other,
  .retIfDialErr true,
  .deferCloseCovert,
  .header,
  .other,
  .wgAdd 2,
  .addSession,
  .goHalf true,
  .goHalf false,
  .wgWait,
  .removeSession,
  .print
]

end CJ.Gen
