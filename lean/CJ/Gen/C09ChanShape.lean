import CJ.Model.ChanShape
/-! GENERATED on every run by go/extract/chanshape from pkg/station/lib of the tree under check (go/ast): the
channel-operation shape of `HandleRegUpdates` and of the worker it starts.  Do not edit. -/
namespace CJ.Gen.C09ChanShape
open CJ.ChanShape

def defaultWorkerCount : Nat := 300
def jobBufferDivisor : Nat := 10
/-- capacity expression of the `make` that defines the buffer -/
def bufferCapExpr : String := "workers/jobBufferDivisor"

def distributor : Fn :=
{ name := "HandleRegUpdates",
  pre := [
    "deferparentWG.Done()",
    "logger:=rm.Logger",
    "workers:=defaultWorkerCount",
    "ifrm.IngestWorkerCount!=0{workers=rm.IngestWorkerCount}",
    "wg:=new(sync.WaitGroup)",
    "shallowBuffer:=make(chaninterface{},workers/jobBufferDivisor)",
    "deferclose(shallowBuffer)",
    "rm.ingestChanMu.Lock()",
    "rm.ingestChan=shallowBuffer",
    "rm.ingestChanMu.Unlock()",
    "fori:=0;i<workers;i++{wg.Add(1)gorm.startIngestThread(ctx,shallowBuffer,wg)}"],
  loop := { cond := .ctxErrNil, cases := [
      (.recv .done, [.leaf (.brk)]),
      (.recv .input, [.leaf (.ifClosedBreak),
        .leaf (.call .addIngestMessage),
        .sel [(.send .buffer, []), (.dflt, [.call .log, .call .addDroppedMessage])]])] },
  post := [.call .log, .call .wgWait],
  closes := [(.buffer, true)],
  spawns := [("rm.startIngestThread", some 1)],
  chanParam := some 1 }

def worker : Fn :=
{ name := "startIngestThread",
  pre := [
    "deferwg.Done()",
    "logger:=rm.Logger"],
  loop := { cond := .forever, cases := [
      (.recv .done, [.leaf (.ret)]),
      (.recv .buffer, [.leaf (.call .parseRegMessage),
        .leaf (.ifCont),
        .leaf (.ifCont),
        .leaf (.each [.ingestRegistration])])] },
  post := [],
  closes := [],
  spawns := [],
  chanParam := some 1 }

end CJ.Gen.C09ChanShape
