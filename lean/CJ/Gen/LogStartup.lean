import CJ.Model.Startup
/-! GENERATED on every run by go/harness/C17/zz_verif_c17_startup_test.go from the tree under check: the statements of
`main` that lead from the configured `log_level` text to `SetLevel`, in source order, for the station and for the
registration server; every call of a `SetLevel` function or method in the non-test sources.  Do not edit. -/
namespace CJ.Gen
open CJ.Startup

def appStartup : Extracted :=
  { file := "cmd/application/main.go", logger := "station", stmts := [
    .declLevel "log.ErrorLevel",
    .parse "conf.LogLevel != \"\"" "conf.LogLevel" "err" false,
    .check ["err != nil", "logLevel == log.UnknownLevel"] true true,
    .setLevel "log.SetLevel" "logLevel" "" ] }

def regStartup : Extracted :=
  { file := "cmd/registration-server/main.go", logger := "logrus", stmts := [
    .parse "" "conf.LogLevel" "err" true,
    .check ["err != nil"] true false,
    .setLevel "log.SetLevel" "logLevel" "" ] }

def setLevelCalls : List (String × String × String) := [
  ("cmd/application/main.go", "main", "log.SetLevel(logLevel)"),
  ("cmd/registration-server/main.go", "main", "log.SetLevel(logLevel)")
]

end CJ.Gen
