import CJ.Model.RelayClock
/-! GENERATED on every run by go/harness/C05/zz_verif_c05_extract_test.go from pkg/station/lib/proxies.go of the
tree under check: the statements of the body of the relay loop of `halfPipe` in source order, the deadline
calls in front of the loop, and the two timeout constants in milliseconds.  Do not edit. -/
namespace CJ.Gen
open CJ.RelayClock

def relayLoopStmts : List LStmt := [
  .read,
  .other,
  .writeIfData,
  .breakIfReadErr,
  .arm true .stall,
  .retIfErr true,
  .arm false .stall,
  .retIfErr true
]

def relayInitArms : List Arm := [
  (true, .init),
  (false, .init)
]

def proxyInitTimeoutMs : Nat := 30000
def proxyStallTimeoutMs : Nat := 120000

end CJ.Gen
