import CJ.Model.ReloadPath
/-! GENERATED on every run of `./check C13` by go/extract/reloadpath (go/ast + go/types) from
cmd/registration-server and every package of the repository it imports — do not edit.
`lockPaths`: per entry point of cmd/registration-server and pkg/regserver/* (exported functions and methods,
functions whose value is taken, goroutines, closures), every path: the operations on every mutex of the
repository it reaches (index into `mutexes`), callees inlined across packages, `defer` expanded, loops taken
0, 1 and 2 times.  `sighup*`: the goroutine of main that receives the reload signal. -/
namespace CJ.Gen.ReloadPath
open CJ.RW CJ.ReloadPath

/-- the mutexes the entry points reach: owner type and field, and whether it is a `sync.RWMutex` -/
def mutexes : List (String × Bool) := [
  ("apiregserver.APIRegServer.ccMutex", true),
  ("metrics.Metrics.rwMutex", true),
  ("regprocessor.RegProcessor.selectorMutex", true),
  ("regprocessor.RegProcessor.zmqMutex", false)
]

def lockPaths : List (String × List (Nat × Op)) := [
  ("apiregserver.APIRegServer.NewClientConf", [(0, .lock), (0, .unlock)]),
  ("apiregserver.APIRegServer.NewClientConf", []),
  ("apiregserver.APIRegServer.register", [(1, .lock), (1, .unlock)]),
  ("apiregserver.APIRegServer.register", [(1, .lock), (1, .unlock), (1, .lock), (1, .unlock)]),
  ("apiregserver.APIRegServer.register", [(1, .lock), (1, .unlock), (3, .lock), (3, .unlock)]),
  ("apiregserver.APIRegServer.register", [(1, .lock), (1, .unlock), (1, .lock), (1, .unlock), (3, .lock), (3, .unlock)]),
  ("apiregserver.APIRegServer.registerBidirectional", [(1, .lock), (1, .unlock)]),
  ("apiregserver.APIRegServer.registerBidirectional", [(1, .lock), (1, .unlock), (0, .rlock), (0, .runlock)]),
  ("apiregserver.APIRegServer.registerBidirectional", [(1, .lock), (1, .unlock), (0, .rlock), (0, .runlock), (2, .rlock), (2, .runlock)]),
  ("apiregserver.APIRegServer.registerBidirectional", [(1, .lock), (1, .unlock), (0, .rlock), (0, .runlock), (1, .lock), (1, .unlock)]),
  ("apiregserver.APIRegServer.registerBidirectional", [(1, .lock), (1, .unlock), (0, .rlock), (0, .runlock), (2, .rlock), (2, .runlock), (1, .lock), (1, .unlock)]),
  ("apiregserver.APIRegServer.registerBidirectional", [(1, .lock), (1, .unlock), (0, .rlock), (0, .runlock), (3, .lock), (3, .unlock)]),
  ("apiregserver.APIRegServer.registerBidirectional", [(1, .lock), (1, .unlock), (0, .rlock), (0, .runlock), (1, .lock), (1, .unlock), (3, .lock), (3, .unlock)]),
  ("apiregserver.APIRegServer.registerBidirectional", [(1, .lock), (1, .unlock), (0, .rlock), (0, .runlock), (2, .rlock), (2, .runlock), (3, .lock), (3, .unlock)]),
  ("apiregserver.APIRegServer.registerBidirectional", [(1, .lock), (1, .unlock), (0, .rlock), (0, .runlock), (2, .rlock), (2, .runlock), (1, .lock), (1, .unlock), (3, .lock), (3, .unlock)]),
  ("apiregserver.APIRegServer.registerBidirectional", [(1, .lock), (1, .unlock), (0, .rlock), (1, .lock), (1, .unlock), (0, .runlock)]),
  ("apiregserver.APIRegServer.registerBidirectional", [(1, .lock), (1, .unlock), (0, .rlock), (1, .lock), (1, .unlock), (0, .runlock), (2, .rlock), (2, .runlock)]),
  ("apiregserver.APIRegServer.registerBidirectional", [(1, .lock), (1, .unlock), (0, .rlock), (1, .lock), (1, .unlock), (0, .runlock), (1, .lock), (1, .unlock)]),
  ("apiregserver.APIRegServer.registerBidirectional", [(1, .lock), (1, .unlock), (0, .rlock), (1, .lock), (1, .unlock), (0, .runlock), (2, .rlock), (2, .runlock), (1, .lock), (1, .unlock)]),
  ("apiregserver.APIRegServer.registerBidirectional", [(1, .lock), (1, .unlock), (0, .rlock), (1, .lock), (1, .unlock), (0, .runlock), (3, .lock), (3, .unlock)]),
  ("apiregserver.APIRegServer.registerBidirectional", [(1, .lock), (1, .unlock), (0, .rlock), (1, .lock), (1, .unlock), (0, .runlock), (1, .lock), (1, .unlock), (3, .lock), (3, .unlock)]),
  ("apiregserver.APIRegServer.registerBidirectional", [(1, .lock), (1, .unlock), (0, .rlock), (1, .lock), (1, .unlock), (0, .runlock), (2, .rlock), (2, .runlock), (3, .lock), (3, .unlock)]),
  ("apiregserver.APIRegServer.registerBidirectional", [(1, .lock), (1, .unlock), (0, .rlock), (1, .lock), (1, .unlock), (0, .runlock), (2, .rlock), (2, .runlock), (1, .lock), (1, .unlock), (3, .lock), (3, .unlock)]),
  ("dnsregserver.DNSRegServer.processRequest", [(1, .lock), (1, .unlock)]),
  ("dnsregserver.DNSRegServer.processRequest", [(1, .lock), (1, .unlock), (2, .rlock), (2, .runlock)]),
  ("dnsregserver.DNSRegServer.processRequest", [(1, .lock), (1, .unlock), (1, .lock), (1, .unlock)]),
  ("dnsregserver.DNSRegServer.processRequest", [(1, .lock), (1, .unlock), (2, .rlock), (2, .runlock), (1, .lock), (1, .unlock)]),
  ("dnsregserver.DNSRegServer.processRequest", [(1, .lock), (1, .unlock), (3, .lock), (3, .unlock)]),
  ("dnsregserver.DNSRegServer.processRequest", [(1, .lock), (1, .unlock), (1, .lock), (1, .unlock), (3, .lock), (3, .unlock)]),
  ("dnsregserver.DNSRegServer.processRequest", [(1, .lock), (1, .unlock), (2, .rlock), (2, .runlock), (3, .lock), (3, .unlock)]),
  ("dnsregserver.DNSRegServer.processRequest", [(1, .lock), (1, .unlock), (2, .rlock), (2, .runlock), (1, .lock), (1, .unlock), (3, .lock), (3, .unlock)]),
  ("go metrics.Metrics.waitAndLog@pkg/metrics/metrics.go:25", [(1, .rlock), (1, .runlock), (1, .rlock), (1, .runlock)]),
  ("go@cmd/registration-server/main.go:253", []),
  ("go@cmd/registration-server/main.go:253", [(0, .lock), (0, .unlock)]),
  ("go@cmd/registration-server/main.go:253", [(2, .lock), (2, .unlock), (0, .lock), (0, .unlock)]),
  ("go@cmd/registration-server/main.go:253", [(2, .lock), (2, .unlock)]),
  ("go@cmd/registration-server/main.go:253", [(0, .lock), (0, .unlock), (0, .lock), (0, .unlock)]),
  ("go@cmd/registration-server/main.go:253", [(0, .lock), (0, .unlock), (2, .lock), (2, .unlock), (0, .lock), (0, .unlock)]),
  ("go@cmd/registration-server/main.go:253", [(0, .lock), (0, .unlock), (2, .lock), (2, .unlock)]),
  ("go@cmd/registration-server/main.go:253", [(2, .lock), (2, .unlock), (0, .lock), (0, .unlock), (0, .lock), (0, .unlock)]),
  ("go@cmd/registration-server/main.go:253", [(2, .lock), (2, .unlock), (0, .lock), (0, .unlock), (2, .lock), (2, .unlock), (0, .lock), (0, .unlock)]),
  ("go@cmd/registration-server/main.go:253", [(2, .lock), (2, .unlock), (0, .lock), (0, .unlock), (2, .lock), (2, .unlock)]),
  ("go@cmd/registration-server/main.go:253", [(2, .lock), (2, .unlock), (2, .lock), (2, .unlock), (0, .lock), (0, .unlock)]),
  ("go@cmd/registration-server/main.go:253", [(2, .lock), (2, .unlock), (2, .lock), (2, .unlock)]),
  ("main.main", []),
  ("regprocessor.RegProcessor.RegisterBidirectional", []),
  ("regprocessor.RegProcessor.RegisterBidirectional", [(2, .rlock), (2, .runlock)]),
  ("regprocessor.RegProcessor.RegisterBidirectional", [(1, .lock), (1, .unlock)]),
  ("regprocessor.RegProcessor.RegisterBidirectional", [(2, .rlock), (2, .runlock), (1, .lock), (1, .unlock)]),
  ("regprocessor.RegProcessor.RegisterBidirectional", [(3, .lock), (3, .unlock)]),
  ("regprocessor.RegProcessor.RegisterBidirectional", [(1, .lock), (1, .unlock), (3, .lock), (3, .unlock)]),
  ("regprocessor.RegProcessor.RegisterBidirectional", [(2, .rlock), (2, .runlock), (3, .lock), (3, .unlock)]),
  ("regprocessor.RegProcessor.RegisterBidirectional", [(2, .rlock), (2, .runlock), (1, .lock), (1, .unlock), (3, .lock), (3, .unlock)]),
  ("regprocessor.RegProcessor.RegisterUnidirectional", []),
  ("regprocessor.RegProcessor.RegisterUnidirectional", [(1, .lock), (1, .unlock)]),
  ("regprocessor.RegProcessor.RegisterUnidirectional", [(3, .lock), (3, .unlock)]),
  ("regprocessor.RegProcessor.RegisterUnidirectional", [(1, .lock), (1, .unlock), (3, .lock), (3, .unlock)]),
  ("regprocessor.RegProcessor.ReloadSubnets", []),
  ("regprocessor.RegProcessor.ReloadSubnets", [(2, .lock), (2, .unlock)])
]

/-- calls through a function value made while a lock is held (the walker cannot follow them) -/
def opaqueCallsUnderLock : List String := []

/-- per mutex: lock-operation call sites in scope, and how many of them a root visits (or are on an object under construction) -/
def coverage : List (String × Nat × Nat) := [
  ("apiregserver.APIRegServer.ccMutex", 4, 4),
  ("metrics.Metrics.rwMutex", 4, 4),
  ("regprocessor.RegProcessor.selectorMutex", 4, 4),
  ("regprocessor.RegProcessor.zmqMutex", 2, 2)
]

def unreached : List String := []

/-- the goroutine of `main` that receives from the channel given to `signal.Notify` (cmd/registration-server/main.go:253) -/
def sighupFound : Bool := true
/-- its name in `lockPaths` -/
def sighupRoot : String := "go@cmd/registration-server/main.go:253"
/-- its loop has no condition (and the goroutine does nothing that could end before it enters the loop) -/
def sighupEndless : Bool := true
/-- statements that leave the loop or end the goroutine / the process, in the loop body and in the functions of the repository it calls -/
def sighupExits : List String := []
/-- the reload is handled in the loop body itself, for the signal SIGHUP -/
def sighupHandlesSIGHUP : Bool := true

/-- per path through one round of the loop: lock operations and writes to fields of the registrar's objects -/
def sighupRounds : List (List Eff) := [
  [],
  [.wr "dnsregserver.DNSRegServer.latestCCGen"],
  [.lk 0 .lock, .wr "apiregserver.APIRegServer.latestClientConf", .lk 0 .unlock],
  [.lk 0 .lock, .wr "apiregserver.APIRegServer.latestClientConf", .lk 0 .unlock, .wr "dnsregserver.DNSRegServer.latestCCGen"],
  [.lk 2 .lock, .wr "regprocessor.RegProcessor.ipSelector", .lk 2 .unlock],
  [.lk 2 .lock, .wr "regprocessor.RegProcessor.ipSelector", .lk 2 .unlock, .wr "dnsregserver.DNSRegServer.latestCCGen"],
  [.lk 2 .lock, .wr "regprocessor.RegProcessor.ipSelector", .lk 2 .unlock, .lk 0 .lock, .wr "apiregserver.APIRegServer.latestClientConf", .lk 0 .unlock],
  [.lk 2 .lock, .wr "regprocessor.RegProcessor.ipSelector", .lk 2 .unlock, .lk 0 .lock, .wr "apiregserver.APIRegServer.latestClientConf", .lk 0 .unlock, .wr "dnsregserver.DNSRegServer.latestCCGen"]
]

end CJ.Gen.ReloadPath
