/-! GENERATED on every run by go/harness/C04/zz_verif_c04_close_extract_test.go from the files of the relay path of the
tree under check (pkg/station/lib/proxies.go, cmd/application/conns.go, pkg/transports/transports.go): every `SetLinger(arg)` call, the function it
stands in, and the value of `arg` in seconds (`none`: not an integer constant expression).  Do not edit. -/
namespace CJ.Gen

def closeLingerCalls : List (String × Option Int) := [
  ("proxies.go:halfPipe", some (10))
]

end CJ.Gen
