import CJ.Model.Registrar
/-! GENERATED on every run of `./check C12` by go/harness/C12/zz_verif_c12_gen_test.go from
pkg/regserver/regprocessor/*.go (go/ast) — do not edit.  How `RegProcessor.processC2SWrapper` builds the
wrapper it forwards: what the variable starts from, every assignment to one of its fields (field, lexically
guarded?, fields of the client's wrapper the value is computed from), the fields assigned on every path,
and every other use of the variable. -/
namespace CJ.Gen
open CJ.Registrar

def c12Wrapper : WrapperFacts :=
  { base := .fresh [],
    assigns := [
      ⟨.registrationSource, true, [.registrationSource]⟩,
      ⟨.registrationSource, true, [.registrationSource]⟩,
      ⟨.registrationAddress, true, []⟩,
      ⟨.registrationAddress, true, [.registrationAddress]⟩,
      ⟨.regRespBytes, true, [.registrationResponse]⟩,
      ⟨.regRespSignature, true, [.registrationResponse]⟩,
      ⟨.sharedSecret, false, [.sharedSecret]⟩,
      ⟨.registrationPayload, false, [.registrationPayload]⟩,
      ⟨.registrationResponse, false, [.registrationResponse]⟩],
    always := [.sharedSecret, .registrationPayload, .registrationSource, .registrationAddress, .registrationResponse],
    otherUses := [] }

end CJ.Gen
