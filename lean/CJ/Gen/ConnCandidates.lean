import CJ.Model.ConnStation
/-! GENERATED on every run by go/harness/C04/zz_verif_c04_cand_extract_test.go from cmd/application/conns.go
(handleNewTCPConn) and pkg/station/lib/registration.go (GetWrappingTransports) of the tree under check.  Do not edit. -/
namespace CJ.Gen.ConnCandidates
open CJ.ConnStation

/-- what each `return` of `GetWrappingTransports` returns -/
def getterReturns : List MapSrc := [.makeLocal]
/-- every assignment to the handler's candidate map `possibleTransports` -/
def candidateBinds : List CandBind := [.getterCall]
/-- `delete(possibleTransports, …)` calls in the handler -/
def candidateDeletes : Nat := 2
/-- uses of `possibleTransports` other than `len(…)`, `range …`, `delete(…, _)` and its binding -/
def candidateEscapes : Nat := 0
/-- `var buf [N]byte` -/
def readBufLen : Nat := 4096
/-- top-level statements of the read loop's body, in source order -/
def readLoopBody : List RStmt := [
  .exhaustedCheck,
  .read true,
  .other,
  .errReturn,
  .other,
  .append true,
  .other,
  .offer,
  .other
]

end CJ.Gen.ConnCandidates
