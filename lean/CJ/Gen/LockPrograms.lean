import CJ.Model.RW
/-! GENERATED on every run of `./check C13` by go/harness/C13/zz_verif_c13_gen_test.go from
pkg/regserver/regprocessor/*.go (go/ast) — do not edit.  One entry per path through the method:
(branches taken, operations on `selectorMutex` / `ipSelector` in execution order, `defer` expanded at exit). -/
namespace CJ.Gen
open CJ.RW

/-- paths through `RegProcessor.processBdReq` -/
def bdReqPaths : List (String × List Op) := [
  ("base", [.rlock, .readSel, .runlock]),
  ("return", []),
  ("return#2", [.rlock, .readSel, .runlock]),
  ("v4", [.rlock, .readSel, .runlock, .select]),
  ("v4+err", [.rlock, .readSel, .runlock, .select]),
  ("v4+return", [.rlock, .readSel, .runlock, .select]),
  ("v4+v6", [.rlock, .readSel, .runlock, .select, .select]),
  ("v4+v6+err", [.rlock, .readSel, .runlock, .select, .select]),
  ("v4+v6+return", [.rlock, .readSel, .runlock, .select, .select]),
  ("v6", [.rlock, .readSel, .runlock, .select]),
  ("v6+err", [.rlock, .readSel, .runlock, .select]),
  ("v6+return", [.rlock, .readSel, .runlock, .select])
]

/-- paths through `RegProcessor.ReloadSubnets` -/
def reloadPaths : List (String × List Op) := [
  ("base", [.lock, .swapSel, .unlock]),
  ("return", [])
]

def bdReqPrograms : List (List Op) := bdReqPaths.map (·.2)
def reloadPrograms : List (List Op) := reloadPaths.map (·.2)

end CJ.Gen
