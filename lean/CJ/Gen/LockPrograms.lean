import CJ.Model.RW
/-! GENERATED on every run of `./check C13` by go/harness/C13/zz_verif_c13_gen_test.go from
pkg/regserver/regprocessor/*.go (go/ast) — do not edit.  One entry per path through every exported
entry point of the package that (with its callees inlined) operates on the lock: families whose
selection block is entered, early exit or straight through, operations in execution order (`defer`
expanded at exit).  `coverage`: per name (occurrences in the sources, reached from the entry points,
accesses to an object under construction). -/
namespace CJ.Gen
open CJ.RW

/-- paths that operate on `RegProcessor.selectorMutex` / `ipSelector` / call `Select` -/
def selectorPaths : List Path := [
  { root := "RegProcessor.RegisterBidirectional", name := "return", fams := [], early := true, ops := [] },
  { root := "RegProcessor.RegisterBidirectional", name := "v4+err+return", fams := [4], early := true, ops := [.rlock, .readSel, .runlock, .select] },
  { root := "RegProcessor.RegisterBidirectional", name := "v4+v6+err+return", fams := [4, 6], early := true, ops := [.rlock, .readSel, .runlock, .select, .select] },
  { root := "RegProcessor.RegisterBidirectional", name := "v6+err+return", fams := [6], early := true, ops := [.rlock, .readSel, .runlock, .select] },
  { root := "RegProcessor.RegisterBidirectional", name := "return", fams := [], early := true, ops := [.rlock, .readSel, .runlock] },
  { root := "RegProcessor.RegisterBidirectional", name := "v4+v6", fams := [4, 6], early := false, ops := [.rlock, .readSel, .runlock, .select, .select] },
  { root := "RegProcessor.RegisterBidirectional", name := "v6", fams := [6], early := false, ops := [.rlock, .readSel, .runlock, .select] },
  { root := "RegProcessor.RegisterBidirectional", name := "v4", fams := [4], early := false, ops := [.rlock, .readSel, .runlock, .select] },
  { root := "RegProcessor.RegisterBidirectional", name := "base", fams := [], early := false, ops := [.rlock, .readSel, .runlock] },
  { root := "RegProcessor.ReloadSubnets", name := "return", fams := [], early := true, ops := [] },
  { root := "RegProcessor.ReloadSubnets", name := "base", fams := [], early := false, ops := [.lock, .swapSel, .unlock] }
]

/-- paths that operate on `RegProcessor.zmqMutex` -/
def zmqPaths : List Path := [
  { root := "RegProcessor.RegisterBidirectional", name := "return", fams := [], early := true, ops := [] },
  { root := "RegProcessor.RegisterBidirectional", name := "return", fams := [], early := true, ops := [.lock, .unlock] },
  { root := "RegProcessor.RegisterBidirectional", name := "base", fams := [], early := false, ops := [.lock, .unlock] },
  { root := "RegProcessor.RegisterUnidirectional", name := "return", fams := [], early := true, ops := [] },
  { root := "RegProcessor.RegisterUnidirectional", name := "return", fams := [], early := true, ops := [.lock, .unlock] },
  { root := "RegProcessor.RegisterUnidirectional", name := "base", fams := [], early := false, ops := [.lock, .unlock] }
]

/-- both mutexes in one program, lock operations only (0 = `selectorMutex`, 1 = `zmqMutex`) -/
def lockOrderPaths : List (String × List (Nat × Op)) := [
  ("RegProcessor.RegisterBidirectional", []),
  ("RegProcessor.RegisterBidirectional", [(0, .rlock), (0, .runlock)]),
  ("RegProcessor.RegisterBidirectional", [(1, .lock), (1, .unlock)]),
  ("RegProcessor.RegisterBidirectional", [(0, .rlock), (0, .runlock), (1, .lock), (1, .unlock)]),
  ("RegProcessor.RegisterUnidirectional", []),
  ("RegProcessor.RegisterUnidirectional", [(1, .lock), (1, .unlock)]),
  ("RegProcessor.ReloadSubnets", []),
  ("RegProcessor.ReloadSubnets", [(0, .lock), (0, .unlock)])
]

def selectorPrograms : List (List Op) := selectorPaths.map (·.ops)
def zmqPrograms : List (List Op) := zmqPaths.map (·.ops)

def coverage : List (String × Nat × Nat × Nat) := [
  ("selectorMutex", 4, 4, 0),
  ("ipSelector", 3, 2, 1),
  ("zmqMutex", 2, 2, 0)
]

end CJ.Gen
