/-!
# The station's logger (`pkg/station/log/logger.go`) as a function: what reaches the sink

`pkg/station/log` wraps the standard `log` package: a package-level `level` (initially `ErrorLevel`), loggers
that copy that level **when they are created** (`New`), a level test in front of every
`Trace*/Debug*/Warn*/Error*/Info*` method (`if l.level <= XLevel`), and the embedded standard logger's
`Print*` without a test.  The constants come from one `const` block in which `UnknownLevel = -1` takes the first
position, so `TraceLevel = iota` is **1**, … `InfoLevel` is 5, and `Info` ranks *above* `Error`.

The model is generic in the alphabet `α` (bytes in the driver; tokens with address marks in the theorems): the
sink is the list of everything written, in order, by every logger of the history and by the package-level
functions (one shared writer, flags 0: a line is `prefix ++ text`, and a newline is appended unless that
already ends in one — `log.(*Logger).output`).  Formatting is not modelled: a call carries the text of its
single string operand (`Print(s)`, `Println(s)`, `Printf("%s", s)`).

`parseLevel` is `ParseLevel` byte for byte, with `strings.ToLower`'s two non-ASCII runes that lower-case into
ASCII (`İ` U+0130 → `i`, `K` U+212A → `k`): `"İNFO"` is accepted by the code and by the model.
-/
namespace CJ.Logger

abbrev Level := Int
def unknownLevel : Int := -1
def traceLevel : Int := 1
def debugLevel : Int := 2
def warnLevel : Int := 3
def errorLevel : Int := 4
def infoLevel : Int := 5
/-- `var level = ErrorLevel` -/
def defaultLevel : Int := errorLevel

/-- the method families; `print` is the embedded standard logger's `Print*` (no level test) -/
inductive Meth
  | trace | debug | warn | error | info | print
deriving Repr, DecidableEq

def Meth.level : Meth → Option Int
  | .trace => some traceLevel
  | .debug => some debugLevel
  | .warn => some warnLevel
  | .error => some errorLevel
  | .info => some infoLevel
  | .print => none

/-- `if l.level <= XLevel { l.Print…(…) }` -/
def emits (cur : Int) (m : Meth) : Bool :=
  match m.level with
  | none => true
  | some ml => decide (cur ≤ ml)

/-- the families that stay silent at the default level -/
def Meth.quiet : Meth → Bool
  | .trace | .debug | .warn => true
  | _ => false

/-- `X`, `Xln`, `Xf` -/
inductive Form
  | plain | ln | f
deriving Repr, DecidableEq

section
variable {α : Type} [DecidableEq α]

/-- text handed to `Output`: `Sprint(s)`, `Sprintln(s)`, `Sprintf("%s", s)` -/
def body (nl : α) : Form → List α → List α
  | .plain, msg => msg
  | .ln, msg => msg ++ [nl]
  | .f, msg => msg

/-- `log.(*Logger).output` with flags 0: prefix, text, and a newline unless *the buffer* (prefix included: an empty
text after a prefix that ends in a newline gets none — Go 1.21+, found by the correspondence) ends in one -/
def outLine (nl : α) (pfx text : List α) : List α :=
  pfx ++ text ++ (if (pfx ++ text).getLast? = some nl then [] else [nl])

structure Lg (α : Type) where
  level : Level
  pfx : List α
deriving Repr

structure St (α : Type) where
  /-- the package-level `level` -/
  global : Int := defaultLevel
  /-- loggers made by `New`, in creation order -/
  loggers : List (Lg α) := []
  /-- prefix of the standard logger (the package-level functions write through it) -/
  stdPfx : List α := []
  sink : List α := []
deriving Repr

inductive Op (α : Type)
  | setLevel (l : Level)                                  -- package `SetLevel`
  | new (pfx : List α)                                    -- `New(w, prefix, 0)`
  | lSetLevel (i : Nat) (l : Level)                       -- `(*Logger).SetLevel`
  | lSetPrefix (i : Nat) (p : List α)                     -- embedded `SetPrefix`
  | setStdPrefix (p : List α)                             -- package `SetPrefix`
  | call (tgt : Option Nat) (m : Meth) (f : Form) (msg : List α)   -- `none`: the package-level function
deriving Repr

/-- one operation; `none`: there is no such logger (a nil `*Logger` in Go) -/
def step (nl : α) (s : St α) : Op α → Option (St α)
  | .setLevel l => some { s with global := l }
  | .new p => some { s with loggers := s.loggers ++ [⟨s.global, p⟩] }
  | .lSetLevel i l =>
    match s.loggers[i]? with
    | none => none
    | some lg => some { s with loggers := s.loggers.set i { lg with level := l } }
  | .lSetPrefix i p =>
    match s.loggers[i]? with
    | none => none
    | some lg => some { s with loggers := s.loggers.set i { lg with pfx := p } }
  | .setStdPrefix p => some { s with stdPfx := p }
  | .call none m f msg =>
    some (if emits s.global m then { s with sink := s.sink ++ outLine nl s.stdPfx (body nl f msg) } else s)
  | .call (some i) m f msg =>
    match s.loggers[i]? with
    | none => none
    | some lg =>
      some (if emits lg.level m then { s with sink := s.sink ++ outLine nl lg.pfx (body nl f msg) } else s)

def run (nl : α) : List (Op α) → St α → Option (St α)
  | [], s => some s
  | o :: rest, s => (step nl s o).bind (run nl rest)

/-- a call of a family that is silent at the default level -/
def Op.isQuietCall : Op α → Bool
  | .call _ m _ _ => m.quiet
  | _ => false

end

/-! ## `ParseLevel` -/

abbrev Bytes := List UInt8

/-- `strings.ToLower` as far as it can produce ASCII: ASCII letters, `İ` (C4 B0) → `i`, `K` (E2 84 AA) → `k`;
every other byte is kept (a non-ASCII rune never lower-cases to an ASCII one otherwise, and an invalid byte
becomes U+FFFD, so neither can complete a level name). -/
def toLower : Bytes → Bytes
  | [] => []
  | 0xC4 :: 0xB0 :: rest => 0x69 :: toLower rest
  | 0xE2 :: 0x84 :: 0xAA :: rest => 0x6B :: toLower rest
  | b :: rest => (if 65 ≤ b ∧ b ≤ 90 then b + 32 else b) :: toLower rest

def levelNames : List (Bytes × Level) :=
  [ ([116, 114, 97, 99, 101], traceLevel),   -- "trace"
    ([100, 101, 98, 117, 103], debugLevel),   -- "debug"
    ([119, 97, 114, 110], warnLevel),         -- "warn"
    ([101, 114, 114, 111, 114], errorLevel),  -- "error"
    ([105, 110, 102, 111], infoLevel) ]       -- "info"

/-- `ParseLevel`: `none` is the error return (`UnknownLevel` with `unknown logging level string provided`) -/
def parseLevel (s : Bytes) : Option Level := levelNames.lookup (toLower s)

/-- the level a caller ends up with when it ignores the error -/
def parseLevelValue (s : Bytes) : Int := (parseLevel s).getD unknownLevel

end CJ.Logger
