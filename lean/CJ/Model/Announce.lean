import CJ.Model.Registry
import CJ.Model.Detector
/-!
# The station's registry and the detector's session table, side by side, over a history (C10)

`CJ.Registry` models `RegisteredDecoys` (who is tracked, valid, used, and since when); `CJ.Detector`
models what the detector does with a `StationToDetector` message and with its periodic sweep.  This
module composes the two the way the code does: the only places where the station talks to the detector
about a registration are the two closures of `NewRegisteredDecoys`,

* `registerForDetector` — called by `register` exactly when it flips `Valid` (`Out.new`),
* `updateInDetector`   — called by `markActive` exactly when it found the timeout record (`Out.upd`),

so a step of the combined system is a registry operation followed, if and only if the registry
operation said `new` / `upd`, by the detector handling the message the closure builds (`mkS2D` of the
registration stored under that key).  Nothing else reaches the detector: duplicates (`track` on a
tracked key, `register` on a valid one), `markActive` on a registration that is not tracked (a
connection handler may still hold a registration the sweeper removed, or one that was never tracked)
and the station's sweep are silent.

One clock (nanoseconds) is read by both sides and a message is handled at the instant it is published
(a delivery delay only moves the detector's expiry later).
-/
namespace CJ.Announce
open CJ.Registry (Key Cfg St TO Out)
open CJ.Detector (Map S2D Reg mkS2D)

/-- which closure published: `registerForDetector` (New) or `updateInDetector` (Update) -/
inductive Kind
  | new | upd
deriving DecidableEq, Repr

/-- what the closures put into a message: the announcement-relevant fields of the registration stored
under a key, and the (lifetime, operation) pair of each closure -/
structure Params where
  regOf : Key → Reg
  newNs : Nat
  newOp : Nat
  updNs : Nat
  updOp : Nat

def Params.msg (P : Params) (k : Key) : Kind → S2D
  | .new => mkS2D (P.regOf k) P.newNs P.newOp
  | .upd => mkS2D (P.regOf k) P.updNs P.updOp

/-- lifetime requested by an announcement of that kind -/
def Params.life (P : Params) : Kind → Nat
  | .new => P.newNs
  | .upd => P.updNs

/-- one event of a history, each at a clock value -/
inductive HOp
  | track (k : Key) (tr now : Nat)                    -- `TrackRegistration` (also the duplicate path)
  | register (k : Key) (tr now : Nat)                 -- `AddRegistration`
  | ingest (k : Key) (tr now : Nat) (passes : Bool)   -- `ingestRegistration`; `passes`: covert / liveness checks pass
  | markActive (k : Key) (tr now : Nat)               -- `MarkActive`, on any registration object a handler holds
  | sweep (now : Nat)                                 -- `RemoveOldRegistrations`
  | dsweep (now : Nat)                                -- detector: `drop_stale_sessions`
deriving Repr

def HOp.time : HOp → Nat
  | .track _ _ now => now
  | .register _ _ now => now
  | .ingest _ _ now _ => now
  | .markActive _ _ now => now
  | .sweep now => now
  | .dsweep now => now

/-- the clock never runs backwards along a history -/
def Mono : Nat → List HOp → Prop
  | _, [] => True
  | last, o :: os => last ≤ o.time ∧ Mono o.time os

def Mono.dec : (last : Nat) → (ops : List HOp) → Decidable (Mono last ops)
  | _, [] => isTrue trivial
  | last, o :: os =>
    match Nat.decLe last o.time, Mono.dec o.time os with
    | isTrue h1, isTrue h2 => isTrue ⟨h1, h2⟩
    | isFalse h1, _ => isFalse (fun h => h1 h.1)
    | _, isFalse h2 => isFalse (fun h => h2 h.2)

instance (last : Nat) (ops : List HOp) : Decidable (Mono last ops) := Mono.dec last ops

def endTime (last : Nat) : List HOp → Nat
  | [] => last
  | o :: os => endTime o.time os

/-- `ingestRegistration` (registration_ingest.go) as far as the registry is concerned: a registration
whose transport is not enabled is refused by `ValidateRegistration`; one that is already tracked is
counted (`TrackRegistration`) and nothing else happens; a new one is tracked, and validated
(`AddRegistration`) only if the checks in between (covert address, liveness of the phantom, phantom
blocklist) pass. -/
def ingest (c : Cfg) (s : St) (k : Key) (tr now : Nat) (passes : Bool) : St × Out :=
  if !c.enabled.contains tr then (s, .err)
  else if s.decoys.contains k then ((CJ.Registry.track c s k tr now).1, .dup)
  else
    let s1 := (CJ.Registry.track c s k tr now).1
    if passes then CJ.Registry.register c s1 k tr now else (s1, .none)

/-- the registry's part of an event, and what it said -/
def regStep (c : Cfg) (s : St) : HOp → St × Out
  | .track k tr now => ((CJ.Registry.track c s k tr now).1, if (CJ.Registry.track c s k tr now).2 then .ok else .err)
  | .register k tr now => CJ.Registry.register c s k tr now
  | .ingest k tr now p => ingest c s k tr now p
  | .markActive k tr _ => CJ.Registry.markActive c s k tr
  | .sweep now => CJ.Registry.sweep c now s
  | .dsweep _ => (s, .none)

/-- the closure call an event makes: `register` announces exactly when it says `new`, `markActive`
exactly when it says `upd`; nothing else announces -/
def emitted : HOp → Out → Option (Key × Kind)
  | .register k _ _, .new => some (k, .new)
  | .ingest k _ _ _, .new => some (k, .new)
  | .markActive k _ _, .upd => some (k, .upd)
  | _, _ => none

/-- registry and detector session table -/
structure Sys where
  reg : St := {}
  det : Map := []

/-- the detector handles the message of a closure call at the instant it is made -/
def announceTo (P : Params) (now : Nat) (det : Map) : Option (Key × Kind) → Map
  | some (k, kind) => CJ.Detector.handle now det (P.msg k kind)
  | none => det

def detStep (P : Params) (det : Map) (op : HOp) (o : Out) : Map :=
  let det1 := announceTo P op.time det (emitted op o)
  match op with
  | .dsweep now => CJ.Detector.dropStale now det1
  | _ => det1

def step (P : Params) (c : Cfg) (y : Sys) (op : HOp) : Sys × Out :=
  let r := regStep c y.reg op
  ({ reg := r.1, det := detStep P y.det op r.2 }, r.2)

def run (P : Params) (c : Cfg) (ops : List HOp) (y : Sys := {}) : Sys :=
  ops.foldl (fun y o => (step P c y o).1) y

/-- the announcements of a history, in order, with the clock value at which each was published -/
def trace (P : Params) (c : Cfg) : List HOp → Sys → List (Nat × Key × Kind)
  | [], _ => []
  | o :: os, y =>
    let r := step P c y o
    match emitted o r.2 with
    | some a => (o.time, a) :: trace P c os r.1
    | none => trace P c os r.1

/-- the station's own lifetime rule, strictly inside the lifetime: a record the sweeper would keep at
`now` and would still keep an instant later (`isExpired` with the boundary instant left out) -/
def accepts (c : Cfg) (now : Nat) (t : TO) : Prop :=
  (t.used = true ∨ now - t.time < c.unusedT) ∧ now - t.time < c.activeT

instance (c : Cfg) (now : Nat) (t : TO) : Decidable (accepts c now t) := by
  unfold accepts; infer_instance

/-- the instant at which the station's rule ends the lifetime of a record -/
def bound (c : Cfg) (t : TO) : Nat :=
  t.time + (if t.used then c.activeT else min c.unusedT c.activeT)

end CJ.Announce
