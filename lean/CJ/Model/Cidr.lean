import CJ.Model.Phantom
/-!
# `net.ParseCIDR` on a configured subnet string (C01)

`parseSubnet` (pkg/phantoms/phantoms.go) and the frozen clients' `parseSubnets`
(internal/compatability/v0|v1) hand every configured string to `net.ParseCIDR`; everything the
selectors compute afterwards (`IP.To4() != nil`, the network address, `Mask.Size()`) is read off its
result.  `CJ.Phantom.RawNet` was that result as a *parameter* with an assumed contract
(`RawNet.Conforms`); here the parser itself is mirrored, over the bytes of the string as Go sees them
(go1.23 `net.ParseCIDR` → `netip.ParseAddr` → `parseIPv4Fields` / `parseIPv6`, `dtoi`, `CIDRMask`,
`IP.Mask`), so that the contract becomes a theorem (`CJ.Props.C01Cidr`).

Addresses are numbers: an IPv4 address is the value of its 4 bytes, an IPv6 address that of its 16
bytes (big endian).  `IP.Mask(CIDRMask(n, bits))` clears the low `bits - n` bits.  Nothing is
defaulted: whatever the Go parser rejects is `none`.
-/
namespace CJ.Cidr
open CJ.Phantom

def cDot : UInt8 := 46      -- '.'
def cColon : UInt8 := 58    -- ':'
def cPct : UInt8 := 37      -- '%'
def cSlash : UInt8 := 47    -- '/'

def isDigit (c : UInt8) : Bool := 48 ≤ c.toNat && c.toNat ≤ 57

/-- value of a hexadecimal digit (`0-9`, `a-f`, `A-F`) -/
def hexVal (c : UInt8) : Option Nat :=
  let n := c.toNat
  if 48 ≤ n ∧ n ≤ 57 then some (n - 48)
  else if 97 ≤ n ∧ n ≤ 102 then some (n - 97 + 10)
  else if 65 ≤ n ∧ n ≤ 70 then some (n - 65 + 10)
  else none

/-! ### `parseIPv4Fields` -/

/-- the loop of `parseIPv4Fields` over the remaining bytes.  `first`: `i == 0`; `prevDot`:
`s[i-1] == '.'`; `val`, `digLen` as in the code; `fs`: `fields[0:pos]`.  The answer is the four
fields. -/
def v4Fields : List UInt8 → Bool → Bool → Nat → Nat → List Nat → Option (List Nat)
  | [], _, _, val, _, fs => if fs.length < 3 then none else some (fs ++ [val])   -- "IPv4 address too short"
  | c :: rest, first, prevDot, val, digLen, fs =>
    if isDigit c then
      if digLen = 1 ∧ val = 0 then none else                  -- "octet with leading zero"
      let val' := val * 10 + (c.toNat - 48)
      if val' > 255 then none else                            -- "value >255"
      v4Fields rest false false val' (digLen + 1) fs
    else if c = cDot then
      if first ∨ rest.isEmpty ∨ prevDot then none else        -- "must have at least one digit"
      if fs.length = 3 then none else                         -- "IPv4 address too long"
      v4Fields rest false true 0 0 (fs ++ [val])
    else none                                                 -- "unexpected character"

/-- `AddrFrom4(fields)`: four bytes; nothing else can be stored in a `[4]uint8` (the test never refuses what
the field loop accepted: `CJ.Props.C01Cidr.v4Value_total`) -/
def v4Value : List Nat → Option Nat
  | [a, b, c, d] =>
    if a < 256 ∧ b < 256 ∧ c < 256 ∧ d < 256 then some (((a * 256 + b) * 256 + c) * 256 + d) else none
  | _ => none

/-- `parseIPv4(s)` -/
def parseIPv4 (s : List UInt8) : Option Nat :=
  (v4Fields s true false 0 0 []).bind v4Value

/-! ### `parseIPv6` -/

/-- the inner loop: hexadecimal digits of one group.  `off` digits have been read; a fifth digit is
"each group must have 4 or less digits".  Answer: value, number of digits, what follows. -/
def hexGroup : List UInt8 → Nat → Nat → Option (Nat × Nat × List UInt8)
  | [], acc, off => some (acc, off, [])
  | c :: rest, acc, off =>
    match hexVal c with
    | some d => if off > 3 then none else hexGroup rest (acc * 16 + d) (off + 1)
    | none => some (acc, off, c :: rest)

/-- state after the group loop: the 16-bit groups stored so far (`ip[0:i]`, `i = 2·length`), the
position of the ellipsis (in groups), the unread rest of the string -/
abbrev V6St := List Nat × Option Nat × List UInt8

/-- the loop `for i < 16`; `fuel = (16 - i) / 2` iterations are left, every iteration stores one
group or leaves the loop -/
def v6Loop : Nat → List UInt8 → List Nat → Option Nat → Option V6St
  | 0, s, gs, ell => some (gs, ell, s)
  | fuel + 1, s, gs, ell =>
    match hexGroup s 0 0 with
    | none => none
    | some (acc, off, rest) =>
      if off = 0 then none else                               -- "at least one digit"
      if rest.head? = some cDot then
        -- trailing IPv4: it replaces the final two groups
        if ell.isNone ∧ gs.length ≠ 6 then none else          -- "must replace the final 2 fields"
        if gs.length + 2 > 8 then none else                   -- "too many hex fields"
        match v4Fields s true false 0 0 [] with
        | some [a, b, c, d] => some (gs ++ [a * 256 + b, c * 256 + d], ell, [])
        | _ => none
      else
        let gs := gs ++ [acc]
        match rest with
        | [] => some (gs, ell, [])
        | c :: rest1 =>
          if c ≠ cColon then none else                        -- "unexpected character, want colon"
          match rest1 with
          | [] => none                                        -- "colon must be followed by more characters"
          | c2 :: rest2 =>
            if c2 = cColon then
              if ell.isSome then none else                    -- "multiple :: in address"
              if rest2.isEmpty then some (gs, some gs.length, [])
              else v6Loop fuel rest2 gs (some gs.length)
            else v6Loop fuel rest1 gs ell

/-- `AddrFrom16(ip)`: eight groups of 16 bits; nothing else can be stored in a `[16]byte` (the test never
refuses what the group loop left: `CJ.Props.C01Cidr.v6Loop_inv`, `v6Finish_none`) -/
def v6Value (gs : List Nat) : Option Nat :=
  if gs.length = 8 ∧ gs.all (· < 65536) then some (gs.foldl (fun acc g => acc * 65536 + g) 0) else none

/-- what follows the loop: the whole string must be used, the ellipsis stands for at least one group -/
def v6Finish : V6St → Option Nat
  | (gs, ell, s) =>
    if !s.isEmpty then none else                              -- "trailing garbage after address"
    if gs.length < 8 then
      match ell with
      | none => none                                          -- "address string too short"
      | some e => v6Value (gs.take e ++ List.replicate (8 - gs.length) 0 ++ gs.drop e)
    else if ell.isSome then none                              -- "the :: must expand to at least one field"
    else v6Value gs

/-- `parseIPv6(s)` as `ParseCIDR` uses it: an address with a zone (any `%`) is refused there, an
empty zone by `parseIPv6` itself -/
def parseIPv6 (s : List UInt8) : Option Nat :=
  if s.contains cPct then none else
  match s with
  | a :: b :: rest =>
    if a = cColon ∧ b = cColon then
      if rest.isEmpty then some 0                             -- "::"
      else (v6Loop 8 rest [] (some 0)).bind v6Finish
    else (v6Loop 8 s [] none).bind v6Finish
  | _ => (v6Loop 8 s [] none).bind v6Finish

/-- `netip.ParseAddr`: the first `.`, `:` or `%` decides; the answer is (`Is4()`, value) -/
def parseAddr (s : List UInt8) : Option (Bool × Nat) :=
  match s.find? (fun c => c = cDot || c = cColon || c = cPct) with
  | some c =>
    if c = cDot then (parseIPv4 s).map (true, ·)
    else if c = cColon then (parseIPv6 s).map (false, ·)
    else none                                                 -- "missing IPv6 address"
  | none => none                                              -- "unable to parse IP"

/-! ### the prefix length (`dtoi`) and the mask -/

/-- `big` of net/parse.go -/
def big : Nat := 0xFFFFFF

/-- `dtoi(mask)` together with the caller's `i != len(mask)`: decimal digits only, the value stays
below `big` -/
def dtoiAll : List UInt8 → Nat → Option Nat
  | [], n => some n
  | c :: rest, n =>
    if isDigit c then
      let n' := n * 10 + (c.toNat - 48)
      if n' ≥ big then none else dtoiAll rest n'
    else none

def dtoi (s : List UInt8) : Option Nat := if s.isEmpty then none else dtoiAll s 0

/-- `stringslite.Cut(s, "/")` -/
def cutSlash : List UInt8 → Option (List UInt8 × List UInt8)
  | [] => none
  | c :: rest =>
    if c = cSlash then some ([], rest) else
    match cutSlash rest with
    | some (a, b) => some (c :: a, b)
    | none => none

/-- `IP.Mask(CIDRMask(n, bits))` on the value of the address -/
def maskTo (bits n a : Nat) : Nat := a / 2 ^ (bits - n) * 2 ^ (bits - n)

/-- the IPv4-mapped prefix `::ffff:0:0/96` (`v4InV6Prefix`) -/
def isMapped (a : Nat) : Bool := a / 2 ^ 32 == 0xffff

/-- `net.ParseCIDR(s)` as the selectors read its result: `IPNet.IP.To4() != nil`, the network address
(`To4()` bytes if that succeeds, else the 16 bytes) as a number, `Mask.Size()`.

An IPv4 address gives a 4-byte mask and (`IP.Mask` strips the mapped prefix) a 4-byte network; an
IPv6 address gives 16 bytes of both — and `To4()` still succeeds when the masked address is
IPv4-mapped. -/
def parseCIDRBytes (s : List UInt8) : Option RawNet :=
  match cutSlash s with
  | none => none
  | some (addr, mask) =>
    match parseAddr addr with
    | none => none
    | some (is4, a) =>
      let bits := if is4 then 32 else 128
      match dtoi mask with
      | none => none
      | some n =>
        if n > bits then none else
        let m := maskTo bits n a
        if is4 then some ⟨true, m, n, 32⟩
        else if isMapped m then some ⟨true, m % 2 ^ 32, n, 128⟩
        else some ⟨false, m, n, 128⟩

def parseCIDR (s : String) : Option RawNet := parseCIDRBytes s.toUTF8.toList

/-! ### a configured group from its strings -/

/-- the `nets` of a `Group` from the strings (as bytes) of a `pb.PhantomSubnets`: what `parseSubnets`
(pkg/phantoms and the frozen clients) gets from `net.ParseCIDR` entry by entry -/
def groupNets (subnets : List (List UInt8)) : List (Option RawNet) := subnets.map parseCIDRBytes

/-- `parseSubnets(&pb.PhantomSubnets{Subnets: subnets, RandomizeDstPort: rp})` -/
def parseSubnets (rp : Bool) (subnets : List (List UInt8)) : Outcome (List Net) :=
  parseGroup ⟨1, rp, false, groupNets subnets⟩

end CJ.Cidr
