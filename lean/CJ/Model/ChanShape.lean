import CJ.Model.PipelineMsg
/-!
# The channel-operation shape of `HandleRegUpdates` / `startIngestThread` and what it means (C09)

`CJ/Model/PipelineMsg.lean` models one iteration of the distributor and one pass of a worker through its
`select` as atomic actions.  This module ties those actions to the source: `go/extract/chanshape` (go/ast)
regenerates `CJ/Gen/C09ChanShape.lean`, a value of the types below describing the two functions — the
statements in front of the loop, the loop condition, the `select` cases with their communication and their
bodies, what follows the loop — and this module gives that description a meaning over `PipelineMsg.St`
(`distIter`, `workerIter`).  `CJ/Props/C09Shape.lean` proves that the extracted description is the reviewed one
and that the meaning of the reviewed one *is* `PipelineMsg.step` for every state and every offered message.

The interpreter refuses (`none`) every shape it has no meaning for: a statement it does not know inside the loop
(`Leaf.opaque`), a hand-off `select` without a `default` (a blocking send), a `Done` case that does not leave
the loop / return, a worker whose receive case can leave the loop.
-/
namespace CJ.ChanShape
open CJ.PipelineMsg

/-- a channel as the extractor resolves it: `ctx.Done()`, the channel parameter of `HandleRegUpdates`, the
local made by `make(chan …, workers/jobBufferDivisor)` (in the worker: the parameter that local is passed for) -/
inductive Chan | done | input | buffer | other (name : String)
deriving Repr, DecidableEq

inductive Comm | recv (c : Chan) | send (c : Chan) | dflt
deriving Repr, DecidableEq

inductive Callee
  | addIngestMessage | addDroppedMessage | parseRegMessage | ingestRegistration | log | wgWait
  | other (name : String)
deriving Repr, DecidableEq

/-- a statement without a `select` of its own -/
inductive Leaf
  /-- expression statement / assignment whose right-hand side is one call; no channel operation in the arguments -/
  | call (f : Callee)
  /-- `if !ok { break <the loop> }`, `ok` bound by the receive of the enclosing case -/
  | ifClosedBreak
  /-- `if … { …; continue }` with no channel operation, `go`, `defer`, `return`, `goto`, labelled `break` inside -/
  | ifCont
  /-- a `for` / `range` statement under the same restriction; the calls inside, in source order -/
  | each (calls : List Callee)
  | brk | ret | cont
  | opaque (text : String)
deriving Repr, DecidableEq

inductive Stmt
  | leaf (l : Leaf)
  | sel (cases : List (Comm × List Leaf))
deriving Repr, DecidableEq

inductive Cond | ctxErrNil | forever | other (text : String)
deriving Repr, DecidableEq

structure Loop where
  cond : Cond
  cases : List (Comm × List Stmt)
deriving Repr, DecidableEq

structure Fn where
  name : String
  /-- statements in front of the loop, source text without white space -/
  pre : List String
  loop : Loop
  /-- statements behind the loop -/
  post : List Leaf
  /-- every `close(ch)` in the function: the channel and whether the call is deferred -/
  closes : List (Chan × Bool)
  /-- every `go` statement: callee and the position of the buffer among its arguments -/
  spawns : List (String × Option Nat)
  /-- position of the channel parameter that plays `input` (distributor) / `buffer` (worker) -/
  chanParam : Option Nat
deriving Repr, DecidableEq

/-! ## Meaning of the distributor's loop: one iteration -/

inductive Ctl | run | left
deriving Repr, DecidableEq

structure It where
  s : St
  ctl : Ctl

def distLeaf (it : It) : Leaf → Option It
  | .call .addIngestMessage => some { it with s := { it.s with recvCtr := it.s.recvCtr + 1 } }
  | .call .addDroppedMessage => some { it with s := { it.s with dropCtr := it.s.dropCtr + 1 } }
  | .call .log => some it
  /- the input channel stays open (cmd/application never closes it): `ok` is true -/
  | .ifClosedBreak => some it
  | .brk => some { it with ctl := .left }
  | _ => none

def distLeaves : It → List Leaf → Option It
  | it, [] => some it
  | it, l :: r => if it.ctl = .left then some it else (distLeaf it l).bind (distLeaves · r)

/-- `buffer <- m` is ready: a worker is blocked in its receive (only possible while the buffer is empty), or the
buffer has room -/
def handoff (s : St) (m : Msg) : Option St :=
  if s.buf = [] ∧ 0 < s.idle then
    some { s with fwd := s.fwd ++ [m], taken := s.taken ++ [m], hand := m :: s.hand, idle := s.idle - 1 }
  else if s.buf.length < s.cap then some { s with fwd := s.fwd ++ [m], buf := s.buf ++ [m] }
  else none

/-- the hand-off `select`: exactly a send into the buffer and a `default`; the send is taken when it is ready,
`default` (the message is gone: ghost `dropped`) only when it is not -/
def innerSel (it : It) (m : Msg) (cases : List (Comm × List Leaf)) : Option It :=
  match cases.find? (·.1 = .send .buffer), cases.find? (·.1 = .dflt), cases.length with
  | some (_, sb), some (_, db), 2 =>
    match handoff it.s m with
    | some s' => distLeaves { it with s := s' } sb
    | none => distLeaves { it with s := { it.s with dropped := it.s.dropped ++ [m] } } db
  | _, _, _ => none

def distStmt (m : Msg) (it : It) : Stmt → Option It
  | .leaf l => distLeaf it l
  | .sel cs => innerSel it m cs

def distStmts (m : Msg) : It → List Stmt → Option It
  | it, [] => some it
  | it, st :: r => if it.ctl = .left then some it else (distStmt m it st).bind (distStmts m · r)

/-- One iteration of the distributor in a state with `dist = loop`.  Loop condition `ctx.Err() == nil`: after the
stop request the loop is left without looking at the input.  Otherwise the `select`: `Done` is not ready, the
input case is ready iff the environment offers a message. -/
def distIter (L : Loop) (s : St) (input : Option Msg) : Option St :=
  match L.cond with
  | .ctxErrNil =>
    match L.cases.find? (·.1 = .recv .input), L.cases.find? (·.1 = .recv .done), L.cases.length with
    | some (_, body), some (_, dbody), 2 =>
      if dbody = [.leaf .brk] then
        if s.cancelled then some { s with dist := .waiting }
        else match input with
          | none => some s
          | some m =>
            (distStmts m { s := { s with recv := s.recv ++ [m] }, ctl := .run } body).map fun it =>
              match it.ctl with
              | .run => it.s
              | .left => { it.s with dist := .waiting }
      else none
    | _, _, _ => none
  | _ => none

/-! ## Meaning of the worker's loop: one pass through the `select` -/

/-- statements after which the worker is back at its `select` -/
def keeps : Stmt → Bool
  | .leaf (.call _) => true
  | .leaf .ifCont => true
  | .leaf (.each _) => true
  | .leaf .cont => true
  | _ => false

/-- `which` = the case the runtime picks: `done` (ready iff the stop was requested) or `buffer` (ready iff the buffer
is not empty); only a parked worker is in its `select`. -/
def workerIter (L : Loop) (s : St) (which : Chan) : Option St :=
  match L.cond, L.cases.find? (·.1 = .recv .buffer), L.cases.find? (·.1 = .recv .done), L.cases.length with
  | .forever, some (_, body), some (_, dbody), 2 =>
    if dbody = [.leaf .ret] ∧ body.all keeps = true then
      match which with
      | .done => some (if 0 < s.idle ∧ s.cancelled then { s with idle := s.idle - 1, exited := s.exited + 1 } else s)
      | .buffer =>
        some (match s.buf with
          | m :: rest =>
            if 0 < s.idle then { s with buf := rest, hand := m :: s.hand, idle := s.idle - 1, taken := s.taken ++ [m] } else s
          | [] => s)
      | _ => none
    else none
  | _, _, _, _ => none

/-! ## The reviewed shapes (what the pinned tree has; `CJ/Props/C09Shape.lean` proves the extracted ones equal) -/

def reviewedDistLoop : Loop :=
  { cond := .ctxErrNil,
    cases := [
      (.recv .done, [.leaf .brk]),
      (.recv .input, [
        .leaf .ifClosedBreak,
        .leaf (.call .addIngestMessage),
        .sel [(.send .buffer, []), (.dflt, [.call .log, .call .addDroppedMessage])]])] }

def reviewedWorkerLoop : Loop :=
  { cond := .forever,
    cases := [
      (.recv .done, [.leaf .ret]),
      (.recv .buffer, [
        .leaf (.call .parseRegMessage),
        .leaf .ifCont,
        .leaf .ifCont,
        .leaf (.each [.ingestRegistration])])] }

end CJ.ChanShape
