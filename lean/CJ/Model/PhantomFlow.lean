import CJ.Model.PhantomPort
/-!
# `NewRegistration`: from the selected phantom to the registration's address and port (C14)

The body of `(*RegistrationManager).NewRegistration` (pkg/station/lib/registration_ingest.go) between
`rm.Selector().Select(…)` and the `DecoyRegistration` literal, error exits in the order of the code:
the selection's error, a transport that is not registered, the transport's `ParseParams` error, the
error of `getPhantomDstPort`.  The selection's answer is a parameter here (it is `stationSelect`,
corresponded by the `phantom|` line); the flag handed to `getPhantomDstPort` is the selected phantom's —
that the code passes `phantomAddr.SupportRandomPort()` of the very value `Select` returned is the
regenerated fact `CJ.Gen.C14Flow`.
-/
namespace CJ.PhantomFlow
open CJ.Phantom CJ.PhantomPort

/-- what the registered transport does with the registration's parameters -/
inductive Tp
  | unregistered               -- `rm.registeredDecoys.transports[t]` has no entry
  | paramsErr                  -- `ParseParams(libVer, data)` answers an error
  | ans (t : TOut)             -- `GetDstPort(libVer, seed, params)` on the parsed parameters
deriving DecidableEq, Repr

inductive Out
  | ok (r : Reg)
  | selectErr                  -- "failed phantom select"
  | unknownTransport
  | paramsErr                  -- "error handling transport params"
  | portErr                    -- "error selecting phantom dst port"
deriving DecidableEq, Repr

/-- `sel`: the answer of `Select` (`none`: an error) -/
def newRegistration (minVer : Nat) (sel : Option Addr) (tp : Tp) (ver : Nat) : Out :=
  match sel with
  | none => .selectErr
  | some a =>
    match tp with
    | .unregistered => .unknownTransport
    | .paramsErr => .paramsErr
    | .ans t =>
      match getPhantomDstPort minVer (some t) ver a.randPort with
      | .port p => .ok ⟨a, p⟩
      | .unknownTransport => .unknownTransport
      | .transportErr => .portErr

end CJ.PhantomFlow
