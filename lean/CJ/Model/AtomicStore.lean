/-!
# Model of the client's ClientConf store (pkg/client/assets/assets.go)

`saveClientConf` is

```go
buf, err := proto.Marshal(a.config)                       // may fail (required field missing)
tmp := path.Join(a.path, "."+name+"."+getRandString(5)+".tmp")
err = os.WriteFile(tmp, buf, 0644)                        // openat(O_WRONLY|O_CREAT|O_TRUNC); write…; close
if err != nil { return err }                              // (the temporary file is left behind)
return os.Rename(tmp, filename)
```

with `os.WriteFile` and `poll.FD.Write` inlined: the write loop asks the kernel for the remaining
bytes (at most `maxRW` per call) until everything is accepted, a call fails, or a call accepts
nothing.  The program is a small-step machine: the *environment* answers every system call (`Res`),
so a failure can be injected before every step and a crash is simply "the run stops here" — the
theorems speak about the state after **every prefix** of every run.

The file system is `path ↦ bytes`.  `openat(O_TRUNC|O_CREAT)` makes the file empty, `write` appends
the accepted bytes, `rename` atomically gives the target the temporary file's content (that
atomicity, and that a killed process's page-cache writes are what a reader sees afterwards, are the
operating-system assumptions of C20).

`SetClientConf` (`rollback = true`) installs the new configuration in memory first and puts the
previous one back when the store fails; `SetGeneration` / `SetPubkey` / `SetDecoys` /
`SetPhantomSubnets` (`rollback = false`) mutate in place and only store.
-/
namespace CJ.AtomicStore

abbrev Bytes := List UInt8
abbrev Path := String
/-- the file system: path ↦ content -/
abbrev FS := Path → Option Bytes

def FS.set (fs : FS) (p : Path) (v : Option Bytes) : FS := fun q => if q = p then v else fs q

/-- the environment's answer to the pending system call -/
inductive Res
  | ok                -- openat / close / rename succeeded
  | fail              -- the call returned an error
  | wrote (k : Nat)   -- write accepted `k` bytes
deriving DecidableEq, Repr

/-- system calls issued by the store on the temporary and target paths -/
inductive Call
  | openTmp           -- openat(tmp, O_WRONLY|O_CREAT|O_TRUNC, 0644)
  | write (n : Nat)   -- write(fd, buf[off:off+n])
  | close             -- close(fd)
  | rename            -- rename(tmp, target)
deriving DecidableEq, Repr

/-- `poll.FD.Write` never asks for more than 1 GiB in one call -/
def maxRW : Nat := 1073741824

/-- program counter of `saveClientConf` after a successful marshal -/
inductive Pc
  | openTmp (buf : Bytes)
  | write (buf : Bytes) (off : Nat)      -- the write loop; `off` bytes accepted so far
  | close (buf : Bytes) (werr : Bool)    -- `f.Close()`; `werr`: the write loop ended with an error
  | rename (buf : Bytes)
  | ret (err : Bool)                     -- `saveClientConf` returned
deriving DecidableEq, Repr

/-- the system call the program issues next -/
def callOf : Pc → Option Call
  | .openTmp _ => some .openTmp
  | .write buf off => some (.write (min (buf.length - off) maxRW))
  | .close _ _ => some .close
  | .rename _ => some .rename
  | .ret _ => none

/-- one system call answered by the environment: next program counter and file system.
`none`: the answer does not fit the pending call (a `wrote` for `close`, more bytes than asked). -/
def next (target tmp : Path) (fs : FS) : Pc → Res → Option (Pc × FS)
  | .openTmp buf, .ok => some (.write buf 0, fs.set tmp (some []))
  | .openTmp _, .fail => some (.ret true, fs)
  | .write buf off, .wrote k =>
    if k > min (buf.length - off) maxRW then none else
    let fs' := match fs tmp with
      | some c => fs.set tmp (some (c ++ (buf.drop off).take k))
      | none => fs
    if off + k = buf.length then some (.close buf false, fs')       -- nn == len(p)
    else if k = 0 then some (.close buf true, fs')                  -- io.ErrUnexpectedEOF
    else some (.write buf (off + k), fs')
  | .write buf _, .fail => some (.close buf true, fs)
  | .close buf werr, .ok => some (if werr then .ret true else .rename buf, fs)
  | .close _ _, .fail => some (.ret true, fs)
  | .rename _, .ok => some (.ret false, (fs.set target (fs tmp)).set tmp none)
  | .rename _, .fail => some (.ret true, fs)
  | _, _ => none

/-- a store in progress (the struct mutex is held) -/
structure Task (Conf : Type) where
  orig : Conf          -- `origConf`: the configuration in memory before the call
  rollback : Bool      -- `SetClientConf`: true; the in-place setters: false
  tmp : Path
  pc : Pc

structure St (Conf : Type) where
  mem : Conf                          -- `a.config`
  fs : FS
  task : Option (Task Conf) := none
  lastErr : Option Bool := none       -- result of the last store that returned
  /-- ghost: content of the target when the current / most recent store began -/
  prev : Option Bytes
  /-- ghost: marshalled bytes of the configuration of the current / most recent store -/
  cur : Option Bytes := none

inductive Ev (Conf : Type)
  /-- a setter is called: `SetClientConf(c)` (`rollback`) or an in-place setter whose result is `c` -/
  | begin (rollback : Bool) (c : Conf) (tmp : Path)
  /-- the environment answers the pending system call -/
  | sys (r : Res)

def init {Conf : Type} (mem : Conf) (fs : FS) (target : Path) : St Conf :=
  { mem := mem, fs := fs, prev := fs target }

/-- the value of `a.config` when a store returns -/
def memAfter {Conf : Type} (err rollback : Bool) (orig now : Conf) : Conf :=
  if err && rollback then orig else now

/-- `some err` when `saveClientConf` has returned -/
def isRet : Pc → Option Bool
  | .ret err => some err
  | _ => none

def step {Conf : Type} (marshal : Conf → Option Bytes) (target : Path) (s : St Conf) : Ev Conf → St Conf
  | .begin rb c tmp =>
    match s.task with
    | some _ => s       -- the mutex is held: no second store starts
    | none =>
      match marshal c with
      | none => { s with mem := memAfter true rb s.mem c, lastErr := some true, prev := s.fs target, cur := none }
      | some buf => { s with mem := c, task := some ⟨s.mem, rb, tmp, .openTmp buf⟩, prev := s.fs target, cur := some buf }
  | .sys r =>
    match s.task with
    | none => s
    | some t =>
      match next target t.tmp s.fs t.pc r with
      | none => s
      | some (pc', fs') =>
        match isRet pc' with
        | some err => { s with fs := fs', task := none, lastErr := some err, mem := memAfter err t.rollback t.orig s.mem }
        | none => { s with fs := fs', task := some { t with pc := pc' } }

def run {Conf : Type} (marshal : Conf → Option Bytes) (target : Path) (evs : List (Ev Conf)) (s : St Conf) : St Conf :=
  evs.foldl (step marshal target) s

/-- the system call that an event answers (what `strace` shows), if the answer fits a pending call -/
def answered {Conf : Type} (target : Path) (s : St Conf) : Ev Conf → Option Call
  | .begin _ _ _ => none
  | .sys r =>
    match s.task with
    | none => none
    | some t => if (next target t.tmp s.fs t.pc r).isSome then callOf t.pc else none

/-- run and collect the answered system calls, in order (the `strace` sequence) -/
def trace {Conf : Type} (marshal : Conf → Option Bytes) (target : Path) :
    List (Ev Conf) → St Conf → St Conf × List Call
  | [], s => (s, [])
  | e :: es, s =>
    let r := trace marshal target es (step marshal target s e)
    match answered target s e with
    | some c => (r.1, c :: r.2)
    | none => r

/-! ### several stores at once

The struct mutex lets one store run at a time inside a process (`step` above: `begin` while a store is
pending is a no-op).  Nothing serialises two client *processes* that share one assets directory, and
the mutex itself is an assumption about the code.  `cstep` drops it: any number of stores, each with
its own program counter, interleave their system calls arbitrarily. -/

structure CTask where
  tmp : Path
  buf : Bytes        -- the marshalled configuration this store writes
  pc : Pc

structure CSt where
  fs : FS
  tasks : Nat → Option CTask := fun _ => none
  /-- ghost: the marshalled bytes of every store begun so far -/
  begun : List Bytes := []

inductive CEv
  /-- store number `i` (fresh) begins: its configuration marshalled to `buf`, temporary name `tmp` -/
  | begin (i : Nat) (buf : Bytes) (tmp : Path)
  /-- the environment answers the pending system call of store `i` -/
  | sys (i : Nat) (r : Res)

def cstep (target : Path) (s : CSt) : CEv → CSt
  | .begin i buf tmp =>
    if (s.tasks i).isSome then s
    else { s with tasks := fun j => if j = i then some ⟨tmp, buf, .openTmp buf⟩ else s.tasks j, begun := buf :: s.begun }
  | .sys i r =>
    match s.tasks i with
    | none => s
    | some t =>
      match next target t.tmp s.fs t.pc r with
      | none => s
      | some (pc', fs') => { s with fs := fs', tasks := fun j => if j = i then some { t with pc := pc' } else s.tasks j }

def crun (target : Path) (evs : List CEv) (s : CSt) : CSt := evs.foldl (cstep target) s

/-! ### the temporary file's name

`getRandInt(0, 61)` reads an `int64`, negates it when negative (`v *= -1`, which wraps for the
minimum value) and indexes the alphabet with `v % 62` (Go's `%` truncates towards zero). -/

def int64Wrap (v : Int) : Int := (v + 2 ^ 63) % 2 ^ 64 - 2 ^ 63

def randIndex (v : Int) : Int :=
  let a := if v < 0 then int64Wrap (v * -1) else v
  a.tmod 62

end CJ.AtomicStore
