/-! # Several encodings alive at once (C15)

An encoder returns a slice; the slice is a view of an *object* (a `bytes.Buffer`, an array).  What the
caller holds is the object, not its content at the time of the return.  The model keeps the objects
explicit: a heap of buffer objects, the list of objects the caller holds (one per encoder call, in
order), and - for the counter-model - a free list (`sync.Pool`).

`Source.fresh` is what every encoder of the registration channels does in the code under test
(`new(bytes.Buffer)`, `make`, `append` to a fresh slice, a fresh `messageBuilder`): the object of call
`j` is never written again.  `Source.pooled` is `buf := pool.Get(); defer pool.Put(buf); …; return
buf.Bytes()`: the object is back in the pool when the caller receives the view of it.
Core Lean only. -/
namespace CJ.Alive

/-- where an encoder takes the object behind the slice it returns -/
inductive Source where
  | fresh
  | pooled
deriving DecidableEq, Repr

/-- one step of a caller's history: encode a value and keep what comes back; decode what call `j` returned -/
inductive Op (α : Type) where
  | enc (x : α)
  | dec (j : Nat)
deriving Repr

structure St (β α : Type) where
  /-- content of the buffer objects -/
  heap : List β := []
  /-- objects lying in the pool -/
  pool : List Nat := []
  /-- `held[j]` = the object behind the slice that encoder call `j` returned -/
  held : List Nat := []
  /-- what the decode operations answered -/
  out : List (Option α) := []

variable {α β : Type}

def step (src : Source) (enc : α → β) (dec : β → Option α) (s : St β α) : Op α → St β α
  | .enc x =>
    match src, s.pool with
    | .pooled, b :: _ => { s with heap := s.heap.set b (enc x), held := s.held ++ [b] }
    | .pooled, [] => { s with heap := s.heap ++ [enc x], pool := [s.heap.length], held := s.held ++ [s.heap.length] }
    | .fresh, _ => { s with heap := s.heap ++ [enc x], held := s.held ++ [s.heap.length] }
  | .dec j => { s with out := s.out ++ [(s.held[j]?).bind fun b => (s.heap[b]?).bind dec] }

def runFrom (src : Source) (enc : α → β) (dec : β → Option α) (s : St β α) (ops : List (Op α)) : St β α :=
  ops.foldl (step src enc dec) s

def run (src : Source) (enc : α → β) (dec : β → Option α) (ops : List (Op α)) : St β α :=
  runFrom src enc dec {} ops

/-- what a caller expects who thinks of encodings as values: `dec j` decodes the encoding of the `j`-th
encoded value (`xs` = the values encoded so far) -/
def specFrom (enc : α → β) (dec : β → Option α) (xs : List α) (out : List (Option α)) : List (Op α) → List (Option α)
  | [] => out
  | .enc x :: r => specFrom enc dec (xs ++ [x]) out r
  | .dec j :: r => specFrom enc dec xs (out ++ [(xs[j]?).bind fun x => dec (enc x)]) r

def spec (enc : α → β) (dec : β → Option α) (ops : List (Op α)) : List (Option α) := specFrom enc dec [] [] ops

/-- the history of the harness: values are numbered in the order they are encoded -/
def numbered : List (Option Nat) → Nat → List (Op Nat)
  | [], _ => []
  | none :: r, n => .enc n :: numbered r (n + 1)
  | some j :: r, n => .dec j :: numbered r n

end CJ.Alive
