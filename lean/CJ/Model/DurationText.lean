/-!
# `time.ParseDuration` on the configured lifetime text (Go 1.23 `time/format.go`)

`CachedLivenessTester.Init` (cached.go) turns the two configured strings `cache_expiration_time` /
`cache_expiration_nonlive` into the lifetimes of the live / non-live cache with `time.ParseDuration`.
Until this module the parser was a parameter of the liveness model (the case line carried its result).
Here it is mirrored branch by branch on the *bytes* of the text (a Go string is a byte sequence; the two
micro signs are multi-byte units):

* `[-+]?` then the special case `"0"`, then one or more `<digits>[.<digits>]<unit>` groups;
* `leadingInt` refuses a whole part above 2^63, `leadingFraction` silently stops accumulating;
* every group is converted to nanoseconds in **uint64** arithmetic with the overflow tests of the source
  (`v > 1<<63/unit`, `v > 1<<63` after the fraction, `d > 1<<63` after the sum) - the sum itself is
  reduced modulo 2^64 as the machine does (`wrap64`), which is observable: two groups of 2^63 ns add up
  to 0 (see the `example` in `CJ/Props/C18Config.lean`);
* the fraction's contribution is `uint64(float64(f) * (float64(unit) / scale))` - computed here with the
  same IEEE double operations (`Float`); no theorem depends on its value, the overflow test that follows
  it is what the range theorem uses;
* a negative sign negates the magnitude (2^63 itself is accepted only then).

The result is an `Int` of nanoseconds; `CJ.Props.C18Config.lifetime_in_int64` proves it always fits
`time.Duration` (so the `Int` of the liveness model and the machine's int64 agree).
Fuel: the group loop consumes at least one byte per round (the unit is not empty); `parse_total` proves
the fuel value `.fuel` is never returned.
-/
namespace CJ.DurationText

abbrev Bytes := List Nat

def two63 : Nat := 9223372036854775808
def two64 : Nat := 18446744073709551616

def isDigit (c : Nat) : Bool := decide (48 ≤ c) && decide (c ≤ 57)

/-- `c == '.' || '0' <= c && c <= '9'` -/
def isNumCh (c : Nat) : Bool := c == 46 || isDigit c

/-- uint64 arithmetic -/
def wrap64 (n : Nat) : Nat := n % two64

/-- `leadingInt`: consumes `[0-9]*`; `none` = `errLeadingInt` (the value would exceed 2^63). -/
def leadingInt : Nat → Bytes → Option (Nat × Bytes)
  | x, [] => some (x, [])
  | x, c :: s =>
    if isDigit c then
      if x > two63 / 10 then none
      else
        let x' := x * 10 + (c - 48)
        if x' > two63 then none else leadingInt x' s
    else some (x, c :: s)

/-- `leadingFraction`: consumes `[0-9]*`, never fails; once the value would overflow the remaining digits are
skipped (`overflow`).  `k` counts the accepted digits: the code's `scale` is the float64 obtained by multiplying
1 by 10 `k` times (leading zeros are accepted without limit, so `k` is unbounded). -/
def leadingFraction : Nat → Nat → Bool → Bytes → Nat × Nat × Bytes
  | x, k, _, [] => (x, k, [])
  | x, k, ovf, c :: s =>
    if isDigit c then
      if ovf then leadingFraction x k true s
      else if x > (two63 - 1) / 10 then leadingFraction x k true s
      else
        let y := x * 10 + (c - 48)
        if y > two63 then leadingFraction x k true s
        else leadingFraction y (k + 1) false s
    else (x, k, c :: s)

/-- the unit: everything up to the next `.` or digit -/
def unitSpan : Bytes → Bytes × Bytes
  | [] => ([], [])
  | c :: s => if isNumCh c then ([], c :: s) else ((c :: (unitSpan s).1), (unitSpan s).2)

/-- `unitMap` -/
def unitNs (u : Bytes) : Option Nat :=
  if u = [110, 115] then some 1                      -- "ns"
  else if u = [117, 115] then some 1000              -- "us"
  else if u = [194, 181, 115] then some 1000         -- "µs" U+00B5
  else if u = [206, 188, 115] then some 1000         -- "μs" U+03BC
  else if u = [109, 115] then some 1000000           -- "ms"
  else if u = [115] then some 1000000000             -- "s"
  else if u = [109] then some 60000000000            -- "m"
  else if u = [104] then some 3600000000000          -- "h"
  else none

/-- `scale *= 10`, `k` times, in float64 (exact up to 10^22, rounded as the machine rounds beyond) -/
def scaleF : Nat → Float
  | 0 => 1
  | k + 1 => scaleF k * 10

/-- `uint64(float64(f) * (float64(unit) / scale))` -/
def fracNs (f unit k : Nat) : Nat :=
  ((UInt64.ofNat f).toFloat * ((UInt64.ofNat unit).toFloat / scaleF k)).toUInt64.toNat

/-- the fraction after the whole part: `(f, accepted digits, post, rest)` -/
def fraction (s1 : Bytes) : Nat × Nat × Bool × Bytes :=
  match s1 with
  | 46 :: t =>
    let r := leadingFraction 0 0 false t
    (r.1, r.2.1, r.2.2.length != t.length, r.2.2)
  | _ => (0, 0, false, s1)

/-- one round of the loop in `ParseDuration`: one `<digits>[.<digits>]<unit>` group → its nanoseconds (as a
uint64) and the rest of the text; `none` = one of the `return 0, errors.New(…)` exits. -/
def group (s : Bytes) : Option (Nat × Bytes) :=
  match s with
  | [] => none
  | c :: _ =>
    if !(isNumCh c) then none else
    match leadingInt 0 s with
    | none => none
    | some (v, s1) =>
      let pre := s1.length != s.length
      let fr := fraction s1
      let f := fr.1
      let scale := fr.2.1
      let post := fr.2.2.1
      let s2 := fr.2.2.2
      if !pre && !post then none else
      let us := unitSpan s2
      if us.1 = [] then none else          -- "missing unit in duration"
      match unitNs us.1 with
      | none => none                        -- "unknown unit"
      | some unit =>
        if v > two63 / unit then none else
        let v1 := v * unit
        if f > 0 then
          let v2 := wrap64 (v1 + fracNs f unit scale)
          if v2 > two63 then none else some (v2, us.2)
        else some (v1, us.2)

inductive LoopRes
  | done (d : Nat)
  | err
  | fuel
deriving Repr, DecidableEq

/-- `for s != "" { … d += v; if d > 1<<63 { return error } }` -/
def loop : Nat → Bytes → Nat → LoopRes
  | _, [], d => .done d
  | 0, _ :: _, _ => .fuel
  | n + 1, c :: s, d =>
    match group (c :: s) with
    | none => .err
    | some (v, rest) =>
      let d' := wrap64 (d + v)
      if d' > two63 then .err else loop n rest d'

inductive Res
  | ok (ns : Int)
  | err
  | fuel
deriving Repr, DecidableEq

/-- `[-+]?` -/
def sign (s : Bytes) : Bool × Bytes :=
  match s with
  | 45 :: t => (true, t)
  | 43 :: t => (false, t)
  | _ => (false, s)

/-- `time.ParseDuration` -/
def parseDuration (s : Bytes) : Res :=
  let neg := (sign s).1
  let s1 := (sign s).2
  if s1 = [48] then .ok 0
  else if s1 = [] then .err
  else
    match loop s1.length s1 0 with
    | .fuel => .fuel
    | .err => .err
    | .done d =>
      if neg then .ok (-(d : Int))
      else if d > two63 - 1 then .err
      else .ok (d : Int)

end CJ.DurationText
