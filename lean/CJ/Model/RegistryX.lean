import CJ.Model.Registry
/-!
# Extended histories over the registry model

`CJ.Registry.Op` / `step` / `bstep` stay as they are (other properties unfold them).  This module adds,
on top of them, the operations that the station performs around `RegisteredDecoys` and that a history
of "registrations, duplicates, connections and sweeps" contains in the running system:

* `trackObj` / `registerObj` — `Track(d)` / `register(d)` handed an object `d` whose `Valid` flag already
  has some value (an object that was tracked and validated in an earlier lifetime and is delivered
  again after a sweep forgot it, or one that was constructed with the flag set).  `track` overwrites
  the flag of every object it stores (`d.Valid = false`), so the prior value is ignored.
* `tunnel` / `tunnelEnd` — `lib.Proxy(reg, conn)` is entered (it counts the tunnel on the registration
  object, `tunnelCount++`) / returns.  Proxying never touches the registry: open or finished tunnels
  have no say in expiry.
* `bulk` — a burst of `n` deliveries (track / register / markActive) for `n` distinct registrations;
  it is the list of the `n` base operations, nothing else (population size is a dimension of the
  histories, not new behaviour).
* `sweepBegin` / `sweepSome` / `sweepEnd` — ONE call of `removeOldRegistrations` in pieces: collection of
  the expired indices under the read lock; the removal loop handling some of the collected indices
  (in the order Go's map iteration happened to produce — the history says which); the loop handling
  the rest.  Whatever other goroutines do in between are the operations in between, at any position
  of the loop.
-/
open Std

namespace CJ.Registry

inductive XOp
  | base (o : Op)
  | trackObj (k : Key) (tr now : Nat) (prior : Bool)
  | registerObj (k : Key) (tr now : Nat) (prior : Bool)
  | tunnel (k : Key)
  | tunnelEnd (k : Key)
  | bulk (kind : Nat) (p pre : String) (start n tr now : Nat)
  | sweepBegin (now : Nat)
  | sweepSome (ks : List Key)
  | sweepEnd
deriving Repr

/-- a sweep in progress: its clock reading, how many indices it collected, the collected indices its
removal loop has not handled yet, and how many valid registrations it has removed so far -/
structure Pending where
  now : Nat
  collected : Nat
  todo : List Key
  valid : Nat

structure XSt where
  b : BSt := {}
  pending : Option Pending := none
  /-- tunnels that are open (one entry per running `Proxy` call) -/
  tunnels : List Key := []

def xinit : XSt := {}

/-- the base operations a burst stands for: `kind` 0 = track, 1 = register, otherwise markActive, for the
registrations `(p, pre ++ start)`, …, `(p, pre ++ (start+n-1))` -/
def bulkOps (kind : Nat) (p pre : String) (start n tr now : Nat) : List Op :=
  (List.range n).map fun i =>
    let k : Key := (p, pre ++ toString (start + i))
    match kind with
    | 0 => Op.track k tr now
    | 1 => Op.register k tr now
    | _ => Op.markActive k tr

/-- a list of base operations, outputs collected (most recent first) -/
def bsteps (c : Cfg) (ops : List Op) (b : BSt) : BSt × List Out :=
  ops.foldl (fun (acc : BSt × List Out) o =>
    let (b', out) := bstep c acc.1 o
    (b', out :: acc.2)) (b, [])

def xstep (c : Cfg) (x : XSt) : XOp → XSt × List Out
  | .base o => let (b', out) := bstep c x.b o; ({ x with b := b' }, [out])
  | .trackObj k tr now _ => let (b', out) := bstep c x.b (.track k tr now); ({ x with b := b' }, [out])
  | .registerObj k tr now _ => let (b', out) := bstep c x.b (.register k tr now); ({ x with b := b' }, [out])
  | .tunnel k => ({ x with tunnels := k :: x.tunnels }, [.ok])
  | .tunnelEnd k =>
    if x.tunnels.contains k then ({ x with tunnels := x.tunnels.erase k }, [.ok]) else (x, [.none])
  | .bulk kind p pre start n tr now =>
    let (b', outs) := bsteps c (bulkOps kind p pre start n tr now) x.b
    ({ x with b := b' }, outs.reverse)
  | .sweepBegin now =>
    let ks := collect c now x.b.st
    ({ x with pending := some ⟨now, ks.length, ks, 0⟩ }, [.ok])
  | .sweepSome ks =>
    match x.pending with
    | none => (x, [.err])
    | some p =>
      let ks' := ks.filter p.todo.contains
      let (b', v) := bremoveAll c p.now ks' x.b
      ({ x with b := b', pending := some { p with todo := p.todo.filter (fun k => !ks'.contains k), valid := p.valid + v } }, [.ok])
  | .sweepEnd =>
    match x.pending with
    | none => (x, [.err])
    | some p =>
      let (b', v) := bremoveAll c p.now p.todo x.b
      ({ x with b := b', pending := none }, [.swept p.collected (p.valid + v)])

def xrun (c : Cfg) (ops : List XOp) (x : XSt := xinit) : XSt :=
  ops.foldl (fun x o => (xstep c x o).1) x

end CJ.Registry
