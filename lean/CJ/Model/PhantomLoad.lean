import CJ.Model.Generations
/-!
# The subnet file in front of the selection (C14)

`SubnetsFromTomlFile` (pkg/phantoms/station_phantoms.go) ranges over the file's `Networks` tables — a Go
map, i.e. in any order — and hands every (key, configuration) to `AddGeneration`.  `AddGeneration` moves a
key that is -1 or already taken to "the next unused index", so with a key written twice (`1` and `01`) or
a negative key the table, and with it every selection, depended on the iteration order of that load.
`loadLoose` is that loop; `loadStrict` is the loop as repaired (fix-C14-load): a key `strconv.Atoi`
rejects, a negative key, or a number that is already in the table ends the load with an error.

`strconv.Atoi` and the TOML decoding are libraries: an entry carries what `Atoi` said about its key
(`none` = error).
-/
namespace CJ.PhantomLoad
open CJ.Generations CJ.Phantom

variable {α : Type}

abbrev Entry (α : Type) := Option Int × α

/-- the loop before the repair: every key `Atoi` accepts goes to `AddGeneration` -/
def loadLooseFrom : GMap α → List (Entry α) → Option (GMap α)
  | m, [] => some m
  | _, (none, _) :: _ => none
  | m, (some g, c) :: rest => loadLooseFrom (add m g c).1 rest

def loadLoose (es : List (Entry α)) : Option (GMap α) := loadLooseFrom [] es

/-- the loop as repaired: `g < 0` and `IsTakenGeneration(uint(g))` are errors -/
def loadStrictFrom : GMap α → List (Entry α) → Option (GMap α)
  | m, [] => some m
  | _, (none, _) :: _ => none
  | m, (some g, c) :: rest =>
    if g < 0 then none
    else if taken m (toUint g) = true then none
    else loadStrictFrom (add m g c).1 rest

def loadStrict (es : List (Entry α)) : Option (GMap α) := loadStrictFrom [] es

/-- a file entry whose key is the number `k` -/
def entry (e : Nat × α) : Entry α := (some (e.1 : Int), e.2)

/-- file → table → `Select`: `none` is the load error (the station does not start / keeps its table) -/
def selectFromFile (h : Hk) (es : List (Entry GenCfg)) (seed : Bytes) (gen ver : Nat) (v6 : Bool) :
    Option (Prog (Outcome Addr)) :=
  (loadStrict es).map fun m => stationSelect h (toCfg m) seed gen ver v6

end CJ.PhantomLoad
