/-!
# Model of `SCTPConn` (pkg/dtls/sctpconn.go): a byte stream on top of a message stream

*Read side.*  The stream below hands out whole messages; `SCTPConn.Read` keeps the current message in
`readBuffer` and hands it out piecewise (`readOffset`, `readLength`), stores the error that came with
the message (`readErr`) and returns it with the call that consumes the last byte; a caller buffer of
at least `maxMessageSize` bypasses the intermediate buffer when nothing is pending.

The stream below is a *script*: the results of its successive `Read`s (`Item`), then `endErr`
forever.  A message longer than the buffer it is read into is dropped with `short` (pion's
`io.ErrShortBuffer`; `hbConn.Read` answers `ErrInsufficientBuffer` and drops it likewise).

*Write side.*  `Write` refuses more than `writeMaxBufferedAmount/2` bytes, and waits for the wake-up
token (one-slot channel fed by `OnBufferedAmountLow`) when `BufferedAmount()+len` exceeds
`writeMaxBufferedAmount`.  The network is the environment: `drain k` acknowledges `k` buffered bytes
and fires the callback exactly when the amount crosses the threshold from above (pion's rule).
-/
namespace CJ.SctpConn

abbrev Bytes := List UInt8

inductive Err
  | eof | timeout | short | closed | other
deriving DecidableEq, Repr

/-- what one `Read` of the stream below returns: `n = data.length` bytes and an optional error -/
structure Item where
  data : Bytes
  err : Option Err := none
deriving DecidableEq, Repr

structure Script where
  items : List Item
  endErr : Err
deriving Repr

/-- one `stream.Read(buffer of length cap)` of the scripted stream -/
def Script.read (s : Script) (cap : Nat) : (Bytes × Option Err) × Script :=
  match s.items with
  | [] => (([], some s.endErr), s)
  | it :: rest =>
    if it.data.length ≤ cap then ((it.data, it.err), { s with items := rest })
    else (([], some .short), { s with items := rest })

/-- `readBuffer[:readLength]`, `readOffset`, `readErr` -/
structure RState where
  buf : Bytes := []
  off : Nat := 0
  err : Option Err := none
deriving Repr

/-- the copy-out half of `Read`: hand out at most `m` pending bytes; the stored error goes with the
call that consumes the last byte -/
def copyOut (st : RState) (m : Nat) : (Bytes × Option Err) × RState :=
  let n := min m (st.buf.length - st.off)
  let off' := st.off + n
  (((st.buf.drop st.off).take n, if off' = st.buf.length then st.err else none), { st with off := off' })

/-- `SCTPConn.Read(b)` with `len(b) = m` -/
def read (maxMsg : Nat) (st : RState) (s : Script) (m : Nat) : (Bytes × Option Err) × RState × Script :=
  if st.off = st.buf.length then
    if m ≥ maxMsg then
      -- bypass: read straight into the caller's buffer
      let (r, s') := s.read m
      (r, st, s')
    else
      let (r, s') := s.read maxMsg
      let (o, st') := copyOut { buf := r.1, off := 0, err := r.2 } m
      (o, st', s')
  else
    let (o, st') := copyOut st m
    (o, st', s)

/-- a sequence of `Read` calls with the given buffer sizes: results, final state, rest of the script -/
def run (maxMsg : Nat) : RState → Script → List Nat → List (Bytes × Option Err) × RState × Script
  | st, s, [] => ([], st, s)
  | st, s, m :: ms =>
    let r := read maxMsg st s m
    let rs := run maxMsg r.2.1 r.2.2 ms
    (r.1 :: rs.1, rs.2.1, rs.2.2)

def reads (maxMsg : Nat) (s : Script) (sizes : List Nat) : List (Bytes × Option Err) :=
  (run maxMsg {} s sizes).1

/-! ### write flow control -/

structure WState where
  buffered : Nat := 0            -- `stream.BufferedAmount()`
  token : Bool := false          -- the one-slot channel `s.write` holds a wake-up
  blocked : Option Nat := none   -- a `Write(len n)` is waiting in the `select`
  closed : Bool := false
deriving Repr, DecidableEq

inductive WOp
  | write (n : Nat)     -- `Write(b)`, `len(b) = n`, called while no write is blocked (writeMutex)
  | drain (k : Nat)     -- the network acknowledges `k` buffered bytes
  | hbWrite (n : Nat)   -- the heartbeat sender writes `n` bytes straight to the stream (no flow control)
  | close
deriving Repr

inductive WOut
  | wrote (n : Nat)     -- forwarded to the stream as one message
  | zero                -- 0-byte write skipped
  | limit               -- "write limit exceeded"
  | blocks              -- waits for the wake-up token
  | closedErr           -- blocked write released by `Close`
  | woke (n : Nat)      -- a blocked write got the token and was forwarded
  | busy                -- a write is already blocked (the mutex is held): the call waits
  | none
deriving Repr, DecidableEq

/-- `max = writeMaxBufferedAmount`; the low threshold is `max / 2` -/
def wstep (max : Nat) (s : WState) : WOp → WState × WOut
  | .write n =>
    if s.blocked.isSome then (s, .busy)
    else if n = 0 then (s, .zero)
    else if n > max / 2 then (s, .limit)
    else if s.buffered + n > max then
      if s.closed then (s, .closedErr)     -- `select` with `closed` ready (and no token preferred: see wake)
      else if s.token then ({ s with token := false, buffered := s.buffered + n }, .woke n)
      else ({ s with blocked := some n }, .blocks)
    else ({ s with buffered := s.buffered + n }, .wrote n)
  | .drain k =>
    let b' := s.buffered - k
    if s.buffered > max / 2 ∧ b' ≤ max / 2 then
      -- the amount crossed the threshold from above: the callback puts the token
      match s.blocked with
      | some n =>
        -- the blocked writer takes it and forwards its message
        ({ s with buffered := b' + n, blocked := none }, .woke n)
      | none => ({ s with buffered := b', token := true }, .none)
    else ({ s with buffered := b' }, .none)
  | .hbWrite n => ({ s with buffered := s.buffered + n }, .none)
  | .close =>
    match s.blocked with
    | some _ => ({ s with closed := true, blocked := none }, .closedErr)
    | none => ({ s with closed := true }, .none)

def wrun (max : Nat) (ops : List WOp) (s : WState := {}) : WState :=
  ops.foldl (fun s o => (wstep max s o).1) s

/-! ### what can end the wait of a blocked `Write`

`wstep` knows two ways out of the `select` in which an over-limit `Write` waits: `Close` (the write
fails) and the buffered-amount-low notification (the write goes on).  The shape of that wait is a
parameter here, so that the bound can be stated for *any* set of wake-up sources: a source other than
those two (a timer, a `default` case, some other channel) is an event of the environment, `fire`. -/

inductive Wake
  | closed   -- `<-s.closed`
  | low      -- `<-s.write`, fed by `OnBufferedAmountLow` only
  | timer    -- anything that becomes ready by the passing of time
  | other    -- any other channel, or a `default` case
deriving DecidableEq, Repr

inductive Exit
  | fail      -- `Write` returns an error without handing the message to the stream
  | proceed   -- the writer leaves the `select` and goes on
deriving DecidableEq, Repr

structure WaitShape where
  /-- the wait sits in a loop that evaluates `BufferedAmount()+len > max` again after a wake-up -/
  loops : Bool
  cases : List (Wake × Exit)
deriving DecidableEq, Repr

/-- the wait of `SCTPConn.Write` as it is in the source (an `if`, two cases) -/
def sourceShape : WaitShape := { loops := false, cases := [(.closed, .fail), (.low, .proceed)] }

def WaitShape.exitOf (sh : WaitShape) (w : Wake) : Option Exit :=
  (sh.cases.find? (fun c => c.1 = w)).map (·.2)

/-- a wake-up source becomes ready while a write may be waiting.  `closed` and `low` are driven by
`close` and `drain` (see `wstep`); every other source is free to fire at any moment. -/
def fire (sh : WaitShape) (max : Nat) (s : WState) (w : Wake) : WState × WOut :=
  match s.blocked with
  | none => (s, .none)
  | some n =>
    if w = .closed ∨ w = .low then (s, .none)
    else match sh.exitOf w with
      | none => (s, .none)                                    -- the `select` does not listen to it
      | some .fail => ({ s with blocked := none }, .closedErr)
      | some .proceed =>
        if sh.loops = true ∧ s.buffered + n > max then (s, .none)   -- looks again and keeps waiting
        else ({ s with buffered := s.buffered + n, blocked := none }, .woke n)

inductive GOp
  | op (o : WOp)
  | fire (w : Wake)
deriving Repr

def gstep (sh : WaitShape) (max : Nat) (s : WState) : GOp → WState × WOut
  | .op o => wstep max s o
  | .fire w => fire sh max s w

def grun (sh : WaitShape) (max : Nat) (ops : List GOp) (s : WState := {}) : WState :=
  ops.foldl (fun s o => (gstep sh max s o).1) s

/-- every case that lets the writer go on is the buffered-amount-low notification, or the bound is
looked at again -/
def WaitShape.safe (sh : WaitShape) : Bool :=
  sh.cases.all fun c => c.1 = .closed || c.1 = .low || c.2 = .fail || sh.loops

end CJ.SctpConn
