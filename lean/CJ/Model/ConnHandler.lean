/-!
# Model of `handleNewTCPConn` (cmd/application/conns.go) — the classification loop of the station

The handler is a function from an *event script* (what the successive `Read` calls on the client
connection return) to an *action trace* (what the handler does, in order).  The wrapping transports
are abstract classifiers `T → Bytes → Verdict R`; their concrete models (min / prefix / obfs4
matching against the registry) belong to C02 (`CJ/Model/Wrap.lean`).  The theorems of C03 and C04
are parametric in the classifiers.

Correspondence with the Go code, branch by branch:

* `getRemoteAsIP` / `GeoIP.CC` / `GeoIP.ASN` fail           → `Geo ≠ ok`  → the handler returns at once
* `clientConn.SetDeadline(now + 5..10 s)`                  → `setDeadline` (the value is a runtime
  quantity checked by the harness, not by the model)
* `count < 1` → `io.Copy(io.Discard, clientConn)`          → `discardUntilErr` then reads until an error
* `len(possibleTransports) < 1` → the same discard          → `discardUntilErr` …
* `clientConn.Read(buf)`; any error → return                → `readEnd e`, `ret`
* `received.Write(buf[:n])`; `for i, t := range possibleTransports` (Go map: **random order**, fresh on
  every pass)                                               → `sched i ts`, any permutation of `ts`
  * `ErrTryAgain` → keep, `ErrNotTransport` → `delete`, other error → `time.Sleep(until deadline)`,
    return; `nil` → clear the deadline, `MarkActive`, `Proxy(reg, wrapped)`, return
* the wrapped connection is `PrependToConn(conn, received)` after the transport consumed its tag:
  its byte stream is `buffer.drop consumed ++ (what the socket still delivers)`.

An exhausted script means the peer stays silent: the next `Read` reports the deadline.
Not modelled: statistics counters and log lines; a `Read` that returns bytes *and* an error (the
handler ignores such bytes; the harness' connections never do that); the branch for a transport
returning a registration that is not a `*DecoyRegistration` (the registration manager stores nothing else).
-/
namespace CJ.ConnHandler

abbrev Bytes := List UInt8

/-- what `WrapConnection` answers: `ErrTryAgain`, `ErrNotTransport`, any other error, or a
registration together with the number of buffered bytes the transport consumed (`data.Next`) -/
inductive Verdict (R : Type)
  | tryAgain | notT | err
  | found (r : R) (consumed : Nat)
deriving Repr, DecidableEq

/-- what one `Read` on the client connection returns -/
inductive Ev
  | data (bs : Bytes)
  | eof | reset | deadline | otherErr
deriving Repr, DecidableEq

/-- the error results of a `Read` -/
inductive Term | eof | reset | deadline | otherErr
deriving Repr, DecidableEq

/-- outcome of the remote-address / GeoIP preamble -/
inductive Geo | ok | nonIP | ccErr | asnErr
deriving Repr, DecidableEq

inductive Act (T R : Type)
  | setDeadline
  | readData (n : Nat)                       -- `Read` returned n bytes and no error
  | readEnd (e : Term)                       -- `Read` returned an error
  | query (t : T) (len : Nat) (v : Verdict R) -- `t.WrapConnection(&received, …)` with `received.Len() = len`
  | discardUntilErr                          -- the handler switches to `io.Copy(io.Discard, clientConn)`
  | sleepUntilDeadline                       -- `time.Sleep(time.Until(deadline))`
  | clearDeadline                            -- `SetDeadline(time.Time{})`
  | markActive (r : R)
  | proxy (r : R) (stream : Bytes)           -- `Proxy(reg, wrapped)`; `stream` = bytes `wrapped` yields (raw level)
  | ret
deriving Repr, DecidableEq

/-- bytes the socket still delivers: the data events up to the first error -/
def dataOf : List Ev → Bytes
  | [] => []
  | .data bs :: evs => bs ++ dataOf evs
  | _ :: _ => []

/-- `io.Copy(io.Discard, clientConn)` followed by `return`: read until the first error -/
def discard {T R : Type} : List Ev → List (Act T R)
  | [] => [.readEnd .deadline, .ret]
  | .data bs :: evs => .readData bs.length :: discard evs
  | .eof :: _ => [.readEnd .eof, .ret]
  | .reset :: _ => [.readEnd .reset, .ret]
  | .deadline :: _ => [.readEnd .deadline, .ret]
  | .otherErr :: _ => [.readEnd .otherErr, .ret]

inductive PassRes (T R : Type)
  | cont (keep : List T)
  | abort
  | found (r : R) (k : Nat)
deriving Repr

/-- one pass `for i, t := range possibleTransports` over the buffer `buf`; `keep` accumulates the
transports that stay possible (reversed) -/
def pass {T R : Type} (cls : T → Bytes → Verdict R) (buf : Bytes) :
    List T → List T → List (Act T R) × PassRes T R
  | [], keep => ([], .cont keep.reverse)
  | t :: ts, keep =>
    match cls t buf with
    | .tryAgain =>
      let p := pass cls buf ts (t :: keep)
      (.query t buf.length .tryAgain :: p.1, p.2)
    | .notT =>
      let p := pass cls buf ts keep
      (.query t buf.length .notT :: p.1, p.2)
    | .err => ([.query t buf.length .err], .abort)
    | .found r k => ([.query t buf.length (.found r k)], .found r k)

/-- the read loop (`readLoop:` in the Go code).  `i` counts the passes, `sched i ts` is the order in
which pass `i` visits the possible transports. -/
def loop {T R : Type} (cls : T → Bytes → Verdict R) (sched : Nat → List T → List T) :
    Nat → List T → Bytes → List Ev → List (Act T R)
  | _, [], _, evs => .discardUntilErr :: discard evs
  | _, _ :: _, _, [] => [.readEnd .deadline, .ret]
  | _, _ :: _, _, .eof :: _ => [.readEnd .eof, .ret]
  | _, _ :: _, _, .reset :: _ => [.readEnd .reset, .ret]
  | _, _ :: _, _, .deadline :: _ => [.readEnd .deadline, .ret]
  | _, _ :: _, _, .otherErr :: _ => [.readEnd .otherErr, .ret]
  | i, t :: ts, buf, .data c :: evs =>
    let p := pass cls (buf ++ c) (sched i (t :: ts)) []
    .readData c.length :: (p.1 ++
      match p.2 with
      | .cont ts' => loop cls sched (i + 1) ts' (buf ++ c) evs
      | .abort => [.sleepUntilDeadline, .ret]
      | .found r k => [.clearDeadline, .markActive r, .proxy r ((buf ++ c).drop k ++ dataOf evs), .ret])

/-- `handleNewTCPConn`: `count` = `CountRegistrations(phantom)`, `ts` = `GetWrappingTransports()` -/
def handler {T R : Type} (cls : T → Bytes → Verdict R) (sched : Nat → List T → List T)
    (geo : Geo) (count : Nat) (ts : List T) (evs : List Ev) : List (Act T R) :=
  match geo with
  | .ok =>
    .setDeadline ::
      (if count < 1 then .discardUntilErr :: discard evs else loop cls sched 0 ts [] evs)
  | _ => [.ret]

/-- Go's map iteration may visit the possible transports in any order, but visits exactly them -/
def SchedOk {T : Type} (sched : Nat → List T → List T) : Prop :=
  ∀ i ts t, t ∈ sched i ts ↔ t ∈ ts

/-- what the peer (and the network) can observe of a trace: classifier queries and the internal
switch to the discard loop are erased -/
def connView {T R : Type} : List (Act T R) → List (Act T R)
  | [] => []
  | .query _ _ _ :: as => connView as
  | .discardUntilErr :: as => connView as
  | a :: as => a :: connView as

end CJ.ConnHandler
