import CJ.Model.Covert
import CJ.Model.NetAddr
/-!
# Covert admission of address literals, computed from the text alone

`CJ.Covert.parseOrResolve` takes the standard library's answers about the covert string as parameters.  Here they
are *computed* by the models of `CJ.NetAddr`: the policy is a list of `IPNet`s as `net.ParseCIDR` builds them from
the configured strings, `Contains` is mask arithmetic on bytes, `IP.String` is the formatter, and the one
"resolution" of a literal host is `ParseAddr` (the literal branch of `lookupIPAddr`).  Only the regular expressions
of `covert_blocklist_domains` stay a parameter (`ms`), and host *names* (which need the resolver) are outside.
-/
namespace CJ.CovertLit
open CJ.Covert CJ.NetAddr

variable {Pat : Type}

/-- the library the station runs on, as modelled -/
def env (ms : Pat → String → Bool) : Env IPNet Pat (List Nat) :=
  { contains := contains
    matchString := ms
    ipText := fun ip => match ipString ip with | some t => String.ofList t | none => "<nil>"
    unspecified := isUnspecified }

/-- `net.ParseIP(provided)`, `net.SplitHostPort(provided)`, `strconv.ParseUint(port, 10, 16)`, `net.ParseIP(host)` -/
def answersOf (provided : String) : Answers :=
  let p := provided.toList
  match splitHostPort p with
  | none => { providedIsIP := (parseIP p).isSome, split := none, portOk := false, hostIsIP := false }
  | some (h, port) =>
    { providedIsIP := (parseIP p).isSome, split := some (String.ofList h, String.ofList port),
      portOk := (parseUint16 port).isSome, hostIsIP := (parseIP h).isSome }

/-- what `net.ResolveIPAddr("ip", host)` answers without consulting the resolver; `none` = a name -/
def litAnswer (provided : String) : Option (Resolved (List Nat)) :=
  match splitHostPort provided.toList with
  | none => some .err                                   -- never consulted
  | some (h, _) =>
    match resolveLiteral h with
    | .noIP => some (.addr none "")
    | .addr ip z => some (.addr (some ip) (String.ofList z))
    | .name => none

/-- `ParseBlocklists` as far as the covert lists go: every entry through `ParseCIDR`; `none` = a configuration
error.  `enableCovertAllowlist` iff the allowlist is not empty. -/
def mkPolicy (block allow : List String) (domains : List Pat) : Option (Policy IPNet Pat) := do
  let b ← block.mapM (fun s => parseCIDR s.toList)
  let a ← allow.mapM (fun s => parseCIDR s.toList)
  some { block := b, allow := a, enableAllow := !a.isEmpty, domains := domains }

/-- `ParseOrResolveBlocklisted(provided)` when it does not need the resolver: `none` = the host is a name and the
call gets as far as resolving it -/
def admitLit (ms : Pat → String → Bool) (pol : Policy IPNet Pat) (provided : String) : Option Result :=
  match litAnswer provided with
  | some r => some (parseOrResolve (env ms) pol (answersOf provided) (fun _ => r) 0)
  | none =>
    let r := parseOrResolve (env ms) pol (answersOf provided) (fun _ => .err) 0
    if r.cursor == 0 then some r else none              -- refused before the lookup: decided all the same

end CJ.CovertLit
