/-!
# Model of `halfPipe` and `Proxy` (pkg/station/lib/proxies.go)

`halfPipe(src, dst, wg, logger, tag, stats)` is modelled as a total function of the *results its two
connections return*: a read script (what each `src.Read` returned: bytes and an optional error, both at
once), a write script (how many of the offered bytes each `dst.Write` accepted and an optional error),
a `SetDeadline` script (one result per call, in call order: src, dst, src, dst, …) and the results of the
two `Close` calls.  Quantifying over all scripts covers every chunking, every fault position and kind,
and every effect the *other* direction of the proxy can have on this one (a connection closed by the
other direction simply shows up as a `closed` result in this direction's script).

The model mirrors the code branch by branch, in the order of the statements of the Go function:

```
defer cleanup()                      -- stats.duration, stats.completed, wg.Done()
defer { go closeConn(src); closeConn(dst) }
setConnDeadline(src) / (dst)         -- SetDeadline, on ENOTSUP SetReadDeadline; failure: log, return
for {
  nr, er := src.Read(buf)
  if nr > 0 { nw, ew := dst.Write(buf[:min(len(buf),nr)]); stats += nw; short write; ew != nil → stat, break }
  if er != nil { stat, break }
  setConnDeadline(src) / (dst)       -- failure: log, return
}
```

(`nr > 0` is handled before `er`, so that bytes returned together with an error or EOF are forwarded.)

Not modelled: the wall-clock values of the deadlines, `SetLinger` on `*net.TCPConn` (the scripted
connections of the harness are not TCP connections), the global epoch counters of `ProxyStats`.
-/
namespace CJ.HalfPipe

abbrev Bytes := List UInt8

/-- `buf := make([]byte, 32*1024)` -/
def bufLen : Nat := 32 * 1024

/-- Error classes as `generalizeErr` (proxies.go) tells them apart. -/
inductive Err
  | eof | closed | epipe
  | reset | refused | aborted | unreachable | timeout
  | shortWrite
  | other (txt : String)
deriving Repr, DecidableEq

/-- `generalizeErr(e)` followed by `.Error()`; `none` = generalised to `nil` (nothing is recorded). -/
def Err.stat : Err → Option String
  | .eof | .closed | .epipe => none
  | .reset => some "rst"
  | .refused => some "refused"
  | .aborted => some "aborted"
  | .unreachable => some "unreachable"
  | .timeout => some "timeout"
  | .shortWrite => some "short write"
  | .other t => some t

/-- one `src.Read`: the bytes placed in the buffer and the error returned *with* them -/
structure ReadRes where
  bytes : Bytes
  err : Option Err
deriving Repr, DecidableEq

/-- one `dst.Write`: the connection accepts `min accepted offered` bytes and may report an error -/
structure WriteRes where
  accepted : Nat
  err : Option Err
deriving Repr, DecidableEq

/-- result of one `setConnDeadline(c, t)` call: `c.SetDeadline(t)` succeeds, fails, or answers ENOTSUP
(an obfs4-wrapped connection), in which case the code falls back to `c.SetReadDeadline(t)`, which in
turn succeeds or fails (the repair made for C04). -/
inductive DlRes
  | ok | fail
  | unsupported (fallbackOk : Bool)
deriving Repr, DecidableEq

/-- overall result of `setConnDeadline` -/
def DlRes.succeeds : DlRes → Bool
  | .ok => true
  | .fail => false
  | .unsupported fb => fb

/-- `SetReadDeadline` was used -/
def DlRes.viaFallback : DlRes → Bool
  | .unsupported _ => true
  | _ => false

/-- calls made on the two connections, in order -/
inductive Ev
  | dl (onSrc : Bool) (ok : Bool) (fallback : Bool)
  | read (n : Nat) (err : Bool)
  | write (offered nw : Nat) (err : Bool)
deriving Repr, DecidableEq

/-- did the call succeed?  (a short write counts as a failure: the code turns it into one) -/
def Ev.ok : Ev → Bool
  | .dl _ ok _ => ok
  | .read _ err => !err
  | .write _ _ err => !err

structure Script where
  reads : List ReadRes
  writes : List WriteRes
  dls : List DlRes
  srcClose : Option Err := none
  dstClose : Option Err := none
deriving Repr

/-- what the read/write loop did -/
structure Res where
  trace : List Ev := []
  delivered : Bytes := []          -- bytes accepted by `dst`, in order
  counted : Nat := 0               -- sum of the `nw` passed to `stats.addBytes`
  readErr : Option Err := none     -- the read error that ended the loop
  writeErr : Option Err := none    -- the write error (or short write) that ended the loop
  dlFail : Option Bool := none     -- a failed `SetDeadline` (`some true` = on src) that ended the pipe
deriving Repr

def Res.prepend (evs : List Ev) (chunk : Bytes) (n : Nat) (r : Res) : Res :=
  { r with trace := evs ++ r.trace, delivered := chunk ++ r.delivered, counted := n + r.counted }

/-- an exhausted deadline script answers `ok` -/
def popDl : List DlRes → DlRes × List DlRes
  | [] => (.ok, [])
  | d :: t => (d, t)

/-- an exhausted write script accepts everything -/
def popW : List WriteRes → WriteRes × List WriteRes
  | [] => (⟨bufLen, none⟩, [])
  | w :: t => (w, t)

/-- one `setConnDeadline(c, …)`; `false` = it failed (the code logs and returns) -/
def arm (onSrc : Bool) (ds : List DlRes) : Ev × Bool × List DlRes :=
  let (d, ds') := popDl ds
  (.dl onSrc d.succeeds d.viaFallback, d.succeeds, ds')

/-- `setConnDeadline(src)` then `setConnDeadline(dst)`; stops at the first failure.
Result: events, the connection whose call failed, remaining script. -/
def armBoth (ds : List DlRes) : List Ev × Option Bool × List DlRes :=
  let (e1, ok1, ds1) := arm true ds
  if !ok1 then ([e1], some true, ds1) else
  let (e2, ok2, ds2) := arm false ds1
  if !ok2 then ([e1, e2], some false, ds2) else ([e1, e2], none, ds2)

structure WOut where
  ev : Ev
  chunk : Bytes
  nw : Nat
  ew : Option Err
  ws : List WriteRes

/-- `toWrite := min(len(buf), nr); nw, ew := dst.Write(buf[:toWrite]); if ew == nil && nw != nr { ew = ErrShortWrite }` -/
def writeStep (bs : Bytes) (ws : List WriteRes) : WOut :=
  let toWrite := bs.take bufLen
  let (w, ws') := popW ws
  let nw := min w.accepted toWrite.length
  let ew := match w.err with
    | some e => some e
    | none => if nw ≠ bs.length then some Err.shortWrite else none
  { ev := .write toWrite.length nw ew.isSome, chunk := toWrite.take nw, nw := nw, ew := ew, ws := ws' }

/-- the part of one iteration after the write: act on the read error, else refresh both deadlines and
go round again (`k`). -/
def afterWrite (er : Option Err) (ds : List DlRes) (k : List DlRes → Res) : Res :=
  match er with
  | some e => { readErr := some e }
  | none =>
    match armBoth ds with
    | (evs, some c, _) => { trace := evs, dlFail := some c }
    | (evs, none, ds') => (k ds').prepend evs [] 0

/-- the `for { … }` loop.  An exhausted read script reads `(0, EOF)`. -/
def loop : List ReadRes → List WriteRes → List DlRes → Res
  | [], _, _ => { trace := [.read 0 true], readErr := some .eof }
  | r :: rs, ws, ds =>
    let evR := Ev.read r.bytes.length r.err.isSome
    if 0 < r.bytes.length then
      let w := writeStep r.bytes ws
      match w.ew with
      | some e => { trace := [evR, w.ev], delivered := w.chunk, counted := w.nw, writeErr := some e }
      | none => (afterWrite r.err ds (fun ds' => loop rs w.ws ds')).prepend [evR, w.ev] w.chunk w.nw
    else
      (afterWrite r.err ds (fun ds' => loop rs ws ds')).prepend [evR] [] 0

/-- initial deadlines, then the loop -/
def run (s : Script) : Res :=
  match armBoth s.dls with
  | (evs, some c, _) => { trace := evs, dlFail := some c }
  | (evs, none, ds') => (loop s.reads s.writes ds').prepend evs [] 0

/-- the two error fields of `tunnelStats` (`""` = unset) -/
structure Stats where
  client : String := ""
  covert : String := ""
deriving Repr, DecidableEq

/-- the loop's assignments: a read error is attributed to the source side (client when uploading), a
write error to the destination side; both overwrite. -/
def applyLoopErr (up : Bool) (st : Stats) (r : Res) : Stats :=
  let st := match r.readErr.bind Err.stat with
    | some t => if up then { st with client := t } else { st with covert := t }
    | none => st
  match r.writeErr.bind Err.stat with
    | some t => if up then { st with covert := t } else { st with client := t }
    | none => st

/-- `closeConn(c, isSrc)`: the generalised close error is stored in both fields when it is the timeout
sentinel, else in the field chosen by `isUpload == isSrc` if that field is still empty. -/
def closeConn (up isSrc : Bool) (ce : Option Err) (st : Stats) : Stats :=
  match ce with
  | none => st
  | some e =>
    match e.stat with
    | none => st
    | some t =>
      if e = .timeout then { covert := t, client := t }
      else if up == isSrc then (if st.covert = "" then { st with covert := t } else st)
      else (if st.client = "" then { st with client := t } else st)

/-- observable result of one `halfPipe` call -/
structure Out where
  trace : List Ev
  delivered : Bytes
  counted : Nat          -- BytesUp (upload) / BytesDown (download) contributed by this call
  stats : Stats
  closedSrc : Nat        -- number of `Close` calls on src
  closedDst : Nat
  done : Nat             -- number of `wg.Done()` calls
  completed : Nat        -- number of `stats.completed` calls
  logs : Nat             -- "error setting deadline …" lines
deriving Repr

/-- `halfPipe`: every exit (loop `break`, `return` after a failed `SetDeadline`) runs both deferred
functions: close `dst` synchronously and `src` on its own goroutine, then `cleanup` (`wg.Done`).
The two closes commute on the statistics (`closeConn_comm`), so one order is fixed here. -/
def halfPipe (up : Bool) (st : Stats) (s : Script) : Out :=
  let r := run s
  let st1 := applyLoopErr up st r
  let st2 := closeConn up true s.srcClose (closeConn up false s.dstClose st1)
  { trace := r.trace, delivered := r.delivered, counted := r.counted, stats := st2,
    closedSrc := 1, closedDst := 1, done := 1, completed := 1,
    logs := if r.dlFail.isSome then 1 else 0 }

/-! ### `Proxy` -/

structure ProxyIn where
  dialErr : Option Err            -- result of `net.Dial("tcp", reg.Covert)`
  header : Option Bool            -- PROXY header: `none` = flag off, `some ok` = result of the write
  up : Script                     -- client → covert
  down : Script                   -- covert → client
deriving Repr

structure ProxyOut where
  started : Bool                  -- the two half pipes were started
  upOut : Option Out
  downOut : Option Out
  bytesUp : Nat
  bytesDown : Nat
  dialStat : String               -- tunnelStats.CovertDialErr
  gaugeAdds : Nat                 -- addSession calls
  gaugeRemoves : Nat              -- removeSession calls
  wgPending : Nat                 -- WaitGroup counter when `wg.Wait()` is reached
  returned : Bool                 -- `Proxy` returns (`wg.Wait()` does not block)
  printed : Nat                   -- "proxy closed" lines
  clientCloses : Nat              -- `Close` calls on the client connection
  covertCloses : Nat              -- `Close` calls on the covert connection (incl. the deferred one)
  panicked : Bool := false        -- nil `covertConn` dereferenced (see `proxy`)
deriving Repr

/-- `defer covertConn.Close()` on a nil interface: Go panics.  Reached when the dial error leaves
`CovertDialErr` empty (`generalizeErr` gives nil for the closed class; the empty text of
`errors.New("")`).  `net.Dial` does not return such errors, so this is latent; the model keeps it visible. -/
def proxyPanic : ProxyOut :=
  { started := false, upOut := none, downOut := none, bytesUp := 0, bytesDown := 0, dialStat := "",
    gaugeAdds := 0, gaugeRemoves := 0, wgPending := 0, returned := false, printed := 0,
    clientCloses := 0, covertCloses := 0, panicked := true }

/-- `Proxy`: dial; on a (generalised, non-empty) dial error print the stats and return.  Optional PROXY
header.  `wg.Add(2)`, gauge +1, two half pipes, `wg.Wait()`, gauge −1, print. -/
def proxy (i : ProxyIn) : ProxyOut :=
  match i.dialErr with
  | some e =>
    match e.stat with
    | none => proxyPanic
    | some t =>
      if t = "" then proxyPanic else
      { started := false, upOut := none, downOut := none, bytesUp := 0, bytesDown := 0, dialStat := t,
        gaugeAdds := 0, gaugeRemoves := 0, wgPending := 0, returned := true, printed := 1,
        clientCloses := 0, covertCloses := 0 }
  | none =>
    if i.header = some false then
      { started := false, upOut := none, downOut := none, bytesUp := 0, bytesDown := 0, dialStat := "",
        gaugeAdds := 0, gaugeRemoves := 0, wgPending := 0, returned := true, printed := 0,
        clientCloses := 0, covertCloses := 1 }
    else
      let u := halfPipe true {} i.up
      let d := halfPipe false {} i.down
      let pending := 2 - u.done - d.done
      { started := true, upOut := some u, downOut := some d, bytesUp := u.counted, bytesDown := d.counted,
        dialStat := "", gaugeAdds := 1, gaugeRemoves := if pending = 0 then 1 else 0,
        wgPending := pending, returned := pending = 0, printed := if pending = 0 then 1 else 0,
        clientCloses := u.closedSrc + d.closedDst, covertCloses := u.closedDst + d.closedSrc + 1 }

end CJ.HalfPipe
