/-!
# Model of `halfPipe` and `Proxy` (pkg/station/lib/proxies.go)

`halfPipe(src, dst, wg, logger, tag, stats)` is modelled as a total function of the *results its two
connections return*: a read script (what each `src.Read` returned: bytes and an optional error, both at
once), a write script (how many of the offered bytes each `dst.Write` accepted and an optional error),
a `SetDeadline` script (one result per call, in call order: src, dst, src, dst, …) and the results of the
two `Close` calls.  Quantifying over all scripts covers every chunking, every fault position and kind,
and every effect the *other* direction of the proxy can have on this one (a connection closed by the
other direction simply shows up as a `closed` result in this direction's script).

The model mirrors the code branch by branch, in the order of the statements of the Go function:

```
defer cleanup()                      -- stats.duration, stats.completed, wg.Done()
defer { go closeConn(src); closeConn(dst) }
setConnDeadline(src) / (dst)         -- SetDeadline, on ENOTSUP SetReadDeadline; failure: log, return
for {
  nr, er := src.Read(buf)
  if nr > 0 { nw, ew := dst.Write(buf[:min(len(buf),nr)]); stats += nw; short write; ew != nil → stat, break }
  if er != nil { stat, break }
  setConnDeadline(src) / (dst)       -- failure: log, return
}
```

(`nr > 0` is handled before `er`, so that bytes returned together with an error or EOF are forwarded.)

The read/write loop is `loop`; the function around it (the two `defer`s, the initial deadlines, the exits)
is a statement list interpreted with an explicit defer stack (`Stmt`, `exec`), so that what an exit tears
down is computed, not asserted.  `Proxy` is a statement list as well (`PStmt`, `execP`).

Not modelled here: the instants of the deadlines (each `setConnDeadline` is a scripted ok / fail; *when* the
deadlines expire, and that traffic in either direction keeps both connections alive, is the subject of
`CJ/Model/RelayClock.lean`), `SetLinger` on `*net.TCPConn` (the scripted connections of the harness are not
TCP connections), the global epoch counters of `ProxyStats`.
-/
namespace CJ.HalfPipe

abbrev Bytes := List UInt8

/-- `buf := make([]byte, 32*1024)` -/
def bufLen : Nat := 32 * 1024

/-- Error classes as `generalizeErr` (proxies.go) tells them apart. -/
inductive Err
  | eof | closed | epipe
  | reset | refused | aborted | unreachable | timeout
  | shortWrite
  | other (txt : String)
deriving Repr, DecidableEq

/-- `generalizeErr(e)` followed by `.Error()`; `none` = generalised to `nil` (nothing is recorded). -/
def Err.stat : Err → Option String
  | .eof | .closed | .epipe => none
  | .reset => some "rst"
  | .refused => some "refused"
  | .aborted => some "aborted"
  | .unreachable => some "unreachable"
  | .timeout => some "timeout"
  | .shortWrite => some "short write"
  | .other t => some t

/-- one `src.Read`: the bytes placed in the buffer and the error returned *with* them -/
structure ReadRes where
  bytes : Bytes
  err : Option Err
deriving Repr, DecidableEq

/-- one `dst.Write`: the connection accepts `min accepted offered` bytes and may report an error -/
structure WriteRes where
  accepted : Nat
  err : Option Err
deriving Repr, DecidableEq

/-- result of one `setConnDeadline(c, t)` call: `c.SetDeadline(t)` succeeds, fails, or answers ENOTSUP
(an obfs4-wrapped connection), in which case the code falls back to `c.SetReadDeadline(t)`, which in
turn succeeds or fails (the repair made for C04). -/
inductive DlRes
  | ok | fail
  | unsupported (fallbackOk : Bool)
deriving Repr, DecidableEq

/-- overall result of `setConnDeadline` -/
def DlRes.succeeds : DlRes → Bool
  | .ok => true
  | .fail => false
  | .unsupported fb => fb

/-- `SetReadDeadline` was used -/
def DlRes.viaFallback : DlRes → Bool
  | .unsupported _ => true
  | _ => false

/-- calls made on the two connections, in order -/
inductive Ev
  | dl (onSrc : Bool) (ok : Bool) (fallback : Bool)
  | read (n : Nat) (err : Bool)
  | write (offered nw : Nat) (err : Bool)
deriving Repr, DecidableEq

/-- did the call succeed?  (a short write counts as a failure: the code turns it into one) -/
def Ev.ok : Ev → Bool
  | .dl _ ok _ => ok
  | .read _ err => !err
  | .write _ _ err => !err

structure Script where
  reads : List ReadRes
  writes : List WriteRes
  dls : List DlRes
  srcClose : Option Err := none
  dstClose : Option Err := none
deriving Repr

/-- what the read/write loop did -/
structure Res where
  trace : List Ev := []
  delivered : Bytes := []          -- bytes accepted by `dst`, in order
  counted : Nat := 0               -- sum of the `nw` passed to `stats.addBytes`
  readErr : Option Err := none     -- the read error that ended the loop
  writeErr : Option Err := none    -- the write error (or short write) that ended the loop
  dlFail : Option Bool := none     -- a failed `SetDeadline` (`some true` = on src) that ended the pipe
deriving Repr

def Res.prepend (evs : List Ev) (chunk : Bytes) (n : Nat) (r : Res) : Res :=
  { r with trace := evs ++ r.trace, delivered := chunk ++ r.delivered, counted := n + r.counted }

/-- an exhausted deadline script answers `ok` -/
def popDl : List DlRes → DlRes × List DlRes
  | [] => (.ok, [])
  | d :: t => (d, t)

/-- an exhausted write script accepts everything -/
def popW : List WriteRes → WriteRes × List WriteRes
  | [] => (⟨bufLen, none⟩, [])
  | w :: t => (w, t)

/-- one `setConnDeadline(c, …)`; `false` = it failed (the code logs and returns) -/
def arm (onSrc : Bool) (ds : List DlRes) : Ev × Bool × List DlRes :=
  let (d, ds') := popDl ds
  (.dl onSrc d.succeeds d.viaFallback, d.succeeds, ds')

/-- `setConnDeadline(src)` then `setConnDeadline(dst)`; stops at the first failure.
Result: events, the connection whose call failed, remaining script. -/
def armBoth (ds : List DlRes) : List Ev × Option Bool × List DlRes :=
  let (e1, ok1, ds1) := arm true ds
  if !ok1 then ([e1], some true, ds1) else
  let (e2, ok2, ds2) := arm false ds1
  if !ok2 then ([e1, e2], some false, ds2) else ([e1, e2], none, ds2)

structure WOut where
  ev : Ev
  chunk : Bytes
  nw : Nat
  ew : Option Err
  ws : List WriteRes

/-- `toWrite := min(len(buf), nr); nw, ew := dst.Write(buf[:toWrite]); if ew == nil && nw != nr { ew = ErrShortWrite }` -/
def writeStep (bs : Bytes) (ws : List WriteRes) : WOut :=
  let toWrite := bs.take bufLen
  let (w, ws') := popW ws
  let nw := min w.accepted toWrite.length
  let ew := match w.err with
    | some e => some e
    | none => if nw ≠ bs.length then some Err.shortWrite else none
  { ev := .write toWrite.length nw ew.isSome, chunk := toWrite.take nw, nw := nw, ew := ew, ws := ws' }

/-- the part of one iteration after the write: act on the read error, else refresh both deadlines and
go round again (`k`). -/
def afterWrite (er : Option Err) (ds : List DlRes) (k : List DlRes → Res) : Res :=
  match er with
  | some e => { readErr := some e }
  | none =>
    match armBoth ds with
    | (evs, some c, _) => { trace := evs, dlFail := some c }
    | (evs, none, ds') => (k ds').prepend evs [] 0

/-- the `for { … }` loop.  An exhausted read script reads `(0, EOF)`. -/
def loop : List ReadRes → List WriteRes → List DlRes → Res
  | [], _, _ => { trace := [.read 0 true], readErr := some .eof }
  | r :: rs, ws, ds =>
    let evR := Ev.read r.bytes.length r.err.isSome
    if 0 < r.bytes.length then
      let w := writeStep r.bytes ws
      match w.ew with
      | some e => { trace := [evR, w.ev], delivered := w.chunk, counted := w.nw, writeErr := some e }
      | none => (afterWrite r.err ds (fun ds' => loop rs w.ws ds')).prepend [evR, w.ev] w.chunk w.nw
    else
      (afterWrite r.err ds (fun ds' => loop rs ws ds')).prepend [evR] [] 0

/-- initial deadlines, then the loop -/
def run (s : Script) : Res :=
  match armBoth s.dls with
  | (evs, some c, _) => { trace := evs, dlFail := some c }
  | (evs, none, ds') => (loop s.reads s.writes ds').prepend evs [] 0

/-- the two error fields of `tunnelStats` (`""` = unset) -/
structure Stats where
  client : String := ""
  covert : String := ""
deriving Repr, DecidableEq

/-- the loop's assignments: a read error is attributed to the source side (client when uploading), a
write error to the destination side; both overwrite. -/
def applyLoopErr (up : Bool) (st : Stats) (r : Res) : Stats :=
  let st := match r.readErr.bind Err.stat with
    | some t => if up then { st with client := t } else { st with covert := t }
    | none => st
  match r.writeErr.bind Err.stat with
    | some t => if up then { st with covert := t } else { st with client := t }
    | none => st

/-- `closeConn(c, isSrc)`: the generalised close error is stored in both fields when it is the timeout
sentinel, else in the field chosen by `isUpload == isSrc` if that field is still empty. -/
def closeConn (up isSrc : Bool) (ce : Option Err) (st : Stats) : Stats :=
  match ce with
  | none => st
  | some e =>
    match e.stat with
    | none => st
    | some t =>
      if e = .timeout then { covert := t, client := t }
      else if up == isSrc then (if st.covert = "" then { st with covert := t } else st)
      else (if st.client = "" then { st with client := t } else st)

/-! ### the function body as a statement list with a defer stack

`halfPipe` leaves through a `return` after a failed `setConnDeadline` (two places before the loop, two
inside it) or by falling off its end after a `break`.  Which deferred functions run then depends on
*where the `defer` statements stand*: a `defer` registered below an exit is not run by that exit.  The
model therefore interprets the top-level statements of the function (`Stmt`) with an explicit defer
stack; the statement list of the real function is regenerated from the Go source on every run
(`CJ/Gen/RelayShape.lean`) and the tear-down theorems of `CJ/Props/C05.lean` are stated for every
statement list whose `defer`s precede its first exit, and instantiated with the regenerated one. -/

/-- one observable action of a deferred function of `halfPipe` -/
inductive Act
  | spawnCloseSrc      -- `go closeConn(src, true)`
  | closeSrc           -- `closeConn(src, true)` on the calling goroutine
  | spawnCloseDst      -- `go closeConn(dst, false)`
  | closeDst           -- `closeConn(dst, false)` on the calling goroutine
  | duration           -- `stats.duration(…)`
  | completed          -- `stats.completed(isUpload)`
  | wgDone             -- `wg.Done()`
deriving Repr, DecidableEq

/-- a top-level statement of `halfPipe`, as the extractor classifies it -/
inductive Stmt
  | deferActs (acts : List Act)   -- `defer f()` / `defer func() { … }()`: what the deferred body does, in order
  | arm (onSrc : Bool)            -- `err := setConnDeadline(src|dst, …)`
  | retIfErr (logs : Bool)        -- `if err != nil { [logger.Errorln(…)]; return }`
  | loop                          -- `for { … }`: the relay loop (`break`s and `return`s inside, no `defer`)
  | other                         -- a statement that cannot leave the function and defers nothing
  | unknown                       -- anything else that contains `return`, `defer`, `goto` or a label
deriving Repr, DecidableEq

/-- why the direction ended -/
inductive Exit
  | dlInit (onSrc : Bool)         -- `return` after a failed initial `setConnDeadline`
  | readErr | writeErr            -- `break` out of the loop
  | dlRefresh (onSrc : Bool)      -- `return` after a failed refresh inside the loop
  | unknown                       -- a `return` the model does not interpret
  | fellOff                       -- end of a body without a loop
deriving Repr, DecidableEq

/-- the statement skeleton of `halfPipe` as the model's answers assume it (reviewed against the source;
`CJ.Props.C05.halfpipe_skeleton_matches` compares it with the regenerated one on every run) -/
def canonical : List Stmt :=
  [.deferActs [.duration, .completed, .wgDone],
   .deferActs [.spawnCloseSrc, .closeDst],
   .arm true, .retIfErr true, .arm false, .retIfErr true,
   .loop]

structure Run where
  res : Res := {}
  exit : Exit
  ran : List Act          -- deferred actions executed by this exit, in execution order
  logs : Nat := 0         -- "error setting deadline …" lines
deriving Repr

def Run.prepend (evs : List Ev) (x : Run) : Run := { x with res := x.res.prepend evs [] 0 }

/-- Go runs deferred calls last-in-first-out; the stack is kept top first -/
def unwind (stack : List (List Act)) : List Act := stack.flatten

def loopExit (r : Res) : Exit := if r.writeErr.isSome then .writeErr else .readErr

/-- Interpreter of a statement list.  `stack`: deferred bodies registered so far (top first); `ds`: the
remaining `SetDeadline` script; `failed`: the connection whose latest `setConnDeadline` failed (`err != nil`).
Statements after the loop are interpreted for their `defer`s and exits only (the real function has none). -/
def exec (s : Script) : List Stmt → List (List Act) → List DlRes → Option Bool → Run
  | [], stack, _, _ => { exit := .fellOff, ran := unwind stack }
  | .deferActs a :: p, stack, ds, f => exec s p (a :: stack) ds f
  | .other :: p, stack, ds, f => exec s p stack ds f
  | .unknown :: _, stack, _, _ => { exit := .unknown, ran := unwind stack }
  | .arm onSrc :: p, stack, ds, _ =>
    let a := arm onSrc ds
    (exec s p stack a.2.2 (if a.2.1 then none else some onSrc)).prepend [a.1]
  | .retIfErr logs :: p, stack, ds, f =>
    match f with
    | some c => { res := { dlFail := some c }, exit := .dlInit c, ran := unwind stack, logs := if logs then 1 else 0 }
    | none => exec s p stack ds none
  | .loop :: p, stack, ds, _ =>
    let r := loop s.reads s.writes ds
    match r.dlFail with
    | some c => { res := r, exit := .dlRefresh c, ran := unwind stack, logs := 1 }
    | none =>
      let x := exec s p stack [] none
      { res := r, exit := if x.exit = .fellOff then loopExit r else x.exit, ran := x.ran, logs := x.logs }

/-- observable result of one `halfPipe` call -/
structure Out where
  trace : List Ev
  delivered : Bytes
  counted : Nat          -- BytesUp (upload) / BytesDown (download) contributed by this call
  stats : Stats
  closedSrc : Nat        -- number of `Close` calls on src
  closedDst : Nat
  done : Nat             -- number of `wg.Done()` calls
  completed : Nat        -- number of `stats.completed` calls
  logs : Nat             -- "error setting deadline …" lines
  exit : Exit
  teardown : List Act    -- the deferred actions the exit ran, in order
deriving Repr

/-- `halfPipe` with the statement list `prog`: the loop's error assignments, then whatever the exit's
deferred functions do.  The two closes commute on the statistics (`closeConn_comm`), so one order is
fixed here; a close that does not happen records nothing. -/
def halfPipeP (prog : List Stmt) (up : Bool) (st : Stats) (s : Script) : Out :=
  let x := exec s prog [] s.dls none
  let nSrc := x.ran.count .spawnCloseSrc + x.ran.count .closeSrc
  let nDst := x.ran.count .spawnCloseDst + x.ran.count .closeDst
  let st1 := applyLoopErr up st x.res
  let st2 := if nDst = 0 then st1 else closeConn up false s.dstClose st1
  let st3 := if nSrc = 0 then st2 else closeConn up true s.srcClose st2
  { trace := x.res.trace, delivered := x.res.delivered, counted := x.res.counted, stats := st3,
    closedSrc := nSrc, closedDst := nDst, done := x.ran.count .wgDone, completed := x.ran.count .completed,
    logs := x.logs, exit := x.exit, teardown := x.ran }

/-- `halfPipe` as it stands in proxies.go -/
def halfPipe (up : Bool) (st : Stats) (s : Script) : Out := halfPipeP canonical up st s

/-! ### `Proxy` -/

structure ProxyIn where
  dialErr : Option Err            -- result of `net.Dial("tcp", reg.Covert)`
  header : Option Bool            -- PROXY header: `none` = flag off, `some ok` = result of the write
  up : Script                     -- client → covert
  down : Script                   -- covert → client
deriving Repr

structure ProxyOut where
  started : Bool                  -- the two half pipes were started
  upOut : Option Out
  downOut : Option Out
  bytesUp : Nat
  bytesDown : Nat
  dialStat : String               -- tunnelStats.CovertDialErr
  stats : Stats                   -- tunnelStats.ClientConnErr / CovertConnErr when `Proxy` returns
  gaugeAdds : Nat                 -- addSession calls
  gaugeRemoves : Nat              -- removeSession calls
  wgPending : Int                 -- WaitGroup counter when `wg.Wait()` is reached (0 if it is not reached)
  returned : Bool                 -- `Proxy` returns (`wg.Wait()` does not block)
  printed : Nat                   -- "proxy closed" lines
  clientCloses : Nat              -- `Close` calls on the client connection
  covertCloses : Nat              -- `Close` calls on the covert connection (incl. the deferred one)
  panicked : Bool := false        -- nil `covertConn` dereferenced (see `execP`)
deriving Repr

/-- a top-level statement of `Proxy`, as the extractor classifies it -/
inductive PStmt
  | dial                          -- `covertConn, err := net.Dial(…)`; `CovertDialErr = generalizeErr(err).Error()`
  | retIfDialErr (prints : Bool)  -- `if tunStats.CovertDialErr != "" { [tunStats.Print]; return }`
  | deferCloseCovert              -- `defer covertConn.Close()`
  | header                        -- `if flag { err = writePROXYHeader(…); if err != nil { log; return } }`
  | wgAdd (n : Nat)               -- `wg.Add(n)`
  | addSession | removeSession    -- the session gauge
  | goHalf (up : Bool)            -- `go halfPipe(…, &wg, …, "Up …"|"Down …", tunStats)`
  | wgWait                        -- `wg.Wait()`
  | print                         -- `tunStats.Print(logger)`
  | other
  | unknown                       -- anything else that contains `return`, `defer`, `go`, `goto`
deriving Repr, DecidableEq

/-- the statement skeleton of `Proxy` the model's answers assume (compared with the regenerated one by
`CJ.Props.C05.proxy_skeleton_matches`) -/
def canonicalP : List PStmt :=
  [.dial, .retIfDialErr true, .deferCloseCovert, .header, .wgAdd 2, .addSession, .goHalf true, .goHalf false,
   .wgWait, .removeSession, .print]

structure PState where
  dialStat : String := ""
  covertNil : Bool := false       -- `net.Dial` failed: `covertConn` is a nil interface
  deferred : Nat := 0             -- deferred `covertConn.Close()` calls
  wg : Int := 0
  adds : Nat := 0
  removes : Nat := 0
  printed : Nat := 0
  clientCloses : Nat := 0
  covertCloses : Nat := 0
  up : Option Out := none
  down : Option Out := none
  stats : Stats := {}
deriving Repr

def PState.finish (st : PState) (returned : Bool) (pending : Int := 0) (panicked : Bool := false) : ProxyOut :=
  { started := st.up.isSome || st.down.isSome, upOut := st.up, downOut := st.down,
    bytesUp := (st.up.map (·.counted)).getD 0, bytesDown := (st.down.map (·.counted)).getD 0,
    dialStat := st.dialStat, stats := st.stats, gaugeAdds := st.adds, gaugeRemoves := st.removes,
    wgPending := pending, returned := returned, printed := st.printed, clientCloses := st.clientCloses,
    covertCloses := st.covertCloses + (if returned then st.deferred else 0), panicked := panicked }

/-- Interpreter of the statement list of `Proxy`.  The two directions run concurrently in the code; here
the download direction starts from the statistics the upload direction left (the Proxy-level observables
compared with the code — byte counts, closes, the error strings of scenarios in which only one direction
records an error — do not depend on the interleaving).  `defer covertConn.Close()` on a nil interface
panics: reached when the dial error leaves `CovertDialErr` empty (`generalizeErr` gives nil for the closed
class; the empty text of `errors.New("")`).  `net.Dial` does not return such errors, so this is latent; the
model keeps it visible. -/
def execP (i : ProxyIn) : List PStmt → PState → ProxyOut
  | [], st => st.finish true
  | .other :: p, st => execP i p st
  | .unknown :: _, st => st.finish true
  | .dial :: p, st =>
    match i.dialErr with
    | none => execP i p st
    | some e => execP i p { st with covertNil := true, dialStat := (e.stat).getD "" }
  | .retIfDialErr prints :: p, st =>
    if st.dialStat ≠ "" then { st with printed := st.printed + (if prints then 1 else 0) }.finish true
    else execP i p st
  | .deferCloseCovert :: p, st =>
    if st.covertNil then st.finish false 0 true else execP i p { st with deferred := st.deferred + 1 }
  | .header :: p, st =>
    if st.covertNil then st.finish false 0 true
    else if i.header = some false then st.finish true else execP i p st
  | .wgAdd n :: p, st => execP i p { st with wg := st.wg + n }
  | .addSession :: p, st => execP i p { st with adds := st.adds + 1 }
  | .removeSession :: p, st => execP i p { st with removes := st.removes + 1 }
  | .goHalf up :: p, st =>
    if st.covertNil then st.finish false 0 true else
    let o := halfPipe up st.stats (if up then i.up else i.down)
    let st' := { st with wg := st.wg - o.done, stats := o.stats,
                         clientCloses := st.clientCloses + (if up then o.closedSrc else o.closedDst),
                         covertCloses := st.covertCloses + (if up then o.closedDst else o.closedSrc) }
    execP i p (if up then { st' with up := some o } else { st' with down := some o })
  | .wgWait :: p, st => if st.wg = 0 then execP i p st else st.finish false st.wg
  | .print :: p, st => execP i p { st with printed := st.printed + 1 }

/-- `Proxy` as it stands in proxies.go -/
def proxy (i : ProxyIn) : ProxyOut := execP i canonicalP {}

end CJ.HalfPipe
