/-!
# The ingest pipeline with message identities (`HandleRegUpdates` / `startIngestThread`), C09

`CJ/Model/Pipeline.lean` counts messages.  This model carries every message (an identity and whether it
parses) from the input channel through the shallow buffer into a worker's hand and to its end
(dropped / processed / rejected), and keeps the two statistics counters of the distributor
(`addIngestMessage`, `addDroppedMessage`) next to ghost lists of what really happened, so that "no message
is lost or duplicated between source and worker", "the buffer is bounded", "hand-off is first-in first-out",
"dropped AND counted, exactly once" and "winds down after a stop request" are statements about every schedule.

Workers are interchangeable goroutines running the same loop: the state keeps how many are parked in their
`select` (`idle`), what the others hold (`hand`), and how many have returned (`exited`).

Distributor (`registration_ingest.go`): `for ctx.Err() == nil { select { <-ctx.Done: break | msg := <-in:
addIngestMessage(); select { buf <- msg | default: addDroppedMessage() } } }; wg.Wait()`.
Worker: `for { select { <-ctx.Done: return | msg := <-buf: parse (error: log, continue); ingest } }`.
`workers = IngestWorkerCount` or 300 when that is 0; buffer capacity `workers / 10`.
-/
namespace CJ.PipelineMsg

inductive Kind | valid | bad
deriving Repr, DecidableEq

structure Msg where
  id : Nat
  kind : Kind
deriving Repr, DecidableEq

inductive Dist | loop | waiting | done
deriving Repr, DecidableEq

structure St where
  cap : Nat
  buf : List Msg := []          -- the shallow buffer, head = oldest
  hand : List Msg := []         -- messages held by workers (parse / ingest in progress)
  idle : Nat                    -- workers parked in their select
  exited : Nat := 0
  cancelled : Bool := false
  dist : Dist := .loop
  recvCtr : Nat := 0            -- rm.addIngestMessage
  dropCtr : Nat := 0            -- rm.addDroppedMessage
  -- ghost history
  recv : List Msg := []         -- taken from the input channel, in order
  fwd : List Msg := []          -- handed to the buffer or directly to a worker, in order
  taken : List Msg := []        -- received by a worker, in order
  dropped : List Msg := []
  processed : List Msg := []
  rejected : List Msg := []
deriving Repr

inductive Act
  | cancel
  /-- one iteration of the distributor; `input` = the message the environment offers at that moment -/
  | dist (input : Option Msg)
  /-- a parked worker's select receives the head of the buffer -/
  | take
  /-- a parked worker's select takes the Done branch -/
  | exit
  /-- the worker holding `m` is through with it (parse error → rejected, else ingested) and is back at its select -/
  | finish (m : Msg)
deriving Repr

def step (s : St) : Act → St
  | .cancel => { s with cancelled := true }
  | .dist input =>
    match s.dist with
    | .loop =>
      if s.cancelled then { s with dist := .waiting }
      else match input with
        | none => s
        | some m =>
          -- counted first, then the non-blocking hand-off: to a worker blocked in receive (only while the
          -- buffer is empty), else into the buffer if there is room, else dropped and counted
          if s.buf = [] ∧ 0 < s.idle then
            { s with recvCtr := s.recvCtr + 1, recv := s.recv ++ [m], fwd := s.fwd ++ [m], taken := s.taken ++ [m],
                     hand := m :: s.hand, idle := s.idle - 1 }
          else if s.buf.length < s.cap then
            { s with recvCtr := s.recvCtr + 1, recv := s.recv ++ [m], fwd := s.fwd ++ [m], buf := s.buf ++ [m] }
          else
            { s with recvCtr := s.recvCtr + 1, recv := s.recv ++ [m], dropCtr := s.dropCtr + 1, dropped := s.dropped ++ [m] }
    | .waiting => if s.idle = 0 ∧ s.hand = [] then { s with dist := .done } else s
    | .done => s
  | .take =>
    match s.buf with
    | m :: rest => if 0 < s.idle then { s with buf := rest, hand := m :: s.hand, idle := s.idle - 1, taken := s.taken ++ [m] } else s
    | [] => s
  | .exit => if 0 < s.idle ∧ s.cancelled then { s with idle := s.idle - 1, exited := s.exited + 1 } else s
  | .finish m =>
    if m ∈ s.hand then
      match m.kind with
      | .valid => { s with hand := s.hand.erase m, idle := s.idle + 1, processed := s.processed ++ [m] }
      | .bad => { s with hand := s.hand.erase m, idle := s.idle + 1, rejected := s.rejected ++ [m] }
    else s

def run (s : St) (acts : List Act) : St := acts.foldl step s

/-- `workers := defaultWorkerCount; if rm.IngestWorkerCount != 0 { workers = rm.IngestWorkerCount }` -/
def workersOf (configured : Nat) : Nat := if configured = 0 then 300 else configured
/-- `make(chan interface{}, workers/jobBufferDivisor)` -/
def capOf (workers : Nat) : Nat := workers / 10

def init (cap n : Nat) : St := { cap := cap, idle := n }
def initCfg (configured : Nat) : St := init (capOf (workersOf configured)) (workersOf configured)

/-- shutdown measure -/
def distRank : Dist → Nat | .loop => 2 | .waiting => 1 | .done => 0
def mu (s : St) : Nat := 3 * s.buf.length + 2 * s.hand.length + s.idle + distRank s.dist

/-! ## Settled semantics (what a harness that waits for quiescence after every event observes)

After an environment event the internal actions run until none is enabled: a worker holding a message that
does not parse rejects it at once, a parked worker takes the head of a non-empty buffer.  After the stop request
the parked workers return and the distributor leaves its loop. -/

def firstBad : List Msg → Option Msg
  | [] => none
  | m :: r => if m.kind = .bad then some m else firstBad r

def settle : Nat → St → St
  | 0, s => s
  | fuel + 1, s =>
    match firstBad s.hand with
    | some m => settle fuel (step s (.finish m))
    | none =>
      if s.cancelled then
        if 0 < s.idle then settle fuel (step s .exit)
        else if s.dist = .done then s else settle fuel (step s (.dist none))
      else if s.buf ≠ [] ∧ 0 < s.idle then settle fuel (step s .take) else s

inductive Event
  | send (m : Msg)
  | release (id : Nat)     -- the environment lets the worker holding message `id` finish
  | stop
deriving Repr

def fuelOf (s : St) : Nat := 3 * (s.buf.length + s.hand.length + s.idle) + 8

def event (s : St) : Event → St
  | .send m => let s' := step s (.dist (some m)); settle (fuelOf s') s'
  | .release id =>
    match s.hand.find? (fun m => m.id = id ∧ m.kind = .valid) with
    | some m => let s' := step s (.finish m); settle (fuelOf s') s'
    | none => s
  | .stop => let s' := step s .cancel; settle (fuelOf s') s'

end CJ.PipelineMsg
