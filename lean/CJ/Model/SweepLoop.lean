import CJ.Model.RegistryIndex
/-!
# The sweep goroutine of `main` (C08): a ticker loop composed with the string-indexed registry

```go
ticker := time.NewTicker(p)
for { select { case <-ticker.C: regManager.RemoveOldRegistrations(); case <-ctx.Done(): return } }
```
started at time `t0`.  What the station does is a list of events in time order: an operation of another
goroutine on the registry, the ticker firing (the `n`-th firing is at `t0 + n·p`), the context being cancelled.
The shape of the loop and `0 < p` are the regenerated fact `CJ.Gen.sweepTickerPeriodsNs`.
-/
namespace CJ.SweepLoop
open CJ.Registry CJ.RegistryIndex

inductive Ev
  | op (o : KOp)   -- any registry operation of another goroutine
  | fire           -- the ticker fires
  | cancel         -- ctx.Done() is closed

structure LSt where
  reg : KSt := kinit
  fired : Nat := 0
  running : Bool := true

/-- the time of the `n`-th firing of a ticker of period `p` created at `t0` -/
def tickTime (t0 p n : Nat) : Nat := t0 + n * p

def lstep (c : Cfg) (t0 p : Nat) (s : LSt) : Ev → LSt
  | .op o => { s with reg := (kstep c s.reg o).1 }
  | .fire =>
    if s.running then
      { s with reg := (ksweep c (tickTime t0 p (s.fired + 1)) s.reg).1, fired := s.fired + 1 }
    else s    -- the goroutine has returned: nobody receives from the ticker
  | .cancel => { s with running := false }

def lrun (c : Cfg) (t0 p : Nat) (evs : List Ev) (s : LSt := {}) : LSt :=
  evs.foldl (lstep c t0 p) s

/-- the registry history the events amount to: the `n`-th firing is a sweep at `t0 + n·p`, firings after the
cancellation are nothing -/
def hist (t0 p : Nat) : List Ev → Nat → Bool → List KOp
  | [], _, _ => []
  | .op o :: es, n, r => o :: hist t0 p es n r
  | .fire :: es, n, true => .sweep (tickTime t0 p (n + 1)) :: hist t0 p es (n + 1) true
  | .fire :: es, n, false => hist t0 p es n false
  | .cancel :: es, n, _ => hist t0 p es n false

/-- the longest a record may be old and stay: 6 h once used, else the shorter of the two lifetimes -/
def limit (c : Cfg) (r : TO) : Nat := if r.used then c.activeT else min c.activeT c.unusedT

end CJ.SweepLoop
