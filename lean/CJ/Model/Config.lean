import CJ.Model.Liveness
/-!
# Model of configuration loading, reload and the optional-cache statistics printer

* `ParseBlocklists` / `ParseConfig` (pkg/station/lib/registration_config.go, config.go): the TOML decoder,
  `net.ParseCIDR ∘ strings.TrimSpace`, `regexp.Compile` and `net.Interfaces` are oracles; a parser oracle
  answers `ok v`, `err` or `panic` for one entry.  The model follows the repaired code: every entry is
  parsed, the first entry that does not parse makes the load fail, a file that sets no registration
  option gives the zero `RegConfig`.
* the SIGHUP branch of `main` (cmd/application/main.go) and `RegistrationManager.OnReload`
  (registration.go), part by part: phantom selector, address policies, GeoIP database.
* `CachedLivenessTester.printStats` / `stats.printStats` over the optional caches of the liveness model;
  calling a method through a nil cache interface is the explicit outcome `panic`.
-/

namespace CJ.Config

/-- outcome of a parser oracle on one entry, and of a loading step -/
inductive Outcome (α : Type)
  | ok (v : α)
  | err
  | panic
deriving Repr, DecidableEq

/-- the address-policy lists of a `RegConfig` as decoded from the file -/
structure Raw where
  block : List String        -- covert_blocklist_subnets
  domains : List String      -- covert_blocklist_domains
  phantom : List String      -- phantom_blocklist
  allow : List String        -- covert_allowlist_subnets
  publicAddrs : Bool         -- covert_blocklist_public_addrs
deriving Repr

/-- the zero `RegConfig` -/
def Raw.zero : Raw := ⟨[], [], [], [], false⟩

/-- the parsed policy (`covertBlocklistSubnets`, `covertBlocklistDomains`, `phantomBlocklist`,
`covertAllowlistSubnets`, `enableCovertAllowlist`) -/
structure Parsed (Net Pat : Type) where
  block : List Net
  domains : List Pat
  phantom : List Net
  allow : List Net
  enableAllow : Bool
deriving Repr, DecidableEq

/-- one `for _, entry := range list` loop: entries are parsed in order, the first one that does not
parse aborts the load with its outcome -/
def parseAll {β : Type} (p : String → Outcome β) : List String → Outcome (List β)
  | [] => .ok []
  | s :: rest =>
    match p s with
    | .ok v =>
      match parseAll p rest with
      | .ok vs => .ok (v :: vs)
      | .err => .err
      | .panic => .panic
    | .err => .err
    | .panic => .panic

variable {Net Pat : Type}

/-- `RegConfig.ParseBlocklists`.  `cidr` = `net.ParseCIDR(strings.TrimSpace(entry))`, `re` =
`regexp.Compile(entry)`, `ifaces` = the subnets of the local interfaces (`none`: `net.Interfaces` failed). -/
def parseBlocklists (cidr : String → Outcome Net) (re : String → Outcome Pat) (ifaces : Option (List Net))
    (raw : Raw) : Outcome (Parsed Net Pat) :=
  match parseAll cidr raw.block with
  | .err => .err
  | .panic => .panic
  | .ok block =>
    match parseAll re raw.domains with
    | .err => .err
    | .panic => .panic
    | .ok domains =>
      match parseAll cidr raw.phantom with
      | .err => .err
      | .panic => .panic
      | .ok phantom =>
        match parseAll cidr raw.allow with
        | .err => .err
        | .panic => .panic
        | .ok allow =>
          let block' :=
            if raw.publicAddrs then
              match ifaces with
              | some nets => block ++ nets
              | none => block
            else block
          .ok { block := block', domains := domains, phantom := phantom, allow := allow,
                enableAllow := !allow.isEmpty }

/-- result of `toml.DecodeFile` into a `Config`: an error, or a value whose embedded `*RegConfig` is nil
when the file sets none of its keys -/
inductive Decoded
  | err
  | ok (reg : Option Raw)
deriving Repr

/-- `ParseConfig` -/
def parseConfig (cidr : String → Outcome Net) (re : String → Outcome Pat) (ifaces : Option (List Net)) :
    Decoded → Outcome (Parsed Net Pat)
  | .err => .err
  | .ok none => parseBlocklists cidr re ifaces Raw.zero
  | .ok (some raw) => parseBlocklists cidr re ifaces raw

/-! ## reload -/

/-- the three reloadable parts of a running station -/
structure Station (Sel Pol Geo : Type) where
  selector : Sel      -- RegistrationManager.PhantomSelector
  policy : Pol        -- the address policies in RegistrationManager.RegConfig
  geoip : Geo         -- RegistrationManager.GeoIP
deriving Repr, DecidableEq

/-- result of `geoip.New` -/
inductive GeoLoad (Geo : Type)
  | ok (g : Geo)
  | missing (g : Geo)     -- a database is returned together with ErrMissingDB
  | err

/-- what the GeoIP loading step hands to the running station: a database if one was returned -/
def GeoLoad.loaded {Geo : Type} : GeoLoad Geo → Option Geo
  | .ok g => some g
  | .missing g => some g
  | .err => none

variable {Sel Pol Geo : Type}

/-- `RegistrationManager.OnReload`: the selector is replaced only if the subnets file loaded, the
policies are taken from the (successfully parsed) new configuration, the GeoIP database is replaced
unless it failed to load. -/
def onReload (st : Station Sel Pol Geo) (sel : Option Sel) (pol : Pol) (geo : GeoLoad Geo) : Station Sel Pol Geo :=
  let st1 := match sel with
    | some s => { st with selector := s }
    | none => st
  let st2 := { st1 with policy := pol }
  match geo with
  | .ok g => { st2 with geoip := g }
  | .missing g => { st2 with geoip := g }
  | .err => st2

/-- the SIGHUP branch of `main`: re-parse the configuration; on an error log and abort the reload -/
def reload (st : Station Sel Pol Geo) (conf : Outcome Pol) (sel : Option Sel) (geo : GeoLoad Geo) :
    Outcome (Station Sel Pol Geo) :=
  match conf with
  | .ok pol => .ok (onReload st sel pol geo)
  | .err => .ok st
  | .panic => .panic

/-- a sequence of reloads; a panic ends the process -/
def reloads (st : Station Sel Pol Geo) :
    List (Outcome Pol × Option Sel × GeoLoad Geo) → Outcome (Station Sel Pol Geo)
  | [] => .ok st
  | (c, s, g) :: rest =>
    match reload st c s g with
    | .ok st' => reloads st' rest
    | .err => .err
    | .panic => .panic

/-! ### what a sequence of reloads calls for, part by part

The version of a part that must be in force after a sequence of reloads is the one produced by the **last**
reload in which *that part's own* loading step (and the configuration, without which `main` does not reload
at all) succeeded — whatever happened to the other parts in the same or in other reloads. -/

/-- the address policies: those of the last configuration that loaded -/
def lastPolicy (p0 : Pol) : List (Outcome Pol × Option Sel × GeoLoad Geo) → Pol
  | [] => p0
  | (.ok pol, _, _) :: rest => lastPolicy pol rest
  | (.err, _, _) :: rest => lastPolicy p0 rest
  | (.panic, _, _) :: rest => lastPolicy p0 rest

/-- the phantom selector: that of the last reload whose configuration and subnets file both loaded -/
def lastSelector (s0 : Sel) : List (Outcome Pol × Option Sel × GeoLoad Geo) → Sel
  | [] => s0
  | (.ok _, some s, _) :: rest => lastSelector s rest
  | (.ok _, none, _) :: rest => lastSelector s0 rest
  | (.err, _, _) :: rest => lastSelector s0 rest
  | (.panic, _, _) :: rest => lastSelector s0 rest

/-- the GeoIP database: that of the last reload whose configuration loaded and whose databases loaded (or
are not named: `missing`) -/
def lastGeoip (g0 : Geo) : List (Outcome Pol × Option Sel × GeoLoad Geo) → Geo
  | [] => g0
  | (.ok _, _, g) :: rest => lastGeoip (g.loaded.getD g0) rest
  | (.err, _, _) :: rest => lastGeoip g0 rest
  | (.panic, _, _) :: rest => lastGeoip g0 rest

/-! ## the phantom blocklist on the way of a registration (`ValidateRegistration`, `ingestRegistration`)

A registration whose phantom is blocklisted is refused **early** by `ValidateRegistration` unless its source is
exempted there (registrations of the station's own detector are first shared with the peer stations), and
**late** by `ingestRegistration`, just before `AddRegistration`, for the sources checked there.  The two sets
of sources are parameters; `CJ/Gen/C19Sources.lean` holds the sets read off the code. -/

/-- does a registration from source `src` get past both phantom-blocklist checks (`blocked`: what
`IsBlocklistedPhantom` answers for its phantom) -/
def phantomAdmitted (exemptEarly checkedLate : List Nat) (src : Nat) (blocked : Bool) : Bool :=
  if blocked && !(exemptEarly.contains src) then false        -- ValidateRegistration: errBlocklistedPhantom
  else if blocked && checkedLate.contains src then false       -- ingestRegistration: "ignoring registration with blocklisted phantom"
  else true

/-! ## the statistics printer of the liveness module -/

open CJ.Liveness in
/-- `Len()` through a cache interface value: a nil interface panics -/
def lenOf (c : Option Cache) : Outcome Nat :=
  match c with
  | some c => .ok c.len
  | none => .panic

open CJ.Liveness in
/-- `CachedLivenessTester.printStats` / `stats.printStats`: the two cache lengths that are logged -/
def printStats : Tester → Outcome (Nat × Nat)
  | .uncached => .ok (0, 0)
  | .cached live nonLive =>
    let l := if live.isSome then lenOf live else .ok 0
    match l with
    | .err => .err
    | .panic => .panic
    | .ok ll =>
      let n := if nonLive.isSome then lenOf nonLive else .ok 0
      match n with
      | .err => .err
      | .panic => .panic
      | .ok nl => .ok (ll, nl)

/-! ## decisions taken with a parsed policy (`isBlocklistedCovertAddr`, `isBlocklistedCovertDomain`,
`IsBlocklistedPhantom` in registration_config.go); `contains` = `(*net.IPNet).Contains`,
`matchString` = `(*regexp.Regexp).MatchString` -/

section decisions
variable {Net Pat IP : Type}

/-- `isBlocklistedCovertAddr`: a configured allowlist takes precedence over the blocklist -/
def Parsed.covertAddrBlocked (contains : Net → IP → Bool) (p : Parsed Net Pat) (ip : IP) : Bool :=
  if p.enableAllow then !(p.allow.any (fun n => contains n ip))
  else p.block.any (fun n => contains n ip)

/-- `isBlocklistedCovertDomain` -/
def Parsed.covertDomainBlocked (matchString : Pat → String → Bool) (p : Parsed Net Pat) (host : String) : Bool :=
  p.domains.any (fun r => matchString r host)

/-- `IsBlocklistedPhantom` -/
def Parsed.phantomBlocked (contains : Net → IP → Bool) (p : Parsed Net Pat) (ip : IP) : Bool :=
  p.phantom.any (fun n => contains n ip)

end decisions

/-! ## the nil tests of the statistics printer as data

`CachedLivenessTester.printStats` calls `Len()` / `Cap()` through the two optional cache interfaces.
`CJ/Gen/C19Guards.lean` (regenerated from cached.go on every run) lists every such call together with
the fields whose non-nil-ness is established by the enclosing `if … != nil` statements. -/

/-- one method call through an optional cache field, and the fields known to be non-nil at that point -/
structure Deref where
  field : String
  guards : List String
deriving Repr, DecidableEq

open CJ.Liveness in
/-- the value of an optional cache field of a cached tester (any other name: not a cache, nil) -/
def fieldOf (live nonLive : Option Cache) (name : String) : Option Cache :=
  if name = "ipCacheLive" then live else if name = "ipCacheNonLive" then nonLive else none

open CJ.Liveness in
/-- run the calls in program order: a call whose guards all hold is executed, and panics when its own
field is nil; a call under a guard that does not hold is skipped -/
def runDerefs (live nonLive : Option Cache) : List Deref → Outcome Unit
  | [] => .ok ()
  | d :: ds =>
    if d.guards.all (fun g => (fieldOf live nonLive g).isSome) then
      (if (fieldOf live nonLive d.field).isSome then runDerefs live nonLive ds else .panic)
    else runDerefs live nonLive ds

end CJ.Config
