import Std.Data.HashMap
/-!
# Model of the cached liveness tester (pkg/station/liveness)

`New`/`Init` (liveness.go, cached.go) choose per configuration between the uncached tester and a cached
tester with an optional *live* and an optional *non-live* cache; each cache is either the unbounded
`mapCache` (cache_map.go) or the `lruCache` (cache_lru.go: a verdict map plus a
`hashicorp/golang-lru` recency list whose evict callback deletes from the verdict map).

* Time is an `Int` of nanoseconds supplied by the operation (the harness sets the real `cachedTime`
  fields so that `time.Since` equals the virtual age).  Comparisons keep the code's strictness:
  a lookup serves on `age < expiration` (refuses on `age ≥ expiration`), the clean-up removes on
  `age > expiration`.
* `time.ParseDuration` is an oracle: the configuration carries its result (`unset` for the empty
  string, `bad` for an error, `ok ns`).
* The probe (`phantomIsLive`, four TCP SYNs in the real code) is an oracle: the operation carries
  the verdict the probe would return *if it is called*.
* The cache key is the address alone (the port is not part of the key in the code).
-/
open Std

namespace CJ.Liveness

/-! ## hashicorp/golang-lru (`simplelru.LRU`), keys only; head = oldest, last = most recently used
(the order of `Keys()`) -/

structure LRU where
  size : Nat
  items : List String
deriving Repr

/-- `LRU.Add`: a known key is moved to the front (no eviction); a new key is pushed and, when the
list is then longer than `size`, the oldest entry is removed and handed to the evict callback. -/
def LRU.add (l : LRU) (k : String) : LRU × Option String :=
  if l.items.contains k then ({ l with items := l.items.erase k ++ [k] }, none)
  else
    let items := l.items ++ [k]
    if items.length > l.size then
      match items with
      | old :: rest => ({ l with items := rest }, some old)
      | [] => ({ l with items := items }, none)
    else ({ l with items := items }, none)

/-- `LRU.Remove`: a present key is removed and handed to the evict callback. -/
def LRU.remove (l : LRU) (k : String) : LRU × Bool :=
  if l.items.contains k then ({ l with items := l.items.erase k }, true) else (l, false)

/-! ## the two cache implementations -/

abbrev VMap := HashMap String Int     -- ipCache: address ↦ cachedTime

inductive Cache
  | map (exp : Int) (m : VMap)
  | lru (exp : Int) (m : VMap) (l : LRU)

def Cache.exp : Cache → Int
  | .map e _ => e
  | .lru e _ _ => e

def Cache.vmap : Cache → VMap
  | .map _ m => m
  | .lru _ m _ => m

/-- `Len()` -/
def Cache.len (c : Cache) : Nat := c.vmap.size

def defaultSizeLRU : Nat := 100000

def newMapCache (exp : Int) : Cache := .map exp {}

/-- `newLRUCache`: a non-positive size falls back to `defaultSizeLRU`. -/
def newLRUCache (exp : Int) (size : Int) : Cache :=
  .lru exp {} { size := if size ≤ 0 then defaultSizeLRU else size.toNat, items := [] }

/-- the evict callback registered by `newLRUCache`: delete the key from the verdict map -/
def onEvict (m : VMap) : Option String → VMap
  | some old => m.erase old
  | none => m

/-- `Lookup`.  mapCache: present and `age < exp`.  lruCache: the same test; a fresh hit refreshes the
key in the recency list (`lru.Add`, whose evict callback runs if it evicts). -/
def Cache.lookup (c : Cache) (now : Int) (k : String) : Cache × Bool :=
  match c with
  | .map e m =>
    match m[k]? with
    | some t => if now - t ≥ e then (c, false) else (c, true)
    | none => (c, false)
  | .lru e m l =>
    match m[k]? with
    | some t =>
      if now - t < e then
        let (l', ev) := l.add k
        (.lru e (onEvict m ev) l', true)
      else (c, false)
    | none => (c, false)

/-- `Add`.  mapCache does not overwrite an existing entry; lruCache overwrites, then adds the key to
the recency list, potentially evicting the oldest entry. -/
def Cache.add (c : Cache) (now : Int) (k : String) : Cache :=
  match c with
  | .map e m => if m.contains k then c else .map e (m.insert k now)
  | .lru e m l =>
    let m1 := m.insert k now
    let (l', ev) := l.add k
    .lru e (onEvict m1 ev) l'

/-- keys whose age is strictly greater than the expiration (`getExpired`, and the range loop of
`mapCache.ClearExpired`) -/
def expiredKeys (e now : Int) (m : VMap) : List String :=
  (m.toList.filter (fun kv => decide (now - kv.2 > e))).map (·.1)

def eraseAll (ks : List String) (m : VMap) : VMap := ks.foldl (fun m k => m.erase k) m

/-- one `lc.lru.Remove(key)` of `lruCache.ClearExpired`, with its evict callback -/
def lruRemove (ml : VMap × LRU) (k : String) : VMap × LRU :=
  let (l', present) := ml.2.remove k
  (if present then ml.1.erase k else ml.1, l')

/-- `ClearExpired` -/
def Cache.clearExpired (c : Cache) (now : Int) : Cache :=
  match c with
  | .map e m => .map e (eraseAll (expiredKeys e now m) m)
  | .lru e m l =>
    let r := (expiredKeys e now m).foldl lruRemove (m, l)
    .lru e r.1 r.2

/-! ## configuration and construction -/

inductive Dur
  | unset            -- ""
  | bad              -- time.ParseDuration returned an error
  | ok (ns : Int)
deriving Repr, DecidableEq

structure Config where
  durLive : Dur
  capLive : Int
  durNonLive : Dur
  capNonLive : Int
deriving Repr

inductive Tester
  | uncached
  | cached (live nonLive : Option Cache)

inductive InitErr | live | nonLive
deriving Repr, DecidableEq

/-- `CachedLivenessTester.Init`: the cache kind of each verdict is chosen by *that verdict's* capacity
(non-zero → LRU, zero → map).  A duration that does not parse aborts with an error, leaving the
caches built so far. -/
def initCached (c : Config) : Tester × Option InitErr :=
  let liveR : Except Unit (Option Cache) :=
    match c.durLive with
    | .unset => .ok none
    | .bad => .error ()
    | .ok d => .ok (some (if c.capLive ≠ 0 then newLRUCache d c.capLive else newMapCache d))
  match liveR with
  | .error _ => (.cached none none, some .live)
  | .ok live =>
    match c.durNonLive with
    | .unset => (.cached live none, none)
    | .bad => (.cached live none, some .nonLive)
    | .ok d =>
      (.cached live (some (if c.capNonLive ≠ 0 then newLRUCache d c.capNonLive else newMapCache d)), none)

/-- `liveness.New` -/
def new (c : Config) : Tester × Option InitErr :=
  if c.durLive = .unset ∧ c.durNonLive = .unset then (.uncached, none) else initCached c

/-! ## operations -/

inductive Op
  | query (now : Int) (addr : String) (probe : Bool)   -- PhantomIsLive; `probe` = what a probe would answer
  | clear (now : Int)                                   -- ClearExpiredCache
deriving Repr

def Op.time : Op → Int
  | .query now _ _ => now
  | .clear now => now

inductive Out
  | cached (v : Bool)    -- answered from the cache (ErrCachedPhantom), no probe sent
  | probed (v : Bool)    -- the probe was called exactly once and its verdict returned
  | cleared
deriving Repr, DecidableEq

def lookupOpt (c : Option Cache) (now : Int) (k : String) : Option Cache × Bool :=
  match c with
  | none => (none, false)
  | some c => let (c', hit) := c.lookup now k; (some c', hit)

def addOpt (c : Option Cache) (now : Int) (k : String) : Option Cache :=
  c.map (·.add now k)

/-- `PhantomIsLive`: look in the live cache, then in the non-live cache; on a miss probe, and store the
time of the probe in the cache matching the verdict (when that cache is enabled). -/
def query (t : Tester) (now : Int) (a : String) (probe : Bool) : Tester × Out :=
  match t with
  | .uncached => (t, .probed probe)
  | .cached live nonLive =>
    let (live1, hitL) := lookupOpt live now a
    if hitL then (.cached live1 nonLive, .cached true) else
    let (nonLive1, hitN) := lookupOpt nonLive now a
    if hitN then (.cached live1 nonLive1, .cached false) else
    if probe then (.cached (addOpt live1 now a) nonLive1, .probed true)
    else (.cached live1 (addOpt nonLive1 now a), .probed false)

/-- `ClearExpiredCache` -/
def clear (t : Tester) (now : Int) : Tester :=
  match t with
  | .uncached => t
  | .cached live nonLive => .cached (live.map (·.clearExpired now)) (nonLive.map (·.clearExpired now))

def step (t : Tester) : Op → Tester × Out
  | .query now a p => query t now a p
  | .clear now => (clear t now, .cleared)

def runFrom (t : Tester) (ops : List Op) : Tester := ops.foldl (fun t o => (step t o).1) t

/-- the tester after a history of operations, starting from `New(config)` -/
def run (c : Config) (ops : List Op) : Tester := runFrom (new c).1 ops

/-- the cache that holds verdict `v` (`true` = live) -/
def Tester.cacheFor (t : Tester) (v : Bool) : Option Cache :=
  match t with
  | .uncached => none
  | .cached live nonLive => if v then live else nonLive

def Config.cap (c : Config) (v : Bool) : Int := if v then c.capLive else c.capNonLive
def Config.dur (c : Config) (v : Bool) : Dur := if v then c.durLive else c.durNonLive

/-! ## step-level model of one `lruCache` under concurrent callers

Atomic steps are the critical sections of the code: `lc.m` protects the verdict map, the
`lru.Cache`'s own lock protects the recency list, and golang-lru v1 runs the evict callback *after*
releasing its lock.  A thread is in one of the phases below; `Sched` picks which thread moves. -/

inductive Phase
  | idle
  | addWrote (k : String)             -- `Add`: verdict map written, `lru.Add` not yet called
  | lookupFresh (k : String)          -- `Lookup`: read a fresh entry, `lru.Add` (refresh) not yet called
  | evictPending (old : String)       -- `lru.Add`/`lru.Remove` returned an evicted key, callback not yet run
  | clearing (ks : List String)       -- `ClearExpired`: collected keys still to be removed
  | clearingEvict (old : String) (ks : List String)
deriving Repr

structure CState where
  exp : Int
  m : VMap
  l : LRU
  threads : List Phase

inductive Call
  | add (now : Int) (k : String)
  | lookup (now : Int) (k : String)
  | clear (now : Int)
deriving Repr

def setThread (ts : List Phase) (i : Nat) (p : Phase) : List Phase := ts.set i p

/-- one atomic step of thread `i`; an idle thread starts `call` (its first critical section). -/
def cstep (s : CState) (i : Nat) (call : Call) : CState :=
  match s.threads[i]? with
  | none => s
  | some .idle =>
    match call with
    | .add now k => { s with m := s.m.insert k now, threads := setThread s.threads i (.addWrote k) }
    | .lookup now k =>
      match s.m[k]? with
      | some t => if now - t < s.exp then { s with threads := setThread s.threads i (.lookupFresh k) } else s
      | none => s
    | .clear now => { s with threads := setThread s.threads i (.clearing (expiredKeys s.exp now s.m)) }
  | some (.addWrote k) | some (.lookupFresh k) =>
    let (l', ev) := s.l.add k
    { s with l := l', threads := setThread s.threads i (match ev with | some old => .evictPending old | none => .idle) }
  | some (.evictPending old) =>
    { s with m := s.m.erase old, threads := setThread s.threads i .idle }
  | some (.clearing []) => { s with threads := setThread s.threads i .idle }
  | some (.clearing (k :: ks)) =>
    let (l', present) := s.l.remove k
    { s with l := l', threads := setThread s.threads i (if present then .clearingEvict k ks else .clearing ks) }
  | some (.clearingEvict old ks) =>
    { s with m := s.m.erase old, threads := setThread s.threads i (.clearing ks) }

def crun (s : CState) (sched : List (Nat × Call)) : CState :=
  sched.foldl (fun s ic => cstep s ic.1 ic.2) s

def cinit (exp : Int) (size : Nat) (nthreads : Nat) : CState :=
  { exp := exp, m := {}, l := { size := size, items := [] }, threads := List.replicate nthreads .idle }

/-- threads that may hold a key which is in the verdict map but not (or no longer) in the recency list -/
def Phase.inflight : Phase → Bool
  | .addWrote _ | .evictPending _ | .clearingEvict _ _ => true
  | _ => false

def inflight (s : CState) : Nat := (s.threads.filter Phase.inflight).length

end CJ.Liveness
