import CJ.Model.NetAddr
/-!
# The PROXY-protocol line `Proxy` sends to the covert in front of the upload
(pkg/station/lib/proxies.go, `writePROXYHeader(conn, clientConn.RemoteAddr().String())`)

```go
if len(originalIPPort) == 0 { return errors.New("can't write PROXY header: empty IP") }
transportProtocol := "TCP4"
if !strings.Contains(originalIPPort, ".") { transportProtocol = "TCP6" }
host, port, err := net.SplitHostPort(originalIPPort)
if err != nil { return err }
proxyHeader := fmt.Sprintf("PROXY %s %s 127.0.0.1 %s 1234\r\n", transportProtocol, host, port)
_, err = conn.Write([]byte(proxyHeader))
```

`headerLine addr` is what is handed to `conn.Write` (`none`: the function returns an error before writing
anything; `Proxy` then logs, closes the covert connection and starts no relay — `CJ.HalfPipe.execP`, `.header`).
`net.SplitHostPort` is `CJ.NetAddr.splitHostPort` (C06's model, corresponded with the standard library there and
again here through the line `proxyhdr`).
-/
namespace CJ.ProxyHeader
open CJ.NetAddr

def pfx : Str := "PROXY ".toList
def mid : Str := " 127.0.0.1 ".toList
def sfx : Str := " 1234\r\n".toList

/-- `TCP4` iff the address text contains a dot (as written: a dotted host name or an IPv4-mapped IPv6 text
`::ffff:1.2.3.4` counts as TCP4 too) -/
def proto (addr : Str) : Str := if addr.contains '.' then "TCP4".toList else "TCP6".toList

def render (addr host port : Str) : Str := pfx ++ proto addr ++ ' ' :: host ++ mid ++ port ++ sfx

def headerLine (addr : Str) : Option Str :=
  if addr.isEmpty then none else
  match splitHostPort addr with
  | none => none
  | some (h, p) => some (render addr h p)

/-- what the covert is sent by a session that relays `up` (the upload as delivered): the line first -/
def covertStream (flag : Bool) (addr : Str) (up : List UInt8) : Option (List UInt8) :=
  if !flag then some up else
  match headerLine addr with
  | none => none                                   -- no relay is started
  | some l => some (l.map (fun c => UInt8.ofNat c.toNat) ++ up)

end CJ.ProxyHeader
