/-!
# The ingest pipeline (`HandleRegUpdates` / `startIngestThread`), C09

One distributor, a buffered channel of capacity `cap`, `n` workers, a cancellation flag.
Every channel operation / `select` is one atomic action; the scheduler (and the environment that
delivers or withholds input) is the list of actions.  An action that is not enabled in a state is a
no-op (`step` returns the state unchanged), so every list of actions is an execution.

Distributor loop (fixed code): `for ctx.Err() == nil { select { <-ctx.Done | msg := <-in: count; select { buf <- msg | default: drop } } }`
Worker loop: `for { select { <-ctx.Done: return | msg := <-buf: parse msg (on error: log, continue); ingest } }` — with both ready Go may take either.
-/
namespace CJ.Pipeline

inductive Dist | loop | waiting | done
deriving Repr, DecidableEq

inductive Worker | idle | busy | exited
deriving Repr, DecidableEq

structure St where
  cap : Nat
  buf : Nat := 0              -- messages in the shallow buffer
  workers : List Worker
  cancelled : Bool := false
  dist : Dist := .loop
  received : Nat := 0
  forwarded : Nat := 0
  dropped : Nat := 0
  processed : Nat := 0
  rejected : Nat := 0         -- messages a worker could not parse (logged, worker goes on)
deriving Repr

inductive Act
  | cancel
  /-- the distributor runs one loop iteration; `input` says whether a message is available on the
      input channel at that moment (the environment's choice) -/
  | dist (input : Bool)
  /-- worker `i`'s select takes a message from the buffer -/
  | take (i : Nat)
  /-- worker `i`'s select takes the Done branch -/
  | exit (i : Nat)
  /-- worker `i` finishes ingesting its message -/
  | finish (i : Nat)
  /-- worker `i`'s message does not parse (malformed bytes from the socket, unknown generation, …):
      `startIngestThread` logs the error and `continue`s with its loop -/
  | bad (i : Nat)
deriving Repr

def idleWorker (ws : List Worker) : Option Nat := ws.findIdx? (· == .idle)

def allExited (ws : List Worker) : Bool := ws.all (· == .exited)

def step (s : St) : Act → St
  | .cancel => { s with cancelled := true }
  | .dist input =>
    match s.dist with
    | .loop =>
      if s.cancelled then { s with dist := .waiting }           -- ctx.Err() != nil / Done branch
      else if !input then s                                     -- blocked in select: nothing ready
      else
        -- message received and counted; non-blocking hand-off: directly to a worker blocked in
        -- receive (only possible while the buffer is empty), else into the buffer if there is
        -- room, else dropped
        match (if s.buf = 0 then idleWorker s.workers else none) with
        | some i => { s with received := s.received + 1, forwarded := s.forwarded + 1, workers := s.workers.set i .busy }
        | none =>
          if s.buf < s.cap then { s with received := s.received + 1, forwarded := s.forwarded + 1, buf := s.buf + 1 }
          else { s with received := s.received + 1, dropped := s.dropped + 1 }
    | .waiting => if allExited s.workers then { s with dist := .done } else s
    | .done => s
  | .take i =>
    match s.workers[i]? with
    | some .idle => if s.buf > 0 then { s with buf := s.buf - 1, workers := s.workers.set i .busy } else s
    | _ => s
  | .exit i =>
    match s.workers[i]? with
    | some .idle => if s.cancelled then { s with workers := s.workers.set i .exited } else s
    | _ => s
  | .finish i =>
    match s.workers[i]? with
    | some .busy => { s with workers := s.workers.set i .idle, processed := s.processed + 1 }
    | _ => s
  | .bad i =>
    match s.workers[i]? with
    | some .busy => { s with workers := s.workers.set i .idle, rejected := s.rejected + 1 }
    | _ => s

def run (s : St) (acts : List Act) : St := acts.foldl step s

def busyCount (ws : List Worker) : Nat := (ws.filter (· == .busy)).length
def liveCount (ws : List Worker) : Nat := (ws.filter (· != .exited)).length

def init (cap n : Nat) : St := { cap := cap, workers := List.replicate n .idle }

end CJ.Pipeline
