/-!
# `RegistrationManager.OnReload` as a program of guarded steps

`CJ.Config.onReload` (Model/Config.lean) is a hand-written summary of `OnReload`.  Here the method is a
*program*: the list of its statements in source order, each with the conditions of the `if` statements
that enclose it (`CJ/Gen/C19Reload.lean`, regenerated from pkg/station/lib/registration.go by go/ast on
every run), and a small interpreter.  The outcome of the two loaders (`phantoms.NewPhantomIPSelector`,
`geoip.New`) is the environment; what a loader hands back on failure is `nil` (`Tag.nil`), so that
"a failed load installs its nil result" is an outcome the interpreter can reach.  Locks are tracked
(which are held at every write, which are still held at the end).  Identifiers (fields, mutexes) are
indices into the name table of the generated file.

Core Lean only.
-/

namespace CJ.ReloadSteps

/-- the two loading calls of `OnReload` -/
inductive Loader
  | selector      -- `phantoms.NewPhantomIPSelector()`
  | geoip         -- `geoip.New(conf.DBConfig)`
deriving DecidableEq, Repr

/-- what a loader answered: a value, a value together with `geoip.ErrMissingDB`, or `(nil, err)` -/
inductive LoadOut
  | ok
  | missing
  | err
deriving DecidableEq, Repr

/-- a condition of an `if` statement -/
inductive Cond
  | errNonNil (l : Loader)       -- `err != nil`, `err` being the error of the most recent call of `l`
  | errIsMissing (l : Loader)    -- `errors.Is(err, geoip.ErrMissingDB)`
  | unknown (text : String)      -- anything the extractor does not understand
deriving DecidableEq, Repr

/-- the right-hand side of an assignment -/
inductive Src
  | loaded (l : Loader)          -- the first result of the loader
  | conf (field : Nat)           -- `conf.<field>`
  | other (text : String)
deriving DecidableEq, Repr

/-- the left-hand side: a field of the manager or of its `RegConfig` -/
inductive Target
  | manager (field : Nat)        -- `regManager.<field>`
  | regConfig (field : Nat)      -- `regManager.RegConfig.<field>`
deriving DecidableEq, Repr

inductive Act
  | load (l : Loader)
  | assign (t : Target) (src : Src)
  | lock (m : Nat)
  | unlock (m : Nat)
  | deferUnlock (m : Nat)
  | log
  | ret
  | unknown (text : String)
deriving DecidableEq, Repr

/-- one statement with the conditions (and the polarity: then / else branch) that enclose it -/
structure Step where
  guards : List (Cond × Bool)
  act : Act
deriving DecidableEq, Repr

/-- where the value of a field comes from after the reload -/
inductive Tag
  | old                          -- untouched
  | fresh (l : Loader)           -- what the loader returned (non-nil)
  | nil                          -- the nil first result of a loader that failed
  | conf (field : Nat)           -- `conf.<field>`
  | other
deriving DecidableEq, Repr

structure Env where
  sel : LoadOut
  geo : LoadOut
deriving DecidableEq, Repr

def Env.out (e : Env) : Loader → LoadOut
  | .selector => e.sel
  | .geoip => e.geo

structure St where
  fields : List (Target × Tag) := []
  writes : List (Target × List Nat) := []     -- every write with the locks held at that moment, in program order
  held : List Nat := []
  deferred : List Nat := []
  loaded : List Loader := []
  done : Bool := false                         -- a `return` was executed
  bad : Bool := false                          -- a step the interpreter cannot account for
deriving Repr

/-- a condition about the error of a loader that has not been called yet is not understood -/
def evalCond (e : Env) (st : St) : Cond → Option Bool
  | .errNonNil l => if st.loaded.contains l then some (e.out l != .ok) else none
  | .errIsMissing l => if st.loaded.contains l then some (e.out l == .missing) else none
  | .unknown _ => none

/-- the enclosing conditions, outermost first; Go evaluates an inner one only when the outer ones hold -/
def evalGuards (e : Env) (st : St) : List (Cond × Bool) → Option Bool
  | [] => some true
  | (c, pol) :: rest =>
    match evalCond e st c with
    | none => none
    | some b => if b == pol then evalGuards e st rest else some false

def valueOf (e : Env) (st : St) : Src → Option Tag
  | .loaded l => if st.loaded.contains l then some (if e.out l == .err then .nil else .fresh l) else none
  | .conf f => some (.conf f)
  | .other _ => some .other

def setField (fs : List (Target × Tag)) (k : Target) (v : Tag) : List (Target × Tag) :=
  (k, v) :: fs.filter (fun p => p.1 != k)

def exec (e : Env) (st : St) : Act → St
  | .load l => { st with loaded := l :: st.loaded }
  | .assign t src =>
    match valueOf e st src with
    | none => { st with bad := true }
    | some v => { st with fields := setField st.fields t v, writes := st.writes ++ [(t, st.held)] }
  | .lock m => if st.held.contains m then { st with bad := true } else { st with held := m :: st.held }
  | .unlock m => if st.held.contains m then { st with held := st.held.erase m } else { st with bad := true }
  | .deferUnlock m => { st with deferred := m :: st.deferred }
  | .log => st
  | .ret => { st with done := true }
  | .unknown _ => { st with bad := true }

def stepRun (e : Env) (st : St) (s : Step) : St :=
  if st.done || st.bad then st else
  match evalGuards e st s.guards with
  | none => { st with bad := true }
  | some false => st
  | some true => exec e st s.act

/-- the deferred unlocks run when the method returns -/
def finish (st : St) : St :=
  st.deferred.foldl (fun s m => if s.held.contains m then { s with held := s.held.erase m } else { s with bad := true })
    { st with deferred := [] }

def run (e : Env) (steps : List Step) : St := finish (steps.foldl (stepRun e) {})

/-- a field that was never written keeps its value -/
def St.tagOf (st : St) (t : Target) : Tag :=
  match st.fields.lookup t with
  | some v => v
  | none => .old

/-- every assignment the program can make, whatever the environment -/
def assignedTargets (steps : List Step) : List Target :=
  steps.filterMap fun s => match s.act with | .assign t _ => some t | _ => none

def hasUnknown (steps : List Step) : Bool :=
  steps.any fun s =>
    (match s.act with | .unknown _ => true | .assign _ (.other _) => true | _ => false) ||
    s.guards.any (fun g => match g.1 with | .unknown _ => true | _ => false)

end CJ.ReloadSteps
