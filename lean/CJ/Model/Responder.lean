import CJ.Model.Codec
/-!
# The DNS responder: what one handler goroutine does with a datagram, and the receive loop around it

`pkg/registrars/dns-registrar/responder/responder.go`, `RecvAndRespond` and `dnsRespToUDPResp`, on top
of the models of `CJ/Model/Codec.lean` (`lenientParse`, `responseFor`, the frame formats, `wireFormat`).

* `udpResponseWith` is `dnsRespToUDPResp` with Go's indexing as the partial operation it is
  (`resp.Question[0]` panics on an empty slice). The flag says whether the second half of the guard
  (`len(resp.Question) == 1`) is there; the code under test has it (`udpResponseGo`).
* `handleDatagramWith` is the body of the `go func() { … }()` of `RecvAndRespond`, from the bytes
  `ReadFrom` delivered to the bytes given to `WriteTo` (`none` = the handler returns without sending).
  `craftResponse` with the callback inside (Noise `ReadMessage`, callback, `Encrypt`) is the parameter
  `craft`; base32 decoding is the parameter `dec`.
* `Loop` is the `for { ReadFrom; go func() { … }() }` loop itself with the receive buffer as an explicit
  object: an array declared in the loop body belongs to the iteration that declared it (the closure of
  that iteration is the only one that has it), an array declared in front of the loop is the same array
  for every iteration. The schedule (when the loop receives, when which handler runs) is arbitrary.

Core Lean only.
-/
namespace CJ.Codec

/-! ## one datagram -/

/-- Go `l[0]` -/
def first {α : Type} (l : List α) : Outcome α :=
  match l with
  | a :: _ => .ok a
  | [] => .panic "index out of range"

/-- `dnsRespToUDPResp`. `guardCount = true` is the code under test:
`if resp.Rcode() == dns.RcodeNoError && len(resp.Question) == 1 { … resp.Question[0] … }` -/
def udpResponseWith (guardCount : Bool) (resp : Message) (payload : Bytes) : Outcome Bytes :=
  if resp.flags &&& 0x000f = 0 ∧ (guardCount = false ∨ resp.question.length = 1) then
    (first resp.question).bind fun q =>
      wireFormat { resp with answer := [⟨q.name, q.qtype, q.qclass, 60, encodeTXT payload⟩] }
  else wireFormat resp

def udpResponseGo : Message → Bytes → Outcome Bytes := udpResponseWith true

/-- `if err != nil { log.Printf(…); return }`: an error ends the handler without a datagram, a panic
ends the process -/
def orReturn {α : Type} (o : Outcome α) (k : α → Outcome (Option Bytes)) : Outcome (Option Bytes) :=
  match o with
  | .ok a => k a
  | .err _ => .ok none
  | .panic s => .panic s
  | .hang => .hang

/-- the handler goroutine of `RecvAndRespond` for the datagram `buf` (= `buf[:n]` of the receive
buffer). `.ok none`: nothing is written; `.ok (some d)`: `d` is written to the sender's address. -/
def handleDatagramWith (guardCount : Bool) (dom : Name) (maxUDP : Nat) (dec : Bytes → Option Bytes)
    (craft : Bytes → Option Bytes) (buf : Bytes) : Outcome (Option Bytes) :=
  -- `query, err := dns.MessageFromWireFormat(buf[:n])`: the error is only logged
  match responseFor (lenientParse buf) dom maxUDP dec with
  | none => .ok none                                   -- `if resp == nil { return }`
  | some (resp, payload) =>
    let send (responseBuf : Bytes) : Outcome (Option Bytes) :=
      orReturn (udpResponseWith guardCount resp responseBuf) fun d =>
        if d.length > maxUDP then
          -- "responding with empty response"
          orReturn (udpResponseWith guardCount resp []) fun d0 => .ok (some d0)
        else .ok (some d)
    match payload with
    | none => send []                                  -- `responseBuf` stays nil
    | some p =>
      orReturn (removeRequestFormat p) fun f =>
        match craft f with
        | none => .ok none                             -- `craftResponse err`
        | some r => orReturn (addResponseFormat r) send

def handleDatagram := handleDatagramWith true

/-- the kinds of answer `responseFor` knows, read off its result (for the histogram of the harness and
for the theorems about which kind carries which sections) -/
inductive RespKind
  | silent | formErr | nxDomain | notImpl | badVers | answer | other
deriving DecidableEq, Repr

def respKind : Option (Message × Option Bytes) → RespKind
  | none => .silent
  | some (_, some _) => .answer
  | some (resp, none) =>
    match (resp.flags &&& 0x000f).toNat with
    | 0 => .badVers
    | 1 => .formErr
    | 3 => .nxDomain
    | 4 => .notImpl
    | _ => .other

/-! ## the receive loop -/

/-- a datagram waiting in the socket: where it came from and its bytes -/
structure Dgram where
  addr : Nat
  data : Bytes
deriving Repr, DecidableEq

/-- a handler goroutine that was started and has not run yet: the address and length `ReadFrom`
returned in its iteration, and the receive buffer its closure captured — `some b`: the array declared in
its own iteration (`b` = its content; no other goroutine has that array), `none`: the array declared in
front of the loop -/
structure Handler where
  addr : Nat
  n : Nat
  own : Option Bytes
deriving Repr, DecidableEq

structure Loop where
  /-- datagrams not yet received, in arrival order -/
  queue : List Dgram
  /-- content of the array in front of the loop (only read when the buffer is not per iteration) -/
  shared : Bytes
  pending : List Handler
  /-- `WriteTo(d, addr)`, in the order of the calls -/
  sent : List (Nat × Bytes)
  /-- what the callback was given, in the order of the calls -/
  seen : List Bytes
deriving Repr, DecidableEq

inductive Step
  /-- the loop goroutine: `ReadFrom` returns the next datagram, `go func() { … }()` -/
  | recv
  /-- the `i`-th oldest handler that has not run yet runs -/
  | run (i : Nat)
deriving Repr, DecidableEq

/-- `copy(buf, d)` into an array that holds `buf` -/
def copyInto (buf d : Bytes) : Bytes := d.take buf.length ++ buf.drop d.length

/-- a fresh `var buf [4096]byte` after `ReadFrom` copied `d` into it, cut to the `n` it returned -/
def received (d : Bytes) : Bytes := d.take 4096

/-- one step. `perIter`: the buffer is declared in the loop body (the code under test). `respond` is the
handler on the bytes it reads out of its buffer: what the callback is given (if it is called) and the
datagram written (if one is). -/
def Loop.step (perIter : Bool) (respond : Bytes → Option Bytes × Option Bytes) (s : Loop) : Step → Loop
  | .recv =>
    match s.queue with
    | [] => s                                            -- `ReadFrom` blocks
    | d :: q =>
      if perIter then
        { s with queue := q, pending := s.pending ++ [⟨d.addr, (received d.data).length, some (received d.data)⟩] }
      else
        { s with queue := q, shared := copyInto s.shared d.data,
                 pending := s.pending ++ [⟨d.addr, (received d.data).length, none⟩] }
  | .run i =>
    match s.pending[i]? with
    | none => s
    | some h =>
      let r := respond ((h.own.getD s.shared).take h.n)    -- `buf[:n]`
      { s with pending := s.pending.eraseIdx i,
               seen := s.seen ++ r.1.toList,
               sent := s.sent ++ (r.2.map fun d => (h.addr, d)).toList }

def Loop.init (queue : List Dgram) : Loop := ⟨queue, List.replicate 4096 0, [], [], []⟩

def Loop.run (perIter : Bool) (respond : Bytes → Option Bytes × Option Bytes) (s : Loop) (sched : List Step) : Loop :=
  sched.foldl (Loop.step perIter respond) s

/-- everything was received and every handler has run -/
def Loop.quiet (s : Loop) : Prop := s.queue = [] ∧ s.pending = []

instance (s : Loop) : Decidable s.quiet := by unfold Loop.quiet; infer_instance

/-- what the handler of `RecvAndRespond` is, as a `respond`: the callback sees what `requestDecode`
extracts, the datagram is what `handleDatagram` writes. `open_` / `sealR` are Noise, `cb` the callback
(its errors: `none`). -/
def responderRespond (dom : Name) (maxUDP : Nat) (dec : Bytes → Option Bytes) (open_ : Bytes → Option Bytes)
    (sealR : Bytes → Bytes) (cb : Bytes → Option Bytes) (buf : Bytes) : Option Bytes × Option Bytes :=
  (requestDecode open_ dec dom maxUDP buf,
   match handleDatagram dom maxUDP dec (fun f => (open_ f).bind fun p => (cb p).map sealR) buf with
   | .ok d => d
   | _ => none)

end CJ.Codec
