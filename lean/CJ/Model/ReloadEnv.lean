import CJ.Model.ConnHandler
/-!
# The station state a connection arrives in: configuration reloads before the handler runs

`handleNewTCPConn` (cmd/application/conns.go) reads one thing of the station before it arms the
deadline: `regManager.GeoIPDatabase()` — twice, `.CC(remoteIP)` and (unless the answer is "unk")
`.ASN(remoteIP)`.  The value behind that accessor is written at start-up (`NewRegistrationManager`,
which refuses to build a manager without a database) and by every configuration reload:

```
cmd/application/main.go, `for sig := range sigCh` (SIGHUP):
    newConf, err := cj.ParseConfig()            -- CJ_STATION_CONFIG: file, TOML, ParseBlocklists
    if err != nil { log } else { regManager.OnReload(newConf.RegConfig) }
pkg/station/lib/registration.go, OnReload:
    p, err := phantoms.NewPhantomIPSelector()   -- PHANTOM_SUBNET_LOCATION
    if err != nil { log } else { PhantomSelector = p }
    (block / allow lists replaced)
    geoipDB, err := geoip.New(conf.DBConfig)
    if errors.Is(err, ErrMissingDB) { warn } else if err != nil { log; return }
    GeoIP = geoipDB
pkg/station/geoip/geoip.go, New:
    no config / neither path set        -> &EmptyDatabase{}, ErrMissingDB
    ASN path set and geoip2.Open fails  -> nil, err        (the ASN file is opened first)
    CC path set and geoip2.Open fails   -> nil, err
    one of the two paths not set        -> db, ErrMissingDB (the reader without that half)
    both open                           -> db, nil
```

The database is a *value* `D` here (in the theorems: a total lookup function `A → Ans`); there is no
"no database" value — that a reload can never produce one is exactly what `onReload`'s `.failed` branch
says (the old value stays), and what the harness checks on the real code (histories `reload* → probe`).
-/
namespace CJ.ReloadEnv
open CJ.ConnHandler

/-- one database path of the reloaded configuration: not set, a file `geoip2.Open` accepts, or anything
`geoip2.Open` refuses (missing, a directory, not a MaxMind file, truncated) -/
inductive FileSt | unset | opens | broken
deriving Repr, DecidableEq

structure Files where
  asn : FileSt
  cc : FileSt
deriving Repr, DecidableEq

/-- what `geoip.New` returns: a database (`missing` = together with `ErrMissingDB`), or `nil` and an error -/
inductive NewRes (D : Type)
  | installed (d : D) (missing : Bool)
  | failed
deriving Repr, DecidableEq

/-- `geoip.New`: `empty` = `&EmptyDatabase{}`, `reader hasASN hasCC` = the MaxMind wrapper over the files that were set -/
def geoipNew {D : Type} (empty : D) (reader : Bool → Bool → D) (f : Files) : NewRes D :=
  match f.asn, f.cc with
  | .unset, .unset => .installed empty true
  | .broken, _ => .failed
  | _, .broken => .failed
  | .opens, .opens => .installed (reader true true) false
  | .opens, .unset => .installed (reader true false) true
  | .unset, .opens => .installed (reader false true) true

/-- one SIGHUP: did `ParseConfig` succeed, did `NewPhantomIPSelector` succeed, the database paths -/
structure Req where
  configOk : Bool
  subnetsOk : Bool
  files : Files
deriving Repr, DecidableEq

/-- the reloadable part of the registration manager; `selector` / `policy` count replacements (the
handler reads neither) -/
structure Station (D : Type) where
  geo : D
  selector : Nat := 0
  policy : Nat := 0
deriving Repr

section
variable {D : Type} (empty : D) (reader : Bool → Bool → D)

/-- `RegistrationManager.OnReload` -/
def onReload (s : Station D) (r : Req) : Station D :=
  let s1 := if r.subnetsOk then { s with selector := s.selector + 1 } else s
  let s2 := { s1 with policy := s1.policy + 1 }
  match geoipNew empty reader r.files with
  | .failed => s2
  | .installed d _ => { s2 with geo := d }

/-- the body of the SIGHUP loop -/
def sighup (s : Station D) (r : Req) : Station D :=
  if r.configOk then onReload empty reader s r else s

/-- a history of reloads -/
def run (s : Station D) (rs : List Req) : Station D := rs.foldl (sighup empty reader) s

/-- the reload puts a database in force -/
def installs (r : Req) : Bool :=
  r.configOk && (match geoipNew () (fun _ _ => ()) r.files with | .failed => false | .installed _ _ => true)

end

/-- what the database answers for one address: `none` = the lookup returns an error -/
structure Ans where
  cc : Option String
  asn : Option Nat
deriving Repr, DecidableEq

/-- the preamble of `handleNewTCPConn`: `getRemoteAsIP`, `GeoIPDatabase().CC`, `GeoIPDatabase().ASN` -/
def preamble {A : Type} (db : A → Ans) : Option A → Geo
  | none => .nonIP
  | some a =>
    match (db a).cc with
    | none => .ccErr
    | some cc =>
      if cc != "unk" then
        match (db a).asn with
        | none => .asnErr
        | some _ => .ok
      else .ok

/-- the handler on a connection that arrives after the reload history `rs` -/
def handlerAfter {T R A : Type} (cls : T → Bytes → Verdict R) (sched : Nat → List T → List T)
    (empty : A → Ans) (reader : Bool → Bool → A → Ans) (s : Station (A → Ans)) (rs : List Req)
    (remote : Option A) (count : Nat) (ts : List T) (evs : List Ev) : List (Act T R) :=
  handler cls sched (preamble (run empty reader s rs).geo remote) count ts evs

end CJ.ReloadEnv
