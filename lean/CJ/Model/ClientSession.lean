import CJ.Model.Derive
/-!
# Client transports as state machines, registrar responses on both sides (C01)

A `ClientTransport` object (pkg/transports/wrapping/{min,obfs4,prefix}/client.go,
pkg/transports/connecting/dtls/client.go) holds two parameter sets: the *configuration*
(`Parameters` / `parameters`: what `SetParams` writes, used for future sessions) and the *session
parameters* (`sessionParams`: what `Prepare` copies from the configuration, what `GetParams` puts into
the registration and what `SetSessionParams` replaces when a registrar overrides them).  The prefix
transport holds a prefix object next to each of them (`configured` + `configuredSet`, `Prefix`).  `step` mirrors the
methods branch by branch; a Go panic is the answer `panic`.

`unpack` is the client's treatment of the transport parameters of a `RegistrationResponse`
(gotapdance `ConjureReg.UnpackRegResp`, called by the registrars in pkg/registrars/registration):
`SetSessionParams(tp, true)` iff parameters are present and the session did not disable registrar
overrides; parameters that arrive although overrides are disabled are refused.
`ingestParams` / `stationIngest` are the station's side: `NewRegistrationC2SWrapper` on a wrapper that
carries the same response.

Abstractions: a parameter message is its derivation-relevant content (`Port.Wire`: randomise flag,
prefix id); flush policies, prefix bytes (a response names the bytes of the prefix id it carries) and
the DTLS source addresses are left out.  The random prefix (`PrefixID` −1, crypto/rand) is not
modelled; the drivers refuse such lines.
-/
namespace CJ.ClientSession
open CJ.Phantom CJ.Port CJ.Derive

/-- the argument of `SetParams(any)` -/
inductive Arg
  | nil
  | generic (r : Bool)            -- *pb.GenericTransportParams
  | prefix (id : Int) (r : Bool)  -- *pb.PrefixTransportParams / *prefix.ClientParams
  | dtls (r : Bool)               -- *pb.DTLSTransportParams
  | foreign                       -- a value of a type no transport knows
deriving DecidableEq, Repr

/-- the prefix transport's `Prefix` object -/
inductive PObj
  | table (id : Int)   -- an entry of `DefaultPrefixes` (bytes, id, port, flush policy)
  | resp (id : Int)    -- `&clientPrefix{bytes, id, flushPolicy}` built from a response: no port
deriving DecidableEq, Repr

def PObj.id : PObj → Int
  | .table id => id
  | .resp id => id

/-- `Prefix.DstPort(seed)` -/
def PObj.port (c : Consts) : PObj → Nat
  | .table id => (lookupPrefix c.clientPrefixes id).getD 0
  | .resp _ => 0

structure St where
  par : Option Wire := none     -- `Parameters` / `parameters`
  sess : Option Wire := none    -- `sessionParams`
  pfx : Option PObj := none     -- prefix: `Prefix`
  cfgPfx : Option PObj := none  -- prefix: `configured`
  cfgSet : Bool := false        -- prefix: `configuredSet`
deriving DecidableEq, Repr

inductive Op
  | setParams (a : Arg)
  | prepare
  | setSession (w : Option Wire) (unchecked : Bool)
  | getParams
  | unpack (disable : Bool) (tp : Option Wire)
  | getDstPort
  | wrap                         -- `PrepareKeys` + `WrapConn`
deriving DecidableEq, Repr

inductive Res
  | ok
  | err
  | panic
  | refused                      -- "registrar failed to respect disabled overrides"
  | params (w : Option Wire)
  | port (p : POut Nat)
  | sent (prefixId : Int)        -- prefix transport: the prefix whose bytes open the first flight
deriving DecidableEq, Repr

def rand? : Option Wire → Bool
  | some (.generic r) => r
  | some (.prefix _ r) => r
  | some (.dtls r) => r
  | none => false

def prefixId? : Option Wire → Int
  | some (.prefix id _) => id
  | _ => 0

/-- `defaultParams()` of the prefix transport -/
def prefixDefault : Wire := .prefix 0 false

def known (c : Consts) (id : Int) : Bool := (lookupPrefix c.clientPrefixes id).isSome

/-- `DefaultPrefixes[id]` (a missing key yields the nil interface) -/
def tableObj (c : Consts) (id : Int) : Option PObj := if known c id then some (.table id) else none

/-- prefix: `(*ClientTransport).configure` -/
def configure (p : PObj) (st : St) : St :=
  { st with cfgPfx := some p, cfgSet := true, pfx := if st.sess.isNone then some p else st.pfx }

/-- prefix: `(*ClientTransport).keepConfigured` -/
def keepConfigured (st : St) : St :=
  if st.cfgSet then st else { st with cfgPfx := st.pfx, cfgSet := true }

/-! ### min and obfs4 (identical client code) -/

def genericSetSession (st : St) (w : Option Wire) : St × Res :=
  match w with
  | none => (st, .ok)
  | some w =>
    let st1 : St :=
      if st.sess.isNone then
        let p := match st.par with | some p => some p | none => some (Wire.generic false)
        { st with par := p, sess := p }
      else st
    match w with
    | .generic r => ({ st1 with sess := some (.generic r) }, .ok)
    | _ => (st1, .err)

def genericStep (c : Consts) (s : Stream) (lim : Nat) (t : Transport) (st : St) : Op → St × Res
  | .setParams (.generic r) => ({ st with par := some (.generic r) }, .ok)
  | .setParams .nil => ({ st with par := some (.generic true) }, .ok)
  | .setParams _ => (st, .err)
  | .prepare => ({ st with sess := st.par }, .ok)
  | .getParams => (st, .params st.sess)
  | .setSession w _ => genericSetSession st w
  | .unpack disable tp =>
    match tp with
    | none => (st, .ok)
    | some w => if disable then (st, .refused) else genericSetSession st (some w)
  | .getDstPort => (st, .port (clientDstPort c s lim t st.sess))
  | .wrap => (st, .ok)

/-! ### dtls -/

def dtlsSetSession (st : St) (w : Option Wire) : St × Res :=
  match w with
  | none => (st, .ok)
  | some (.dtls r) => ({ st with sess := some (.dtls r) }, .ok)
  | some _ => (st, .err)

def dtlsStep (c : Consts) (s : Stream) (lim : Nat) (st : St) : Op → St × Res
  | .setParams (.generic r) => ({ st with par := some (.dtls r) }, .ok)
  | .setParams (.dtls r) => ({ st with par := some (.dtls r) }, .ok)
  | .setParams _ => (st, .ok)                       -- anything else is ignored without an error
  | .prepare =>
    let p := match st.par with | some p => some p | none => some (Wire.dtls false)
    ({ st with par := p, sess := p }, .ok)
  | .getParams => (st, .params st.sess)
  | .setSession w _ => dtlsSetSession st w
  | .unpack disable tp =>
    match tp with
    | none => (st, .ok)
    | some w => if disable then (st, .refused) else dtlsSetSession st (some w)
  | .getDstPort => (st, .port (clientDstPort c s lim .dtls st.sess))
  | .wrap => (st, .ok)

/-! ### prefix -/

def prefixSetParams (c : Consts) (st : St) : Arg → St × Res
  | .generic r =>
    let id := match st.par with | some p => prefixId? (some p) | none => 0
    ({ st with par := some (.prefix id r) }, .ok)
  | .prefix id r =>
    if known c id then ({ configure (.table id) st with par := some (.prefix id r) }, .ok)
    else (st, .err)                                  -- ErrUnknownPrefix (−1, the random prefix, is not modelled)
  | .nil =>
    match st.pfx with
    | some o =>
      if known c o.id then ({ configure (.table o.id) st with par := some (.prefix o.id false) }, .ok)
      else (st, .err)
    | none =>
      let st1 := { st with pfx := tableObj c (prefixId? st.par) }
      if known c 0 then ({ configure (.table 0) st1 with par := some prefixDefault }, .ok)
      else (st1, .err)
  | _ => (st, .err)

def prefixPrepare (c : Consts) (st : St) : St :=
  let st1 : St :=
    match st.par with
    | some _ => st
    | none =>
      match st.pfx with
      | some o => { st with par := some (.prefix o.id false) }
      | none => { st with par := some prefixDefault, pfx := tableObj c 0 }
  let st2 : St := if st1.cfgSet then { st1 with pfx := st1.cfgPfx } else keepConfigured st1
  { st2 with sess := st2.par }

def prefixSetSession (c : Consts) (st : St) (w : Option Wire) (unchecked : Bool) : St × Res :=
  match w with
  | none => (st, .ok)
  | some (.prefix id r) =>
    if st.par.isNone then (st, .panic)               -- `t.parameters.CustomFlushPolicy` on a nil pointer
    else if unchecked then ({ keepConfigured st with sess := some (.prefix id r), pfx := some (.resp id) }, .ok)
    else if known c id then ({ keepConfigured st with sess := some (.prefix id r), pfx := some (.table id) }, .ok)
    else (st, .err)
  | some _ => (st, .err)

def prefixStep (c : Consts) (s : Stream) (lim : Nat) (st : St) : Op → St × Res
  | .setParams a => prefixSetParams c st a
  | .prepare => (prefixPrepare c st, .ok)
  | .getParams =>
    match st.pfx with
    | none => (st, .err)
    | some _ =>
      let st1 : St :=
        if st.sess.isNone then { st with sess := match st.par with | some p => some p | none => some prefixDefault }
        else st
      (st1, .params st1.sess)
  | .setSession w u => prefixSetSession c st w u
  | .unpack disable tp =>
    match tp with
    | none => (st, .ok)
    | some w => if disable then (st, .refused) else prefixSetSession c st (some w) true
  | .getDstPort =>
    match st.pfx with
    | none => (st, .port (.err .badParams))
    | some o =>
      let st1 : St := if st.sess.isNone then { st with sess := some (.prefix o.id false) } else st
      if rand? st1.sess then (st1, .port (portSelectorRange s lim c.prefixRange.1 c.prefixRange.2))
      else (st1, .port (.ok (o.port c)))
  | .wrap =>
    match st.pfx with
    | none => (st, .err)
    | some o => ({ st with sess := if st.sess.isNone then st.par else st.sess }, .sent o.id)

/-- one call on a client transport object -/
def step (c : Consts) (s : Stream) (lim : Nat) (t : Transport) (st : St) (op : Op) : St × Res :=
  match t with
  | .min => genericStep c s lim .min st op
  | .obfs4 => genericStep c s lim .obfs4 st op
  | .prefix => prefixStep c s lim st op
  | .dtls => dtlsStep c s lim st op
  | .unknown => (st, .err)

/-- a history: the answers of all calls, and the state they leave -/
def run (c : Consts) (s : Stream) (lim : Nat) (t : Transport) : St → List Op → St × List Res
  | st, [] => (st, [])
  | st, op :: ops =>
    let (st1, r) := step c s lim t st op
    let (st2, rs) := run c s lim t st1 ops
    (st2, r :: rs)

/-- the state after a list of `SetParams` calls -/
def reconfigure (c : Consts) (s : Stream) (lim : Nat) (t : Transport) (st : St) (as : List Arg) : St :=
  as.foldl (fun st a => (step c s lim t st (.setParams a)).1) st

/-- the port the dialer uses: 443 for library versions before port randomisation and on subnets that
do not allow it, else the answer of `GetDstPort` -/
def dialerPort (c : Consts) (ver : Nat) (supportsRandom : Bool) : Res → POut Nat
  | .port p => if ver < c.randomizeMinVersion ∨ supportsRandom = false then .ok 443 else p
  | _ => .err .badParams

/-! ### the station: `NewRegistrationC2SWrapper` on a wrapper with a `RegistrationResponse` -/

/-- the fields of the response that reach the registration -/
structure Resp where
  tp : Option Wire      -- transport_params
  port : Option Nat     -- dst_port
  addr : Option Bytes   -- ipv4addr / ipv6addr of the family the registration is built for (valid, non-zero)
deriving DecidableEq, Repr

/-- `c2s.TransportParams` after `if rr.GetTransportParams() != nil && !c2s.GetDisableRegistrarOverrides()` -/
def ingestParams (disable : Bool) (rr : Option Resp) (c2s : Option Wire) : Option Wire :=
  match rr with
  | none => c2s
  | some r =>
    match r.tp with
    | none => c2s
    | some w => if disable then c2s else some w

/-- what `reg.TransportParams()` holds (the answer of the transport's `ParseParams`) -/
def registeredParams (k : Consts) (t : Transport) (ver : Nat) (data : Option Wire) : Option Params :=
  match parseParams k t ver data with
  | .ok p => some p
  | _ => none

/-- `NewRegistrationC2SWrapper`: parameters from the response if present and allowed, `NewRegistration`
(the derivation), then the phantom and the port of the response where it carries them -/
def stationIngest (c : Crypto) (k : Consts) (cfg : Cfg) (r : Reg) (disable : Bool) (rr : Option Resp) : Prog DOut := do
  let eff := ingestParams disable rr r.params
  let d ← stationDerive c k cfg { r with params := eff }
  match d, rr with
  | .ok rv, some resp =>
    return .ok { rv with addr := resp.addr.getD rv.addr, port := (resp.port.map (· % 65536)).getD rv.port }
  | d, _ => return d

end CJ.ClientSession
