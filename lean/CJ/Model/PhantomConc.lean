import CJ.Model.Phantom
/-!
# Interleaving model of concurrent selectors (C14, the legacy math/rand paths)

A selector is a `Prog` (CJ.Model.Phantom): its instructions are the generator operations of the Go
code, each of which is one atomic step (math/rand's global source takes a lock per operation; a local
generator is touched by its own goroutine only).  A schedule is a list of thread indices.

* `execLocal`  — the repaired code: `seed` creates a generator that belongs to the selecting goroutine
  (`rand.New(rand.NewSource(s))`), draws read that generator.
* `execShared` — the code before the repair: one process-global generator; `seed` is `rand.Seed`,
  draws are `rand.Intn` / `rand.Read` on the shared state.
-/
namespace CJ.Phantom.Conc
open CJ.Phantom

/-- one atomic step: execute the head instruction on generator state `g` -/
def step {α : Type} (R : Rng) : Prog α → R.G → Prog α × R.G
  | .done a, g => (.done a, g)
  | .seed s k, _ => (k, R.seed s)
  | .intn n k, g => (k (R.intn g n).1, (R.intn g n).2)
  | .read n k, g => (k (R.read g n).1, (R.read g n).2)

def modifyAt {β : Type} (f : β → β) : List β → Nat → List β
  | [], _ => []
  | x :: xs, 0 => f x :: xs
  | x :: xs, i + 1 => x :: modifyAt f xs i

/-- the value of a finished thread -/
def result {α : Type} : Prog α → Option α
  | .done a => some a
  | _ => none

/-! ### local generators (repaired code) -/

/-- a thread: remaining program and the goroutine's own generator -/
abbrev LThread (R : Rng) (α : Type) := Prog α × R.G

def stepLocal {α : Type} (R : Rng) (ts : List (LThread R α)) (i : Nat) : List (LThread R α) :=
  modifyAt (fun t => step R t.1 t.2) ts i

def execLocal {α : Type} (R : Rng) (ts : List (LThread R α)) (sched : List Nat) : List (LThread R α) :=
  sched.foldl (stepLocal R) ts

/-- what the thread returns when it runs alone -/
def solo {α : Type} (R : Rng) (t : LThread R α) : α := (t.1.run R t.2).1

/-! ### one shared generator (before the repair) -/

structure Shared (R : Rng) (α : Type) where
  g : R.G
  ts : List (Prog α)

def stepShared {α : Type} (R : Rng) (s : Shared R α) (i : Nat) : Shared R α :=
  match s.ts[i]? with
  | some p => { g := (step R p s.g).2, ts := modifyAt (fun _ => (step R p s.g).1) s.ts i }
  | none => s

def execShared {α : Type} (R : Rng) (s : Shared R α) (sched : List Nat) : Shared R α :=
  sched.foldl (stepShared R) s

end CJ.Phantom.Conc
