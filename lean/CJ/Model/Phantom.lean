/-!
# Model of phantom selection (pkg/phantoms: phantom_selector.go, compat.go, phantoms.go, station_phantoms.go)

Mirrors the Go code branch by branch, for all three selector generations:

* library version 0   — `getSubnetsVarint` + `selectPhantomImplV0`     (math/rand driven, historical bugs kept)
* library version 1   — `getSubnetsVarint` + `selectPhantomImplVarint`  (math/rand driven)
* library version ≥ 2 — `getSubnetsHkdf`   + `selectPhantomImplHkdf`    (HKDF streams + `crypto/rand.Int`)

and for the two sides: the station entry `PhantomIPSelector.Select` and the client entry
`phantoms.SelectPhantom`; the frozen clients of versions 0 / 1 (`internal/compatability/v0|v1`) are
mirrored separately (they keep `big.Int.Bytes()` as their encoding, as deployed).

Parameters (modelled, not verified; the harness feeds the real values):

* `net.ParseCIDR` — a configured subnet arrives as `RawNet` (`IP.To4() ≠ nil`, the network address as
  a number, `Mask.Size()`), or `none` when parsing fails;
* `hkdf.New(sha256.New, seed, nil, info)` — a byte stream `hk seed info : Nat → UInt8` with entropy
  limit `lim` (the drivers instantiate it with the Lean HKDF of `CJ.Base.HKDF`);
* `math/rand` — an abstract generator `Rng` (seed / Intn / Read).  The legacy paths are written as
  *programs* (`Prog`) whose instructions are exactly the generator operations of the Go code, so the
  same definition serves the sequential theorems (`Prog.run`) and the interleaving model
  (`CJ.Phantom.Conc`): `seed` is `rand.New(rand.NewSource(s))` in the repaired code and was
  `rand.Seed(s)` on the process-global source before.
* `sort.Slice` is a stable insertion sort (true for ≤ 12 elements; generators stay below).

A Go panic is the explicit constructor `Outcome.panic`.
-/
namespace CJ.Phantom

abbrev Bytes := List UInt8
abbrev Stream := Nat → UInt8

/-! ## outcomes -/

inductive Err
  | unknownGen      -- "generation number not recognized"
  | varint          -- "failed to seed random for weighted rand"
  | noChoices       -- weightedrand: "zero Choices with Weight >= 1"
  | weightOverflow  -- weightedrand: "sum of Choice Weights exceeds max int"
  | emptyGroup      -- "parseSubnets - no subnets provided"
  | parse           -- net.ParseCIDR failed
  | zeroWeight      -- no weight to draw from (repaired: was a panic inside crypto/rand.Int)
  | entropy         -- "hkdf: entropy limit reached"
  | noAddrs         -- ErrMissingAddrs
  | legacyNoAddrs   -- ErrLegacyAddrSelectBug
  | v0NoAddrs       -- ErrLegacyMissingAddrs
  | v0Bug           -- ErrLegacyV0SelectionBug
  | nilResult       -- "nil result should not be possible"
  | offsetTooBig    -- "offset too big for subnet"
  | seedFail        -- "failed to create seed"
  | addrRange       -- computed address does not fit the family's length (repaired encoding)
deriving DecidableEq, Repr

inductive Outcome (α : Type) where
  | ok (a : α)
  | err (e : Err)
  | panic (w : String)
deriving Repr, DecidableEq

namespace Outcome
def bind {α β : Type} : Outcome α → (α → Outcome β) → Outcome β
  | .ok a, f => f a
  | .err e, _ => .err e
  | .panic w, _ => .panic w

instance : Monad Outcome where
  pure := .ok
  bind := Outcome.bind

def isPanic {α : Type} : Outcome α → Bool
  | .panic _ => true
  | _ => false
end Outcome

/-! ## bytes and numbers (`big.Int.SetBytes`, `Bytes`, `FillBytes`) -/

/-- `big.Int.SetBytes`: big-endian value -/
def beNat (bs : Bytes) : Nat := bs.foldl (fun acc b => acc * 256 + b.toNat) 0

/-- fixed-length big-endian encoding of `n % 256 ^ len` -/
def beFixed : Nat → Nat → Bytes
  | 0, _ => []
  | len + 1, n => beFixed len (n / 256) ++ [UInt8.ofNat (n % 256)]

/-- `big.Int.Bytes()`: minimal big-endian encoding, no leading zero bytes, `0 ↦ []`.
(Written with the bit length as the byte count so that it is structurally recursive.) -/
def natBytes (n : Nat) : Bytes :=
  if n = 0 then [] else beFixed (Nat.log2 n / 8 + 1) n

/-- The repaired encoding (`ipFromBigInt`): the value at exactly `len` bytes, an error if it does not
fit. -/
def fillBytes (len n : Nat) : Option Bytes :=
  if n < 256 ^ len then some (beFixed len n) else none

def famLen (v4 : Bool) : Nat := if v4 then 4 else 16

def encodeAddr (v4 : Bool) (n : Nat) : Outcome Bytes :=
  match fillBytes (famLen v4) n with
  | some b => .ok b
  | none => .err .addrRange

/-! ## `crypto/rand.Int` (go1.23 `src/crypto/rand/util.go`) -/

def bitLen (n : Nat) : Nat := if n = 0 then 0 else Nat.log2 n + 1

def readAt (s : Stream) (pos k : Nat) : Bytes := (List.range k).map fun i => s (pos + i)

/-- `bytes[0] &= uint8(int(1<<b) - 1)` -/
def maskTop (b : Nat) : Bytes → Bytes
  | [] => []
  | x :: xs => (x &&& UInt8.ofNat ((1 <<< b) - 1)) :: xs

/-- the rejection loop: read `k` bytes, mask, accept if `< max`.  A read that would pass the entropy
limit of the reader fails (`io.ReadFull` returns the reader's error).  `fuel` bounds the number of
iterations; `lim + 1` is never exhausted before the limit test fires because `k ≥ 1`. -/
def randIntLoop (s : Stream) (lim k b max : Nat) : Nat → Nat → Outcome Nat
  | 0, _ => .err .entropy
  | fuel + 1, pos =>
    if lim < pos + k then .err .entropy else
    let n := beNat (maskTop b (readAt s pos k))
    if n < max then .ok n else randIntLoop s lim k b max fuel (pos + k)

/-- `rand.Int(reader, max)` on a fresh reader -/
def randInt (s : Stream) (lim max : Nat) : Outcome Nat :=
  if max = 0 then .panic "crypto/rand: argument to Int is <= 0" else
  let bl := bitLen (max - 1)
  if bl = 0 then .ok 0 else
  let k := (bl + 7) / 8
  let b := if bl % 8 = 0 then 8 else bl % 8
  randIntLoop s lim k b max (lim + 1) 0

/-! ## configuration -/

/-- what `net.ParseCIDR` returned for one configured subnet string -/
structure RawNet where
  v4 : Bool      -- `IPNet.IP.To4() != nil`
  base : Nat     -- the network address (`To4()` bytes if `v4`, else the 16 bytes) as a number
  ones : Nat     -- `Mask.Size()`
  bits : Nat
deriving Repr, DecidableEq

/-- `phantomNet` -/
structure Net extends RawNet where
  randPort : Bool
deriving Repr, DecidableEq

/-- `pb.PhantomSubnets` -/
structure Group where
  weight : Nat
  randPort : Bool
  isNil : Bool                    -- `Subnets == nil`
  nets : List (Option RawNet)     -- `none`: the string does not parse
deriving Repr, DecidableEq

/-- `SubnetConfig` / `pb.PhantomSubnetsList` -/
structure GenCfg where
  groupsNil : Bool                -- `WeightedSubnets == nil`
  groups : List Group
deriving Repr, DecidableEq

/-- `PhantomIPSelector.Networks`; `none` is the nil entry left by `RemoveGeneration` -/
structure Cfg where
  gens : List (Nat × Option GenCfg)
deriving Repr

def Cfg.lookup (c : Cfg) (gen : Nat) : Option GenCfg :=
  match c.gens.find? (fun p => p.1 == gen) with
  | some (_, some g) => some g
  | _ => none

/-- the result: `PhantomIP` with the *encoded* address (its length is part of the property) -/
structure Addr where
  bytes : Bytes
  randPort : Bool
deriving Repr, DecidableEq

/-- `parseSubnets` -/
def parseNets (rp : Bool) : List (Option RawNet) → Outcome (List Net)
  | [] => .ok []
  | none :: _ => .err .parse
  | some r :: rest =>
    match parseNets rp rest with
    | .ok l => .ok ({ r with randPort := rp } :: l)
    | .err e => .err e
    | .panic w => .panic w

def parseGroup (g : Group) : Outcome (List Net) :=
  if g.nets.isEmpty then .err .emptyGroup else parseNets g.randPort g.nets

/-- the unweighted tail of `getSubnetsHkdf` (unreachable from the weighted callers; mirrored) -/
def concatAll : List Group → Outcome (List Net)
  | [] => .ok []
  | g :: rest =>
    match parseGroup g with
    | .ok l =>
      match concatAll rest with
      | .ok l' => .ok (l ++ l')
      | .err e => .err e
      | .panic w => .panic w
    | .err e => .err e
    | .panic w => .panic w

/-- `V4Only` -/
def v4Only (l : List Net) : List Net := l.filter (·.v4)
/-- `V6Only` (a parsed network never has a nil IP) -/
def v6Only (l : List Net) : List Net := l.filter (! ·.v4)

def famFilter (v6 : Bool) (l : List Net) : List Net := if v6 then v6Only l else v4Only l

/-! ## weighted choice -/

/-- insertion step of `sort.Slice(choices, weight(i) < weight(j))`: the new element moves left while
it is strictly lighter than its predecessor -/
def insertByWeight (x : Group) : List Group → List Group
  | [] => [x]
  | y :: ys => if x.weight < y.weight then x :: y :: ys else y :: insertByWeight x ys

def sortByWeight (l : List Group) : List Group :=
  l.foldl (fun acc x => insertByWeight x acc) []

/-- "decrement rnd by each weight until it's < 0" -/
def pickSubtract : List Group → Int → Option Group
  | [], _ => none
  | g :: rest, rnd =>
    let rnd' := rnd - (g.weight : Int)
    if rnd' < 0 then some g else pickSubtract rest rnd'

/-- `getSubnetsHkdf(sc, seed, weighted = true)`; `s` is the "phantom-select-subnet" stream -/
def getSubnetsHkdf (s : Stream) (lim : Nat) (c : GenCfg) : Outcome (List Net) :=
  if c.groupsNil then .ok [] else
  let choices := c.groups.filter (! ·.isNil)
  let tot := (choices.map (·.weight)).sum
  let sorted := sortByWeight choices
  if tot = 0 then .err .zeroWeight else
  match randInt s lim tot with
  | .ok rnd =>
    match pickSubtract sorted (rnd : Int) with
    | some g => parseGroup g
    | none => concatAll c.groups
  | .err e => .err e
  | .panic w => .panic w

/-! ## version ≥ 2: `selectPhantomImplHkdf` -/

/-- number of ids a subnet gets: `2^(32-ones)` / `2^(128-ones)`; `big.Int.Exp` with a negative
exponent is 1, which is what truncated subtraction gives -/
def count (n : Net) : Nat := if n.v4 then 2 ^ (32 - n.ones) else 2 ^ (128 - n.ones)

/-- `(min, max, net)` per subnet, `min` = ids before it, `max = min + count - 1` -/
def idNets : List Net → Nat → List (Nat × Nat × Net)
  | [], _ => []
  | n :: rest, acc => (acc, acc + count n - 1, n) :: idNets rest (acc + count n)

def addressTotal (nets : List Net) : Nat := (nets.map count).sum

/-- `selectAddrFromSubnetOffset` (repaired encoding) -/
def selectAddrFromSubnetOffset (n : Net) (offset : Nat) : Outcome Addr :=
  let netSize := 2 ^ (n.bits - n.ones)
  if netSize ≤ offset then .err .offsetTooBig else
  match encodeAddr n.v4 (n.base + offset) with
  | .ok b => .ok ⟨b, n.randPort⟩
  | .err e => .err e
  | .panic w => .panic w

/-- the search loop of `selectPhantomImplHkdf` (no `break`: the last match wins) -/
def findHkdf : List (Nat × Nat × Net) → Nat → Option Addr → Outcome (Option Addr)
  | [], _, r => .ok r
  | (mn, mx, n) :: rest, id, r =>
    if mx ≥ id ∧ mn ≤ id then
      match selectAddrFromSubnetOffset n (id - mn) with
      | .ok a => findHkdf rest id (some a)
      | .err e => .err e
      | .panic w => .panic w
    else findHkdf rest id r

/-- `selectPhantomImplHkdf`; `s` is the "phantom-addr-id" stream -/
def selectHkdf (s : Stream) (lim : Nat) (nets : List Net) : Outcome Addr :=
  let total := addressTotal nets
  if total = 0 then .err .noAddrs else
  match randInt s lim total with
  | .ok id =>
    match findHkdf (idNets nets 0) id none with
    | .ok (some a) => .ok a
    | .ok none => .err .nilResult
    | .err e => .err e
    | .panic w => .panic w
  | .err e => .err e
  | .panic w => .panic w

/-! ## `encoding/binary.Varint` -/

def uvarintAux : Bytes → Nat → Nat → Nat → Nat × Int
  | [], _, _, _ => (0, 0)
  | b :: rest, i, x, s =>
    if i = 10 then (0, -((i : Int) + 1))
    else if b.toNat < 0x80 then
      if i = 9 ∧ b.toNat > 1 then (0, -((i : Int) + 1)) else (x ||| (b.toNat <<< s), (i : Int) + 1)
    else uvarintAux rest (i + 1) (x ||| ((b.toNat &&& 0x7f) <<< s)) (s + 7)

/-- `binary.Varint(buf)`: value and byte count (`0`: buffer too small, `< 0`: overflow, value 0) -/
def varint (buf : Bytes) : Int × Int :=
  let (ux, n) := uvarintAux buf 0 0 0
  let x : Int := (ux / 2 : Nat)
  (if ux % 2 = 1 then -x - 1 else x, n)

/-! ## `math/rand` as a program over an abstract generator -/

/-- programs over the math/rand generator: the instructions are the generator operations of the Go
code (`seed`: `rand.Seed` / `rand.New(rand.NewSource(·))`, `intn`: `Intn`, `read`: `Read`) -/
inductive Prog (α : Type) where
  | done (a : α)
  | seed (s : Int) (k : Prog α)
  | intn (n : Nat) (k : Nat → Prog α)
  | read (n : Nat) (k : Bytes → Prog α)

namespace Prog
def bind {α β : Type} : Prog α → (α → Prog β) → Prog β
  | .done a, f => f a
  | .seed s k, f => .seed s (bind k f)
  | .intn n k, f => .intn n (fun x => bind (k x) f)
  | .read n k, f => .read n (fun b => bind (k b) f)

instance : Monad Prog where
  pure := .done
  bind := Prog.bind
end Prog

/-- an implementation of the generator -/
structure Rng where
  G : Type
  seed : Int → G
  intn : G → Nat → Nat × G
  read : G → Nat → Bytes × G

/-- sequential execution from generator state `g` -/
def Prog.run {α : Type} (R : Rng) : Prog α → R.G → α × R.G
  | .done a, g => (a, g)
  | .seed s k, _ => k.run R (R.seed s)
  | .intn n k, g => (k (R.intn g n).1).run R (R.intn g n).2
  | .read n k, g => (k (R.read g n).1).run R (R.read g n).2

/-- seed, then one `Intn(n)` -/
def drawIntn (s : Int) (n : Nat) : Prog Nat := .seed s (.intn n .done)
/-- seed, then one `Read` of `n` bytes -/
def drawRead (s : Int) (n : Nat) : Prog Bytes := .seed s (.read n .done)

/-! ## versions 0 and 1: `getSubnetsVarint`, weightedrand -/

/-- `maxInt` of weightedrand on a 64-bit platform -/
def maxInt : Nat := 2 ^ 63 - 1

def runningTotals : List Group → Nat → Outcome (List Nat × Nat)
  | [], run => .ok ([], run)
  | g :: rest, run =>
    if maxInt - run ≤ g.weight then .err .weightOverflow else
    match runningTotals rest (run + g.weight) with
    | .ok (l, t) => .ok ((run + g.weight) :: l, t)
    | .err e => .err e
    | .panic w => .panic w

structure Chooser where
  data : List Group
  totals : List Nat
  max : Nat
deriving Repr

/-- `weightedrand.NewChooser` -/
def newChooser (choices : List Group) : Outcome Chooser :=
  let data := sortByWeight choices
  match runningTotals data 0 with
  | .ok (totals, run) => if run < 1 then .err .noChoices else .ok ⟨data, totals, run⟩
  | .err e => .err e
  | .panic w => .panic w

/-- `searchInts(a, x)`: smallest index with `a[i] ≥ x` (the result of the binary search on the
non-decreasing running totals), `len(a)` if there is none -/
def searchInts : List Nat → Nat → Nat
  | [], _ => 0
  | a :: rest, x => if a < x then searchInts rest x + 1 else 0

/-- the tail of `Chooser.Pick` after `r := Intn(max)`: index, then `data[i]` (out of range panics) -/
def Chooser.at (c : Chooser) (r : Nat) : Outcome Group :=
  match c.data[searchInts c.totals (r + 1)]? with
  | some g => .ok g
  | none => .panic "index out of range"

/-- `(*SubnetConfig).getSubnetsVarint(seed, weighted = true)`: every group is a choice -/
def getSubnetsVarint (c : GenCfg) (seed : Bytes) : Prog (Outcome (List Net)) :=
  let (seedInt, n) := varint seed
  if n = 0 then .done (.err .varint) else
  match newChooser c.groups with
  | .ok ch => do
    let r ← drawIntn seedInt ch.max
    return (ch.at r).bind parseGroup
  | .err e => .done (.err e)
  | .panic w => .done (.panic w)

/-- the arithmetic of `SelectAddrFromSubnet` after the random bytes are drawn (repaired encoding) -/
def addrFromRand (n : RawNet) (rb : Bytes) : Outcome Bytes :=
  let mask := (2 ^ n.bits - 1) >>> n.ones
  encodeAddr n.v4 (n.base + (beNat rb &&& mask))

/-- `SelectAddrFromSubnet(seed, net)` -/
def selectAddrFromSubnet (seed : Bytes) (n : RawNet) : Prog (Outcome Bytes) :=
  let (seedInt, k) := varint seed
  if k = 0 then .done (.err .seedFail) else do
    let rb ← drawRead seedInt (n.bits / 8)
    return addrFromRand n rb

/-- the range test of the legacy search loops: `max ≥ id ∧ min ≤ id`; version 0 (`strict`) tests
`min < id` -/
def hit (strict : Bool) (mn mx id : Nat) : Bool :=
  decide (mx ≥ id) && (if strict then decide (mn < id) else decide (mn ≤ id))

/-- the search loop of the legacy selectors (no `break`: the last match wins) -/
def findLegacy (strict : Bool) (seed : Bytes) :
    List (Nat × Nat × Net) → Nat → Option Addr → Prog (Outcome (Option Addr))
  | [], _, r => .done (.ok r)
  | (mn, mx, n) :: rest, id, r =>
    if hit strict mn mx id then do
      match ← selectAddrFromSubnet seed n.toRawNet with
      | .ok b => findLegacy strict seed rest id (some ⟨b, n.randPort⟩)
      | .err e => return .err e
      | .panic w => return .panic w
    else findLegacy strict seed rest id r

def optResult (bug : Err) : Outcome (Option Addr) → Outcome Addr
  | .ok (some a) => .ok a
  | .ok none => .err bug
  | .err e => .err e
  | .panic w => .panic w

/-- `selectPhantomImplVarint` (version 1) -/
def selectVarint (seed : Bytes) (nets : List Net) : Prog (Outcome Addr) :=
  let total := addressTotal nets
  if total = 0 then .done (.err .legacyNoAddrs) else
  let id := beNat seed
  let id := if id ≥ total then id % total else id
  do return optResult .nilResult (← findLegacy false seed (idNets nets 0) id none)

/-- version 0 ranges: the running total loses one per subnet (`Sub(total, 1)`), `max` = total after -/
def idNetsV0 : List Net → Nat → List (Nat × Nat × Net)
  | [], _ => []
  | n :: rest, acc => (acc, acc + count n - 1, n) :: idNetsV0 rest (acc + count n - 1)

def addressTotalV0 : List Net → Nat → Nat
  | [], acc => acc
  | n :: rest, acc => addressTotalV0 rest (acc + count n - 1)

/-- `selectPhantomImplV0` (version 0, bugs kept: id `0` and one-address subnets are never hit) -/
def selectV0 (seed : Bytes) (nets : List Net) : Prog (Outcome Addr) :=
  let total := addressTotalV0 nets 0
  if total = 0 then .done (.err .v0NoAddrs) else
  let id := beNat seed
  let id := if id > total then id % total else id
  do return optResult .v0Bug (← findLegacy true seed (idNetsV0 nets 0) id none)

/-! ## the two entry points -/

/-- the HKDF readers and their entropy limit -/
structure Hk where
  hk : Bytes → String → Stream
  lim : Nat

def labelSubnet : String := "phantom-select-subnet"
def labelAddr : String := "phantom-addr-id"

/-- `core.PhantomSelectionMinGeneration`, `core.PhantomHkdfMinVersion` -/
def selectionMinGeneration : Nat := 1
def hkdfMinVersion : Nat := 2

/-- `subnetsByVersion` -/
def subnetsByVersion (h : Hk) (seed : Bytes) (ver : Nat) (gc : GenCfg) : Prog (Outcome (List Net)) :=
  if ver < hkdfMinVersion then getSubnetsVarint gc seed
  else .done (getSubnetsHkdf (h.hk seed labelSubnet) h.lim gc)

/-- `(*PhantomIPSelector).Select(seed, generation, clientLibVer, v6Support)` -/
def stationSelect (h : Hk) (cfg : Cfg) (seed : Bytes) (gen ver : Nat) (v6 : Bool) : Prog (Outcome Addr) :=
  match cfg.lookup gen with
  | none => .done (.err .unknownGen)
  | some gc => do
    match ← subnetsByVersion h seed ver gc with
    | .ok nets =>
      let nets := famFilter v6 nets
      if ver < selectionMinGeneration then selectV0 seed nets
      else if ver < hkdfMinVersion then selectVarint seed nets
      else .done (selectHkdf (h.hk seed labelAddr) h.lim nets)
    | .err e => return .err e
    | .panic w => return .panic w

/-- `phantoms.SelectPhantom(seed, list, V4Only | V6Only, weighted = true)` — the current client -/
def clientSelect (h : Hk) (gc : GenCfg) (seed : Bytes) (v6 : Bool) : Outcome Addr :=
  match getSubnetsHkdf (h.hk seed labelSubnet) h.lim gc with
  | .ok nets => selectHkdf (h.hk seed labelAddr) h.lim (famFilter v6 nets)
  | .err e => .err e
  | .panic w => .panic w

/-! ## the frozen clients of versions 0 and 1 (`internal/compatability`) -/

/-- the compat copies keep `net.IP(ipBigInt.Bytes())` -/
def addrFromRandCompat (n : RawNet) (rb : Bytes) : Bytes :=
  let mask := (2 ^ n.bits - 1) >>> n.ones
  natBytes (n.base + (beNat rb &&& mask))

/-- compat `getSubnets(sc, seed, weighted = true)`: the list of subnet strings of the picked group.
`v0` reads the seed with `binary.ReadVarint` (fails on overflow as well), `v1` with `binary.Varint`
(`n == 0` only).  Groups with nil subnets are *not* choices here; a failing `NewChooser` gives `[]`. -/
def compatGetSubnets (v0 : Bool) (c : GenCfg) (seed : Bytes) : Prog (List (Option RawNet)) :=
  let (seedInt, n) := varint seed
  if n = 0 ∨ (v0 ∧ n < 0) then .done [] else
  .seed seedInt (
    if c.groupsNil then .done [] else
    match newChooser (c.groups.filter (! ·.isNil)) with
    | .ok ch => .intn ch.max fun r =>
      match ch.at r with
      | .ok g => .done g.nets
      | _ => .done []       -- unreachable for a conforming generator (out-of-range index)
    | _ => .done [])

def compatSelectAddr (v0 : Bool) (seed : Bytes) (n : RawNet) : Prog (Outcome Bytes) :=
  let (seedInt, k) := varint seed
  if k = 0 ∨ (v0 ∧ k < 0) then .done (.err .seedFail) else do
    let rb ← drawRead seedInt (n.bits / 8)
    return .ok (addrFromRandCompat n rb)

def compatFind (v0 : Bool) (seed : Bytes) :
    List (Nat × Nat × Net) → Nat → Option Bytes → Prog (Outcome (Option Bytes))
  | [], _, r => .done (.ok r)
  | (mn, mx, n) :: rest, id, r =>
    if hit v0 mn mx id then do
      match ← compatSelectAddr v0 seed n.toRawNet with
      | .ok b => compatFind v0 seed rest id (some b)
      | .err e => return .err e
      | .panic w => return .panic w
    else compatFind v0 seed rest id r

def optBytes (bug : Err) : Outcome (Option Bytes) → Outcome Bytes
  | .ok (some a) => .ok a
  | .ok none => .err bug
  | .err e => .err e
  | .panic w => .panic w

/-- compat `SelectPhantom(seed, list, V4Only | V6Only, weighted = true)` of version 0 / 1 -/
def compatSelect (v0 : Bool) (gc : GenCfg) (seed : Bytes) (v6 : Bool) : Prog (Outcome Bytes) := do
  let strs ← compatGetSubnets v0 gc seed
  if strs.isEmpty then return .err .emptyGroup else
  match parseNets false strs with
  | .ok nets =>
    let nets := famFilter v6 nets
    if v0 then
      let total := addressTotalV0 nets 0
      if total = 0 then return .err .v0NoAddrs else
      let id := beNat seed
      let id := if id > total then id % total else id
      return optBytes .v0Bug (← compatFind true seed (idNetsV0 nets 0) id none)
    else
      let total := addressTotal nets
      if total = 0 then return .err .legacyNoAddrs else
      let id := beNat seed
      let id := if id ≥ total then id % total else id
      return optBytes .nilResult (← compatFind false seed (idNets nets 0) id none)
  | .err e => return .err e
  | .panic w => return .panic w

end CJ.Phantom
