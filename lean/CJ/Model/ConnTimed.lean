import CJ.Model.ConnHandler
/-!
# `handleNewTCPConn` on a clock — the timing decisions of the classification loop (cmd/application/conns.go)

`CJ.ConnHandler.handler` takes what the successive `Read`s *returned*; which of the things a peer does are
ever read, and when the handler gives the connection back, is decided by the deadline the handler draws
and arms.  This module puts that decision inside the model:

* `ms := rand.Int63n(5000) + 5000; timeout := time.Duration(ms) * time.Millisecond`  → `timeoutMs draw`
  (`draw` = what `rand.Int63n(5000)` returned; the two constants are regenerated from the source:
  `CJ/Gen/ConnTiming.lean`)
* `deadline := time.Now().Add(timeout); clientConn.SetDeadline(deadline)`            → `D = t0 + timeoutMs draw`,
  armed once, before the first read (`.setDeadline` is the first action)
* a `Read` issued at `now` on a connection with deadline `D` whose peer's next action reaches the station
  at `a`: it reports the deadline when the deadline has passed or passes first (`due D now a`), at
  `max now D`; otherwise it returns the peer's action at `max now a` (`net.Conn` semantics; an action
  that reached the station earlier is queued and returned at once)
* every `Read` error ends the handler at the time that read returned (`End.closed`: `handleNewConn`'s
  deferred `Close` runs when the handler returns)
* a transport error: `time.Sleep(time.Until(deadline))`, return                       → closed at `max now D`
* a match: `SetDeadline(time.Time{})`, the rest of the peer's stream goes to the proxy, whatever its
  pacing                                                                              → `End.handedOff`

Times are milliseconds on the station's clock; the handler's own computation takes no time (the harness'
connection has a virtual clock that only reads advance).  Not modelled: `SetDeadline` failing (the
handler logs and reads on without a deadline).  A script may carry actions out of arrival order (an
action with an earlier time than its predecessor was already queued).
-/
namespace CJ.ConnTimed
open CJ.ConnHandler

/-- `rand.Int63n(drawBound)` -/
def drawBound : Nat := 5000
/-- `… + drawBase` -/
def drawBase : Nat := 5000
/-- `ms := rand.Int63n(5000) + 5000`, in units of `time.Millisecond` -/
def timeoutMs (draw : Nat) : Nat := draw + drawBase

/-- something the peer does (`ev`: sends a segment, ends its stream, resets; a failing read) and the time
`t` it reaches the station -/
structure TEv where
  t : Nat
  ev : Ev
deriving Repr, DecidableEq

/-- a `Read` issued at `now`, deadline `D`, next action arriving at `a`: does it report the deadline? -/
def due (D now a : Nat) : Bool := decide (D ≤ now) || decide (D ≤ a)

/-- how the handler leaves the connection, and when -/
inductive End
  | closed (t : Nat)      -- the handler returned: the accept-side wrapper closes the connection
  | handedOff (t : Nat)   -- deadline cleared, connection given to the proxy
deriving Repr, DecidableEq

/-- what a connection with deadline `D` presents to successive reads, the first issued at `now`: the
actions that arrive before the deadline, up to the first that is not data; then the deadline -/
def present (D : Nat) : Nat → List TEv → List Ev
  | _, [] => []
  | now, e :: rest =>
    if due D now e.t then [.deadline]
    else match e.ev with
      | .data bs => .data bs :: present D (max now e.t) rest
      | x => [x]

section
variable {T R : Type}

/-- `io.Copy(io.Discard, clientConn)`, `return` — on the clock -/
def tdiscard (D : Nat) : Nat → List TEv → List (Act T R) × End
  | now, [] => ([.readEnd .deadline, .ret], .closed (max now D))
  | now, e :: rest =>
    if due D now e.t then ([.readEnd .deadline, .ret], .closed (max now D))
    else match e.ev with
      | .data bs => let r := tdiscard D (max now e.t) rest; (.readData bs.length :: r.1, r.2)
      | .eof => ([.readEnd .eof, .ret], .closed (max now e.t))
      | .reset => ([.readEnd .reset, .ret], .closed (max now e.t))
      | .deadline => ([.readEnd .deadline, .ret], .closed (max now e.t))
      | .otherErr => ([.readEnd .otherErr, .ret], .closed (max now e.t))

/-- the read loop on the clock; `i`, `ts`, `buf` as in `CJ.ConnHandler.loop` -/
def tloop (cls : T → Bytes → Verdict R) (sched : Nat → List T → List T) (D : Nat) :
    Nat → Nat → List T → Bytes → List TEv → List (Act T R) × End
  | _, now, [], _, s => let r := tdiscard D now s; (.discardUntilErr :: r.1, r.2)
  | _, now, _ :: _, _, [] => ([.readEnd .deadline, .ret], .closed (max now D))
  | i, now, t :: ts, buf, e :: rest =>
    if due D now e.t then ([.readEnd .deadline, .ret], .closed (max now D))
    else match e.ev with
      | .eof => ([.readEnd .eof, .ret], .closed (max now e.t))
      | .reset => ([.readEnd .reset, .ret], .closed (max now e.t))
      | .deadline => ([.readEnd .deadline, .ret], .closed (max now e.t))
      | .otherErr => ([.readEnd .otherErr, .ret], .closed (max now e.t))
      | .data c =>
        let p := pass cls (buf ++ c) (sched i (t :: ts)) []
        match p.2 with
        | .cont ts' =>
          let r := tloop cls sched D (i + 1) (max now e.t) ts' (buf ++ c) rest
          (.readData c.length :: (p.1 ++ r.1), r.2)
        | .abort =>
          (.readData c.length :: (p.1 ++ [.sleepUntilDeadline, .ret]), .closed (max (max now e.t) D))
        | .found r k =>
          (.readData c.length :: (p.1 ++ [.clearDeadline, .markActive r,
              .proxy r ((buf ++ c).drop k ++ dataOf (rest.map (·.ev))), .ret]),
            .handedOff (max now e.t))

/-- `handleNewTCPConn` entered at `t0`, `rand.Int63n(5000)` answering `draw` -/
def thandler (cls : T → Bytes → Verdict R) (sched : Nat → List T → List T) (t0 draw : Nat)
    (geo : Geo) (count : Nat) (ts : List T) (s : List TEv) : List (Act T R) × End :=
  match geo with
  | .ok =>
    if count < 1 then
      let r := tdiscard (t0 + timeoutMs draw) t0 s
      (.setDeadline :: .discardUntilErr :: r.1, r.2)
    else
      let r := tloop cls sched (t0 + timeoutMs draw) 0 t0 ts [] s
      (.setDeadline :: r.1, r.2)
  | _ => ([.ret], .closed t0)

end

/-- the proxy's view of the stream is the one thing the clock changes after a match (the deadline is
cleared, so nothing is cut off): comparisons with the untimed handler forget it -/
def forget {T R : Type} : Act T R → Act T R
  | .proxy r _ => .proxy r []
  | a => a

/-- the peer only sends (it never ends the connection itself, and no read fails) -/
def OnlyData (s : List TEv) : Prop := ∀ e ∈ s, ∃ bs, e.ev = .data bs

end CJ.ConnTimed
