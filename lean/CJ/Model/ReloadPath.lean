import CJ.Model.RW
/-!
# The reload path of the registration server as a whole (cmd/registration-server, pkg/regserver/*)

`CJ/Model/RW.lean` is one `sync.RWMutex`.  The reload path has several (the API registrar's `ccMutex`, the
processor's `selectorMutex` and `zmqMutex`, the metrics' `rwMutex`); the extractor `go/extract/reloadpath`
emits, per entry point, programs over *all* of them (operations tagged with the index of the mutex), with
callees inlined across packages.  This module has

* the projection of such a program onto one mutex (`proj`) - the per-lock theorems of `Props/C13` apply to
  it -, and the acquisitions of a mutex the program already holds (`reacquired`): a goroutine that asks again
  for a lock it holds - a recursive `RLock` in particular - blocks for good as soon as a writer has announced
  itself in between (Go's writer preference), see `recursive_reader_deadlocks` in `Props/C13`;
* the goroutine of `main` that serves the reload signal, as a loop over the signals delivered (`served`);
* what one round of that loop does to the configuration the registrars answer from (`Cfg`, `applyEff`): the
  phantom selector (the set of generations of the subnet file) and the ClientConf generation the API / DNS
  registrar compare a client's generation with.  The API registrar *replaces* the generation of an outdated
  client by its own, and the processor looks that generation up in the selector, so the registrar answers
  outdated clients iff the published generation is one of the selector's (`Consistent`).
-/
namespace CJ.ReloadPath
open CJ.RW

/-- one effect of the reload goroutine: an operation on mutex `m`, or a write to a field of a registrar object -/
inductive Eff | lk (m : Nat) (o : Op) | wr (field : String)
deriving DecidableEq, Repr, Inhabited

/-- the operations of a multi-lock program on mutex `k` -/
def proj (k : Nat) (p : List (Nat × Op)) : List Op := (p.filter (·.1 == k)).map (·.2)

/-- the mutexes the program asks for (in any mode, waiting or trying) while it already holds them -/
def reacquiredFrom (held : List Nat) : List (Nat × Op) → List Nat
  | [] => []
  | (l, .rlock) :: p => (if held.contains l then [l] else []) ++ reacquiredFrom (l :: held) p
  | (l, .lock) :: p => (if held.contains l then [l] else []) ++ reacquiredFrom (l :: held) p
  | (l, .tryrlock) :: p => (if held.contains l then [l] else []) ++ reacquiredFrom (l :: held) p
  | (l, .trylock) :: p => (if held.contains l then [l] else []) ++ reacquiredFrom (l :: held) p
  | (l, .runlock) :: p => reacquiredFrom (held.erase l) p
  | (l, .unlock) :: p => reacquiredFrom (held.erase l) p
  | _ :: p => reacquiredFrom held p

def reacquired (p : List (Nat × Op)) : List Nat := reacquiredFrom [] p

/-! ### the signal goroutine -/

/-- The loop `for { sig := <-signalChan; … }` over the signals delivered: `leaves i` says whether the path the
body takes for the i-th signal leaves the loop (return / break / goto / exit); the result is the number of
reload signals (`true`) that were served. A signal that arrives after the loop has been left is dropped. -/
def served (leaves : Nat → Bool) : Nat → List Bool → Nat
  | _, [] => 0
  | i, hup :: rest =>
    (if hup then 1 else 0) + (if leaves i then 0 else served leaves (i + 1) rest)

/-! ### what a reload does to the configuration -/

/-- the fields the reload writes, by role -/
def selectorField : String := "regprocessor.RegProcessor.ipSelector"
def apiGenField : String := "apiregserver.APIRegServer.latestClientConf"
def dnsGenField : String := "dnsregserver.DNSRegServer.latestCCGen"

/-- the configuration the registrars answer from: the generations of the installed subnet set and the ClientConf
generation the API / the DNS registrar holds -/
structure Cfg where
  sel : List Nat
  apiGen : Nat
  dnsGen : Nat
deriving DecidableEq, Repr

/-- what a reload brings: the generations of the new subnet file and the generation of the new ClientConf -/
structure New where
  sel : List Nat
  gen : Nat
deriving DecidableEq, Repr

def applyEff (n : New) (c : Cfg) : Eff → Cfg
  | .wr f =>
    if f = selectorField then { c with sel := n.sel }
    else if f = apiGenField then { c with apiGen := n.gen }
    else if f = dnsGenField then { c with dnsGen := n.gen }
    else c
  | .lk _ _ => c

def run (n : New) (c : Cfg) (effs : List Eff) : Cfg := effs.foldl (applyEff n) c

/-- every generation a registrar may put into a request is one the installed subnet set knows -/
def Consistent (c : Cfg) : Prop := c.apiGen ∈ c.sel ∧ c.dnsGen ∈ c.sel

instance (c : Cfg) : Decidable (Consistent c) := by unfold Consistent; infer_instance

def hasSelWrite (r : List Eff) : Bool := r.any fun e => e == .wr selectorField
def hasGenWrite (r : List Eff) : Bool := r.any fun e => e == .wr apiGenField || e == .wr dnsGenField

/-- *Subnets first*: every write of a ClientConf generation comes after a write of the selector (`seen`) -/
def genAfterSelFrom : Bool → List Eff → Bool
  | _, [] => true
  | seen, .wr f :: r =>
    if f = selectorField then genAfterSelFrom true r
    else if f = apiGenField ∨ f = dnsGenField then seen && genAfterSelFrom seen r
    else genAfterSelFrom seen r
  | seen, .lk _ _ :: r => genAfterSelFrom seen r

def genAfterSel (r : List Eff) : Bool := genAfterSelFrom false r

/-! ### what a request is answered under a configuration -/

/-- how a request reaches the processor: through the API registrar (which replaces the generation of an outdated
client by its own) or through the DNS registrar (which only tells the client that it is outdated); unidirectional
registrations select nothing -/
inductive Entry | api | dns | uni
deriving DecidableEq, Repr

/-- the generation the processor looks up -/
def effectiveGen (c : Cfg) : Entry → Nat → Nat
  | .api, g => if g < c.apiGen then c.apiGen else g
  | _, g => g

/-- the request is answered (the selector knows the generation it is asked for) -/
def answered (c : Cfg) (e : Entry) (g : Nat) : Bool :=
  match e with
  | .uni => true
  | e => c.sel.contains (effectiveGen c e g)

/-- the steps of a round that have been taken when the reload goroutine is held reading the subnet file: everything
before it asks for the write lock of the selector's mutex `k` -/
def beforeSelLock (k : Nat) : List Eff → List Eff
  | [] => []
  | .lk m .lock :: r => if m = k then [] else .lk m .lock :: beforeSelLock k r
  | e :: r => e :: beforeSelLock k r

end CJ.ReloadPath
