import CJ.Model.SctpConn
/-!
# Model of the heartbeat layer (pkg/dtls/heartbeat.go)

*Receive filter* (`hbConn.recvLoop` + `hbConn.Read`).  The loop reads one message at a time from the
stream below (buffer `maxMessageSize`); a message byte-equal to the heartbeat payload is counted and
swallowed; any error closes the connection and ends the loop; every other message is queued
(`recvCh`).  `Read` hands out the queued messages in order and reports `closed` once the connection
is closed **and the queue is empty**; data that arrived together with the error is queued before the
close.  (On the unrepaired tree `Read` chose at random between a queued message and `closed`, and
the loop dropped data returned together with an error — see `CJ/Props/C16.lean`.)

`filter` computes what the reader of `hbConn` sees, as a `Script` for the `SCTPConn` model above it.

*Watchdog* (`hbLoop` + the read deadline of `recvLoop`) as a discrete-time machine: time advances in
ticks, a watchdog period is `T` ticks.  At the end of each period `hbLoop` closes the connection if no
heartbeat was counted during the period, else resets the counter; `recvLoop` arms a read deadline of
one period before every read, so a period without any message closes the connection too.
-/
namespace CJ.Heartbeat
open CJ.SctpConn

/-- `validate` (heartbeatConfig.go): the payload the filter works with.  A payload that is not
configured, or configured empty, is replaced by the default one (an empty payload would make every
failed read of the stream — `n = 0` — look like a heartbeat). -/
def validate (dflt : Bytes) : Option Bytes → Bytes
  | none => dflt
  | some hb => if hb = [] then dflt else hb

/-- the messages that reach `recvCh`, in order, for a scripted stream below (`cap = maxMessageSize`
is the size of the loop's buffer; a longer message is reported `short` by the stream: an error) -/
def queued (hb : Bytes) (cap : Nat) : List Item → List Item
  | [] => []                                   -- script exhausted: the stream reports `endErr`: close
  | it :: rest =>
    if it.data.length ≤ cap then
      if it.data = hb then queued hb cap rest  -- heartbeat: counted, swallowed (an error that came with it is ignored)
      else match it.err with
        | some _ => if it.data = [] then [] else [⟨it.data, none⟩]   -- forward the data, then close
        | none => ⟨it.data, none⟩ :: queued hb cap rest
    else []                                    -- `short`: an error, nothing to forward

/-- the reader's view of `hbConn`: the queued messages, then `closed` forever -/
def filter (hb : Bytes) (cap : Nat) (s : Script) : Script :=
  { items := queued hb cap s.items, endErr := .closed }

/-- number of heartbeats counted (`waiting` increments) while the loop runs over the script -/
def counted (hb : Bytes) (cap : Nat) : List Item → Nat
  | [] => 0
  | it :: rest =>
    if it.data.length ≤ cap then
      if it.data = hb then counted hb cap rest + 1
      else match it.err with
        | some _ => 0
        | none => counted hb cap rest
    else 0


/-! ### one pass of `recvLoop`

What the loop does with the result of one `stream.Read` — `n = it.data.length` bytes and an optional
error, returned together.  The comparison with the heartbeat payload comes first: a heartbeat is a
heartbeat whether or not the same read also reports an error. -/

inductive Recv
  | counted                     -- a heartbeat: `waiting` is incremented, the loop reads on
  | forward (d : Bytes)         -- queued for the reader, the loop reads on
  | forwardClose (d : Bytes)    -- queued for the reader (without the error), then the connection closes
  | close                       -- nothing to forward: the connection closes
deriving DecidableEq, Repr

def recvStep (hb : Bytes) (cap : Nat) (it : Item) : Recv :=
  if it.data.length ≤ cap then
    if it.data = hb then .counted
    else match it.err with
      | some _ => if it.data = [] then .close else .forwardClose it.data
      | none => .forward it.data
  else .close

/-- `queued`, pass by pass -/
def queuedBy (hb : Bytes) (cap : Nat) : List Item → List Item
  | [] => []
  | it :: rest =>
    match recvStep hb cap it with
    | .counted => queuedBy hb cap rest
    | .forward d => ⟨d, none⟩ :: queuedBy hb cap rest
    | .forwardClose d => [⟨d, none⟩]
    | .close => []

/-! ### watchdog -/

structure WD where
  T : Nat                 -- ticks per watchdog period (`timeout`)
  phase : Nat             -- ticks until `hbLoop` wakes up next (1 … T)
  waiting : Nat           -- heartbeats counted in the current period
  idle : Nat              -- ticks until the read deadline of `recvLoop` expires (1 … T)
  closed : Bool := false
deriving Repr, DecidableEq

/-- state right after `hbLoop`'s first pass (it finds the initial `waiting = 2`, stores 0, sleeps) -/
def WD.init (T : Nat) : WD := { T := T, phase := T, waiting := 0, idle := T }

inductive Ev
  | tick        -- one unit of time passes
  | hb          -- a heartbeat message arrives and is counted
  | hbLost      -- a heartbeat arrives between `hbLoop`'s load and store: its count is overwritten
  | data        -- any other message arrives
deriving Repr, DecidableEq

def WD.step (s : WD) : Ev → WD
  | .tick =>
    if s.closed then s else
    -- read deadline
    let s1 := if s.idle ≤ 1 then { s with closed := true, idle := 0 } else { s with idle := s.idle - 1 }
    -- watchdog wake-up
    if s1.phase ≤ 1 then
      if s1.waiting = 0 then { s1 with closed := true, phase := 0 }
      else { s1 with waiting := 0, phase := s1.T }
    else { s1 with phase := s1.phase - 1 }
  | .hb => if s.closed then s else { s with waiting := s.waiting + 1, idle := s.T }
  | .hbLost => if s.closed then s else { s with idle := s.T }
  | .data => if s.closed then s else { s with idle := s.T }

def WD.run (s : WD) (evs : List Ev) : WD := evs.foldl WD.step s

end CJ.Heartbeat
