/-!
# Model of the registrar's bidirectional registration path
(pkg/regserver/regprocessor/regprocessor.go: `RegisterBidirectional`, `processBdReq`,
`processC2SWrapper`; pkg/regserver/overrides/prefix_transport.go: `Override`;
station side pkg/station/lib/registration_ingest.go: `NewRegistrationC2SWrapper`)

`RegisterBidirectional` = clear the client-supplied response → `processBdReq` (selection, parameter
overrides, port, subnet override) → `processC2SWrapper` (the wrapper forwarded to the stations).

What the code obtains from outside is a parameter (`Ext`), supplied per case by the harness from the
real libraries: the two selector answers, whether the transport is enabled and parses the client's
parameters, what the configured override selects, the transport's destination port, and the random
draws (the 0–9999 gate draw, the `math/rand` float as an exact fraction, the host draw inside the
chosen subnet).  Weights are exact naturals; the float cumulative weights of the Go code are exact
rationals here (rounding is outside the model).

The Go code builds the response in one object that is both returned to the client and attached to
the wrapper; the subnet override for the Prefix transport clones it.  The model keeps the two objects
and the two pointers (`Heap`), so that "the client's view is the forwarded view" is a statement about
the assignments of the code and not true by construction.

How `processC2SWrapper` puts the forwarded wrapper together (what it starts from, which fields it
assigns) is a parameter of the model (`WrapperFacts`), instantiated with the facts extracted from the
source text on every run (`CJ/Gen/C12Wrapper.lean`).  The station side (`stationApply`) is
`NewRegistrationC2SWrapper` for one address family, with the station's own derivation as a parameter;
it is executed by the driver (`station|…`) next to the real function.
-/
namespace CJ.Registrar

/-- `pb.PrefixTransportParams` -/
structure PrefixParams where
  prefixId : Option Int := none
  pbytes : Option String := none      -- the prefix bytes, hex
  flush : Option Int := none
  randomize : Option Bool := none
deriving DecidableEq, Repr, Inhabited

/-- transport parameters (`anypb.Any`): Prefix parameters are structured because the override edits
them; everything else is an opaque token that is only copied -/
inductive Params
  | pfx (p : PrefixParams)
  | opaque (tok : String)
deriving DecidableEq, Repr, Inhabited

/-- `pb.RegistrationResponse` (the fields the registrar sets) -/
structure Resp where
  v4 : Option Nat := none
  v6 : Option String := none
  port : Option Nat := none
  params : Option Params := none
deriving DecidableEq, Repr, Inhabited

structure Req where
  hasPayload : Bool
  secretLen : Nat
  v4 : Bool
  v6 : Bool
  transport : Nat               -- pb.TransportType: 1 = Min, 4 = Prefix
  disable : Bool                -- DisableRegistrarOverrides
  params : Option Params
  source : Nat                  -- C2SWrapper.RegistrationSource, 0 = unspecified
  regAddr : Option String       -- C2SWrapper.RegistrationAddress
  forgedResp : Option Resp      -- client-supplied RegistrationResponse
  forgedBytes : String          -- client-supplied RegRespBytes
  forgedSig : String            -- client-supplied RegRespSignature
deriving DecidableEq, Repr, Inhabited

inductive Sel4 | err | ok (a : Nat) (randPort : Bool) | notV4
deriving DecidableEq, Repr, Inhabited
inductive Sel6 | err | ok (a : String) (randPort : Bool)
deriving DecidableEq, Repr, Inhabited

/-- what the configured parameter override selects for a Prefix registration -/
inductive OvSel
  | nothing                                   -- no override configured for this case / bar not met
  | err                                       -- the override failed before touching the registration
  | fields (id : Int) (pbytes : String) (flush : Int)
deriving DecidableEq, Repr, Inhabited

structure Ext where
  sel4 : Sel4
  sel6 : Sel6
  transportKnown : Bool
  parseOk : Bool
  ovSel : OvSel
  unmarshal : Option PrefixParams   -- the client's parameters read as PrefixTransportParams
  port : Option Nat                 -- Transport.GetDstPort on the client's parameters
  pctDraw : Nat                     -- randomInt(0, 10000)
  uNum : Nat                        -- math/rand Float64 = uNum / uDen
  uDen : Nat
  hostDraw : Nat                    -- crypto/rand draw for the address inside the subnet
  sendOk : Bool
deriving Repr, Inhabited

/-- the `transport` string of a configured subnet entry (`Subnet.Transport`, toml `transport`) -/
inductive TLabel
  | unset                 -- the field is absent / empty
  | named (t : Nat)       -- `"<Name>_Transport"` for pb.TransportType `t` (1 = `Min_Transport`, 4 = `Prefix_Transport`)
  | unknown               -- a string that names no transport
deriving DecidableEq, Repr, Inhabited

/-- one configured subnet entry (`regprocessor.Subnet`): the same type serves `override_subnet` and
`excluded_subnet_from_overrides`, so an exclusion entry carries a transport label, weight, port and prefix id
as well -/
structure Subnet where
  isV4 : Bool
  base : Nat
  ones : Nat
  weight : Nat
  port : Nat := 0
  /-- `prefix.TryFromID (PrefixId)`: id, prefix bytes, flush policy -/
  pfx : Option (Int × String × Int) := none
  /-- `Transport`: the constructor splits the override subnets by it; on an exclusion entry it is carried along -/
  label : TLabel := .unset
deriving DecidableEq, Repr, Inhabited

structure Cfg where
  authenticated : Bool
  hasOverrides : Bool
  enforce : Bool
  minSubnets : List Subnet
  prefixSubnets : List Subnet
  exclusions : List Subnet
  pctMin : Nat        -- hundredths of a percent after validation (0 … 10000)
  pctPrefix : Nat
deriving Repr, Inhabited

def Subnet.hosts (s : Subnet) : Nat := 2 ^ (32 - s.ones)

/-- `IPNet.Contains` for an IPv4 address given as a number -/
def Subnet.contains (s : Subnet) (a : Nat) : Bool :=
  s.isV4 && a / s.hosts == s.base / s.hosts

/-- a network as `net.ParseCIDR` produces it: the base address is masked (aligned to the network size) -/
def Subnet.wf (s : Subnet) : Prop := s.isV4 = true → s.base % s.hosts = 0

/-! ### weighted choice (the repaired loop: first cumulative weight above the draw) -/

def total (ws : List Nat) : Nat := ws.sum

/-- index of the first subnet whose cumulative weight `S_i / W` exceeds `u = a / b`; `acc` = weight before -/
def chooseFrom (W a b : Nat) : Nat → Nat → List Nat → Option Nat
  | _, _, [] => none
  | idx, acc, w :: ws => if a * W < b * (acc + w) then some idx else chooseFrom W a b (idx + 1) (acc + w) ws

def choose (ws : List Nat) (a b : Nat) : Option Nat := chooseFrom (total ws) a b 0 0 ws

/-! ### the two response objects of `processBdReq` -/

structure Heap where
  o0 : Resp := {}          -- `regResp := &pb.RegistrationResponse{}`
  o1 : Resp := {}          -- the clone made by the Prefix subnet override
  rp : Bool := false       -- `regResp` points to `o1`
  wp : Option Bool := none -- `c2sPayload.RegistrationResponse`: nil / points to `o0` / `o1`
deriving Repr, Inhabited

def Heap.get (h : Heap) (b : Bool) : Resp := if b then h.o1 else h.o0
def Heap.upd (h : Heap) (b : Bool) (f : Resp → Resp) : Heap :=
  if b then { h with o1 := f h.o1 } else { h with o0 := f h.o0 }
/-- write through `regResp` -/
def Heap.updR (h : Heap) (f : Resp → Resp) : Heap := h.upd h.rp f
/-- write through `c2sPayload.RegistrationResponse` (if not nil) -/
def Heap.updW (h : Heap) (f : Resp → Resp) : Heap :=
  match h.wp with
  | some b => h.upd b f
  | none => h

inductive BdRes
  | err (kind : String)
  | panic (where_ : String)
  | ok (h : Heap)
deriving Repr, Inhabited

/-- `getRandUint32IPv4` + the assignment: `none` = the helper failed (network is not IPv4) -/
def randAddr (s : Subnet) (hostDraw : Nat) : Option Nat :=
  if s.isV4 then some (s.base + hostDraw % s.hosts) else none

/-- one turn of the exclusion loop of `processBdReq`: does the entry `e` keep a registration of transport
`t`, whose response currently carries the IPv4 address `a`, from being overridden?  The turn has the whole
entry and the registration's transport at hand (`subnet.Transport`, `.Weight`, `.Port`, `.PrefixId`,
`transportType` are all in scope there); the code tests the network only (`// TODO: apply exclusions based on
both transport and subnet`): every entry protects every registration, whatever the entry's other fields say. -/
def Subnet.excludes (e : Subnet) (_t : Nat) (a : Nat) : Bool := e.contains a

/-- the exclusion loop: is the IPv4 address currently in the response (nil: none) of a registration of
transport `t` protected by an entry of the exclusion list? -/
def excluded (cfg : Cfg) (t : Nat) (cur : Option Nat) : Bool :=
  cfg.exclusions.any (fun e => match cur with | some a => e.excludes t a | none => false)

/-- the subnet-override tail of `processBdReq` (`if p.enforceSubnetOverrides { … }`) -/
def subnetOverride (cfg : Cfg) (req : Req) (ext : Ext) (h : Heap) : Heap :=
  if !cfg.enforce then h else
  -- exclusions are tested against the IPv4 address currently in the response
  if excluded cfg req.transport (h.get h.rp).v4 then h else
  if req.transport == 1 then
    if ext.pctDraw < cfg.pctMin then
      match choose (cfg.minSubnets.map (·.weight)) ext.uNum ext.uDen with
      | none => h
      | some i =>
        match cfg.minSubnets[i]? with
        | none => h
        | some s =>
          match randAddr s ext.hostDraw with
          | none => h
          | some ip => h.updR fun r => { r with v4 := some ip }
    else h
  else if req.transport == 4 then
    if !req.disable then
      if ext.pctDraw < cfg.pctPrefix then
        match choose (cfg.prefixSubnets.map (·.weight)) ext.uNum ext.uDen with
        | none => h
        | some i =>
          match cfg.prefixSubnets[i]? with
          | none => h
          | some s =>
            match randAddr s ext.hostDraw with
            | none => h
            | some ip =>
              match s.pfx with
              | none => h          -- overridePrefix failed: keep the original response
              | some (id, pre, fl) =>
                let clone := h.get h.rp
                let n : Resp := { clone with
                  port := some s.port,
                  params := some (.pfx { prefixId := some id, flush := some fl, pbytes := some pre }),
                  v4 := some ip }
                -- regResp = newRegResp; c2sPayload.RegistrationResponse = regResp
                { h with o1 := n, rp := true, wp := some true }
      else h
    else h
  else h

/-- `RegOverride.Override` of the configured (single) override on the wrapper -/
def paramOverride (req : Req) (ext : Ext) (h : Heap) : Option Heap :=
  if req.transport != 4 then some h else
  match ext.ovSel with
  | .nothing => some h
  | .err => none
  | .fields id pre fl =>
    match ext.unmarshal with
    | none => none
    | some pp =>
      let pp' : PrefixParams := { pp with pbytes := some pre, prefixId := some id, flush := some fl }
      -- PhantomsSupportPortRand is never set by the registrar: the port is forced to 443 here and
      -- recomputed by the caller afterwards
      let h := h.updW fun r => if r.port == some 443 then r else { r with port := some 443 }
      some (h.updW fun r => { r with params := some (.pfx pp') })

/-- the two address selections: the response so far, and whether every selected phantom supports a
random destination port -/
def selStage (req : Req) (ext : Ext) : Except BdRes (Resp × Bool) :=
  let r4 : Except BdRes (Resp × Bool) :=
    if req.v4 then
      match ext.sel4 with
      | .err => .error (.err "select4")
      | .notV4 => .error (.panic "To4")
      | .ok a rp => .ok ({ v4 := some a }, rp)
    else .ok ({}, true)
  match r4 with
  | .error e => .error e
  | .ok (r, rp4) =>
    if req.v6 then
      match ext.sel6 with
      | .err => .error (.err "select6")
      | .ok a rp => .ok ({ r with v6 := some a }, rp4 && rp)
    else .ok (r, rp4)

/-- the parameter-override branch (`if p.regOverrides != nil && !c2s.GetDisableRegistrarOverrides()`) -/
def ovStage (cfg : Cfg) (req : Req) (ext : Ext) (h : Heap) : Option Heap :=
  if cfg.hasOverrides && !req.disable then
    match paramOverride req ext h with
    | none => none
    | some h => some { h with rp := h.wp.getD h.rp }     -- regResp = c2sPayload.GetRegistrationResponse()
  else
    let h := h.updR fun r => { r with params := none }
    let h := h.updW fun r => { r with params := none }
    some { h with rp := h.wp.getD h.rp }

def portStage (randPort : Bool) (ext : Ext) (h : Heap) : Option Heap :=
  if randPort then
    match ext.port with
    | none => none
    | some p => some (h.updR fun r => { r with port := some p })
  else some (h.updR fun r => { r with port := some 443 })

/-- `processBdReq` up to the subnet override: selection, parameter override, port -/
def preStage (cfg : Cfg) (req : Req) (ext : Ext) : BdRes :=
  if !req.hasPayload then .err "nobody" else
  match selStage req ext with
  | .error e => e
  | .ok (r0, randPort) =>
    if !ext.transportKnown then .err "transport" else
    if !ext.parseOk then .err "params" else
    -- `regResp` is the only object so far; c2sPayload.RegistrationResponse = regResp
    let h : Heap := { o0 := r0, rp := false, wp := some false }
    match ovStage cfg req ext h with
    | none => .err "override"
    | some h =>
      match portStage randPort ext h with
      | none => .err "port"
      | some h => .ok h

def processBdReq (cfg : Cfg) (req : Req) (ext : Ext) : BdRes :=
  match preStage cfg req ext with
  | .ok h => .ok (subnetOverride cfg req ext h)
  | e => e

/-! ### the wrapper published to the stations

`processC2SWrapper` builds the message it forwards in a local variable, assigns some of its fields and
marshals it.  *Which* message it starts from and *which* fields it assigns are facts about the source
text, extracted on every run (go/ast) into `CJ/Gen/C12Wrapper.lean` as a `WrapperFacts` value; the model
is a function of these facts, so a wrapper that starts as a copy of the client's message (and therefore
carries whatever the client put into the fields that are not overwritten) is a different model. -/

/-- fields of `pb.C2SWrapper` -/
inductive WField
  | sharedSecret | registrationPayload | registrationSource | registrationAddress | decoyAddress
  | registrationResponse | regRespBytes | regRespSignature
  | other (name : String)
deriving DecidableEq, Repr, Inhabited

/-- what the forwarded wrapper starts from -/
inductive WBase
  /-- `&pb.C2SWrapper{k: …}` / `new(pb.C2SWrapper)`: an empty message, except for the keyed fields -/
  | fresh (keys : List WField)
  /-- any other expression (a clone of the client's wrapper, the client's wrapper itself, …) -/
  | derived (expr : String)
deriving DecidableEq, Repr, Inhabited

/-- one assignment `payload.F = e` in `processC2SWrapper` -/
structure WAssign where
  field : WField
  /-- lexically inside an `if` / `for` / `switch` … -/
  guarded : Bool
  /-- fields of the *client's* wrapper the assigned value is computed from (through local variables) -/
  reads : List WField
deriving DecidableEq, Repr, Inhabited

structure WrapperFacts where
  base : WBase
  assigns : List WAssign
  /-- fields assigned on every path that reaches the final `proto.Marshal` -/
  always : List WField
  /-- every other use of the wrapper variable (passed to a function, re-assigned, aliased, …) -/
  otherUses : List String
deriving DecidableEq, Repr, Inhabited

/-- does the wrapper start with the client's value in field `f`? -/
def WrapperFacts.fromClient (w : WrapperFacts) (f : WField) : Bool :=
  match w.base with
  | .fresh keys => keys.contains f
  | .derived _ => true

def WrapperFacts.assigned (w : WrapperFacts) (f : WField) : Bool := w.assigns.any (·.field == f)

/-- **The wrapper is rebuilt field by field**: nothing the client put into RegRespBytes / RegRespSignature
can reach the forwarded message (the message starts without them, no assignment computes a value from
them, the message is not handed to anything else), and the fields the stations need are always set. -/
def WrapperFacts.discardsClientFields (w : WrapperFacts) : Bool :=
  w.otherUses.isEmpty &&
  !w.fromClient .regRespBytes && !w.fromClient .regRespSignature &&
  w.assigns.all (fun a => !a.reads.contains .regRespBytes && !a.reads.contains .regRespSignature) &&
  (w.always.contains .registrationResponse || w.fromClient .registrationResponse) &&
  (w.always.contains .sharedSecret || w.fromClient .sharedSecret) &&
  (w.always.contains .registrationPayload || w.fromClient .registrationPayload) &&
  w.assigned .regRespBytes && w.assigned .regRespSignature

/-- RegRespBytes / RegRespSignature of a wrapper: absent, what the registrar computes from a response
(`proto.Marshal r`, `ed25519.Sign (privkey, proto.Marshal r)`), or bytes supplied by the client -/
inductive Signed
  | absent
  | registrar (r : Resp)
  | client (raw : String)
deriving DecidableEq, Repr, Inhabited

def clientSigned (raw : String) : Signed := if raw == "" then .absent else .client raw

/-- the wrapper published to the stations -/
structure Fwd where
  source : Nat := 0                -- RegistrationSource, 0 = unspecified / absent
  addr : Option String := none     -- RegistrationAddress
  resp : Option Resp := none       -- RegistrationResponse
  respBytes : Signed := .absent    -- RegRespBytes
  respSig : Signed := .absent      -- RegRespSignature
  secretKept : Bool := false       -- SharedSecret is the client's
  payloadKept : Bool := false      -- RegistrationPayload is the client's
deriving DecidableEq, Repr, Inhabited

/-- RegRespBytes decoded, if RegRespSignature is the registrar's signature over it -/
def Fwd.signed (f : Fwd) : Option Resp :=
  match f.respBytes, f.respSig with
  | .registrar r, .registrar r' => if r = r' then some r else none
  | _, _ => none

inductive Outcome
  | err (kind : String)
  | panic (where_ : String)
  | ok (client : Resp) (fwd : Fwd)
deriving DecidableEq, Repr, Inhabited

/-- the message `processC2SWrapper` starts from; `cresp` = `c2sPayload.RegistrationResponse` at this point -/
def wrapperStart (w : WrapperFacts) (req : Req) (cresp : Option Resp) : Fwd :=
  { source := if w.fromClient .registrationSource then req.source else 0
    addr := if w.fromClient .registrationAddress then req.regAddr else none
    resp := if w.fromClient .registrationResponse then cresp else none
    respBytes := if w.fromClient .regRespBytes then clientSigned req.forgedBytes else .absent
    respSig := if w.fromClient .regRespSignature then clientSigned req.forgedSig else .absent
    secretKept := w.fromClient .sharedSecret
    payloadKept := w.fromClient .registrationPayload }

/-- `processC2SWrapper`: the start message with the assignments of the code applied -/
def processC2SWrapper (w : WrapperFacts) (cfg : Cfg) (req : Req) (cresp : Option Resp) (regMethod : Nat)
    (clientAddr : Option String) : Option Fwd :=
  if req.secretLen < 8 then none else
  let b := wrapperStart w req cresp
  some {
    source := if w.always.contains .registrationSource then (if req.source == 0 then regMethod else req.source) else b.source
    addr := if w.always.contains .registrationAddress then
        (if (req.regAddr.isNone || req.source == regMethod) && clientAddr.isSome then clientAddr else req.regAddr)
      else b.addr
    resp := if w.always.contains .registrationResponse then cresp else b.resp
    -- `if p.authenticated && c2sPayload.GetRegistrationResponse() != nil { … }`
    respBytes := match w.assigned .regRespBytes && cfg.authenticated, cresp with
      | true, some r => .registrar r
      | _, _ => b.respBytes
    respSig := match w.assigned .regRespSignature && cfg.authenticated, cresp with
      | true, some r => .registrar r
      | _, _ => b.respSig
    secretKept := w.always.contains .sharedSecret || b.secretKept
    payloadKept := w.always.contains .registrationPayload || b.payloadKept }

def registerBidirectional (w : WrapperFacts) (cfg : Cfg) (req : Req) (ext : Ext) (regMethod : Nat)
    (clientAddr : Option String) : Outcome :=
  -- the client is not allowed to set the response: clear it (the field is then set by `processBdReq`
  -- before anything reads it, which is what the fresh `Heap` of `preStage` says)
  let req := { req with forgedResp := none }
  match processBdReq cfg req ext with
  | .err k => .err k
  | .panic w => .panic w
  | .ok h =>
    match processC2SWrapper w cfg req (h.wp.map h.get) regMethod clientAddr with
    | none => .err "secret"
    | some f => if ext.sendOk then .ok (h.get h.rp) f else .err "send"

/-! ### the station's use of the forwarded response (`NewRegistrationC2SWrapper`, one address family) -/

/-- how Go's `net.IP` methods see an address given by its bytes (hex): `To16() == nil` (neither 4 nor 16
bytes), `To4() != nil` (4 bytes or IPv4-mapped), or a proper IPv6 address -/
inductive IPKind | invalid | v4 | v6
deriving DecidableEq, Repr, Inhabited

def ipKind (hex : String) : IPKind :=
  if hex.length == 8 then .v4
  else if hex.length == 32 then (if hex.startsWith "00000000000000000000ffff" then .v4 else .v6)
  else .invalid

/-- a phantom address as the station stores it -/
inductive Addr
  | v4 (a : Nat)          -- the 4 bytes built from `rr.Ipv4Addr`
  | raw (hex : String)    -- bytes taken as they are (`rr.Ipv6Addr`, or what the station's selector gave)
deriving DecidableEq, Repr, Inhabited

def Addr.kind : Addr → IPKind
  | .v4 _ => .v4
  | .raw h => ipKind h

/-- what the station derives on its own (`NewRegistration`: selector, parameter parsing, port) for given
transport parameters — a parameter of the model, supplied per case from the real function -/
inductive Derived
  | fail
  | ok (phantom : Addr) (port : Nat)
deriving DecidableEq, Repr, Inhabited

inductive StationOut
  | reject (why : String)
  | ok (phantom : Addr) (port : Nat) (params : Option Params)
deriving DecidableEq, Repr, Inhabited

/-- are the response's transport parameters applied? (`rr.GetTransportParams() != nil &&
!c2s.GetDisableRegistrarOverrides()`) -/
def stationUsesRespParams (disable : Bool) (rr : Option Resp) : Bool :=
  match rr with
  | some r => r.params.isSome && !disable
  | none => false

/-- the station's own derivation that applies: `dC` with the client's parameters, `dR` with the response's -/
def stationDerived (disable : Bool) (dC dR : Derived) (rr : Option Resp) : Derived :=
  if stationUsesRespParams disable rr then dR else dC

/-- the parameters the station registers: the response's if present and allowed, else the client's -/
def stationParams (disable : Bool) (clientParams : Option Params) (rr : Option Resp) : Option Params :=
  match rr with
  | some r => if r.params.isSome && !disable then r.params else clientParams
  | none => clientParams

/-- `ipOverride`: the response's address of the family being built (IPv4: if non-zero) -/
def stationOverride (v6 : Bool) (rr : Option Resp) : Option Addr :=
  match rr with
  | none => none
  | some r =>
    if v6 then r.v6.map .raw
    else (match r.v4 with | some a => if a != 0 then some (.v4 a) else none | none => none)

/-- `ipOverride.To16() == nil || (ipOverride.To4() == nil) != includeV6` -/
def overrideBad (v6 : Bool) (o : Option Addr) : Bool :=
  match o with
  | some o => o.kind == IPKind.invalid || ((o.kind != IPKind.v4) != v6)
  | none => false

/-- `reg.PhantomPort = uint16(dstPort)` if the response carries a port -/
def stationPort (derivedPort : Nat) (rr : Option Resp) : Nat :=
  match rr with
  | some r => (match r.port with | some p => p % 65536 | none => derivedPort)
  | none => derivedPort

/-- `NewRegistrationC2SWrapper (c2sw, includeV6)`: the response overrides the port if present, the address
of the family being built if present (IPv4: and non-zero) and of that family, and the parameters if
present and allowed; then the registrant's address is checked against the phantom. -/
def stationApply (v6 disable : Bool) (clientParams : Option Params) (dC dR : Derived) (src : IPKind)
    (rr : Option Resp) : StationOut :=
  match stationDerived disable dC dR rr with
  | .fail => .reject "build"
  | .ok dph dport =>
    if overrideBad v6 (stationOverride v6 rr) then .reject "override" else
    if src == IPKind.invalid then .reject "regaddr" else
    if ((stationOverride v6 rr).getD dph).kind == IPKind.v4 && src != IPKind.v4 then .reject "family" else
    .ok ((stationOverride v6 rr).getD dph) (stationPort dport rr) (stationParams disable clientParams rr)

/-- the parameters the client ends up using, by the same rule -/
def clientParams (req : Req) (c : Resp) : Option Params :=
  if c.params.isSome && !req.disable then c.params else req.params

/-- `RegisterUnidirectional`: the response is cleared, nothing is computed, the wrapper is forwarded -/
def registerUnidirectional (w : WrapperFacts) (cfg : Cfg) (req : Req) (regMethod : Nat)
    (clientAddr : Option String) (sendOk : Bool) : Option Fwd :=
  match processC2SWrapper w cfg req none regMethod clientAddr with
  | none => none
  | some f => if sendOk then some f else none

end CJ.Registrar
