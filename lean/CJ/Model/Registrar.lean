/-!
# Model of the registrar's bidirectional registration path
(pkg/regserver/regprocessor/regprocessor.go: `RegisterBidirectional`, `processBdReq`,
`processC2SWrapper`; pkg/regserver/overrides/prefix_transport.go: `Override`;
station side pkg/station/lib/registration_ingest.go: `NewRegistrationC2SWrapper`)

`RegisterBidirectional` = clear the client-supplied response → `processBdReq` (selection, parameter
overrides, port, subnet override) → `processC2SWrapper` (the wrapper forwarded to the stations).

What the code obtains from outside is a parameter (`Ext`), supplied per case by the harness from the
real libraries: the two selector answers, whether the transport is enabled and parses the client's
parameters, what the configured override selects, the transport's destination port, and the random
draws (the 0–9999 gate draw, the `math/rand` float as an exact fraction, the host draw inside the
chosen subnet).  Weights are exact naturals; the float cumulative weights of the Go code are exact
rationals here (rounding is outside the model).

The Go code builds the response in one object that is both returned to the client and attached to
the wrapper; the subnet override for the Prefix transport clones it.  The model keeps the two objects
and the two pointers (`Heap`), so that "the client's view is the forwarded view" is a statement about
the assignments of the code and not true by construction.
-/
namespace CJ.Registrar

/-- `pb.PrefixTransportParams` -/
structure PrefixParams where
  prefixId : Option Int := none
  pbytes : Option String := none      -- the prefix bytes, hex
  flush : Option Int := none
  randomize : Option Bool := none
deriving DecidableEq, Repr, Inhabited

/-- transport parameters (`anypb.Any`): Prefix parameters are structured because the override edits
them; everything else is an opaque token that is only copied -/
inductive Params
  | pfx (p : PrefixParams)
  | opaque (tok : String)
deriving DecidableEq, Repr, Inhabited

/-- `pb.RegistrationResponse` (the fields the registrar sets) -/
structure Resp where
  v4 : Option Nat := none
  v6 : Option String := none
  port : Option Nat := none
  params : Option Params := none
deriving DecidableEq, Repr, Inhabited

structure Req where
  hasPayload : Bool
  secretLen : Nat
  v4 : Bool
  v6 : Bool
  transport : Nat               -- pb.TransportType: 1 = Min, 4 = Prefix
  disable : Bool                -- DisableRegistrarOverrides
  params : Option Params
  source : Nat                  -- C2SWrapper.RegistrationSource, 0 = unspecified
  regAddr : Option String       -- C2SWrapper.RegistrationAddress
  forgedResp : Option Resp      -- client-supplied RegistrationResponse
  forgedBytes : String          -- client-supplied RegRespBytes
  forgedSig : String            -- client-supplied RegRespSignature
deriving DecidableEq, Repr, Inhabited

inductive Sel4 | err | ok (a : Nat) (randPort : Bool) | notV4
deriving DecidableEq, Repr, Inhabited
inductive Sel6 | err | ok (a : String) (randPort : Bool)
deriving DecidableEq, Repr, Inhabited

/-- what the configured parameter override selects for a Prefix registration -/
inductive OvSel
  | nothing                                   -- no override configured for this case / bar not met
  | err                                       -- the override failed before touching the registration
  | fields (id : Int) (pbytes : String) (flush : Int)
deriving DecidableEq, Repr, Inhabited

structure Ext where
  sel4 : Sel4
  sel6 : Sel6
  transportKnown : Bool
  parseOk : Bool
  ovSel : OvSel
  unmarshal : Option PrefixParams   -- the client's parameters read as PrefixTransportParams
  port : Option Nat                 -- Transport.GetDstPort on the client's parameters
  pctDraw : Nat                     -- randomInt(0, 10000)
  uNum : Nat                        -- math/rand Float64 = uNum / uDen
  uDen : Nat
  hostDraw : Nat                    -- crypto/rand draw for the address inside the subnet
  sendOk : Bool
deriving Repr, Inhabited

structure Subnet where
  isV4 : Bool
  base : Nat
  ones : Nat
  weight : Nat
  port : Nat := 0
  /-- `prefix.TryFromID (PrefixId)`: id, prefix bytes, flush policy -/
  pfx : Option (Int × String × Int) := none
deriving DecidableEq, Repr, Inhabited

structure Cfg where
  authenticated : Bool
  hasOverrides : Bool
  enforce : Bool
  minSubnets : List Subnet
  prefixSubnets : List Subnet
  exclusions : List Subnet
  pctMin : Nat        -- hundredths of a percent after validation (0 … 10000)
  pctPrefix : Nat
deriving Repr, Inhabited

def Subnet.hosts (s : Subnet) : Nat := 2 ^ (32 - s.ones)

/-- `IPNet.Contains` for an IPv4 address given as a number -/
def Subnet.contains (s : Subnet) (a : Nat) : Bool :=
  s.isV4 && a / s.hosts == s.base / s.hosts

/-- a network as `net.ParseCIDR` produces it: the base address is masked (aligned to the network size) -/
def Subnet.wf (s : Subnet) : Prop := s.isV4 = true → s.base % s.hosts = 0

/-! ### weighted choice (the repaired loop: first cumulative weight above the draw) -/

def total (ws : List Nat) : Nat := ws.sum

/-- index of the first subnet whose cumulative weight `S_i / W` exceeds `u = a / b`; `acc` = weight before -/
def chooseFrom (W a b : Nat) : Nat → Nat → List Nat → Option Nat
  | _, _, [] => none
  | idx, acc, w :: ws => if a * W < b * (acc + w) then some idx else chooseFrom W a b (idx + 1) (acc + w) ws

def choose (ws : List Nat) (a b : Nat) : Option Nat := chooseFrom (total ws) a b 0 0 ws

/-! ### the two response objects of `processBdReq` -/

structure Heap where
  o0 : Resp := {}          -- `regResp := &pb.RegistrationResponse{}`
  o1 : Resp := {}          -- the clone made by the Prefix subnet override
  rp : Bool := false       -- `regResp` points to `o1`
  wp : Option Bool := none -- `c2sPayload.RegistrationResponse`: nil / points to `o0` / `o1`
deriving Repr, Inhabited

def Heap.get (h : Heap) (b : Bool) : Resp := if b then h.o1 else h.o0
def Heap.upd (h : Heap) (b : Bool) (f : Resp → Resp) : Heap :=
  if b then { h with o1 := f h.o1 } else { h with o0 := f h.o0 }
/-- write through `regResp` -/
def Heap.updR (h : Heap) (f : Resp → Resp) : Heap := h.upd h.rp f
/-- write through `c2sPayload.RegistrationResponse` (if not nil) -/
def Heap.updW (h : Heap) (f : Resp → Resp) : Heap :=
  match h.wp with
  | some b => h.upd b f
  | none => h

inductive BdRes
  | err (kind : String)
  | panic (where_ : String)
  | ok (h : Heap)
deriving Repr, Inhabited

/-- `getRandUint32IPv4` + the assignment: `none` = the helper failed (network is not IPv4) -/
def randAddr (s : Subnet) (hostDraw : Nat) : Option Nat :=
  if s.isV4 then some (s.base + hostDraw % s.hosts) else none

/-- the exclusion loop: is the IPv4 address currently in the response (nil: none) inside an excluded subnet? -/
def excluded (cfg : Cfg) (cur : Option Nat) : Bool :=
  cfg.exclusions.any (fun e => match cur with | some a => e.contains a | none => false)

/-- the subnet-override tail of `processBdReq` (`if p.enforceSubnetOverrides { … }`) -/
def subnetOverride (cfg : Cfg) (req : Req) (ext : Ext) (h : Heap) : Heap :=
  if !cfg.enforce then h else
  -- exclusions are tested against the IPv4 address currently in the response
  if excluded cfg (h.get h.rp).v4 then h else
  if req.transport == 1 then
    if ext.pctDraw < cfg.pctMin then
      match choose (cfg.minSubnets.map (·.weight)) ext.uNum ext.uDen with
      | none => h
      | some i =>
        match cfg.minSubnets[i]? with
        | none => h
        | some s =>
          match randAddr s ext.hostDraw with
          | none => h
          | some ip => h.updR fun r => { r with v4 := some ip }
    else h
  else if req.transport == 4 then
    if !req.disable then
      if ext.pctDraw < cfg.pctPrefix then
        match choose (cfg.prefixSubnets.map (·.weight)) ext.uNum ext.uDen with
        | none => h
        | some i =>
          match cfg.prefixSubnets[i]? with
          | none => h
          | some s =>
            match randAddr s ext.hostDraw with
            | none => h
            | some ip =>
              match s.pfx with
              | none => h          -- overridePrefix failed: keep the original response
              | some (id, pre, fl) =>
                let clone := h.get h.rp
                let n : Resp := { clone with
                  port := some s.port,
                  params := some (.pfx { prefixId := some id, flush := some fl, pbytes := some pre }),
                  v4 := some ip }
                -- regResp = newRegResp; c2sPayload.RegistrationResponse = regResp
                { h with o1 := n, rp := true, wp := some true }
      else h
    else h
  else h

/-- `RegOverride.Override` of the configured (single) override on the wrapper -/
def paramOverride (req : Req) (ext : Ext) (h : Heap) : Option Heap :=
  if req.transport != 4 then some h else
  match ext.ovSel with
  | .nothing => some h
  | .err => none
  | .fields id pre fl =>
    match ext.unmarshal with
    | none => none
    | some pp =>
      let pp' : PrefixParams := { pp with pbytes := some pre, prefixId := some id, flush := some fl }
      -- PhantomsSupportPortRand is never set by the registrar: the port is forced to 443 here and
      -- recomputed by the caller afterwards
      let h := h.updW fun r => if r.port == some 443 then r else { r with port := some 443 }
      some (h.updW fun r => { r with params := some (.pfx pp') })

/-- the two address selections: the response so far, and whether every selected phantom supports a
random destination port -/
def selStage (req : Req) (ext : Ext) : Except BdRes (Resp × Bool) :=
  let r4 : Except BdRes (Resp × Bool) :=
    if req.v4 then
      match ext.sel4 with
      | .err => .error (.err "select4")
      | .notV4 => .error (.panic "To4")
      | .ok a rp => .ok ({ v4 := some a }, rp)
    else .ok ({}, true)
  match r4 with
  | .error e => .error e
  | .ok (r, rp4) =>
    if req.v6 then
      match ext.sel6 with
      | .err => .error (.err "select6")
      | .ok a rp => .ok ({ r with v6 := some a }, rp4 && rp)
    else .ok (r, rp4)

/-- the parameter-override branch (`if p.regOverrides != nil && !c2s.GetDisableRegistrarOverrides()`) -/
def ovStage (cfg : Cfg) (req : Req) (ext : Ext) (h : Heap) : Option Heap :=
  if cfg.hasOverrides && !req.disable then
    match paramOverride req ext h with
    | none => none
    | some h => some { h with rp := h.wp.getD h.rp }     -- regResp = c2sPayload.GetRegistrationResponse()
  else
    let h := h.updR fun r => { r with params := none }
    let h := h.updW fun r => { r with params := none }
    some { h with rp := h.wp.getD h.rp }

def portStage (randPort : Bool) (ext : Ext) (h : Heap) : Option Heap :=
  if randPort then
    match ext.port with
    | none => none
    | some p => some (h.updR fun r => { r with port := some p })
  else some (h.updR fun r => { r with port := some 443 })

/-- `processBdReq` up to the subnet override: selection, parameter override, port -/
def preStage (cfg : Cfg) (req : Req) (ext : Ext) : BdRes :=
  if !req.hasPayload then .err "nobody" else
  match selStage req ext with
  | .error e => e
  | .ok (r0, randPort) =>
    if !ext.transportKnown then .err "transport" else
    if !ext.parseOk then .err "params" else
    -- `regResp` is the only object so far; c2sPayload.RegistrationResponse = regResp
    let h : Heap := { o0 := r0, rp := false, wp := some false }
    match ovStage cfg req ext h with
    | none => .err "override"
    | some h =>
      match portStage randPort ext h with
      | none => .err "port"
      | some h => .ok h

def processBdReq (cfg : Cfg) (req : Req) (ext : Ext) : BdRes :=
  match preStage cfg req ext with
  | .ok h => .ok (subnetOverride cfg req ext h)
  | e => e

/-- the wrapper published to the stations (the fields the registrar decides) -/
structure Fwd where
  source : Nat
  addr : Option String
  resp : Option Resp        -- RegistrationResponse
  signed : Option Resp      -- RegRespBytes (decoded) with a valid RegRespSignature; none = both absent
deriving DecidableEq, Repr, Inhabited

inductive Outcome
  | err (kind : String)
  | panic (where_ : String)
  | ok (client : Resp) (fwd : Fwd)
deriving DecidableEq, Repr, Inhabited

/-- `processC2SWrapper`: a fresh wrapper is filled field by field; nothing else is copied -/
def processC2SWrapper (cfg : Cfg) (req : Req) (wresp : Option Resp) (regMethod : Nat) (clientAddr : Option String) :
    Option Fwd :=
  if req.secretLen < 8 then none else
  some {
    source := if req.source == 0 then regMethod else req.source
    addr := if (req.regAddr.isNone || req.source == regMethod) && clientAddr.isSome then clientAddr else req.regAddr
    resp := wresp
    signed := if cfg.authenticated then wresp else none }

def registerBidirectional (cfg : Cfg) (req : Req) (ext : Ext) (regMethod : Nat) (clientAddr : Option String) : Outcome :=
  -- the client is not allowed to set the response: clear it
  let req := { req with forgedResp := none }
  match processBdReq cfg req ext with
  | .err k => .err k
  | .panic w => .panic w
  | .ok h =>
    match processC2SWrapper cfg req (h.wp.map h.get) regMethod clientAddr with
    | none => .err "secret"
    | some f => if ext.sendOk then .ok (h.get h.rp) f else .err "send"

/-! ### the station's use of the forwarded response (`NewRegistrationC2SWrapper`) -/

structure StationView where
  phantom4 : Option Nat
  phantom6 : Option String
  port : Nat
  params : Option Params
deriving DecidableEq, Repr

/-- `derived4/6`, `derivedPort`: what the station computes on its own from the registration; the
response overrides the port if present, the address if present (IPv4: and non-zero) and the
parameters if present and allowed. -/
def stationApply (disable : Bool) (clientParams : Option Params) (derived4 : Nat) (derived6 : String)
    (derivedPort : Nat) (rr : Option Resp) : StationView :=
  match rr with
  | none => ⟨some derived4, some derived6, derivedPort, clientParams⟩
  | some r =>
    { phantom4 := match r.v4 with | some a => if a != 0 then some a else some derived4 | none => some derived4
      phantom6 := match r.v6 with | some a => some a | none => some derived6
      port := r.port.getD derivedPort
      params := if r.params.isSome && !disable then r.params else clientParams }

/-- the parameters the client ends up using, by the same rule -/
def clientParams (req : Req) (c : Resp) : Option Params :=
  if c.params.isSome && !req.disable then c.params else req.params

end CJ.Registrar
