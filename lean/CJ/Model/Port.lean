import CJ.Model.Phantom
/-!
# Destination-port derivation (C01)

Station side: `getPhantomDstPort` (pkg/station/lib/registration_ingest.go) → the transport's
`ParseParams` and `GetDstPort` (min.go, obfs4.go, prefix.go, dtls.go) → `transports.PortSelectorRange`.
Client side: the `ClientTransport.GetDstPort` of each transport (client.go files), guarded by the
dialer's rule "443 unless the phantom's subnet supports port randomisation".

The transport parameters are modelled after protobuf decoding (a library): `Wire` is the message the
client put into `ClientToStation.transport_params` (or `none` when the field is absent), well typed
for its transport.  The per-prefix default ports are a table parameter (the real tables are dumped
into `CJ/Gen/C01Tables.lean` on every run and `prefix_ports_agree` is proved about them).
-/
namespace CJ.Port
open CJ.Phantom

inductive Transport
  | min | obfs4 | prefix | dtls
  | unknown        -- a transport type the station has not enabled
deriving DecidableEq, Repr

/-- the decoded `transport_params` of a registration -/
inductive Wire
  | generic (rand : Bool)                 -- GenericTransportParams (min, obfs4)
  | prefix (id : Int) (rand : Bool)       -- PrefixTransportParams (absent prefix_id decodes as 0)
  | dtls (rand : Bool)                    -- DTLSTransportParams
deriving DecidableEq, Repr

/-- what the station's `ParseParams` hands to `GetDstPort` (`absent`: a nil interface) -/
inductive Params
  | absent
  | generic (rand : Bool)
  | prefix (id : Int) (rand : Bool)
  | dtls (rand : Bool)
deriving DecidableEq, Repr

inductive PErr
  | unknownTransport      -- "unknown transport"
  | notSupported          -- "client couldn't support this transport"
  | unknownPrefix         -- ErrUnknownPrefix
  | badParams             -- ErrBadParams / "bad parameters provided"
deriving DecidableEq, Repr

inductive POut (α : Type) where
  | ok (a : α)
  | err (e : PErr)
  | panic (w : String)
deriving DecidableEq, Repr

/-- constants of the transports (dumped from the code into `CJ.Gen.C01Tables` and pinned there) -/
structure Consts where
  randomizeMinVersion : Nat      -- randomizeDstPortMinVersion (ingest, min, obfs4, prefix)
  minRange : Nat × Nat           -- portRangeMin, portRangeMax of min
  obfs4Range : Nat × Nat
  prefixRange : Nat × Nat
  dtlsRange : Nat × Nat
  dtlsDefault : Nat              -- defaultPort of the DTLS transport
  stationPrefixes : List (Int × Nat)   -- prefix.defaultPrefixes: id ↦ DefaultDstPort (station)
  clientPrefixes : List (Int × Nat)    -- prefix.DefaultPrefixes: id ↦ DstPort (client)
deriving Repr

def lookupPrefix (t : List (Int × Nat)) (id : Int) : Option Nat :=
  (t.find? (fun p => p.1 == id)).map (·.2)

def labelPort : String := "phantom-select-dst-port"

/-- `transports.PortSelectorRange(min, max, seed)`; `s` is the "phantom-select-dst-port" stream.
A failing `rand.Int` is answered `0, nil` by the code (sic); a non-positive range would panic. -/
def portSelectorRange (s : Stream) (lim : Nat) (mn mx : Nat) : POut Nat :=
  match randInt s lim (mx - mn) with
  | .ok p => .ok ((p + mn) % 65536)
  | .err _ => .ok 0
  | .panic w => .panic w

/-- the station transports' `ParseParams(libVersion, data)` -/
def parseParams (c : Consts) (t : Transport) (ver : Nat) (data : Option Wire) : POut Params :=
  match t with
  | .unknown => .err .unknownTransport
  | .min | .obfs4 =>
    match data with
    | none => .ok .absent
    | some w =>
      if ver < c.randomizeMinVersion then .ok (.generic false) else
      match w with
      | .generic r => .ok (.generic r)
      | _ => .err .badParams          -- not generated: protobuf decoding of a foreign message
  | .prefix =>
    match data with
    | none => .ok .absent
    | some w =>
      if ver < c.randomizeMinVersion then .err .notSupported else
      match w with
      | .prefix id r =>
        match lookupPrefix c.stationPrefixes id with
        | some _ => .ok (.prefix id r)
        | none => .err .unknownPrefix
      | _ => .err .badParams
  | .dtls =>
    match data with
    | none => .ok (.dtls false)
    | some (.dtls r) => .ok (.dtls r)
    | some _ => .err .badParams

/-- the station transports' `GetDstPort(libVersion, seed, params)`; `s` = port stream of the seed -/
def transportDstPort (c : Consts) (s : Stream) (lim : Nat) (t : Transport) (ver : Nat) (p : Params) : POut Nat :=
  match t with
  | .unknown => .err .unknownTransport
  | .min =>
    if ver < c.randomizeMinVersion then .ok 443 else
    match p with
    | .absent => .ok 443
    | .generic r => if r then portSelectorRange s lim c.minRange.1 c.minRange.2 else .ok 443
    | _ => .err .badParams
  | .obfs4 =>
    if ver < c.randomizeMinVersion then .ok 443 else
    match p with
    | .absent => .ok 443
    | .generic r => if r then portSelectorRange s lim c.obfs4Range.1 c.obfs4Range.2 else .ok 443
    | _ => .err .badParams
  | .prefix =>
    if ver < c.randomizeMinVersion then .err .notSupported else
    match p with
    | .prefix id r =>
      match lookupPrefix c.stationPrefixes id with
      | none => .err .unknownPrefix
      | some dflt => if r then portSelectorRange s lim c.prefixRange.1 c.prefixRange.2 else .ok dflt
    | _ => .err .badParams           -- includes absent parameters: "incorrect type"
  | .dtls =>
    match p with
    | .absent => .ok c.dtlsDefault
    | .dtls r => if r then portSelectorRange s lim c.dtlsRange.1 c.dtlsRange.2 else .ok c.dtlsDefault
    | _ => .err .badParams

/-- `getPhantomDstPort(t, params, seed, libVer, supportsRandom)` -/
def getPhantomDstPort (c : Consts) (s : Stream) (lim : Nat) (t : Transport) (p : Params) (ver : Nat)
    (supportsRandom : Bool) : POut Nat :=
  if t = .unknown then .err .unknownTransport else
  if ver < c.randomizeMinVersion ∨ supportsRandom = false then .ok 443 else
  transportDstPort c s lim t ver p

/-- the station's port for a registration: `getTransportParams` then `getPhantomDstPort` -/
def stationPort (c : Consts) (s : Stream) (lim : Nat) (t : Transport) (ver : Nat) (data : Option Wire)
    (supportsRandom : Bool) : POut Nat :=
  match parseParams c t ver data with
  | .ok p => getPhantomDstPort c s lim t p ver supportsRandom
  | .err e => .err e
  | .panic w => .panic w

/-- the client transports' `GetDstPort(seed)` (current library); `sess` are the session parameters the
client also sends in its registration (`none`: `sessionParams == nil`) -/
def clientDstPort (c : Consts) (s : Stream) (lim : Nat) (t : Transport) (sess : Option Wire) : POut Nat :=
  match t with
  | .unknown => .err .unknownTransport
  | .min =>
    match sess with
    | some (.generic true) => portSelectorRange s lim c.minRange.1 c.minRange.2
    | _ => .ok 443
  | .obfs4 =>
    match sess with
    | some (.generic true) => portSelectorRange s lim c.obfs4Range.1 c.obfs4Range.2
    | _ => .ok 443
  | .prefix =>
    match sess with
    | some (.prefix id r) =>
      match lookupPrefix c.clientPrefixes id with
      | none => .err .badParams       -- `t.Prefix == nil`
      | some dflt => if r then portSelectorRange s lim c.prefixRange.1 c.prefixRange.2 else .ok dflt
    | _ => .err .badParams
  | .dtls =>
    match sess with
    | some (.dtls true) => portSelectorRange s lim c.dtlsRange.1 c.dtlsRange.2
    | _ => .ok c.dtlsDefault

/-- The port a client of library version `ver` dials: before `randomizeMinVersion` always 443; from
then on 443 unless the selected phantom's subnet supports randomisation (the dialer's rule), else the
transport's `GetDstPort`. -/
def clientPort (c : Consts) (s : Stream) (lim : Nat) (t : Transport) (ver : Nat) (sess : Option Wire)
    (supportsRandom : Bool) : POut Nat :=
  if ver < c.randomizeMinVersion ∨ supportsRandom = false then .ok 443 else clientDstPort c s lim t sess

end CJ.Port
