import CJ.Model.Registrar
/-!
# The prefix override file and the selection among its lines (C12)

`pkg/regserver/overrides/prefix_transport.go`: an operator writes a file of lines `max bar id port prefix`;
`ParsePrefixes` turns it into a list of `barPrefix` selectors, `prefixes.selectPrefix` picks one line uniformly
with `crypto/rand.Int` on the reader it is given and `barPrefix.selectPrefix` applies the line with probability
`bar / max` (a second `rand.Int`).  `PrefixOverride.Override` then writes the selected prefix id, prefix bytes
and flush policy into the transport parameters of the response that both the client and the stations get.

Everything from the text of the file and the bytes the reader delivers to the fields written is mirrored here:
the line scanner (`bufio.ScanLines`), `strings.Fields` (ASCII input: a byte above 0x7f puts the text outside
the model, `none`), the order of the checks of a line (the zero/zero test comes *before* the parse errors are
looked at), `crypto/rand.Int` (byte count, masking of the first byte, rejection loop, `io.ReadFull` failing on
a short reader) and the two-level selection.  `strconv.ParseInt(s, 0, 0)` is a parameter: its results travel
with the text (`IntTok`).

Core Lean only.
-/
namespace CJ.PrefixFile
open CJ.Registrar

/-! ## `crypto/rand.Int` on a byte stream -/

/-- `big.Int.BitLen` -/
def bitLen (n : Nat) : Nat := if n = 0 then 0 else Nat.log2 n + 1

/-- `big.Int.SetBytes` (big endian) -/
def ofBytes (bs : List Nat) : Nat := bs.foldl (fun a b => a * 256 + b) 0

inductive Draw
  | panic            -- `max <= 0`
  | err              -- the reader failed (`io.ReadFull`: EOF / unexpected EOF)
  | ok (n : Nat)
deriving DecidableEq, Repr, Inhabited

/-- the rejection loop of `rand.Int`: read `k` bytes, keep `b` bits of the first, accept a value below `max`.
A reader with fewer than `k` bytes left is drained and the call fails.  `fuel`: every turn consumes `k ≥ 1`
bytes, `stream.length + 1` turns are never used up (`randInt`). -/
def randLoop (max k b : Nat) : Nat → List Nat → Draw × List Nat
  | 0, s => (.err, s)
  | fuel + 1, s =>
    if s.length < k then (.err, []) else
    match s.take k with
    | [] => (.err, s)                     -- k = 0: not reached (`randInt` has k ≥ 1)
    | first :: more =>
      let n := ofBytes ((first % 2 ^ b) :: more)
      if n < max then (.ok n, s.drop k) else randLoop max k b fuel (s.drop k)

/-- `rand.Int(reader, big.NewInt(max))` for an integer `max` -/
def randInt (max : Int) (s : List Nat) : Draw × List Nat :=
  if max ≤ 0 then (.panic, s) else
  let bl := bitLen (max.toNat - 1)
  if bl = 0 then (.ok 0, s) else         -- the only valid result is 0: nothing is read
  let k := (bl + 7) / 8
  let b := if bl % 8 = 0 then 8 else bl % 8
  randLoop max.toNat k b (s.length + 1) s

/-! ## selection -/

/-- `barPrefix` -/
structure Bar where
  max : Int
  bar : Int
  id : Int
  port : Int
  pbytes : List Nat
  flush : Int
deriving DecidableEq, Repr, Inhabited

/-- `fieldsToOverwrite` -/
structure Fields where
  pbytes : List Nat
  port : Int
  id : Int
  flush : Int
deriving DecidableEq, Repr, Inhabited

def Bar.fields (b : Bar) : Fields := { pbytes := b.pbytes, port := b.port, id := b.id, flush := b.flush }

/-- `barPrefix.selectPrefix` -/
def barSelect (bp : Bar) (s : List Nat) : Option Fields × List Nat :=
  if bp.bar ≤ 0 then (none, s) else
  if bp.max ≤ 0 then (none, s) else
  if bp.bar ≥ bp.max then (some bp.fields, s) else
  match randInt bp.max s with
  | (.ok q, rest) => if (q : Int) < bp.bar then (some bp.fields, rest) else (none, rest)
  | (_, rest) => (none, rest)

inductive Sel
  | panic                      -- an index outside the list (ruled out: `select_never_panics`)
  | res (f : Option Fields)
deriving DecidableEq, Repr, Inhabited

/-- `prefixes.selectPrefix` -/
def selectPrefix (pfs : List Bar) (s : List Nat) : Sel × List Nat :=
  match pfs with
  | [] => (.res none, s)
  | [b] => let (f, r) := barSelect b s; (.res f, r)
  | _ =>
    match randInt pfs.length s with
    | (.ok i, rest) =>
      match pfs[i]? with
      | some b => let (f, r) := barSelect b rest; (.res f, r)
      | none => (.panic, rest)
    | (.panic, rest) => (.panic, rest)
    | (.err, rest) => (.res none, rest)

/-! ## the text of the file -/

/-- `bufio.ScanLines`: lines end at `\n`, one `\r` before it is dropped; the last line needs no `\n` -/
def dropCR (l : List Nat) : List Nat :=
  match l.reverse with
  | 13 :: r => r.reverse
  | _ => l

def splitLines : List Nat → List Nat → List (List Nat)
  | [], cur => if cur.isEmpty then [] else [dropCR cur.reverse]
  | 10 :: rest, cur => dropCR cur.reverse :: splitLines rest []
  | c :: rest, cur => splitLines rest (c :: cur)

/-- `unicode.IsSpace` on ASCII -/
def isSpace (c : Nat) : Bool := c == 32 || (9 ≤ c && c ≤ 13)

/-- `strings.Fields` on ASCII bytes -/
def fieldsAux : List Nat → List Nat → List (List Nat)
  | [], cur => if cur.isEmpty then [] else [cur.reverse]
  | c :: rest, cur =>
    if isSpace c then (if cur.isEmpty then fieldsAux rest [] else cur.reverse :: fieldsAux rest [])
    else fieldsAux rest (c :: cur)

def fields (l : List Nat) : List (List Nat) := fieldsAux l []

/-- result of `strconv.ParseInt(item, 0, 0)`: the value (0, or the nearest bound, when it failed) and whether
`err == nil` -/
structure IntTok where
  val : Int
  ok : Bool
deriving DecidableEq, Repr, Inhabited

inductive ParseErr | malformed | parseError | ints   -- `ints`: the supplied ParseInt results do not fit the text
deriving DecidableEq, Repr, Inhabited

/-- `prefix.NoAddedFlush` (`// TODO - make this not static`) -/
def noAddedFlush : Int := 1

/-- one line that has reached the integer conversions -/
def lineBar (toks : List IntTok) (pre : List Nat) : Except ParseErr (Option Bar) :=
  match toks with
  | [mx, br, id, pt] =>
    -- `if max == 0 && bar == 0 { continue }` comes before the errors are examined
    if mx.val == 0 && br.val == 0 then .ok none
    else if !(mx.ok && br.ok && id.ok && pt.ok) then .error .parseError
    else .ok (some { max := mx.val, bar := br.val, id := id.val, port := pt.val, pbytes := pre, flush := noAddedFlush })
  | _ => .error .ints

/-- the loop of `ParsePrefixes` over the scanned lines; `ints`: the `ParseInt` results of the lines that reach
the conversions, in order -/
def parseLines : List (List Nat) → List (List IntTok) → Except ParseErr (List Bar)
  | [], _ => .ok []
  | line :: rest, ints =>
    match line with
    | [] => parseLines rest ints
    | 35 :: _ => parseLines rest ints            -- '#'
    | _ =>
      match fields line with
      | [_, _, _, _, pre] =>
        match ints with
        | [] => .error .ints
        | toks :: ints' =>
          match lineBar toks pre with
          | .error e => .error e
          | .ok none => parseLines rest ints'
          | .ok (some b) => (parseLines rest ints').map (b :: ·)
      | _ => .error .malformed

/-- `ParsePrefixes`; `none`: a byte above 0x7f (outside the modelled `strings.Fields`) -/
def parsePrefixes (text : List Nat) (ints : List (List IntTok)) : Option (Except ParseErr (List Bar)) :=
  if text.all (· < 128) then some (parseLines (splitLines text []) ints) else none

/-! ## from the selection to what `PrefixOverride.Override` writes -/

/-- `int32(x)` -/
def toInt32 (x : Int) : Int := (x + 2147483648) % 4294967296 - 2147483648

def hexOf (bs : List Nat) : String :=
  String.ofList (bs.flatMap fun b => [Nat.digitChar (b / 16 % 16), Nat.digitChar (b % 16)])

/-- the selection as `Registrar.paramOverride` takes it: `params.Prefix = fields.prefix`,
`params.PrefixId = int32(fields.id)`, `params.CustomFlushPolicy = fields.flushPolicy` -/
def ovSelOf : Sel → Option OvSel
  | .panic => none
  | .res none => some .nothing
  | .res (some f) => some (.fields (toInt32 f.id) (hexOf f.pbytes) f.flush)

/-- `PrefixOverride.Override` on a Prefix registration whose wrapper carries the response `r0` and whose
client parameters unmarshal to `cp`: the response afterwards (`none`: the call fails or panics) and the
reader's remaining bytes -/
def fileOverride (pfs : List Bar) (s : List Nat) (cp : PrefixParams) (r0 : Resp) : Option Resp × List Nat :=
  let (sel, rest) := selectPrefix pfs s
  match ovSelOf sel with
  | none => (none, rest)
  | some ov =>
    let req : Req := { hasPayload := true, secretLen := 32, v4 := true, v6 := false, transport := 4, disable := false,
                       params := some (.pfx cp), source := 0, regAddr := none, forgedResp := none,
                       forgedBytes := "", forgedSig := "" }
    let ext : Ext := { sel4 := .err, sel6 := .err, transportKnown := true, parseOk := true, ovSel := ov,
                       unmarshal := some cp, port := none, pctDraw := 0, uNum := 0, uDen := 1, hostDraw := 0,
                       sendOk := true }
    match paramOverride req ext { o0 := r0, rp := false, wp := some false } with
    | none => (none, rest)
    | some h => (some h.o0, rest)

end CJ.PrefixFile
