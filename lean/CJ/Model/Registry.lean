import Std.Data.HashMap
/-!
# Model of `RegisteredDecoys` (pkg/station/lib/registration.go)

The two maps of the Go struct, `decoys[phantom][identifier]` and `decoysTimeouts[key]`, are modelled
as two hash maps over the same key type `(phantom text, transport identifier)`.  The nested Go map is
flattened (the per-phantom sub-map is recovered by filtering on the first component) and the string
key of the timeout map is abstracted by the pair it encodes; that the Go key function is injective on
that pair is exactly what the correspondence check tests (one secret used with several transports).

Every Go method that takes the struct mutex is one `Op`; `collect`/`remove` are the two critical
sections of the sweeper, `sweep` is their sequential composition (`removeOldRegistrations`).
Time is a `Nat` supplied by the operation.
-/
open Std

namespace CJ.Registry

abbrev Key := String × String

structure Reg where
  transport : Nat
  valid : Bool
  regCount : Nat
deriving Repr, DecidableEq, Inhabited

structure TO where
  time : Nat
  used : Bool
deriving Repr, DecidableEq, Inhabited

structure Cfg where
  unusedT : Nat
  activeT : Nat
  enabled : List Nat
deriving Repr

structure St where
  decoys : HashMap Key Reg := {}
  timeouts : HashMap Key TO := {}

def init : St := {}

/-- `getExpiredRegistrations`' test: `unused ∧ age > unusedT`, else `age > activeT`. -/
def expired (c : Cfg) (now : Nat) (t : TO) : Bool :=
  (!t.used && decide (now - t.time > c.unusedT)) || decide (now - t.time > c.activeT)

inductive Out
  | ok | err | new | dup | upd | none
  | swept (n v : Nat)
  | keys (l : List Key)
  | regs (l : List String)
  | bool (b : Bool)
  | num (n : Nat)
deriving Repr, DecidableEq

inductive Op
  | track (k : Key) (tr now : Nat)
  | register (k : Key) (tr now : Nat)
  | markActive (k : Key) (tr : Nat)
  | collect (now : Nat)
  | remove (k : Key) (now : Nat)
  | sweep (now : Nat)
  | lookup (p : String)
  | exists_ (k : Key) (tr : Nat)
  | count (p : String)
  | total
deriving Repr

/-- `track` (registration.go): a tracked registration only has its counter bumped; a new one is
stored invalid with count 1 and gets a fresh, unused timeout record. -/
def track (c : Cfg) (s : St) (k : Key) (tr now : Nat) : St × Bool :=
  if !c.enabled.contains tr then (s, false) else
  match s.decoys[k]? with
  | some r => ({ s with decoys := s.decoys.insert k { r with regCount := r.regCount + 1 } }, true)
  | none => ({ decoys := s.decoys.insert k ⟨tr, false, 1⟩, timeouts := s.timeouts.insert k ⟨now, false⟩ }, true)

/-- `register`: track if unknown, then flip `Valid` once and announce `New` exactly then. -/
def register (c : Cfg) (s : St) (k : Key) (tr now : Nat) : St × Out :=
  if !c.enabled.contains tr then (s, .err) else
  match s.decoys[k]? with
  | some r =>
    if r.valid then (s, .dup)
    else ({ s with decoys := s.decoys.insert k { r with valid := true } }, .new)
  | none =>
    ({ decoys := s.decoys.insert k ⟨tr, true, 1⟩, timeouts := s.timeouts.insert k ⟨now, false⟩ }, .new)

/-- `markActive`: set the used flag of the timeout record if there is one, announce `Update`. -/
def markActive (c : Cfg) (s : St) (k : Key) (tr : Nat) : St × Out :=
  if !c.enabled.contains tr then (s, .none) else
  match s.timeouts[k]? with
  | some t => ({ s with timeouts := s.timeouts.insert k { t with used := true } }, .upd)
  | none => (s, .none)

/-- first critical section of the sweeper (read lock): indices whose record is expired. -/
def collect (c : Cfg) (now : Nat) (s : St) : List Key :=
  (s.timeouts.toList.filter (fun kv => expired c now kv.2)).map (·.1)

/-- second critical section (write lock), once per collected index: the record is looked up again
and expiry is re-evaluated on the current state before both records are deleted. Returns whether
something was removed and whether it was valid. -/
def remove (c : Cfg) (now : Nat) (s : St) (k : Key) : St × Option Bool :=
  match s.timeouts[k]? with
  | none => (s, .none)
  | some t =>
    if expired c now t then
      match s.decoys[k]? with
      | none => (s, .none)
      | some r => ({ decoys := s.decoys.erase k, timeouts := s.timeouts.erase k }, some r.valid)
    else (s, .none)

def removeAll (c : Cfg) (now : Nat) (ks : List Key) (s : St) : St × Nat :=
  ks.foldl (fun (acc : St × Nat) k =>
    let (s', r) := remove c now acc.1 k
    (s', if r = some true then acc.2 + 1 else acc.2)) (s, 0)

/-- `removeOldRegistrations` -/
def sweep (c : Cfg) (now : Nat) (s : St) : St × Out :=
  let ks := collect c now s
  let (s', v) := removeAll c now ks s
  (s', .swept ks.length v)

def lookup (s : St) (p : String) : List String :=
  (s.decoys.toList.filter (fun kv => kv.1.1 == p && kv.2.valid)).map (·.1.2)

def count (s : St) (p : String) : Nat :=
  (s.decoys.toList.filter (fun kv => kv.1.1 == p)).length

def step (c : Cfg) (s : St) : Op → St × Out
  | .track k tr now => let (s', ok) := track c s k tr now; (s', if ok then .ok else .err)
  | .register k tr now => register c s k tr now
  | .markActive k tr => markActive c s k tr
  | .collect now => (s, .keys (collect c now s))
  | .remove k now => let (s', r) := remove c now s k; (s', match r with | some v => .bool v | none => .none)
  | .sweep now => sweep c now s
  | .lookup p => (s, .regs (lookup s p))
  | .exists_ k tr => (s, .bool (c.enabled.contains tr && s.decoys.contains k))
  | .count p => (s, .num (count s p))
  | .total => (s, .num s.decoys.size)

def run (c : Cfg) (ops : List Op) (s : St := init) : St :=
  ops.foldl (fun s o => (step c s o).1) s

def tracked (s : St) (k : Key) : Prop := s.decoys.contains k = true

/-! ## the outer level of the Go map: which per-phantom buckets exist

`decoys` is `map[string]map[string]*DecoyRegistration` in the code; the flattened `St.decoys` cannot
say whether an (empty) inner map is still stored under a phantom address.  `BSt` carries the set of
stored buckets explicitly and `bstep` mirrors the two places where the code creates / deletes one:
`track` for a registration it stores (`if !exists { r.decoys[ph] = map… }`) and `removeRegistration`
after a deletion (`if len(r.decoys[ph]) == 0 { delete(r.decoys, ph) }`).  The registry part of `bstep`
is `step` (theorem `bstep_st`), so everything proved about `step` carries over. -/

structure BSt where
  st : St := {}
  buckets : List String := []

def binit : BSt := {}

def addBucket (p : String) (l : List String) : List String := if l.contains p then l else p :: l

/-- `track` / `register` store a new registration (and make sure its bucket exists) exactly when the
transport is enabled and the key is not tracked -/
def creates (c : Cfg) (s : St) (k : Key) (tr : Nat) : Bool :=
  c.enabled.contains tr && !s.decoys.contains k

/-- `removeRegistration` with the bucket clean-up: only after an actual deletion is the length of the
inner map looked at -/
def bremove (c : Cfg) (now : Nat) (b : BSt) (k : Key) : BSt × Option Bool :=
  match remove c now b.st k with
  | (s', none) => ({ b with st := s' }, none)
  | (s', some v) => ({ st := s', buckets := if count s' k.1 = 0 then b.buckets.erase k.1 else b.buckets }, some v)

def bremoveAll (c : Cfg) (now : Nat) (ks : List Key) (b : BSt) : BSt × Nat :=
  ks.foldl (fun (acc : BSt × Nat) k =>
    let (b', r) := bremove c now acc.1 k
    (b', if r = some true then acc.2 + 1 else acc.2)) (b, 0)

def bstep (c : Cfg) (b : BSt) : Op → BSt × Out
  | .track k tr now =>
    let (s', ok) := track c b.st k tr now
    ({ st := s', buckets := if creates c b.st k tr then addBucket k.1 b.buckets else b.buckets },
      if ok then .ok else .err)
  | .register k tr now =>
    let (s', o) := register c b.st k tr now
    ({ st := s', buckets := if creates c b.st k tr then addBucket k.1 b.buckets else b.buckets }, o)
  | .remove k now =>
    let (b', r) := bremove c now b k
    (b', match r with | some v => .bool v | none => .none)
  | .sweep now =>
    let ks := collect c now b.st
    let (b', v) := bremoveAll c now ks b
    (b', .swept ks.length v)
  | .markActive k tr => let (s', o) := markActive c b.st k tr; ({ b with st := s' }, o)
  | .collect now => (b, .keys (collect c now b.st))
  | .lookup p => (b, .regs (lookup b.st p))
  | .exists_ k tr => (b, .bool (c.enabled.contains tr && b.st.decoys.contains k))
  | .count p => (b, .num (count b.st p))
  | .total => (b, .num b.st.decoys.size)

def brun (c : Cfg) (ops : List Op) (b : BSt := binit) : BSt :=
  ops.foldl (fun b o => (bstep c b o).1) b

end CJ.Registry
