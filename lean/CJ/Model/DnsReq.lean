import CJ.Model.BdReq
/-!
# The DNS registrar's handler (C13)

pkg/regserver/dnsregserver/dnsregserver.go: `processRequest`, the function the DNS responder calls with the
decrypted request and whose result it encrypts and sends back; in front of the same processor as the API
registrar (`CJ/Model/BdReq.lean`: `procBdWith`, `procUni` - reused unchanged).

What the handler does, branch by branch:

* the request does not decode as a `C2SWrapper` -> an error and **no payload** (the responder then sends nothing:
  `craftResponse` returns the error, the goroutine of `RecvAndRespond` returns before `WriteTo`);
* `ClientconfOutdated` = the client's generation (0 for a wrapper without payload) is below the generation the
  registrar holds - ONE atomic load, before the processor is called;
* the wrapper's own `RegistrationSource` field decides the entry point: `BidirectionalDNS` -> `RegisterBidirectional`,
  anything else -> `RegisterUnidirectional` (the client's generation is passed on **unchanged**: unlike the API
  registrar the DNS registrar does not substitute its own generation for an outdated client);
* processor error -> a `DnsResponse` with `Success = false`, the flag, and NO `BidirectionalResponse` (the processor
  returns a nil response with every error); no error -> `Success = true`, the flag, and the processor's response for
  a bidirectional request; either way a payload: every request that decodes is answered.

Parameters: `proto.Unmarshal` of the request (result per case), `proto.Marshal` of the `DnsResponse` (cannot fail
for a message built from scalars and a message the processor built; not a branch of the model), the processor's
parameters as in `BdReq`.
-/
namespace CJ.DnsReq
open CJ.BdReq

structure DReq where
  decodes : Bool      -- proto.Unmarshal(reqIn) succeeds
  srcBd : Bool        -- c2sPayload.GetRegistrationSource() == BidirectionalDNS
  r : Req             -- what the processor sees (payload, gen, families, ...); `r.gen = 0` when there is no payload
deriving DecidableEq, Repr, Inhabited

/-- the decoded `DnsResponse` -/
structure DResp where
  success : Bool
  outdated : Bool
  bd : Option Resp    -- BidirectionalResponse
deriving DecidableEq, Repr, Inhabited

structure DAns where
  out : Option DResp  -- `none`: the handler returned an error and no payload
  called : Bool       -- the processor was called
  calledBd : Bool     -- ... through RegisterBidirectional
  asked : List Ask
  sent : Bool
deriving DecidableEq, Repr, Inhabited

/-- the generation the handler compares: `c2sPayload.RegistrationPayload.GetDecoyListGeneration()` is 0 on a nil payload -/
def clientGen (r : Req) : Nat := if r.payload then r.gen else 0

/-- `processRequest`.  `ccAtLoad` is the value of `latestCCGen` at the handler's one atomic load, `ccLater` the value
after the processor returned (an `UpdateLatestCCGen` may have run in between); `useLater` says which of the two the
flag is computed from: the code uses the first. -/
def dnsWith (pick : Timeline → Snap × Snap) (useLater : Bool) (ccAtLoad ccLater : Nat) (tl : Timeline) (d : DReq) : DAns :=
  if !d.decodes then ⟨none, false, false, [], false⟩ else
  let cc := if useLater then ccLater else ccAtLoad
  let od := decide (clientGen d.r < cc)
  if d.srcBd then
    let o := procBdWith pick tl d.r d.r.gen
    match o.res with
    | .error _ => ⟨some ⟨false, od, none⟩, true, true, o.asked, o.sent⟩
    | .ok resp => ⟨some ⟨true, od, some resp⟩, true, true, o.asked, o.sent⟩
  else
    let o := procUni d.r
    match o.res with
    | .error _ => ⟨some ⟨false, od, none⟩, true, false, o.asked, o.sent⟩
    | .ok _ => ⟨some ⟨true, od, none⟩, true, false, o.asked, o.sent⟩

/-- the code: both selections on the snapshot, the generation loaded once before the processor runs -/
def dns := dnsWith snapshotPick false

end CJ.DnsReq
