import CJ.Model.Config
/-! What `RegConfig.ParseBlocklists` / `isBlocklistedCovertDomain` do with the list of `covert_blocklist_domains`
patterns (C19).  The regular-expression engine is a **parameter** (`Engine`: does this text compile, does the
expression compiled from this text match this host) that is always applied to the text *the code hands to it*;
what is modelled is the code around it: each entry is compiled in the order written, the first one the engine
refuses makes the whole load fail (naming that entry), the compiled expressions are kept in order, a host is
refused iff some kept expression matches the host text handed to `MatchString`.  `f` / `g` are what the code does
to an entry before `regexp.Compile` and to the host before `MatchString`; the source says (go/ast,
`CJ.Gen.C19Pattern`) that both are "nothing" (`Arg.asWritten`). -/
namespace CJ.PatternList
open CJ.Config

/-- the regular-expression engine, as a function of the pattern *text* -/
structure Engine where
  compiles : String → Bool
  matchStr : String → String → Bool

/-- what the source does to the configured entry (the host) before it reaches the engine -/
inductive Arg
  | asWritten          -- the range variable (the parameter) itself, never assigned to
  | lowered            -- strings.ToLower(x)
  | other              -- anything else
deriving DecidableEq, Repr

def Arg.fn : Arg → String → String
  | .asWritten => id
  | .lowered => String.toLower
  | .other => fun _ => ""

/-- `regexp.Compile(f entry)` as the entry parser of `CJ.Config.parseAll`: the compiled expression is identified
with the text it was compiled from -/
def reOf (E : Engine) (f : String → String) (entry : String) : Outcome String :=
  if E.compiles (f entry) then .ok (f entry) else .err

/-- the loop over `c.CovertBlocklistDomains`: the compiled list, or the position and text of the first entry the
engine refuses (the text goes into the error message) -/
def load (E : Engine) (f : String → String) : List String → Except (Nat × String) (List String)
  | [] => .ok []
  | p :: ps =>
    if E.compiles (f p) then
      match load E f ps with
      | .ok l => .ok (f p :: l)
      | .error (i, q) => .error (i + 1, q)
    else .error (0, p)

/-- `isBlocklistedCovertDomain` over the compiled list -/
def blocked (E : Engine) (g : String → String) (compiled : List String) (host : String) : Bool :=
  compiled.any (fun p => E.matchStr p (g host))

/-- a table engine (for the driver and for examples): verdicts by pattern text; a text that is not in the
table does not compile and matches nothing -/
def tableEngine (tbl : List (String × Bool × List String)) : Engine where
  compiles p := match tbl.find? (·.1 == p) with
    | some (_, c, _) => c
    | none => false
  matchStr p h := match tbl.find? (·.1 == p) with
    | some (_, _, hs) => hs.contains h
    | none => false

/-- which text of a table the code asked the engine about although it is not in it (must be none) -/
def askedOutside (tbl : List (String × Bool × List String)) (f : String → String) (pats : List String) : Bool :=
  pats.any fun p => !(tbl.any (·.1 == f p))

/-- the source facts about the two functions, as read off the syntax tree -/
structure Shape where
  compileSites : Nat            -- calls of regexp.Compile / MustCompile / CompilePOSIX … in the package (non-test)
  rangesConfigured : Bool       -- the loop ranges over c.CovertBlocklistDomains
  resetBefore : Bool            -- c.covertBlocklistDomains = []*regexp.Regexp{} before the loop
  compileArg : Arg              -- the argument of regexp.Compile
  errReturnsError : Bool        -- `if err != nil { return <non-nil> }` right after the call
  appendsCompiled : Bool        -- c.covertBlocklistDomains = append(c.covertBlocklistDomains, <result of Compile>)
  decisionRangesCompiled : Bool -- isBlocklistedCovertDomain ranges over c.covertBlocklistDomains
  hostArg : Arg                 -- the argument of MatchString
  matchReturnsTrue : Bool       -- `if pattern.MatchString(..) { return true }`
  endReturnsFalse : Bool        -- the function ends with `return false`
deriving DecidableEq, Repr

/-- the shape the model above describes -/
def Shape.modelled : Shape :=
  { compileSites := 1, rangesConfigured := true, resetBefore := true, compileArg := .asWritten,
    errReturnsError := true, appendsCompiled := true, decisionRangesCompiled := true, hostArg := .asWritten,
    matchReturnsTrue := true, endReturnsFalse := true }

end CJ.PatternList
