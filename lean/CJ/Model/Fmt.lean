import CJ.Model.LogTaint
/-!
# `fmt`'s format strings as far as they decide *which argument is printed*

`fmt.(*pp).doPrintf` as a byte-by-byte machine: literal text, `%`, flags (`#0+- `), width digits, `.` precision digits,
the verb.  `%%` prints a percent sign and takes no argument; `%T` prints the *type* of its argument; every other
verb — also one that does not fit the argument's type (`%!d(string=…)`) — prints the value; arguments left over are
printed too (`%!(EXTRA type=value)`); a precision of 0 cuts a string-like rendering to nothing.  Explicit argument
indexes (`%[2]d`), `*` widths/precisions and verbs outside ASCII are **not** modelled: `parse` answers `none`.
-/
namespace CJ.Fmt

inductive Piece
  | lit (b : Nat)
  | pct
  | verb (v : Nat) (prec : Option Nat)
  | noverb
deriving Repr, DecidableEq

inductive Stage | flags | width | prec
deriving Repr, DecidableEq

/-- parser state: the pieces so far (reversed); inside a specification: its stage and precision -/
structure PS where
  out : List Piece := []
  spec : Option (Stage × Option Nat) := none
  bad : Bool := false
deriving Repr

def isDigit (b : Nat) : Bool := 48 ≤ b && b ≤ 57
def isFlag (b : Nat) : Bool := b == 35 || b == 48 || b == 43 || b == 45 || b == 32

def endSpec (s : PS) (b : Nat) (prec : Option Nat) : PS :=
  if b == 42 || b == 91 || 128 ≤ b then { s with bad := true, spec := none }
  else if b == 37 then { s with out := .pct :: s.out, spec := none }
  else { s with out := .verb b prec :: s.out, spec := none }

def feed (s : PS) (b : Nat) : PS :=
  match s.spec with
  | none => if b == 37 then { s with spec := some (.flags, none) } else { s with out := .lit b :: s.out }
  | some (.flags, p) =>
    if isFlag b then s
    else if isDigit b then { s with spec := some (.width, p) }
    else if b == 46 then { s with spec := some (.prec, some 0) }
    else endSpec s b p
  | some (.width, p) =>
    if isDigit b then s
    else if b == 46 then { s with spec := some (.prec, some 0) }
    else endSpec s b p
  | some (.prec, p) =>
    if isDigit b then { s with spec := some (.prec, some (p.getD 0 * 10 + (b - 48))) }
    else endSpec s b p

def parse (fmt : List Nat) : Option (List Piece) :=
  let s := fmt.foldl feed {}
  if s.bad then none
  else some ((if s.spec.isSome then .noverb :: s.out else s.out).reverse)

/-- what happens to one argument -/
inductive Disp
  | byVerb (v : Nat) (prec : Option Nat)
  | extra
deriving Repr, DecidableEq

/-- the verbs in argument order (only those that find an argument), then `extra` for the arguments left over -/
def assign : List Piece → Nat → List Disp
  | [], n => List.replicate n .extra
  | .verb v p :: rest, n + 1 => .byVerb v p :: assign rest n
  | _ :: rest, n => assign rest n

/-- `%T` -/
def Disp.typeOnly : Disp → Bool
  | .byVerb 84 _ => true
  | _ => false

/-- the argument's value takes part in the output (taint judgement: everything but `%T`) -/
def Disp.printed (d : Disp) : Bool := !d.typeOnly

/-- argument kinds of the correspondence: string-like (string, error, Stringer) and integer -/
inductive Kind | str | int
deriving Repr, DecidableEq

/-- the output depends on the argument's value: printed, and not a string-like rendering cut to nothing -/
def Disp.shows (k : Kind) : Disp → Bool
  | .byVerb v p => v != 84 && !(k == .str && p == some 0)
  | .extra => true

def shows (fmt : List Nat) (kinds : List Kind) : Option (List Bool) :=
  (parse fmt).map fun ps => (List.zip kinds (assign ps kinds.length)).map fun (k, d) => d.shows k

/-- the verbs a format hands out, in order (what the extractor's regular expression computes) -/
def verbsOf (ps : List Piece) : List Nat :=
  ps.filterMap fun | .verb v _ => some v | _ => none

/-! ## rendering over an arbitrary alphabet -/
section
variable {α : Type}

/-- the text `Sprintf` builds: `lit` turns a format byte into output, `argText i d` is what `fmt` prints for argument
`i` under disposition `d` (its `Error()`/`String()`/digits, quoted, padded, in hex …), `typeText i` the name of its type,
`noise` the constant texts (`%!v(MISSING)`, `%!(NOVERB)`, `%!(EXTRA `) -/
def renderPieces (lit : Nat → α) (argText : Nat → Disp → List α) (typeText : Nat → List α) (noise : List α) :
    List Piece → Nat → Nat → List α
  | [], i, n => (List.range (n - i)).flatMap fun k => noise ++ argText (i + k) .extra
  | .lit b :: rest, i, n => lit b :: renderPieces lit argText typeText noise rest i n
  | .pct :: rest, i, n => lit 37 :: renderPieces lit argText typeText noise rest i n
  | .noverb :: rest, i, n => noise ++ renderPieces lit argText typeText noise rest i n
  | .verb v p :: rest, i, n =>
    if i < n then
      (if v == 84 then typeText i else argText i (.byVerb v p)) ++ renderPieces lit argText typeText noise rest (i + 1) n
    else noise ++ renderPieces lit argText typeText noise rest i n

end

/-- a formatted call site of the regenerated table -/
structure FmtSite where
  idx : Nat
  line : Nat
  format : List Nat
  verbs : List Nat
  groups : List (List CJ.LogTaint.Arg)
deriving Repr

def isTypeOf : CJ.LogTaint.Arg → Bool
  | .typeOf _ => true
  | _ => false

/-- the call site judged with the model's own reading of the format: the format is one the model reads; the verbs it
hands out are the ones the extractor assigned; no argument is left over or missing; a position is classified "only its
type is printed" exactly when the model's verb for it is `%T`; and the positions together are the argument list of the
entry of `logSites` they point to -/
def FmtSite.ok (sites : List CJ.LogTaint.Site) (f : FmtSite) : Bool :=
  match parse f.format with
  | none => false
  | some ps =>
    let ds := assign ps f.groups.length
    verbsOf ps == f.verbs
      && (verbsOf ps).length == f.groups.length
      && (List.zip ds f.groups).all (fun (d, g) => if d.typeOnly then g.all isTypeOf && g.length == 1 else g.all (fun a => !isTypeOf a))
      && (match sites[f.idx]? with
          | some s => s.line == f.line && s.args.length == f.groups.flatten.length
              && (List.zip s.args f.groups.flatten).all (fun (a, b) => isTypeOf a == isTypeOf b)
          | none => false)

end CJ.Fmt
