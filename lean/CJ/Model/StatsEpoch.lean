/-!
# A statistics module across epochs (`ProxyStats`, pkg/station/lib/proxies.go), C05

The station's stats loop calls `PrintAndReset` (or `Reset`) on every registered statistics module at
each epoch.  `ProxyStats` holds eight `int64` fields: seven *epoch counters* (bytes forwarded, bytes of
completed tunnels, zero-byte tunnels, completed sessions — zeroed by `reset()`) and one *gauge*,
`sessionsProxying` ("Number of open Proxy connections (count - not reset)"), moved by `addSession` /
`removeSession` around the two directions of `Proxy`.

Which fields `reset()` zeroes is a **parameter** `z` (a list of field names) of everything below: the
theorems say what has to be in it and what must not, and `CJ/Gen/StatsShape.lean` — regenerated from the
source on every run — says what the code of the tree under check has in it.  `expectedReset` is the
value of the reviewed tree; the executable model the harness is compared with uses it.

Core Lean only.
-/
namespace CJ.StatsEpoch

/-- the eight `int64` fields of `ProxyStats`, by their Go names -/
structure PS where
  sessionsProxying : Int := 0
  newBytesUp : Int := 0
  newBytesDown : Int := 0
  completeBytesUp : Int := 0
  completeBytesDown : Int := 0
  zeroByteTunnelsUp : Int := 0
  zeroByteTunnelsDown : Int := 0
  completedSessions : Int := 0
deriving Repr, DecidableEq

def gaugeName : String := "sessionsProxying"

def counterNames : List String :=
  ["newBytesUp", "newBytesDown", "completeBytesUp", "completeBytesDown",
   "zeroByteTunnelsUp", "zeroByteTunnelsDown", "completedSessions"]

/-- what `ProxyStats.reset()` zeroes in the reviewed tree: the seven epoch counters, not the gauge -/
def expectedReset : List String := counterNames

/-- a field after a reset that zeroes the fields named in `z` -/
def zf (z : List String) (name : String) (x : Int) : Int := if name ∈ z then 0 else x
/-- … and what that reset threw away -/
def kept (z : List String) (name : String) (x : Int) : Int := if name ∈ z then x else 0

def zero (z : List String) (p : PS) : PS :=
  { sessionsProxying := zf z "sessionsProxying" p.sessionsProxying,
    newBytesUp := zf z "newBytesUp" p.newBytesUp,
    newBytesDown := zf z "newBytesDown" p.newBytesDown,
    completeBytesUp := zf z "completeBytesUp" p.completeBytesUp,
    completeBytesDown := zf z "completeBytesDown" p.completeBytesDown,
    zeroByteTunnelsUp := zf z "zeroByteTunnelsUp" p.zeroByteTunnelsUp,
    zeroByteTunnelsDown := zf z "zeroByteTunnelsDown" p.zeroByteTunnelsDown,
    completedSessions := zf z "completedSessions" p.completedSessions }

/-- the values a reset discards (what the closing epoch had counted in the fields it zeroes) -/
def discarded (z : List String) (p : PS) : PS :=
  { sessionsProxying := kept z "sessionsProxying" p.sessionsProxying,
    newBytesUp := kept z "newBytesUp" p.newBytesUp,
    newBytesDown := kept z "newBytesDown" p.newBytesDown,
    completeBytesUp := kept z "completeBytesUp" p.completeBytesUp,
    completeBytesDown := kept z "completeBytesDown" p.completeBytesDown,
    zeroByteTunnelsUp := kept z "zeroByteTunnelsUp" p.zeroByteTunnelsUp,
    zeroByteTunnelsDown := kept z "zeroByteTunnelsDown" p.zeroByteTunnelsDown,
    completedSessions := kept z "completedSessions" p.completedSessions }

def add (a b : PS) : PS :=
  { sessionsProxying := a.sessionsProxying + b.sessionsProxying,
    newBytesUp := a.newBytesUp + b.newBytesUp,
    newBytesDown := a.newBytesDown + b.newBytesDown,
    completeBytesUp := a.completeBytesUp + b.completeBytesUp,
    completeBytesDown := a.completeBytesDown + b.completeBytesDown,
    zeroByteTunnelsUp := a.zeroByteTunnelsUp + b.zeroByteTunnelsUp,
    zeroByteTunnelsDown := a.zeroByteTunnelsDown + b.zeroByteTunnelsDown,
    completedSessions := a.completedSessions + b.completedSessions }

/-- the calls made on a `ProxyStats` -/
inductive Ev
  | addSession
  | removeSession
  /-- `addBytes(n, isUpload)`: a direction forwarded `n` bytes -/
  | addBytes (n : Nat) (up : Bool)
  /-- `addCompleted(n, isUpload)`: a direction that forwarded `n` bytes in all has ended -/
  | addCompleted (n : Nat) (up : Bool)
  /-- `PrintAndReset()` / `Reset()` — the end of a statistics epoch -/
  | reset
deriving Repr, DecidableEq

def b2i (b : Bool) : Int := if b then 1 else 0

/-- what one call adds to the fields (`reset` adds nothing) — `addCompleted` as written: the byte count
goes to the direction's `completeBytes`, a zero count bumps its `zeroByteTunnels`, and only the upload
direction bumps `completedSessions` -/
def delta : Ev → PS
  | .addSession => { sessionsProxying := 1 }
  | .removeSession => { sessionsProxying := -1 }
  | .addBytes n true => { newBytesUp := n }
  | .addBytes n false => { newBytesDown := n }
  | .addCompleted n true => { completeBytesUp := n, zeroByteTunnelsUp := b2i (n == 0), completedSessions := 1 }
  | .addCompleted n false => { completeBytesDown := n, zeroByteTunnelsDown := b2i (n == 0) }
  | .reset => {}

def step (z : List String) (p : PS) : Ev → PS
  | .reset => zero z p
  | e => add p (delta e)

def run (z : List String) (p : PS) (evs : List Ev) : PS := evs.foldl (step z) p

/-- the sum, over the epochs that have ended, of what their reset discarded -/
def closedStep (z : List String) (cp : PS × PS) (e : Ev) : PS × PS :=
  match e with
  | .reset => (add cp.1 (discarded z cp.2), zero z cp.2)
  | e => (cp.1, add cp.2 (delta e))

def runClosed (z : List String) (cp : PS × PS) (evs : List Ev) : PS × PS := evs.foldl (closedStep z) cp

/-- everything ever added, resets ignored -/
def total (evs : List Ev) : PS := evs.foldl (fun t e => add t (delta e)) {}

/-! ## sessions: the ground truth the gauge is about -/

/-- a `Proxy` call between `addSession` and `removeSession`, with what its directions forwarded so far -/
structure Sess where
  id : Nat
  up : Nat := 0
  down : Nat := 0
  upDone : Bool := false
  downDone : Bool := false
deriving Repr, DecidableEq

structure W where
  ps : PS := {}
  sessions : List Sess := []     -- the sessions that are open now
deriving Repr

/-- what happens to the station's proxy statistics, session by session; an event that is not enabled
(a second start of an open session, an event of a session that is not open, a second end of a direction)
is a no-op, so every list of events is a history -/
inductive SEv
  /-- `Proxy` of session `i` reaches `addSession()` (just before it starts the two directions) -/
  | start (i : Nat)
  /-- a direction of session `i` forwards `n` bytes -/
  | bytes (i n : Nat) (up : Bool)
  /-- a direction of session `i` ends (`stats.completed`, deferred in `halfPipe`) -/
  | finish (i : Nat) (up : Bool)
  /-- `Proxy` of session `i` has passed `wg.Wait()`: `removeSession()` -/
  | stop (i : Nat)
  /-- the stats loop: `PrintAndReset()` / `Reset()` -/
  | epoch
deriving Repr, DecidableEq

def Sess.done (s : Sess) (up : Bool) : Bool := if up then s.upDone else s.downDone
def Sess.count (s : Sess) (up : Bool) : Nat := if up then s.up else s.down
def Sess.addBytes (s : Sess) (n : Nat) (up : Bool) : Sess :=
  if up then { s with up := s.up + n } else { s with down := s.down + n }
def Sess.finish (s : Sess) (up : Bool) : Sess :=
  if up then { s with upDone := true } else { s with downDone := true }

def findS (l : List Sess) (i : Nat) : Option Sess := l.find? (·.id == i)
def setS (l : List Sess) (s : Sess) : List Sess := l.map fun t => if t.id == s.id then s else t

def wstep (z : List String) (w : W) : SEv → W
  | .start i =>
    match findS w.sessions i with
    | some _ => w
    | none => { ps := step z w.ps .addSession, sessions := { id := i } :: w.sessions }
  | .bytes i n up =>
    match findS w.sessions i with
    | none => w
    | some s =>
      if s.done up then w
      else { ps := step z w.ps (.addBytes n up), sessions := setS w.sessions (s.addBytes n up) }
  | .finish i up =>
    match findS w.sessions i with
    | none => w
    | some s =>
      if s.done up then w
      else { ps := step z w.ps (.addCompleted (s.count up) up), sessions := setS w.sessions (s.finish up) }
  | .stop i =>
    match findS w.sessions i with
    | none => w
    | some _ => { ps := step z w.ps .removeSession, sessions := w.sessions.eraseP (·.id == i) }
  | .epoch => { w with ps := step z w.ps .reset }

def wrun (z : List String) (w : W) (evs : List SEv) : W := evs.foldl (wstep z) w

/-! ## the shape of a statistics module in the source (filled in by `CJ/Gen/StatsShape.lean`) -/

structure StatsMod where
  name : String
  dir : String
  /-- paths of the int64 fields (`a`, `sub.a`, `table[].a`) -/
  fields : List String
  /-- the methods on the reset path: `Reset`, `PrintAndReset` and the receiver methods they call -/
  resetMethods : List String
  /-- (path, value) of every atomic store on the reset path -/
  resetStores : List (String × String)
  /-- fields assigned wholesale on the reset path (tables thrown away) -/
  resetReplaces : List String
  /-- (method, path, sign) of every atomic add; sign `+`, `-` or `v` (a variable amount) -/
  adds : List (String × String × String)
  /-- (method, path) of atomic stores outside the reset path -/
  storesElsewhere : List (String × String)
deriving Repr

def StatsMod.zeroed (m : StatsMod) : List String := m.resetStores.map (·.1)
/-- the fields some method moves down: levels of things in flight, not epoch counts -/
def StatsMod.gauges (m : StatsMod) : List String :=
  (m.adds.filter (fun a => a.2.2 == "-")).map (·.2.1) |>.eraseDups

end CJ.StatsEpoch
