import CJ.Model.Registry
/-!
# Concurrent use of the registry (C09)

Threads whose programs are the *critical sections* of the real code: every step of a thread is at
most one `Registry.Op` (one acquisition of the struct mutex).  A schedule is a list of thread
indices; the scheduling points are exactly the `verifhook.Yield` points of `/repo` (between
`RegistrationExists`, `TrackRegistration`, the liveness probe and `AddRegistration` in
`ingestRegistration`; between `getExpiredRegistrations` and every `removeRegistration`; between a
connection handler's lookup and its `MarkActive`).
-/
open Std

namespace CJ.RegistryConc
open CJ.Registry

inductive IPC | start | afterExists (dup : Bool) | afterTrack | probing | beforeRegister | done
deriving Repr, DecidableEq

inductive SPC | start | removing (ks : List Key) | done
deriving Repr

inductive HPC | start | looked (found : Bool) | done
deriving Repr, DecidableEq

/-- A thread: its fixed parameters and its program counter. -/
inductive Th
  /-- a worker running `ingestRegistration` for key `k` (transport `tr`, at time `now`);
      `covertOk`: the covert address passes policy; `probe`: a liveness probe is required;
      `live`: what the probe answers -/
  | ingest (k : Key) (tr now : Nat) (covertOk probe live : Bool) (pc : IPC)
  /-- the expiry sweeper at time `now`; `order` is a preference order for the removal of the
      collected indices (Go iterates a map in random order): collected keys are removed in the order
      in which they appear in `order`, the rest afterwards -/
  | sweeper (now : Nat) (order : List Key) (pc : SPC)
  /-- a connection handler that looks up phantom `k.1` and marks `k` active if it was returned -/
  | handler (k : Key) (tr : Nat) (pc : HPC)
  /-- one configuration reload (`OnReload`, a single step: it swaps the policy lists under their own
      mutex and never touches the registry).  The new configuration blocklists the covert address the
      workers' registrations name; `done` says whether it has run -/
  | reload (done : Bool)
deriving Repr

/-- observable events -/
inductive Ev
  | annNew (k : Key) | annUpd (k : Key) | removed (k : Key) (valid : Bool)
  | looked (k : Key) (found : Bool) | badOrder
deriving Repr, DecidableEq

def Th.done : Th → Bool
  | .ingest _ _ _ _ _ _ .done => true
  | .sweeper _ _ .done => true
  | .handler _ _ .done => true
  | .reload true => true
  | _ => false

/-- the collected keys, arranged by the preference order -/
def arrange (order ks : List Key) : List Key :=
  order.filter (fun k => ks.contains k) ++ ks.filter (fun k => !order.contains k)

/-- One step of one thread: the new global state, the thread's new local state, events.
`none` = the thread is finished. -/
def stepThread (c : Cfg) (s : St) : Th → Option (St × Th × List Ev)
  | .ingest k tr now cov probe live pc =>
    match pc with
    | .start =>
      -- ValidateRegistration (transport enabled) + RegistrationExists (read lock)
      if !c.enabled.contains tr then some (s, .ingest k tr now cov probe live .done, [])
      else some (s, .ingest k tr now cov probe live (.afterExists (s.decoys.contains k)), [])
    | .afterExists true =>
      -- duplicate path: TrackRegistration, return
      some ((track c s k tr now).1, .ingest k tr now cov probe live .done, [])
    | .afterExists false =>
      -- TrackRegistration; if another worker tracked its copy in the meantime (the track only bumped the
      -- counter) this message is a duplicate and the worker stops here
      some ((track c s k tr now).1, .ingest k tr now cov probe live (if s.decoys.contains k then .done else .afterTrack), [])
    | .afterTrack =>
      if !cov then some (s, .ingest k tr now cov probe live .done, [])
      else if probe then some (s, .ingest k tr now cov probe live .probing, [])
      else some (s, .ingest k tr now cov probe live .beforeRegister, [])
    | .probing =>
      if live then some (s, .ingest k tr now cov probe live .done, [])
      else some (s, .ingest k tr now cov probe live .beforeRegister, [])
    | .beforeRegister =>
      let (s', out) := register c s k tr now
      some (s', .ingest k tr now cov probe live .done, if out = .new then [.annNew k] else [])
    | .done => none
  | .sweeper now order pc =>
    match pc with
    | .start =>
      match arrange order (collect c now s) with
      | [] => some (s, .sweeper now order .done, [])
      | ks => some (s, .sweeper now order (.removing ks), [])
    | .removing [] => some (s, .sweeper now order .done, [])
    | .removing (k :: ks) =>
      let (s', r) := remove c now s k
      let ev := match r with | some v => [Ev.removed k v] | none => []
      some (s', .sweeper now order (if ks.isEmpty then .done else .removing ks), ev)
    | .done => none
  | .handler k tr pc =>
    match pc with
    | .start =>
      let f := (lookup s k.1).contains k.2
      some (s, .handler k tr (.looked f), [.looked k f])
    | .looked true =>
      let (s', out) := markActive c s k tr
      some (s', .handler k tr .done, if out = .upd then [.annUpd k] else [])
    | .looked false => some (s, .handler k tr .done, [])
    | .done => none
  | .reload false => some (s, .reload true, [])
  | .reload true => none

structure World where
  st : St
  ths : List Th
  evs : List Ev := []
  bad : Bool := false      -- the schedule named a finished or unknown thread

/-- has a reload thread of the world already run? (the policy in force is a function of that) -/
def reloaded (ths : List Th) : Bool := ths.any (fun t => match t with | .reload true => true | _ => false)

/-- the covert policy is read in the step after `track` (`ParseOrResolveBlocklisted`): a worker that
takes that step after the reload finds its covert address blocklisted -/
def applyPolicy (blocked : Bool) : Th → Th
  | .ingest k tr now cov probe live .afterTrack => .ingest k tr now (cov && !blocked) probe live .afterTrack
  | t => t

def World.step (c : Cfg) (w : World) (i : Nat) : World :=
  match w.ths[i]? with
  | none => { w with bad := true }
  | some t =>
    match stepThread c w.st (applyPolicy (reloaded w.ths) t) with
    | none => { w with bad := true }
    | some (s', t', ev) => { st := s', ths := w.ths.set i t', evs := w.evs ++ ev, bad := w.bad }

def World.run (c : Cfg) (w : World) (sched : List Nat) : World :=
  sched.foldl (World.step c) w

end CJ.RegistryConc
