import CJ.Model.Phantom
/-!
# Model of the station's destination-port decision (C14 clause "port randomisation only if the subnet allows it")

`(*RegistrationManager).getPhantomDstPort(t, params, seed, libVer, supportsRandom)`
(pkg/station/lib/registration_ingest.go) and the data flow of `NewRegistration` that feeds it the flag
of the selected phantom (`phantomAddr.SupportRandomPort()`).

The transports' own `GetDstPort(libVer, seed, params)` is a **parameter** here: `tp` is what the
registered transport answers for these arguments (`none`: the transport type is not registered).  The
theorems of `CJ.Props.C14Port` therefore hold for *every* transport, parameter object and parameter
type, including transports that do not exist yet; the four existing transports' own decisions are the
subject of `CJ.Port.transportDstPort` (C01), and `CJ.Props.C14Port.port_model_refines` connects the two.
-/
namespace CJ.PhantomPort
open CJ.Phantom

/-- answer of a transport's `GetDstPort` -/
inductive TOut
  | port (p : Nat)
  | err              -- any error of the transport ("bad parameters provided", ErrUnknownPrefix, …)
deriving DecidableEq, Repr

inductive PortOut
  | port (p : Nat)
  | unknownTransport     -- "unknown transport"
  | transportErr         -- the transport's error, passed on
deriving DecidableEq, Repr

/-- `getPhantomDstPort`: `minVer` is `randomizeDstPortMinVersion` of the ingest file, `tp` the answer of
`rm.registeredDecoys.transports[t]` (`none`: not registered) to `GetDstPort(libVer, seed, params)` -/
def getPhantomDstPort (minVer : Nat) (tp : Option TOut) (ver : Nat) (supportsRandom : Bool) : PortOut :=
  match tp with
  | none => .unknownTransport
  | some a =>
    if ver < minVer ∨ supportsRandom = false then .port 443 else
    match a with
    | .port p => .port p
    | .err => .transportErr

/-- what `NewRegistration` keeps of a registration: phantom address and destination port -/
structure Reg where
  addr : Addr
  port : Nat
deriving DecidableEq, Repr

inductive RegOut
  | ok (r : Reg)
  | selectErr (e : Err)          -- "failed phantom select"
  | unknownTransport
  | portErr                      -- "error selecting phantom dst port"
  | panic (w : String)
deriving DecidableEq, Repr

/-- the part of `NewRegistration` between the selection and the port: the flag handed to
`getPhantomDstPort` is the one carried by the selected phantom -/
def finishRegistration (minVer : Nat) (tp : Option TOut) (ver : Nat) : Outcome Addr → RegOut
  | .ok a =>
    match getPhantomDstPort minVer tp ver a.randPort with
    | .port p => .ok ⟨a, p⟩
    | .unknownTransport => .unknownTransport
    | .transportErr => .portErr
  | .err e => .selectErr e
  | .panic w => .panic w

/-- `NewRegistration`: `Select(seed, gen, ver, v6)`, then the port -/
def newRegistration (h : Hk) (cfg : Cfg) (minVer : Nat) (tp : Option TOut) (seed : Bytes) (gen ver : Nat)
    (v6 : Bool) : Prog RegOut := do
  return finishRegistration minVer tp ver (← stationSelect h cfg seed gen ver v6)

end CJ.PhantomPort
