/-!
# Model of the address-literal functions of Go's standard library (go1.23: `net`, `net/netip`, `strconv`)

`ParseOrResolveBlocklisted`, `ParseBlocklists` and `net.Dial` depend on the corner cases of
`netip.ParseAddr` (`net.ParseIP` = `ParseAddr` without a zone), `IP.String`, `net.ParseCIDR`,
`(*IPNet).Contains`, `net.SplitHostPort`, `net.JoinHostPort`, `strconv.ParseUint(·, 10, 16)`,
`IP.IsUnspecified` and the literal path of `net.ResolveIPAddr("ip", ·)`.  They are mirrored here as total
functions over `List Char` (a Go string restricted to valid UTF-8: every character the functions look at is
ASCII, every other character is "unexpected" to the byte loop and to this one alike).  Addresses are lists of
bytes (`List Nat`), 4 or 16 long, as `net.IP` is.

Core Lean only; every loop is structurally recursive (the IPv6 group loop by a fuel of 8 = the number of
16-bit groups, exactly the bound `i < 16` of the Go loop).
-/

namespace CJ.NetAddr

abbrev Str := List Char

def isDigit (c : Char) : Bool := decide (48 ≤ c.toNat) && decide (c.toNat ≤ 57)
def digitVal (c : Char) : Nat := c.toNat - 48

/-- the digit branch of `parseIPv4Fields`: `(val, digLen)`; `none` = leading zero or value > 255 -/
def digStep (st : Nat × Nat) (c : Char) : Option (Nat × Nat) :=
  if st.2 == 1 && st.1 == 0 then none else
  let v := st.1 * 10 + digitVal c
  if v > 255 then none else some (v, st.2 + 1)

/-- `parseIPv4Fields(in, off, end, fields)` on `s = in[off:end]`: `val`, `digLen`, the fields stored so far -/
def v4Loop : Str → Nat → Nat → List Nat → Option (List Nat)
  | [], val, _, fields => if fields.length < 3 then none else some (fields ++ [val])
  | c :: rest, val, digLen, fields =>
    if isDigit c then
      match digStep (val, digLen) c with
      | none => none
      | some (v, l) => v4Loop rest v l fields
    else if c == '.' then
      -- `.1.2.3`, `1.2.3.`, `1..2.3`: no digit before the dot, or nothing behind it
      if digLen == 0 || rest.isEmpty then none
      else if fields.length == 3 then none                 -- 1.2.3.4.5
      else v4Loop rest 0 0 (fields ++ [val])
    else none

def parseIPv4 (s : Str) : Option (List Nat) := v4Loop s 0 0 []

def hexVal (c : Char) : Option Nat :=
  let n := c.toNat
  if 48 ≤ n ∧ n ≤ 57 then some (n - 48)
  else if 97 ≤ n ∧ n ≤ 102 then some (n - 87)
  else if 65 ≤ n ∧ n ≤ 70 then some (n - 55)
  else none

/-- the inner hex loop of `parseIPv6`: accumulator, number of digits, the rest; `none` = a fifth digit -/
def hexGroup : Str → Nat → Nat → Option (Nat × Nat × Str)
  | [], acc, off => some (acc, off, [])
  | c :: rest, acc, off =>
    match hexVal c with
    | some d => if off > 3 then none else hexGroup rest (acc * 16 + d) (off + 1)
    | none => some (acc, off, c :: rest)

/-- the group loop of `parseIPv6` (`for i < 16`): `ip` = the bytes stored so far (`i = ip.length`), `ell` = position
of the ellipsis.  Result: what is left of the string, the bytes, the ellipsis. -/
def v6Loop : Nat → Str → List Nat → Option Nat → Option (Str × List Nat × Option Nat)
  | 0, s, ip, ell => some (s, ip, ell)
  | fuel + 1, s, ip, ell =>
    if ip.length ≥ 16 then some (s, ip, ell) else
    match hexGroup s 0 0 with
    | none => none                                          -- more than 4 digits in a group
    | some (acc, off, rest) =>
      if off == 0 then none else                            -- no digit
      match rest with
      | '.' :: _ =>                                         -- trailing embedded IPv4: the whole rest, from the group's start
        if ell.isNone && ip.length != 12 then none
        else if ip.length + 4 > 16 then none
        else match parseIPv4 s with
          | none => none
          | some f => some ([], ip ++ f, ell)
      | [] => some ([], ip ++ [acc / 256, acc % 256], ell)
      | c :: r1 =>
        let ip' := ip ++ [acc / 256, acc % 256]
        if c != ':' then none else
        match r1 with
        | [] => none                                        -- colon must be followed by more characters
        | ':' :: r2 =>
          if ell.isSome then none                           -- multiple ::
          else if r2.isEmpty then some ([], ip', some ip'.length)
          else v6Loop fuel r2 ip' (some ip'.length)
        | _ => v6Loop fuel r1 ip' ell

/-- cut at the first occurrence of `c`: `(before, some after)` or `(s, none)` -/
def cut (c : Char) : Str → Str × Option Str
  | [] => ([], none)
  | x :: xs => if x == c then ([], some xs) else
      let (a, b) := cut c xs
      (x :: a, b)

/-- `parseIPv6`: 16 bytes and the zone -/
def parseIPv6 (inp : Str) : Option (List Nat × Str) :=
  let (s, z) := cut '%' inp
  if z == some [] then none else                            -- zone must be a non-empty string
  let zone : Str := match z with | some t => t | none => []  -- no '%': the empty zone
  let finish (r : Option (Str × List Nat × Option Nat)) : Option (List Nat × Str) :=
    match r with
    | none => none
    | some (left, ip, ell) =>
      if !left.isEmpty then none                            -- trailing garbage
      else if ip.length < 16 then
        match ell with
        | none => none                                      -- too short
        | some e => some (ip.take e ++ List.replicate (16 - ip.length) 0 ++ ip.drop e, zone)
      else if ell.isSome then none                          -- the :: must expand to at least one field
      else some (ip, zone)
  match s with
  | ':' :: ':' :: r => if r.isEmpty then some (List.replicate 16 0, zone) else finish (v6Loop 8 r [] (some 0))
  | _ => finish (v6Loop 8 s [] none)

/-- `netip.Addr` as far as the callers look at it -/
inductive Addr
  | v4 (b : List Nat)                    -- `Is4()`: 4 bytes
  | v6 (b : List Nat) (zone : Str)       -- 16 bytes (incl. IPv4-mapped ones, `Is4In6()`), zone
deriving DecidableEq, Repr

/-- `netip.ParseAddr`: the first of `.`, `:`, `%` decides -/
def parseAddr (s : Str) : Option Addr :=
  match s.find? (fun c => c == '.' || c == ':' || c == '%') with
  | some '.' => (parseIPv4 s).map .v4
  | some ':' => (parseIPv6 s).map fun (b, z) => .v6 b z
  | _ => none

def v4InV6Prefix : List Nat := [0, 0, 0, 0, 0, 0, 0, 0, 0, 0, 255, 255]

/-- `Addr.As16()` -/
def Addr.as16 : Addr → List Nat
  | .v4 b => v4InV6Prefix ++ b
  | .v6 b _ => b

def Addr.zone : Addr → Str
  | .v4 _ => []
  | .v6 _ z => z

/-- `net.ParseIP`: always the 16-byte form; `none` = nil -/
def parseIP (s : Str) : Option (List Nat) :=
  match parseAddr s with
  | some a => if a.zone.isEmpty then some a.as16 else none
  | none => none

/-- `IP.To4()` -/
def to4 (ip : List Nat) : Option (List Nat) :=
  if ip.length == 4 then some ip
  else if ip.length == 16 && ip.take 12 == v4InV6Prefix then some (ip.drop 12)
  else none

/-! ## formatting -/

def digitChar (n : Nat) : Char := Char.ofNat (48 + n)

/-- `appendDecimal` of a `uint8` -/
def fmtOctet (b : Nat) : Str :=
  if b < 10 then [digitChar b]
  else if b < 100 then [digitChar (b / 10), digitChar (b % 10)]
  else [digitChar (b / 100), digitChar (b / 10 % 10), digitChar (b % 10)]

def intercalate (sep : Char) : List Str → Str
  | [] => []
  | [x] => x
  | x :: y :: rest => x ++ sep :: intercalate sep (y :: rest)

/-- `Addr.appendTo4` -/
def fmtIPv4 (b : List Nat) : Str := intercalate '.' (b.map fmtOctet)

def hexDigit (n : Nat) : Char := if n < 10 then Char.ofNat (48 + n) else Char.ofNat (87 + n)

/-- `appendHex` of a `uint16`: lower case, no leading zeros -/
def fmtHex (h : Nat) : Str :=
  if h < 16 then [hexDigit h]
  else if h < 256 then [hexDigit (h / 16), hexDigit (h % 16)]
  else if h < 4096 then [hexDigit (h / 256), hexDigit (h / 16 % 16), hexDigit (h % 16)]
  else [hexDigit (h / 4096 % 16), hexDigit (h / 256 % 16), hexDigit (h / 16 % 16), hexDigit (h % 16)]

/-- the eight 16-bit groups of 16 bytes -/
def groups : List Nat → List Nat
  | a :: b :: rest => (a * 256 + b) :: groups rest
  | _ => []

def zeroRun : List Nat → Nat
  | 0 :: rest => zeroRun rest + 1
  | _ => 0

/-- the first loop of `appendTo6`: the first longest run of at least two zero groups, `(start, length)` -/
def bestRun (hs : List Nat) : Nat × Nat :=
  (List.range hs.length).foldl (fun (best : Nat × Nat) i =>
    let l := zeroRun (hs.drop i)
    if l ≥ 2 && l > best.2 then (i, l) else best) (0, 0)

/-- `Addr.appendTo6` without zone -/
def fmtIPv6 (ip : List Nat) : Str :=
  let hs := groups ip
  let (zs, zl) := bestRun hs
  if zl == 0 then intercalate ':' (hs.map fmtHex)
  else intercalate ':' ((hs.take zs).map fmtHex) ++ [':', ':'] ++ intercalate ':' ((hs.drop (zs + zl)).map fmtHex)

/-- `IP.String()` of a 4- or 16-byte address: dotted notation whenever `To4()` is not nil.  `none` = the
`<nil>` / `?hex` texts of other lengths (never produced by the parsers) -/
def ipString (ip : List Nat) : Option Str :=
  match to4 ip with
  | some b => some (fmtIPv4 b)
  | none => if ip.length == 16 then some (fmtIPv6 ip) else none

/-- `IP.IsUnspecified()`: `Equal(IPv4zero) || Equal(IPv6unspecified)` -/
def isUnspecified (ip : List Nat) : Bool :=
  to4 ip == some [0, 0, 0, 0] || ip == List.replicate 16 0

/-! ## CIDR -/

/-- `(*net.IPNet)`: network number and mask, 4 + 4 or 16 + 16 bytes as `ParseCIDR` builds them -/
structure IPNet where
  ip : List Nat
  mask : List Nat
deriving DecidableEq, Repr

/-- `dtoi` with the caller's demand that the whole string is consumed -/
def dtoiAll : Str → Nat → Bool → Option Nat
  | [], n, seen => if seen then some n else none
  | c :: rest, n, _ =>
    if isDigit c then
      let n' := n * 10 + digitVal c
      if n' ≥ 0xFFFFFF then none else dtoiAll rest n' true
    else none

/-- one byte of `CIDRMask(ones, ·)`: byte number `k` -/
def maskByte (ones k : Nat) : Nat :=
  if ones ≥ 8 * (k + 1) then 255 else if ones ≤ 8 * k then 0 else 256 - 2 ^ (8 - (ones - 8 * k))

def cidrMask (ones bytes : Nat) : List Nat := (List.range bytes).map (maskByte ones)

def andBytes : List Nat → List Nat → List Nat
  | a :: as, b :: bs => (a &&& b) :: andBytes as bs
  | _, _ => []

/-- `net.ParseCIDR`: the `*IPNet` it returns -/
def parseCIDR (s : Str) : Option IPNet :=
  match cut '/' s with
  | (_, none) => none
  | (addr, some mask) =>
    match parseAddr addr with
    | none => none
    | some a =>
      if !a.zone.isEmpty then none else
      match dtoiAll mask 0 false with
      | none => none
      | some n =>
        match a with
        | .v4 b => if n > 32 then none else
            let m := cidrMask n 4
            some ⟨andBytes b m, m⟩                          -- IP.Mask: 4-byte mask, the mapped address is cut to 4 bytes
        | .v6 b _ => if n > 128 then none else
            let m := cidrMask n 16
            some ⟨andBytes b m, m⟩

/-- `networkNumberAndMask` -/
def networkNumberAndMask (n : IPNet) : Option (List Nat × List Nat) :=
  match (match to4 n.ip with | some x => some x | none => if n.ip.length == 16 then some n.ip else none) with
  | none => none
  | some ip =>
    if n.mask.length == 4 then (if ip.length != 4 then none else some (ip, n.mask))
    else if n.mask.length == 16 then (if ip.length == 4 then some (ip, n.mask.drop 12) else some (ip, n.mask))
    else none

/-- `(*IPNet).Contains(ip)` -/
def contains (n : IPNet) (ip : List Nat) : Bool :=
  match networkNumberAndMask n with
  | none => false                                           -- nil network number: length 0 ≠ len(ip)
  | some (nn, m) =>
    let ip' := match to4 ip with | some x => x | none => ip   -- `if x := ip.To4(); x != nil { ip = x }`
    ip'.length == nn.length && andBytes nn m == andBytes ip' m

/-! ## host:port -/

def idxOf (c : Char) : Str → Option Nat
  | [] => none
  | x :: xs => if x == c then some 0 else (idxOf c xs).map (· + 1)

def lastIdxOf (c : Char) : Str → Option Nat
  | [] => none
  | x :: xs => match lastIdxOf c xs with
    | some i => some (i + 1)
    | none => if x == c then some 0 else none

/-- `net.SplitHostPort` -/
def splitHostPort (hp : Str) : Option (Str × Str) :=
  match lastIdxOf ':' hp with
  | none => none                                            -- missing port
  | some i =>
    match hp with
    | '[' :: _ =>
      match idxOf ']' hp with
      | none => none                                        -- missing ']'
      | some e =>
        if e + 1 == hp.length then none                     -- missing port
        else if e + 1 == i then
          if (hp.drop 1).contains '[' then none
          else if (hp.drop (e + 1)).contains ']' then none
          else some ((hp.take e).drop 1, hp.drop (i + 1))
        else none                                           -- too many colons / missing port
    | _ =>
      let host := hp.take i
      if host.contains ':' then none                        -- too many colons
      else if hp.contains '[' then none
      else if hp.contains ']' then none
      else some (host, hp.drop (i + 1))

/-- `net.JoinHostPort` -/
def joinHostPort (host port : Str) : Str :=
  if host.contains ':' then '[' :: host ++ ']' :: ':' :: port else host ++ ':' :: port

/-- `strconv.ParseUint(s, 10, 16)` returned no error: the value -/
def parseUint16 (s : Str) : Option Nat :=
  if s.isEmpty then none
  else if !s.all isDigit then none
  else
    let v := s.foldl (fun n c => n * 10 + digitVal c) 0
    if v > 65535 then none else some v

/-! ## the literal path of `net.ResolveIPAddr("ip", host)` -/

inductive LitResolved
  | noIP                                  -- the empty host: an `*IPAddr` without IP
  | addr (ip : List Nat) (zone : Str)     -- `lookupIPAddr`'s literal branch: `ParseAddr` succeeded, 16 bytes
  | name                                  -- anything else goes to the resolver
deriving DecidableEq, Repr

def resolveLiteral (host : Str) : LitResolved :=
  if host.isEmpty then .noIP else
  match parseAddr host with
  | some a => .addr a.as16 a.zone
  | none => .name

end CJ.NetAddr
