import CJ.Model.Detector
/-!
# Model of the detector's packet path (C10, growth)

What the detector does with a *packet* once sessions have been announced to it: `src/process_packet.rs`
(`rust_process_packet`'s dispatch on the next header, `handle_tcp_pkt`, `handle_udp_pkt`,
`check_for_tagged_flow`, `process_tls_pkt`, `is_tls_app_pkt`, `filter_station_traffic`),
`src/flow_tracker.rs` (`Flow::new` / `new_udp`, `FlowTracker::{begin_tracking_flow, is_phantom_session,
is_tracked_flow, update_phantom_flow, stop_tracking_flow, drop_stale_tracked_flows,
drop_all_stale_flows}`) and the part of `src/sessions.rs` the packet path writes with
(`update_session`, `try_update_session_timeout`).  The session map, its tags and the station messages are
those of `CJ.Detector` (unchanged); this module adds the per-packet decision (forward to the station or
not), the extension of a session by its own traffic (+5 minutes from the packet, the longer expiry kept)
and the state machine of flows that are watched for a registration tag (`tracked_flows` + the queue of
scheduled drops).

Not modelled (stubs in the correspondence oracle): the Ethernet / IP / TCP parsers of `pnet` (a packet
is given by its parsed header fields; `l4ok = false` is "the transport header did not parse"), the tun
device write of `forward_pkt` (an effect), the elligator tag check of `check_dark_decoy_tag` (an effect;
its result does not influence the packet path), the two test-string checks (effects).
-/
namespace CJ.PacketPath
open CJ.Detector

/-- `util::IpPacket`: both addresses of a packet are of one family -/
inductive Hdr
  | v4 (s d : Bytes)
  | v6 (s d : Bytes)
deriving DecidableEq, Repr

def Hdr.src : Hdr → IpAddr
  | .v4 s _ => .v4 s
  | .v6 s _ => .v6 s

def Hdr.dst : Hdr → IpAddr
  | .v4 _ d => .v4 d
  | .v6 _ d => .v6 d

/-- a packet as the packet path sees it after `pnet` parsed it -/
structure Pkt where
  hdr : Hdr
  nh : Nat           -- `ip_pkt.next_layer()`
  l4ok : Bool        -- `ip_pkt.tcp()` / `ip_pkt.udp()` is `Some`
  sport : Nat
  dport : Nat
  flags : Nat        -- TCP flags (ignored for UDP)
  payload : Bytes
deriving DecidableEq, Repr

/-- `flow_tracker::Flow` -/
structure FlowId where
  src : IpAddr
  dst : IpAddr
  sport : Nat
  dport : Nat
  proto : Nat
deriving DecidableEq, Repr

/-- `Flow::new` (TCP) / `Flow::new_udp` -/
def flowOf (p : Pkt) (proto : Nat) : FlowId :=
  { src := p.hdr.src, dst := p.hdr.dst, sport := p.sport, dport := p.dport, proto := proto }

/-- `FlowNoSrcPort::from_flow` -/
def noSrcPort (f : FlowId) : Flow := { src := f.src, dst := f.dst, dstPort := f.dport, proto := f.proto }

/-- what a packet makes the detector do besides updating its tables -/
inductive Eff
  | fwd        -- `forward_pkt`: the packet is written to the tun device, i.e. handed to the station
  | tagCheck   -- `check_dark_decoy_tag`: the payload is searched for a registration tag
  | connTest   -- `check_connect_test_str`
  | udpTest    -- `check_udp_test_str`
deriving DecidableEq, Repr

structure St where
  sessions : Map                    -- `FlowTracker.phantom_flows.tracked_sessions`
  tracked : List FlowId             -- `FlowTracker.tracked_flows` (a set: no duplicates)
  drops : List (Nat × FlowId)       -- `FlowTracker.stale_drops_tracked` (front = head)
deriving Repr

/-- `TIMEOUT_PHANTOMS_NS` (src/sessions.rs) -/
def timeoutPhantomsNs : Nat := 300 * 1000000000
/-- `TIMEOUT_TRACKED_NS` (src/flow_tracker.rs) -/
def timeoutTrackedNs : Nat := 30 * 1000000000

def flagFIN : Nat := 1
def flagSYN : Nat := 2
def flagRST : Nat := 4
def flagACK : Nat := 16

def hasFlag (flags bit : Nat) : Bool := (flags / bit) % 2 = 1

/-- `SessionTracker::update_session` = `session_exists` then `try_update_session_timeout(key,
TIMEOUT_PHANTOMS_NS)`: an existing key keeps the later of its expiry and `now + 5 min`; a key that is
not there is not created. -/
def updateSession (now : Nat) (m : Map) (k : Key) : Map :=
  if m.any (·.1 = k) then
    m.map (fun kv => if kv.1 = k then (kv.1, if kv.2 < now + timeoutPhantomsNs then now + timeoutPhantomsNs else kv.2) else kv)
  else m

/-- `PerCoreGlobal::filter_station_traffic(flow.src_ip.to_string())`: `true` = the source is one of the
cluster's own stations (liveness probes), the packet is not forwarded.  `filter` holds the addresses
whose canonical text is an entry of `filter_list` (entries that are not the canonical text of an address
can never equal `to_string()` of one). -/
def filtered (filter : List IpAddr) (src : IpAddr) : Bool := filter.any (· = src)

/-- `check_for_tagged_flow`: `some` = the packet was forwarded (and the session extended) -/
def checkTagged (filter : List IpAddr) (now : Nat) (st : St) (f : FlowId) : Option St :=
  if isTracked st.sessions (noSrcPort f) then
    if filtered filter f.src then none
    else some { st with sessions := updateSession now st.sessions (.tag (flowTag (noSrcPort f))) }
  else none

/-- `is_tls_app_pkt` -/
def isTlsApp (payload : Bytes) : Bool := decide (payload.length > 5) && payload.head? == some 0x17

/-- `FlowTracker::begin_tracking_flow` -/
def beginTracking (now : Nat) (st : St) (f : FlowId) : St :=
  { st with drops := st.drops ++ [(now + timeoutTrackedNs, f)],
            tracked := if st.tracked.contains f then st.tracked else st.tracked ++ [f] }

/-- `FlowTracker::stop_tracking_flow` -/
def stopTracking (st : St) (f : FlowId) : St := { st with tracked := st.tracked.filter (· ≠ f) }

/-- `process_tls_pkt` (TCP to port 443 that `check_for_tagged_flow` did not forward) -/
def processTls (filter : List IpAddr) (now : Nat) (st : St) (p : Pkt) : St × List Eff :=
  if !p.l4ok then (st, [])
  else
    let f := flowOf p 6
    match checkTagged filter now st f with
    | some st' => (st', [.fwd])
    | none =>
      if hasFlag p.flags flagSYN && !hasFlag p.flags flagACK then (beginTracking now st f, [])
      else if hasFlag p.flags flagRST || hasFlag p.flags flagFIN then (stopTracking st f, [])
      else if !st.tracked.contains f then (st, [])
      else if isTlsApp p.payload then (stopTracking st f, [.tagCheck])
      else (st, [.connTest])

/-- `handle_tcp_pkt` -/
def handleTcp (filter : List IpAddr) (now : Nat) (st : St) (p : Pkt) : St × List Eff :=
  match checkTagged filter now st (flowOf p 6) with
  | some st' => (st', [.fwd])
  | none => if p.dport = 443 then processTls filter now st p else (st, [])

/-- `handle_udp_pkt` -/
def handleUdp (filter : List IpAddr) (now : Nat) (st : St) (p : Pkt) : St × List Eff :=
  match checkTagged filter now st (flowOf p 17) with
  | some st' => (st', [.fwd])
  | none => if p.dport = 53 then (st, [.udpTest]) else (st, [])

/-- the `match ip_pkt.next_layer()` of `rust_process_packet` -/
def processPacket (filter : List IpAddr) (now : Nat) (st : St) (p : Pkt) : St × List Eff :=
  if p.nh = 6 then (if p.l4ok then handleTcp filter now st p else (st, []))
  else if p.nh = 17 then (if p.l4ok then handleUdp filter now st p else (st, []))
  else (st, [])

/-- the loop of `drop_stale_tracked_flows`: scheduled drops are taken from the front while they are due -/
def dropDue (now : Nat) : List (Nat × FlowId) → List FlowId → List (Nat × FlowId) × List FlowId
  | [], tr => ([], tr)
  | (t, f) :: rest, tr => if t ≤ now then dropDue now rest (tr.filter (· ≠ f)) else ((t, f) :: rest, tr)

/-- `FlowTracker::drop_all_stale_flows`: returns the number of dropped flows + dropped sessions -/
def sweepAll (now : Nat) (st : St) : St × Nat :=
  let (dr, tr) := dropDue now st.drops st.tracked
  let ss := dropStale now st.sessions
  ({ sessions := ss, tracked := tr, drops := dr }, (st.tracked.length - tr.length) + (st.sessions.length - ss.length))

/-- what happens at the detector, in order -/
inductive PEvt
  | msg (now : Nat) (m : S2D)       -- a station message handled by the pub/sub thread
  | pkt (now : Nat) (p : Pkt)       -- a packet from the tap
  | sweep (now : Nat)               -- the periodic `drop_all_stale_flows`
deriving Repr

def stepEvt (filter : List IpAddr) (st : St) : PEvt → St × List Eff
  | .msg now m => ({ st with sessions := handle now st.sessions m }, [])
  | .pkt now p => processPacket filter now st p
  | .sweep now => ((sweepAll now st).1, [])

/-- the state after a history -/
def runP (filter : List IpAddr) (st : St) (es : List PEvt) : St := es.foldl (fun s e => (stepEvt filter s e).1) st

/-- the flow the session lookup is made with for a packet (TCP and UDP only) -/
def lookupFlow (p : Pkt) : Flow := noSrcPort (flowOf p p.nh)

end CJ.PacketPath
