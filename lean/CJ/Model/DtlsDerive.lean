/-!
# Model of the credential derivation (pkg/dtls/seedtocert.go)

`clientHelloRandomFromSeed` and `certsFromSeed` read from `hkdf.New(sha256.New, seed, label, nil)`:
HKDF-Extract is HMAC **keyed with the salt** over the input key, HKDF-Expand stretches the result.
HKDF is a parameter here.  What is asked of it (`HkdfLaws`) is collision-freedom of Extract in its
*input-key* argument only — the position the secret must be in.  In the *salt* position a value is an
HMAC key, and HMAC pads its key with zero bytes to the block size (and hashes a longer one first):
`S` and `S ++ [0]` are the same key (`HmacKeyed`, `padKey`).
-/
namespace CJ.DtlsDerive

abbrev Bytes := List UInt8

structure Hkdf where
  /-- `extract salt ikm`: the pseudorandom key -/
  extract : Bytes → Bytes → Bytes
  /-- `expand prk info n`: the first `n` bytes of the output stream -/
  expand : Bytes → Bytes → Nat → Bytes

/-- `io.ReadFull(hkdf.New(hash, secret, salt, info), buf)` with `len(buf) = n` -/
def Hkdf.read (h : Hkdf) (secret salt info : Bytes) (n : Nat) : Bytes :=
  h.expand (h.extract salt secret) info n

/-- the idealisation of HKDF-SHA256 the derivation relies on -/
structure HkdfLaws (h : Hkdf) : Prop where
  /-- Extract is collision-free in the input key, for any fixed salt (HMAC in its message) -/
  extract_inj_ikm : ∀ salt a b, h.extract salt a = h.extract salt b → a = b
  /-- 32 bytes or more of output determine the pseudorandom key -/
  expand_inj_prk : ∀ info n a b, 32 ≤ n → h.expand a info n = h.expand b info n → a = b

def labelRandom : Bytes := "clientHelloRandomFromSeed".toUTF8.data.toList
def labelCerts : Bytes := "certsFromSeed".toUTF8.data.toList

/-- what both ends compute from the secret: the hello-random, and the byte stream from which both
private keys, serial numbers and common names are drawn (`newCertificate` twice) -/
structure Cred where
  helloRandom : Bytes
  certStream : Bytes
deriving DecidableEq, Repr

/-- bytes `certsFromSeed` draws (two P-256 keys, two serial numbers, two names): more than 32 -/
def certStreamLen : Nat := 160

/-- the derivation as it is in the source: the secret is the input key, the label the salt -/
def derive (h : Hkdf) (seed : Bytes) : Cred :=
  { helloRandom := h.read seed labelRandom [] 32, certStream := h.read seed labelCerts [] certStreamLen }

/-- the derivation with the first two byte arguments of `hkdf.New` exchanged: the label is the input
key and the secret the salt, i.e. the HMAC key -/
def deriveSwapped (h : Hkdf) (seed : Bytes) : Cred :=
  { helloRandom := h.read labelRandom seed [] 32, certStream := h.read labelCerts seed [] certStreamLen }

/-- HMAC's treatment of its key (block size 64): at most one block is padded with zero bytes, a longer
key is replaced by its hash first -/
def padKey (hash : Bytes → Bytes) (k : Bytes) : Bytes :=
  let k' := if k.length ≤ 64 then k else hash k
  k' ++ List.replicate (64 - k'.length) 0

/-- Extract sees its salt only through `padKey` (true of HMAC) -/
structure HmacKeyed (hash : Bytes → Bytes) (h : Hkdf) : Prop where
  extract_pads_salt : ∀ salt ikm, h.extract salt ikm = h.extract (padKey hash salt) ikm

end CJ.DtlsDerive
