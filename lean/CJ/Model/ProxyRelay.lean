import CJ.Model.HalfPipe
import CJ.Model.ProxyHeader
/-!
# `Proxy` with the PROXY-protocol line computed inside the model

`CJ.HalfPipe.execP` takes the outcome of the header step as an input (`ProxyIn.header : Option Bool`).  Here that
input is no longer free: it is computed from the registration's flag and the text of the client's peer address
(`clientConn.RemoteAddr().String()`) by `CJ.ProxyHeader.headerLine` — the line is refused for the empty text and
for what `net.SplitHostPort` rejects — and the bytes the covert connection is sent are the line followed by what
the upload direction delivers.  The existing fault scripts drive the two directions unchanged.

The `Write` of the line itself is taken to succeed (a fresh loopback / TCP connection with an empty send buffer; the
harness's covert is a real socket): a failing header write is the flag `some false` of `execP`, covered by
`CJ.Props.C05.proxy_covert_closed`.
-/
namespace CJ.ProxyRelay
open CJ.HalfPipe CJ.ProxyHeader CJ.NetAddr

structure In where
  dialErr : Option Err            -- result of `net.Dial("tcp", reg.Covert)`
  flag : Bool                     -- `reg.Flags.GetProxyHeader()`
  addr : Str                      -- `clientConn.RemoteAddr().String()`
  up : Script                     -- client → covert
  down : Script                   -- covert → client

def lineBytes (l : Str) : List UInt8 := l.map (fun c => UInt8.ofNat c.toNat)

/-- the header step of `Proxy`: not taken without the flag; with it, succeeds iff the line can be formed -/
def headerStep (flag : Bool) (addr : Str) : Option Bool :=
  if flag then some (headerLine addr).isSome else none

/-- what the header step writes to the covert connection -/
def headerBytes (flag : Bool) (addr : Str) : List UInt8 :=
  if flag then (match headerLine addr with | some l => lineBytes l | none => []) else []

def toProxyIn (a : In) : ProxyIn :=
  { dialErr := a.dialErr, header := headerStep a.flag a.addr, up := a.up, down := a.down }

structure ROut where
  p : ProxyOut
  covertGot : List UInt8          -- every byte written to the covert connection, in order

def run (a : In) : ROut :=
  let p := proxy (toProxyIn a)
  { p := p,
    covertGot := match p.upOut with
      | some u => headerBytes a.flag a.addr ++ u.delivered
      | none => [] }

/-- Adler-32 of a byte string (what the correspondence line carries instead of the whole stream) -/
def adler (bs : List UInt8) : Nat :=
  let (a, b) := bs.foldl (fun (ab : Nat × Nat) x =>
    let a' := (ab.1 + x.toNat) % 65521
    (a', (ab.2 + a') % 65521)) (1, 0)
  b * 65536 + a

end CJ.ProxyRelay
