/-! The ZMQ front of the station (`pkg/station/lib/zmq_proxy.go`), core Lean only.

(a) `proxyZMQ`: N sources, each served by a goroutine `for { msg := sub.RecvBytes; messages <- msg }` writing into ONE
unbuffered channel, and one forwarder `for msg := range messages { pub.SendBytes(msg) }`.
(b) `RunZMQ`'s loop: receive a frame (blocking), `zmqMessages += 1`, then
`select { ctx.Done → return | regChan <- msg | default → dropped += 1; totalDropped += 1 }`, and the counters'
`Reset` (the two epoch counters, not the total).

Disabled actions are stutter steps (the state is returned unchanged), so every action list is a run. -/
namespace CJ.ZmqMerge

/-! ### (a) the merging proxy -/

/-- a frame as seen on the PUB side: which source it came from and its payload -/
structure Frame where
  src : Nat
  val : Nat
deriving DecidableEq, Repr

def upd {α : Type} (f : Nat → α) (i : Nat) (v : α) : Nat → α := fun j => if j = i then v else f j

structure St where
  /-- frames delivered to source i's SUB socket and not yet read by its goroutine -/
  queue : Nat → List Nat
  /-- the frame reader goroutine i holds, blocked on the unbuffered `messages <- msg` -/
  hand : Nat → Option Nat
  /-- what the forwarder has sent on the PUB socket, oldest first -/
  out : List Frame
  /-- ghost: everything that ever arrived at source i, oldest first -/
  hist : Nat → List Nat

def init : St := ⟨fun _ => [], fun _ => none, [], fun _ => []⟩

inductive Act where
  | arrive (i f : Nat)   -- frame f reaches source i's socket
  | read (i : Nat)       -- reader i: `msg := sub.RecvBytes(0)` (only when it holds nothing)
  | forward (i : Nat)    -- rendezvous on `messages`: the forwarder takes reader i's frame and sends it on PUB
deriving DecidableEq, Repr

def step (s : St) : Act → St
  | .arrive i f => { s with queue := upd s.queue i (s.queue i ++ [f]), hist := upd s.hist i (s.hist i ++ [f]) }
  | .read i =>
    match s.hand i, s.queue i with
    | none, f :: q => { s with hand := upd s.hand i (some f), queue := upd s.queue i q }
    | _, _ => s
  | .forward i =>
    match s.hand i with
    | some f => { s with hand := upd s.hand i none, out := s.out ++ [⟨i, f⟩] }
    | none => s

def run (s : St) (as : List Act) : St := as.foldl step s

/-- the PUB output restricted to source i (payloads, in output order) -/
def outOf (s : St) (i : Nat) : List Nat := (s.out.filter (fun fr => fr.src == i)).map (·.val)

/-- what source i still owes: twice the unread frames plus the held one (every enabled action lowers it or `arrive` raises it) -/
def pending (s : St) (i : Nat) : Nat := 2 * (s.queue i).length + (s.hand i).toList.length

/-- schedule that empties source i when its queue holds k frames -/
def drainSrc (i : Nat) : Nat → List Act
  | 0 => [.forward i]
  | k + 1 => .forward i :: .read i :: drainSrc i k

/-- schedule that empties sources 0..n-1 of state s -/
def drainAll (s : St) : Nat → List Act
  | 0 => []
  | k + 1 => drainAll s k ++ drainSrc k (s.queue k).length

/-! ### (b) the receive loop of `RunZMQ` -/

/-- ghost log entries, newest first in `Run.log` -/
inductive Ev where
  | got (f : Nat)      -- `sub.RecvBytes` returned f (and `addZMQMessage` ran)
  | sent (f : Nat)     -- `regChan <- msg`
  | drop (f : Nat)     -- `default:` branch
  | lost (f : Nat)     -- `<-ctx.Done()` chosen with f in hand
  | reset              -- `Reset()`
deriving DecidableEq, Repr

structure Run where
  cap : Nat
  /-- contents of regChan, oldest first -/
  chan : List Nat
  /-- taken out of regChan by its consumer, oldest first -/
  taken : List Nat
  zmqMessages : Nat
  dropped : Nat
  totalDropped : Nat
  cancelled : Bool
  returned : Bool
  /-- ghost: every frame the loop received / dropped / lost at cancel, oldest first -/
  recvd : List Nat
  droppedFrames : List Nat
  lostFrames : List Nat
  /-- ghost: event log, newest first -/
  log : List Ev

def initRun (c : Nat) : Run := ⟨c, [], [], 0, 0, 0, false, false, [], [], [], []⟩

inductive RAct where
  /-- the loop receives frame f; `pickDone` is Go's choice when both `ctx.Done()` and the send are ready -/
  | recv (f : Nat) (pickDone : Bool)
  /-- the consumer of regChan takes one message -/
  | take
  /-- the context is cancelled -/
  | cancel
  /-- `Reset()` (end of `PrintAndReset`) -/
  | reset
deriving DecidableEq, Repr

def isRecv : RAct → Bool
  | .recv _ _ => true
  | _ => false

def rstep (s : Run) : RAct → Run
  | .recv f pickDone =>
    if s.returned then s else
    -- msg received, addZMQMessage()
    let s := { s with zmqMessages := s.zmqMessages + 1, recvd := s.recvd ++ [f], log := .got f :: s.log }
    let sendReady := s.chan.length < s.cap
    if s.cancelled && (!sendReady || pickDone) then
      { s with returned := true, lostFrames := s.lostFrames ++ [f], log := .lost f :: s.log }
    else if sendReady then
      { s with chan := s.chan ++ [f], log := .sent f :: s.log }
    else
      { s with dropped := s.dropped + 1, totalDropped := s.totalDropped + 1,
               droppedFrames := s.droppedFrames ++ [f], log := .drop f :: s.log }
  | .take =>
    match s.chan with
    | f :: rest => { s with chan := rest, taken := s.taken ++ [f] }
    | [] => s
  | .cancel => { s with cancelled := true }
  | .reset => { s with zmqMessages := 0, dropped := 0, log := .reset :: s.log }

def rrun (s : Run) (as : List RAct) : Run := as.foldl rstep s

def isGot : Ev → Bool
  | .got _ => true
  | _ => false
def isDrop : Ev → Bool
  | .drop _ => true
  | _ => false
def notReset : Ev → Bool
  | .reset => false
  | _ => true

/-- the part of the (newest-first) log after the last `Reset` -/
def sinceReset (log : List Ev) : List Ev := log.takeWhile notReset

end CJ.ZmqMerge
