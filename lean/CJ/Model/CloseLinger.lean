/-!
# What `Close` does to the bytes still in a TCP send queue (SO_LINGER)

The relay forwards with `dst.Write`; `Write` returns as soon as the bytes are in the socket's send queue,
not when the peer has them.  When a direction ends, its deferred functions `Close` the connection at once
(`closeConn` in `halfPipe`), so whatever the peer has not yet taken — everything, for a peer that reads
slowly or has a small receive window — is in that queue at the moment of `Close`.  What happens to it is
decided by SO_LINGER, which `closeConn` sets with `(*net.TCPConn).SetLinger(sec)`:

* `sec < 0`  SO_LINGER off: `Close` returns at once, the kernel keeps sending, then FIN;
* `sec = 0`  SO_LINGER on with a zero timeout: **abort** — the send queue is discarded, the peer gets RST;
* `sec > 0`  SO_LINGER on: `Close` waits up to `sec` seconds for the queue to drain, then FIN (Linux goes
  on sending in the background when the time is up).

This is an assumption about the operating system (`tcp_close` / `SO_LINGER` in socket(7); recorded in the
plan's trusted base); the consumption-pace run of the harness exercises it on the real kernel.  The model
is the smallest statement of it: the state of the sending socket at `Close`, and what the peer ends up with.
-/
namespace CJ.CloseLinger

abbrev Bytes := List UInt8

/-- the sending socket when `Close` is called -/
structure Sock where
  received : Bytes      -- what the peer has taken so far
  queued : Bytes        -- written by the relay (`Write` returned), not yet delivered
deriving Repr, DecidableEq

/-- how the peer's stream ends -/
inductive EndInd
  | eof | rst
deriving Repr, DecidableEq

/-- `Close` after `SetLinger(sec)` (`none`: `SetLinger` is not called, the system default is SO_LINGER off):
what the peer has received when its stream ends, and how it ends -/
def closeWith (linger : Option Int) (s : Sock) : Bytes × EndInd :=
  if linger = some 0 then (s.received, .rst) else (s.received ++ s.queued, .eof)

/-- upper bound, in seconds, on the time `Close` itself blocks when the queue needs `drain` seconds -/
def closeBlocks (linger : Option Int) (drain : Nat) : Nat :=
  match linger with
  | some (.ofNat n) => min n drain
  | _ => 0

/-- the value is an integer constant and positive -/
def lingerPositive : Option Int → Bool
  | some n => decide (0 < n)
  | none => false

end CJ.CloseLinger
