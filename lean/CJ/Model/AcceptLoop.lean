/-!
# The accept loop of the shared DTLS listener as a transition system over its whole life

`Listener.acceptLoop` (pkg/dtls/listener.go) takes connection after connection from its parent
listener and starts one handshake goroutine per connection.  A goroutine ends on one of its *exit
paths* (numbered in source order: handshake failed, no acceptor registered, connection sent to the
acceptor, gave up after the timeout, end of the function).  Whatever the loop or the goroutine takes
per connection out of a *bounded* supply — a slot of a buffered channel used as a semaphore, a counter
compared with a limit, an entry of a map with a size limit, a context with its timer — is a `Res`:
its capacity (`none` = unbounded) and, per exit path, whether that path gives it back.

The shape of the real function (which resources, which exits release them) is extracted from the
source (`CJ.Gen.C16AcceptLoop`); the model is generic in the shape, so that the theorems say what
the shape must satisfy: *every exit returns everything*.

A connection that arrives while the loop waits for a resource is not taken (it stays in the parent's
backlog and its client gives up): `step` answers `false` for it.
-/
namespace CJ.AcceptLoop

structure Res where
  cap : Option Nat          -- how many may be held at once; the loop waits when all are taken
  released : List Bool      -- per exit path of the handshake goroutine: given back on that path?
deriving Repr, DecidableEq

def relOn (r : Res) (p : Nat) : Bool := r.released.getD p false

/-- held tokens, one count per resource (parallel to the list of resources) -/
abbrev Held := List Nat

def free (r : Res) (h : Nat) : Bool :=
  match r.cap with
  | some c => h < c
  | none => true

/-- the loop can take the next connection: no resource is exhausted -/
def canTake : List Res → Held → Bool
  | r :: rs, h :: hs => free r h && canTake rs hs
  | _, _ => true

def acquire (hs : Held) : Held := hs.map (· + 1)

/-- a handshake goroutine ends on exit path `p` -/
def release : List Res → Held → Nat → Held
  | r :: rs, h :: hs, p => (if relOn r p then h - 1 else h) :: release rs hs p
  | _, _, _ => []

structure St where
  held : Held
  flight : List Nat := []     -- handshakes in flight, each with the exit path it will take
deriving Repr, DecidableEq

def init (rs : List Res) : St := { held := rs.map fun _ => 0 }

inductive Ev
  | fast (p : Nat)     -- a connection arrives, its handshake ends on path `p` before the next event
  | slow (p : Nat)     -- a connection arrives, its handshake stays in flight (it will end on path `p`)
  | settle             -- every handshake in flight ends
deriving Repr, DecidableEq

/-- one event; the flag says whether the connection was taken by the loop -/
def step (rs : List Res) (s : St) : Ev → St × Bool
  | .fast p => if canTake rs s.held then ({ s with held := release rs (acquire s.held) p }, true) else (s, false)
  | .slow p => if canTake rs s.held then ({ held := acquire s.held, flight := p :: s.flight }, true) else (s, false)
  | .settle => ({ held := s.flight.foldl (release rs) s.held, flight := [] }, true)

def run (rs : List Res) : St → List Ev → St
  | s, [] => s
  | s, e :: es => run rs (step rs s e).1 es

/-- the flags of a whole history -/
def taken (rs : List Res) : St → List Ev → List Bool
  | _, [] => []
  | s, e :: es => (step rs s e).2 :: taken rs (step rs s e).1 es

/-- every one of the first `n` exit paths gives the resource back -/
def returnsOnAll (n : Nat) (r : Res) : Bool := (List.range n).all (relOn r)

/-- the exit paths named by a history -/
def Ev.path : Ev → Option Nat
  | .fast p => some p
  | .slow p => some p
  | .settle => none

end CJ.AcceptLoop
