/-!
# Models of the encoders / decoders of the registration channels (C15) and of the byte-level
# parsers they share with C11

Go sources mirrored here (branch by branch; a Go panic is the explicit `Outcome.panic`, a loop that
would not terminate is `Outcome.hang` = the loop fuel ran out):

* `pkg/registrars/dns-registrar/msgformat/msgformat.go` — `AddRequestFormat`, `RemoveRequestFormat`,
  `AddResponseFormat`, `RemoveResponseFormat` (with the range check of the `fix:` commit);
* `pkg/registrars/dns-registrar/dns/dns.go` — `EncodeRDataTXT`, `DecodeRDataTXT`, `NewName`,
  `readName`, `readQuestion`, `readRR`, `readMessage`, `MessageFromWireFormat`, the `messageBuilder`
  (`WriteName` with the suffix cache, `WriteQuestion`, `WriteRR`, `WriteMessage`, `WireFormat`);
* `pkg/registrars/dns-registrar/requester/dns.go` — `chunks` and the query name built by `send`;
  `responder.go` — the payload extraction of `responseFor` (base32 is a parameter);
* the channel end to end (section "query / response packaging"): `send` (the query message with its
  OPT RR), `Responder.responseFor` (every branch: QR, the OPT loop with FORMERR / BADVERS, payload
  size, question count, `TrimSuffix`, AA, OPCODE, QTYPE, base32, size test), `dnsRespToUDPResp`,
  `dnsResponsePayload` + `recvLoop`, the 4096-byte receive buffer of `RequestAndRecv`, `sendHandshake`,
  `RecvAndRespond` (which goes on with the partially read message when parsing fails, and replaces an
  over-long datagram by an empty response); Noise and base32 are parameters;
* `pkg/transports/obfuscate.go` — the four tag obfuscators over an abstract `Crypto` structure;
* `pkg/transports/anypb_nourl.go` — `UnmarshalAnypbTo` as erase / restore of the type tag.

Core Lean only.
-/

namespace CJ.Codec

abbrev Bytes := List UInt8

/-- the error classes the harness canonicalises Go errors to -/
inductive Err
  | invalidLength      -- msgformat: "invalid message length"
  | tooLong            -- msgformat: message does not fit the length prefix
  | eof                -- io.EOF / io.ErrUnexpectedEOF
  | zeroLabel | labelTooLong | nameTooLong
  | reservedLabel | tooManyPointers | trailing | overflow
  | keyLen             -- obfuscators: ErrPublicKeyLen and friends
  | crypto             -- X25519 / AEAD failure
  | evenLength         -- XOR obfuscator
  | emptyTag           -- XOR obfuscator: empty plaintext cannot be represented
  | noEntropy          -- crypto/rand failed
  | wrongType          -- anypb: incorrect non-empty TypeUrl
  | unmarshal          -- protobuf unmarshal failure
deriving DecidableEq, Repr, Inhabited

inductive Outcome (α : Type) where
  | ok (a : α)
  | err (e : Err)
  | panic (site : String)
  | hang
deriving Repr, DecidableEq

namespace Outcome
def isOk {α} : Outcome α → Bool | .ok _ => true | _ => false
/-- neither a Go panic nor a non-terminating loop -/
def Safe {α} (o : Outcome α) : Prop := (∀ s, o ≠ .panic s) ∧ o ≠ .hang

@[inline] def bind {α β} (o : Outcome α) (f : α → Outcome β) : Outcome β :=
  match o with
  | .ok a => f a
  | .err e => .err e
  | .panic s => .panic s
  | .hang => .hang
end Outcome

/-- Go `p[lo:hi]` on a slice whose capacity equals its length: panics out of range. -/
def slice (p : Bytes) (lo hi : Nat) : Outcome Bytes :=
  if lo ≤ hi ∧ hi ≤ p.length then .ok ((p.drop lo).take (hi - lo)) else .panic "slice bounds out of range"

/-- Go `p[i]`: panics out of range. -/
def index (p : Bytes) (i : Nat) : Outcome UInt8 :=
  match p[i]? with
  | some b => .ok b
  | none => .panic "index out of range"

/-! ## msgformat: one- and two-byte length prefixes -/

def addRequestFormat (p : Bytes) : Outcome Bytes :=
  if p.length > 255 then .err .tooLong
  else .ok (UInt8.ofNat p.length :: p)

def removeRequestFormat (p : Bytes) : Outcome Bytes :=
  if p.length < 1 then .err .invalidLength
  else (index p 0).bind fun b =>
    let length := b.toNat
    if 1 + length > p.length then .err .invalidLength
    else slice p 1 (1 + length)

def be16 (n : Nat) : Bytes := [UInt8.ofNat (n / 256), UInt8.ofNat n]
def rd16 (a b : UInt8) : Nat := a.toNat * 256 + b.toNat

def addResponseFormat (p : Bytes) : Outcome Bytes :=
  if p.length > 65535 then .err .tooLong
  else .ok (be16 p.length ++ p)

def removeResponseFormat (p : Bytes) : Outcome Bytes :=
  if p.length < 2 then .err .invalidLength
  else (slice p 0 2).bind fun h =>
    match h with
    | [a, b] =>
      let length := rd16 a b
      if 2 + length > p.length then .err .invalidLength
      else slice p 2 (2 + length)
    | _ => .panic "uint16 of short slice"

/-- what the code did before the `fix:` commit: the length is reduced modulo 256 / 65536 -/
def addRequestFormatUnchecked (p : Bytes) : Bytes := UInt8.ofNat p.length :: p
def addResponseFormatUnchecked (p : Bytes) : Bytes := be16 (p.length % 65536) ++ p

/-! ## TXT character-string chunking -/

/-- `EncodeRDataTXT`: 255-byte character strings, then one final (possibly empty) string. -/
def encodeTXT (p : Bytes) : Bytes :=
  if _h : p.length > 255 then
    255 :: (p.take 255 ++ encodeTXT (p.drop 255))
  else
    UInt8.ofNat p.length :: p
termination_by p.length
decreasing_by simp [List.length_drop]; omega

theorem slice_ok_length {p : Bytes} {lo hi : Nat} {r : Bytes} (h : slice p lo hi = .ok r) :
    r.length = hi - lo ∧ lo ≤ hi ∧ hi ≤ p.length := by
  unfold slice at h
  split at h
  · cases h
    simp [List.length_take, List.length_drop]; omega
  · cases h

/-- the loop of `DecodeRDataTXT`; `acc` is the `bytes.Buffer`. Each iteration consumes at least the
length byte, so the remaining input is the loop variant. -/
def decodeTXTLoop (p acc : Bytes) : Outcome Bytes :=
  match p with
  | [] => .err .eof
  | n :: rest =>
    if rest.length < n.toNat then .err .eof
    else
      match slice rest 0 n.toNat with
      | .ok chunk =>
        match _hs : slice rest n.toNat rest.length with
        | .ok rest' =>
          if rest'.length = 0 then .ok (acc ++ chunk)
          else decodeTXTLoop rest' (acc ++ chunk)
        | .err e => .err e
        | .panic s => .panic s
        | .hang => .hang
      | .err e => .err e
      | .panic s => .panic s
      | .hang => .hang
termination_by p.length
decreasing_by
  have := slice_ok_length _hs
  simp only [List.length_cons]
  omega

def decodeTXT (p : Bytes) : Outcome Bytes := decodeTXTLoop p []

/-! ## DNS names -/

abbrev Label := Bytes
abbrev Name := List Label

/-- encoded length of a name written without compression: one length byte per label, the labels,
and the terminating zero -/
def nameWireLen (n : Name) : Nat := (n.map fun l => l.length + 1).sum + 1

/-- the label loop of `NewName` -/
def checkLabels : List Label → Option Err
  | [] => none
  | l :: ls =>
    if l.length = 0 then some .zeroLabel
    else if l.length > 63 then some .labelTooLong
    else checkLabels ls

/-- `NewName`: every label 1…63 bytes, then the total length of the name as a fresh builder writes it
(no suffix of one name equals another of its suffixes, so that is the uncompressed length) ≤ 255. -/
def newName (labels : List Label) : Outcome Name :=
  match checkLabels labels with
  | some e => .err e
  | none => if nameWireLen labels > 255 then .err .nameTooLong else .ok labels

def validName (n : Name) : Prop := newName n = .ok n

/-- `chunks(p, n)` of requester/dns.go (only ever called with `n = 63`; with `n = 0` the Go loop would
not terminate, the model returns no chunk) -/
def chunks (p : Bytes) (n : Nat) : List Bytes :=
  if _h : p.length = 0 ∨ n = 0 then []
  else p.take n :: chunks (p.drop n) n
termination_by p.length
decreasing_by simp [List.length_drop]; omega

/-- the name of the query built by `send`: base32 text cut into 63-byte labels, then the domain -/
def queryName (encoded : Bytes) (domain : Name) : Outcome Name := newName (chunks encoded 63 ++ domain)

/-! ## DNS message builder (writer) -/

/-- The maximum number of compression pointers `readName` follows. -/
def compressionPointerLimit : Nat := 10

/-- one entry of `nameCache`: the suffix (the Go key is its `String()`, which is injective on names
without empty labels), the offset of its first label, and the number of pointers a reader follows
when it decodes the name from that offset -/
structure CacheEntry where
  suffix : Name
  offset : Nat
  pointers : Nat
deriving Repr, DecidableEq

structure Builder where
  w : Bytes := []
  cache : List CacheEntry := []      -- newest first: a later store to the same key shadows the older one
deriving Repr

def cacheLookup (c : List CacheEntry) (s : Name) : Option CacheEntry := c.find? (fun e => e.suffix == s)

/-- the condition under which `WriteName` refers to a cached suffix: the offset fits in 14 bits and
a reader stays within its pointer limit -/
def usable (e : CacheEntry) : Bool := e.offset < 16384 && e.pointers < compressionPointerLimit

/-- first loop of `WriteName`: the labels to be written verbatim and, if some suffix is cached and
usable, that suffix with its cache entry -/
def splitName (c : List CacheEntry) : Name → List Label × Option CacheEntry
  | [] => ([], none)
  | l :: rest =>
    match cacheLookup c (l :: rest) with
    | some e => if usable e then ([], some e) else let r := splitName c rest; (l :: r.1, r.2)
    | none => let r := splitName c rest; (l :: r.1, r.2)

/-- second loop of `WriteName`: store the cache entry of the suffix starting here, then the length
byte and the label; a label of length 0 or > 63 is the `panic(length)` of the Go code -/
def writeLabels (b : Builder) (pointers : Nat) : List Label → Name → Outcome Builder
  | [], _ => .ok b
  | l :: ls, tail =>
    let b1 : Builder := { b with cache := ⟨l :: ls ++ tail, b.w.length, pointers⟩ :: b.cache }
    if l.length = 0 ∨ l.length > 63 then .panic "label length"
    else writeLabels { b1 with w := b1.w ++ (UInt8.ofNat l.length :: l) } pointers ls tail

def writeName (b : Builder) (n : Name) : Outcome Builder :=
  match splitName b.cache n with
  | (pre, none) =>
    (writeLabels b 0 pre []).bind fun b' => .ok { b' with w := b'.w ++ [0] }
  | (pre, some e) =>
    (writeLabels b (e.pointers + 1) pre e.suffix).bind fun b' =>
      .ok { b' with w := b'.w ++ [UInt8.ofNat (192 + e.offset / 256), UInt8.ofNat e.offset] }

def be32 (n : Nat) : Bytes :=
  [UInt8.ofNat (n / 16777216), UInt8.ofNat (n / 65536), UInt8.ofNat (n / 256), UInt8.ofNat n]

structure Question where
  name : Name
  qtype : UInt16
  qclass : UInt16
deriving Repr, DecidableEq

structure RR where
  name : Name
  rtype : UInt16
  rclass : UInt16
  ttl : UInt32
  data : Bytes
deriving Repr, DecidableEq

structure Message where
  id : UInt16
  flags : UInt16
  question : List Question
  answer : List RR
  authority : List RR
  additional : List RR
deriving Repr, DecidableEq

def writeQuestion (b : Builder) (q : Question) : Outcome Builder :=
  (writeName b q.name).bind fun b' =>
    .ok { b' with w := b'.w ++ be16 q.qtype.toNat ++ be16 q.qclass.toNat }

def writeRR (b : Builder) (r : RR) : Outcome Builder :=
  (writeName b r.name).bind fun b' =>
    let b2 : Builder := { b' with w := b'.w ++ be16 r.rtype.toNat ++ be16 r.rclass.toNat ++ be32 r.ttl.toNat }
    if r.data.length > 65535 then .err .overflow
    else .ok { b2 with w := b2.w ++ be16 r.data.length ++ r.data }

def writeQuestions (b : Builder) : List Question → Outcome Builder
  | [] => .ok b
  | q :: qs => (writeQuestion b q).bind fun b' => writeQuestions b' qs

def writeRRs (b : Builder) : List RR → Outcome Builder
  | [] => .ok b
  | r :: rs => (writeRR b r).bind fun b' => writeRRs b' rs

/-- the count loop of `WriteMessage`: stops at the first count that does not fit 16 bits -/
def writeCounts (w : Bytes) : List Nat → Outcome Bytes
  | [] => .ok w
  | c :: cs => if c > 65535 then .err .overflow else writeCounts (w ++ be16 c) cs

def writeMessage (b : Builder) (m : Message) : Outcome Builder :=
  let w0 := b.w ++ be16 m.id.toNat ++ be16 m.flags.toNat
  (writeCounts w0 [m.question.length, m.answer.length, m.authority.length, m.additional.length]).bind fun w1 =>
  (writeQuestions { b with w := w1 } m.question).bind fun b1 =>
  (writeRRs b1 m.answer).bind fun b2 =>
  (writeRRs b2 m.authority).bind fun b3 =>
  writeRRs b3 m.additional

/-- `Message.WireFormat` -/
def wireFormat (m : Message) : Outcome Bytes := (writeMessage {} m).bind fun b => .ok b.w

/-! ## DNS message reader -/

/-- what `readName` does once the loop is left: seek back after the first pointer, `NewName` -/
def finishName (labels : List Label) (np seekTo pos : Nat) : Outcome (Name × Nat) :=
  (newName labels).bind fun n => .ok (n, if np > 0 then seekTo else pos)

/-- the `for` loop of `readName` over a `bytes.Reader` positioned at `pos`. A read at or beyond the
end of the buffer is `io.EOF`; seeking beyond the end is allowed by `bytes.Reader`. `fuel` bounds the
number of iterations; `readName_terminates` shows it never runs out. -/
def readNameLoop (buf : Bytes) : Nat → Nat → List Label → Nat → Nat → Outcome (Name × Nat)
  | 0, _, _, _, _ => .hang
  | fuel + 1, pos, labels, np, seekTo =>
    match buf[pos]? with
    | none => .err .eof
    | some t =>
      if t &&& 0xc0 = 0x00 then
        let length := (t &&& 0x3f).toNat
        if length = 0 then finishName labels np seekTo (pos + 1)
        else if pos + 1 + length ≤ buf.length then
          readNameLoop buf fuel (pos + 1 + length) (labels ++ [(buf.drop (pos + 1)).take length]) np seekTo
        else .err .eof
      else if t &&& 0xc0 = 0xc0 then
        match buf[pos + 1]? with
        | none => .err .eof
        | some lower =>
          let offset := (t &&& 0x3f).toNat * 256 + lower.toNat
          let seekTo' := if np = 0 then pos + 2 else seekTo
          if np + 1 > compressionPointerLimit then .err .tooManyPointers
          else readNameLoop buf fuel offset labels (np + 1) seekTo'
      else .err .reservedLabel

/-- iterations that always suffice: between two pointers the position only grows -/
def nameFuel (buf : Bytes) : Nat := (compressionPointerLimit + 2) * (buf.length + 2)

def readName (buf : Bytes) (pos : Nat) : Outcome (Name × Nat) :=
  readNameLoop buf (nameFuel buf) pos [] 0 0

/-- `binary.Read` of a big-endian uint16 -/
def readU16 (buf : Bytes) (pos : Nat) : Outcome (UInt16 × Nat) :=
  match buf[pos]?, buf[pos + 1]? with
  | some a, some b => .ok (UInt16.ofNat (rd16 a b), pos + 2)
  | _, _ => .err .eof

def readU32 (buf : Bytes) (pos : Nat) : Outcome (UInt32 × Nat) :=
  match buf[pos]?, buf[pos + 1]?, buf[pos + 2]?, buf[pos + 3]? with
  | some a, some b, some c, some d =>
    .ok (UInt32.ofNat (((a.toNat * 256 + b.toNat) * 256 + c.toNat) * 256 + d.toNat), pos + 4)
  | _, _, _, _ => .err .eof

def readQuestion (buf : Bytes) (pos : Nat) : Outcome (Question × Nat) :=
  (readName buf pos).bind fun (n, p1) =>
  (readU16 buf p1).bind fun (t, p2) =>
  (readU16 buf p2).bind fun (c, p3) =>
  .ok (⟨n, t, c⟩, p3)

def readRR (buf : Bytes) (pos : Nat) : Outcome (RR × Nat) :=
  (readName buf pos).bind fun (n, p1) =>
  (readU16 buf p1).bind fun (t, p2) =>
  (readU16 buf p2).bind fun (c, p3) =>
  (readU32 buf p3).bind fun (ttl, p4) =>
  (readU16 buf p4).bind fun (rdlen, p5) =>
  if p5 + rdlen.toNat ≤ buf.length then
    .ok (⟨n, t, c, ttl, (buf.drop p5).take rdlen.toNat⟩, p5 + rdlen.toNat)
  else .err .eof

def readQuestions (buf : Bytes) : Nat → Nat → Outcome (List Question × Nat)
  | 0, pos => .ok ([], pos)
  | k + 1, pos =>
    (readQuestion buf pos).bind fun (q, p1) =>
    (readQuestions buf k p1).bind fun (qs, p2) => .ok (q :: qs, p2)

def readRRs (buf : Bytes) : Nat → Nat → Outcome (List RR × Nat)
  | 0, pos => .ok ([], pos)
  | k + 1, pos =>
    (readRR buf pos).bind fun (r, p1) =>
    (readRRs buf k p1).bind fun (rs, p2) => .ok (r :: rs, p2)

def readMessage (buf : Bytes) : Outcome (Message × Nat) :=
  (readU16 buf 0).bind fun (id, p1) =>
  (readU16 buf p1).bind fun (flags, p2) =>
  (readU16 buf p2).bind fun (qd, p3) =>
  (readU16 buf p3).bind fun (an, p4) =>
  (readU16 buf p4).bind fun (ns, p5) =>
  (readU16 buf p5).bind fun (ar, p6) =>
  (readQuestions buf qd.toNat p6).bind fun (qs, p7) =>
  (readRRs buf an.toNat p7).bind fun (ans, p8) =>
  (readRRs buf ns.toNat p8).bind fun (auth, p9) =>
  (readRRs buf ar.toNat p9).bind fun (add, p10) =>
  .ok (⟨id, flags, qs, ans, auth, add⟩, p10)

/-- `MessageFromWireFormat`: the whole buffer must be consumed -/
def messageFromWireFormat (buf : Bytes) : Outcome Message :=
  (readMessage buf).bind fun (m, p) =>
    if p < buf.length then .err .trailing else .ok m

/-! ## The DNS request path: base32 labels under the base domain (base32 is a parameter) -/

/-- ASCII lower / upper case of one byte (`bytes.ToLower` / `bytes.ToUpper` on ASCII input) -/
def toLowerB (b : UInt8) : UInt8 := if 65 ≤ b ∧ b ≤ 90 then b + 32 else b
def toUpperB (b : UInt8) : UInt8 := if 97 ≤ b ∧ b ≤ 122 then b - 32 else b

/-- `Name.TrimSuffix`: case-insensitive comparison of the last `suffix.length` labels -/
def trimSuffix (name suffix : Name) : Option Name :=
  if name.length < suffix.length then none
  else
    let split := name.length - suffix.length
    if (name.drop split).map (·.map toLowerB) == suffix.map (·.map toLowerB) then some (name.take split) else none

/-- `send`: `enc` is the unpadded base32 text of the packet in upper case (as the codec produces it) -/
def sendName (enc : Bytes) (domain : Name) : Outcome Name := queryName (enc.map toLowerB) domain

/-- `responseFor`: the labels in front of the domain, joined and upper-cased, go to the base32 decoder -/
def recvEncoded (name domain : Name) : Option Bytes :=
  (trimSuffix name domain).map fun pre => pre.flatten.map toUpperB

/-! ## The DNS registration channel end to end: query / response packaging

`requester/dns.go` (`send`, `recvLoop`, `dnsResponsePayload`), `requester/requester.go`
(`sendHandshake`, `RequestAndRecv`), `responder/responder.go` (`responseFor`, `RecvAndRespond`,
`dnsRespToUDPResp`). Noise (`seal_` / `open_`) and base32 (`enc` / `dec`) are parameters. -/

/-- the OPT pseudo-RR both sides put into the additional section (EDNS(0), UDP payload size 4096) -/
def optRR (ttl : UInt32) : RR := ⟨[], 41, 4096, ttl, []⟩

/-- the query built by `send`: QR = 0, RD = 1, one TXT/IN question, EDNS(0) OPT in the additional section -/
def queryMessage (id : UInt16) (name : Name) : Message :=
  ⟨id, 0x0100, [⟨name, 16, 1⟩], [], [], [optRR 0]⟩

/-- `send` from the base32 text on (`enc` in upper case, as the codec produces it): name, message, wire format -/
def buildQuery (enc : Bytes) (dom : Name) (id : UInt16) : Outcome Bytes :=
  (sendName enc dom).bind fun name => wireFormat (queryMessage id name)

/-- how the `for _, rr := range query.Additional` loop of `responseFor` ends -/
inductive OptScan where
  /-- a second OPT RR: FORMERR, return at once (the response keeps the OPT RR added for the first) -/
  | formErr (additional : List RR)
  /-- EDNS version ≠ 0: BADVERS, return at once -/
  | badVers (additional : List RR)
  /-- loop ran to its end: the response's additional section and `payloadSize` -/
  | done (additional : List RR) (payloadSize : Nat)
deriving Repr, DecidableEq

/-- the OPT loop of `responseFor`; `add` is `resp.Additional` so far, `ps` is `payloadSize` so far -/
def scanOPT : List RR → List RR → Nat → OptScan
  | [], add, ps => .done add ps
  | rr :: rest, add, ps =>
    if rr.rtype ≠ 41 then scanOPT rest add ps
    else if add.length ≠ 0 then .formErr add
    else
      let version := (rr.ttl >>> 16) &&& 0xff
      -- `additional.TTL = (dns.ExtendedRcodeBadVers >> 4) << 24`
      if version ≠ 0 then .badVers [optRR (((16 : UInt32) >>> 4) <<< 24)]
      else scanOPT rest [optRR 0] rr.rclass.toNat

/-- `Responder.responseFor`. `none` = the Go function returns `(nil, nil)` (no response at all);
otherwise the response message and the payload (`none` = Go `nil`, i.e. an error response;
`some b` = the base32-decoded bytes of the labels in front of the domain, possibly empty).
`dec` is base32 decoding of the upper-cased text. -/
def responseFor (q : Message) (dom : Name) (maxUDP : Nat) (dec : Bytes → Option Bytes) :
    Option (Message × Option Bytes) :=
  let resp : Message := ⟨q.id, 0x8000, q.question, [], [], []⟩
  if q.flags &&& 0x8000 ≠ 0 then none
  else
    match scanOPT q.additional [] 0 with
    | .formErr add => some ({ resp with flags := resp.flags ||| 1, additional := add }, none)
    -- `resp.Flags |= dns.ExtendedRcodeBadVers & 0xf`
    | .badVers add => some ({ resp with flags := resp.flags ||| ((16 : UInt16) &&& 0xf), additional := add }, none)
    | .done add ps0 =>
      let resp : Message := { resp with additional := add }
      let payloadSize := if ps0 < 512 then 512 else ps0
      match q.question with
      | [question] =>
        match trimSuffix question.name dom with
        | none => some ({ resp with flags := resp.flags ||| 3 }, none)            -- NXDOMAIN
        | some pre =>
          let resp : Message := { resp with flags := resp.flags ||| 0x0400 }      -- AA = 1
          if (q.flags >>> 11) &&& 0xf ≠ 0 then some ({ resp with flags := resp.flags ||| 4 }, none)   -- NOTIMPL
          else if question.qtype ≠ 16 then some ({ resp with flags := resp.flags ||| 3 }, none)       -- NXDOMAIN
          else
            match dec (pre.flatten.map toUpperB) with
            | none => some ({ resp with flags := resp.flags ||| 3 }, none)        -- NXDOMAIN
            | some payload =>
              if payloadSize < maxUDP then some ({ resp with flags := resp.flags ||| 1 }, none)       -- FORMERR
              else some (resp, some payload)
      | _ => some ({ resp with flags := resp.flags ||| 1 }, none)                  -- FORMERR

/-- `dnsRespToUDPResp`: a non-error response to exactly one question carries `payload` in one TXT answer -/
def udpResponse (resp : Message) (payload : Bytes) : Outcome Bytes :=
  let resp' : Message :=
    if resp.flags &&& 0x000f = 0 then
      match resp.question with
      | [q] => { resp with answer := [⟨q.name, q.qtype, q.qclass, 60, encodeTXT payload⟩] }
      | _ => resp
    else resp
  wireFormat resp'

/-- `dnsResponsePayload` -/
def dnsResponsePayload (resp : Message) (dom : Name) : Option Bytes :=
  if resp.flags &&& 0x8000 ≠ 0x8000 then none
  else if resp.flags &&& 0x000f ≠ 0 then none
  else
    match resp.answer with
    | [answer] =>
      match trimSuffix answer.name dom with
      | none => none
      | some _ =>
        if answer.rtype ≠ 16 then none
        else
          match decodeTXT answer.data with
          | .ok payload => some payload
          | _ => none
    | _ => none

/-- requester `recvLoop` + `dnsResponsePayload`: the downstream payload of a received datagram.
(In Go a failed check gives a `nil` payload, which is queued like an empty one; a datagram that does
not parse is skipped.) -/
def responsePayload (buf : Bytes) (dom : Name) : Option Bytes :=
  match messageFromWireFormat buf with
  | .ok resp => dnsResponsePayload resp dom
  | _ => none

/-- what `RequestAndRecv` hands to `RemoveResponseFormat`: `ReadFrom` copies the packet into the zeroed
`recvBuf [4096]byte`, and the whole array is decoded -/
def recvBuffer (payload : Bytes) : Bytes :=
  payload.take 4096 ++ List.replicate (4096 - (payload.take 4096).length) 0

/-- `sendHandshake` + `send`: Noise message, one-byte length prefix, base32 into the query name -/
def requestEncode (seal_ : Bytes → Bytes) (enc : Bytes → Bytes) (dom : Name) (id : UInt16) (p : Bytes) : Outcome Bytes :=
  (addRequestFormat (seal_ p)).bind fun f => buildQuery (enc f) dom id

/-! `RecvAndRespond` only logs the error of `MessageFromWireFormat` and goes on with the message that
`readMessage` returned next to the error: everything that was read completely before the failure
(all of it when the error is `ErrTrailingBytes`). -/

/-- the question loop of `readMessage`, keeping what was appended before an error -/
def readQuestionsAcc (buf : Bytes) : Nat → Nat → List Question → List Question × Option Nat
  | 0, pos, acc => (acc, some pos)
  | k + 1, pos, acc =>
    match readQuestion buf pos with
    | .ok (q, p1) => readQuestionsAcc buf k p1 (acc ++ [q])
    | _ => (acc, none)

def readRRsAcc (buf : Bytes) : Nat → Nat → List RR → List RR × Option Nat
  | 0, pos, acc => (acc, some pos)
  | k + 1, pos, acc =>
    match readRR buf pos with
    | .ok (r, p1) => readRRsAcc buf k p1 (acc ++ [r])
    | _ => (acc, none)

/-- the `Message` value `MessageFromWireFormat` returns, whether or not it also returns an error -/
def lenientParse (buf : Bytes) : Message :=
  match readU16 buf 0 with
  | .ok (id, _) =>
    match readU16 buf 2 with
    | .ok (flags, _) =>
      match readU16 buf 4, readU16 buf 6, readU16 buf 8, readU16 buf 10 with
      | .ok (qd, _), .ok (an, _), .ok (ns, _), .ok (ar, _) =>
        match readQuestionsAcc buf qd.toNat 12 [] with
        | (qs, none) => ⟨id, flags, qs, [], [], []⟩
        | (qs, some p7) =>
          match readRRsAcc buf an.toNat p7 [] with
          | (ans, none) => ⟨id, flags, qs, ans, [], []⟩
          | (ans, some p8) =>
            match readRRsAcc buf ns.toNat p8 [] with
            | (auth, none) => ⟨id, flags, qs, ans, auth, []⟩
            | (auth, some p9) => ⟨id, flags, qs, ans, auth, (readRRsAcc buf ar.toNat p9 []).1⟩
      | _, _, _, _ => ⟨id, flags, [], [], [], []⟩
    | _ => ⟨id, 0, [], [], [], []⟩
  | _ => ⟨0, 0, [], [], [], []⟩

/-- `RecvAndRespond` up to the argument of the callback (`buf` = the datagram `ReadFrom` delivered):
parse (errors only logged), `responseFor`, a non-nil payload, `RemoveRequestFormat`, Noise `ReadMessage`.
`none` = the callback is not called. -/
def requestDecode (open_ : Bytes → Option Bytes) (dec : Bytes → Option Bytes) (dom : Name) (maxUDP : Nat)
    (buf : Bytes) : Option Bytes :=
  match responseFor (lenientParse buf) dom maxUDP dec with
  | some (_, some payload) =>
    match removeRequestFormat payload with
    | .ok f => open_ f
    | _ => none
  | _ => none

/-- `AddResponseFormat` + `dnsRespToUDPResp` on the Noise-encrypted answer of the callback -/
def responseEncode (sealR : Bytes → Bytes) (resp : Message) (r : Bytes) : Outcome Bytes :=
  (addResponseFormat (sealR r)).bind fun f => udpResponse resp f

/-- the tail of `RecvAndRespond`: a datagram longer than `maxUDPPayload` is replaced by the response
with an empty payload -/
def responseSend (sealR : Bytes → Bytes) (resp : Message) (maxUDP : Nat) (r : Bytes) : Outcome Bytes :=
  (responseEncode sealR resp r).bind fun b =>
    if b.length > maxUDP then udpResponse resp [] else .ok b

/-- requester `recvLoop` + `RequestAndRecv`: payload of the datagram, copied into the 4096-byte buffer,
`RemoveResponseFormat` of the whole buffer, Noise `Decrypt`. A datagram that does not parse is skipped
(nothing is queued, `none`); a datagram that fails a check of `dnsResponsePayload` is queued as an
empty packet. `none` = `RequestAndRecv` does not return a plaintext. -/
def responseDecode (openR : Bytes → Option Bytes) (dom : Name) (buf : Bytes) : Option Bytes :=
  match messageFromWireFormat buf with
  | .ok resp =>
    match removeResponseFormat (recvBuffer ((dnsResponsePayload resp dom).getD [])) with
    | .ok f => openR f
    | _ => none
  | _ => none

/-! ## Tag obfuscators (pkg/transports/obfuscate.go) over abstract primitives -/

/-- The primitives the obfuscators call. Nothing is assumed about them here; the laws the round trip
needs are the separate structure `CryptoLaws`, a *hypothesis* of the theorems. -/
structure Crypto where
  Priv : Type
  Pub : Type
  /-- `curve25519.X25519(priv, pub)`; `none` = the error it returns for low-order points -/
  dh : Priv → Pub → Option Bytes
  /-- `extra25519.ScalarBaseMult`: the Elligator representative of the public key of `priv`, if it has one -/
  reprOf : Priv → Option Bytes
  /-- `extra25519.RepresentativeToPublicKey` -/
  pubOfRepr : Bytes → Pub
  /-- `sha256.Sum256` -/
  hash : Bytes → Bytes
  /-- AES-CTR keystream application (`aesCTR`): key, iv, input; `none` = `aes.NewCipher` error -/
  ctr : Bytes → Bytes → Bytes → Option Bytes
  /-- AES-GCM `Seal` / `Open` with nonce `iv` and no additional data -/
  gcmSeal : Bytes → Bytes → Bytes → Option Bytes
  gcmOpen : Bytes → Bytes → Bytes → Option Bytes

/-- `representative[31] &= 0x3F` -/
def clearHigh (r : Bytes) : Bytes := r.take 31 ++ (r.drop 31).map (· &&& 0x3f)
/-- `representative[31] |= 0xC0 & randByte` -/
def setHigh (r : Bytes) (rb : UInt8) : Bytes := r.take 31 ++ (r.drop 31).map (· ||| (0xc0 &&& rb))

/-- the `for ok := false; !ok` loop: draw private keys until one has a representative -/
def firstRepresentable (C : Crypto) : List C.Priv → Option (C.Priv × Bytes)
  | [] => none
  | k :: ks => match C.reprOf k with
    | some r => some (k, r)
    | none => firstRepresentable C ks

/-- `CTRObfuscator.Obfuscate`. `draws` are the successive 32-byte reads of `crypto/rand`, `rb` the
extra random byte; running out of draws stands for `rand.Read` failing. `pubLen` is `len(stationPubkey)`. -/
def ctrObfuscate (C : Crypto) (draws : List C.Priv) (rb : UInt8) (pt : Bytes) (pubLen : Nat) (stationPub : C.Pub) :
    Outcome Bytes :=
  if pubLen ≠ 32 then .err .keyLen else
  match firstRepresentable C draws with
  | none => .err .noEntropy
  | some (priv, r) =>
    match C.dh priv stationPub with
    | none => .err .crypto
    | some shared =>
      let h := C.hash shared
      match C.ctr (h.take 16) ((h.drop 16).take 16) pt with
      | none => .err .crypto
      | some ct => .ok (setHigh r rb ++ ct)

/-- `CTRObfuscator.TryReveal` -/
def ctrReveal (C : Crypto) (ct : Bytes) (priv : C.Priv) : Outcome Bytes :=
  if ct.length < 32 then .err .keyLen else
  (slice ct 0 32).bind fun r0 =>
  match C.dh priv (C.pubOfRepr (clearHigh r0)) with
  | none => .err .crypto
  | some shared =>
    let h := C.hash shared
    (slice ct 32 ct.length).bind fun body =>
    match C.ctr (h.take 16) ((h.drop 16).take 16) body with
    | none => .err .crypto
    | some pt => .ok pt

/-- `GCMObfuscator.Obfuscate` -/
def gcmObfuscate (C : Crypto) (draws : List C.Priv) (rb : UInt8) (pt : Bytes) (pubLen : Nat) (stationPub : C.Pub) :
    Outcome Bytes :=
  if pubLen ≠ 32 then .err .keyLen else
  match firstRepresentable C draws with
  | none => .err .noEntropy
  | some (priv, r) =>
    match C.dh priv stationPub with
    | none => .err .crypto
    | some shared =>
      let h := C.hash shared
      match C.gcmSeal (h.take 16) ((h.drop 16).take 12) pt with
      | none => .err .crypto
      | some ct => .ok (setHigh r rb ++ ct)

/-- `GCMObfuscator.TryReveal` -/
def gcmReveal (C : Crypto) (ct : Bytes) (priv : C.Priv) : Outcome Bytes :=
  if ct.length < 48 then .err .keyLen else
  (slice ct 0 32).bind fun r0 =>
  match C.dh priv (C.pubOfRepr (clearHigh r0)) with
  | none => .err .crypto
  | some shared =>
    let h := C.hash shared
    (slice ct 32 ct.length).bind fun body =>
    match C.gcmOpen (h.take 16) ((h.drop 16).take 12) body with
    | none => .err .crypto
    | some pt => .ok pt

def xorBytes : Bytes → Bytes → Bytes
  | a :: as, b :: bs => (a ^^^ b) :: xorBytes as bs
  | _, _ => []

/-- `XORObfuscator.Obfuscate`: `pad` are the `len(plainText)` random bytes. An empty tag has no
encoding that `TryReveal` accepts and is rejected (the `fix:` commit; before it, `[]` was returned). -/
def xorObfuscate (pad pt : Bytes) : Outcome Bytes :=
  if pt.length = 0 then .err .emptyTag
  else if pad.length < pt.length then .err .noEntropy
  else .ok (pad.take pt.length ++ xorBytes (pad.take pt.length) pt)

/-- `XORObfuscator.TryReveal` -/
def xorReveal (ct : Bytes) : Outcome Bytes :=
  if ct.length % 2 ≠ 0 ∨ ct.length = 0 then .err .evenLength
  else
    let n := ct.length / 2
    (slice ct 0 n).bind fun a =>
    (slice ct n ct.length).bind fun b => .ok (xorBytes a b)

def nilObfuscate (pt : Bytes) : Outcome Bytes := .ok pt
def nilReveal (ct : Bytes) : Outcome Bytes := .ok ct

/-! ## URL-less `Any` (pkg/transports/anypb_nourl.go) -/

abbrev Url := List Char

/-- `strings.ReplaceAll(s, pat, rep)` for a non-empty pattern: left to right, non-overlapping.
`fuel` = `s.length + 1` is enough (every step consumes at least one character). -/
def replaceAllAux (pat rep : Url) : Nat → Url → Url
  | 0, s => s
  | _ + 1, [] => []
  | fuel + 1, c :: cs =>
    if pat.isPrefixOf (c :: cs) then rep ++ replaceAllAux pat rep fuel ((c :: cs).drop pat.length)
    else c :: replaceAllAux pat rep fuel cs

def replaceAll (s pat rep : Url) : Url := if pat.isEmpty then s else replaceAllAux pat rep (s.length + 1) s

def normalizeUrl (u : Url) : Url := replaceAll u "tapdance.".toList "proto.".toList

structure AnyMsg where
  typeUrl : Url
  value : Bytes
deriving Repr, DecidableEq

/-- what the client does before sending: drop the type URL (decoy-registrar/utils.go) -/
def eraseUrl (a : AnyMsg) : AnyMsg := { a with typeUrl := [] }

/-- `UnmarshalAnypbTo` up to the call of `anypb.UnmarshalTo`: `none` source → nothing to do;
`expected` is the type URL of the destination message (`anypb.New(dst)`), `none` if `dst` is nil. -/
def restoreUrl (expected : Option Url) (src : Option AnyMsg) : Outcome (Option AnyMsg) :=
  match src with
  | none => .ok none
  | some a =>
    match expected with
    | none => .err .wrongType       -- anypb.New(nil) fails: "error reading src type"
    | some exp =>
      let u := normalizeUrl a.typeUrl
      if u ≠ [] ∧ u ≠ exp then .err .wrongType
      else .ok (some { typeUrl := exp, value := a.value })

/-- the whole of `UnmarshalAnypbTo`; `unmarshal url value` is `anypb.UnmarshalTo` for a source whose
URL already names the destination type -/
def unmarshalAnyTo {M : Type} (unmarshal : Url → Bytes → Option M) (expected : Option Url) (src : Option AnyMsg) :
    Outcome (Option M) :=
  (restoreUrl expected src).bind fun r =>
    match r with
    | none => .ok none
    | some a => match unmarshal a.typeUrl a.value with
      | some m => .ok (some m)
      | none => .err .unmarshal

/-! ### decoding into a destination the caller supplies

`UnmarshalAnypbTo(src, dst)` writes into a message the caller hands in. What the decoder returns must be
a function of the encoded value alone: `anypb.UnmarshalTo(src, dst, proto.UnmarshalOptions{})` resets
`dst` before it unmarshals (only `Merge: true` would keep what `dst` held). A message is its populated
fields here — (field number, canonical encoding of the value), ascending, one entry per number. -/

abbrev Fields := List (Nat × Bytes)

/-- store one field: replaces the entry of the same number, keeps the order -/
def setField (m : Fields) (f : Nat × Bytes) : Fields :=
  match m with
  | [] => [f]
  | g :: rest =>
    if f.1 < g.1 then f :: g :: rest
    else if f.1 = g.1 then f :: rest
    else g :: setField rest f

/-- merge-unmarshalling of singular fields: every field the wire value carries replaces the
destination's field of that number, the destination's other fields stay -/
def mergeFields (dst v : Fields) : Fields := v.foldl setField dst

/-- `proto.UnmarshalOptions{Merge: merge}.Unmarshal(b, dst)`; `decode b` = the fields the bytes carry
(`none`: malformed). Without `Merge` the destination is reset first. -/
def unmarshalInto (merge : Bool) (decode : Bytes → Option Fields) (b : Bytes) (prior : Fields) : Option Fields :=
  (decode b).map fun v => mergeFields (if merge then prior else []) v

/-- `UnmarshalAnypbTo(src, dst)` with `dst` holding `prior`. `merge = false` is the code under test.
`.ok none`: there are no parameters (`src == nil`); the destination is not part of the result then. -/
def unmarshalAnyInto (merge : Bool) (decode : Url → Bytes → Option Fields) (expected : Option Url)
    (src : Option AnyMsg) (prior : Fields) : Outcome (Option Fields) :=
  (restoreUrl expected src).bind fun r =>
    match r with
    | none => .ok none
    | some a =>
      match unmarshalInto merge (decode a.typeUrl) a.value prior with
      | some m => .ok (some m)
      | none => .err .unmarshal

end CJ.Codec
