import CJ.Model.ReloadPath
/-!
# One reload of the whole registrar configuration, by outcome (C13)

cmd/registration-server/main.go, the body of the SIGHUP goroutine: `loadConfig` (the configuration file, then the
ClientConf it names) - on failure nothing else is done; otherwise `ReloadSubnets` (whose failure is logged and does
NOT end the round), `NewClientConf`, `UpdateLatestCCGen`.  The steps of a round are not written down here: they are
looked up in the regenerated table `CJ.Gen.ReloadPath.sighupRounds` (go/extract/reloadpath) by what the outcome
makes the round do - the selector is written iff the subnet file loaded, the two generations are published iff the
configuration loaded - and the lookup must find exactly one such round.  (This was the driver's own lookup for the
`gate|…` lines of the main() harness; it is the model's now, and the driver calls it.)
-/
namespace CJ.ReloadPath

/-- does round `r` do what a reload with this outcome does -/
def shapeOK (cfgOK subOK : Bool) (r : List Eff) : Bool :=
  hasSelWrite r == subOK && r.contains (.wr apiGenField) == cfgOK && r.contains (.wr dnsGenField) == cfgOK

/-- the round the goroutine takes: `cfgOK` - `loadConfig` succeeded (configuration and ClientConf); `subOK` - the
subnet file loaded (only looked at when the configuration loaded: `ReloadSubnets` is not called otherwise) -/
def roundOf (rounds : List (List Eff)) (cfgOK subOK : Bool) : Option (List Eff) :=
  match rounds.filter (shapeOK cfgOK (subOK && cfgOK)) with
  | [r] => some r
  | _ => none

/-- the configuration after the round -/
def reload (rounds : List (List Eff)) (n : New) (c : Cfg) (cfgOK subOK : Bool) : Option Cfg :=
  (roundOf rounds cfgOK subOK).map (run n c)

/-- everything new -/
def allNew (n : New) : Cfg := ⟨n.sel, n.gen, n.gen⟩

end CJ.ReloadPath
