import CJ.Model.Registry
import CJ.Model.Detector
/-!
# Model of registration ingest (C07)

`pkg/station/lib/registration_ingest.go`: `parseRegMessage` (`parse`), `NewRegistrationC2SWrapper`
(`buildFam`), `ingestRegistration` (`ingestReg`); `registration.go`: `ValidateRegistration`
(`validate`), `GenerateC2SWrapper` (`genShare`); `registration_config.go`: `IsBlocklistedPhantom`
(`blocklisted`, with `net.IPNet.Contains` as a bit-prefix comparison).  The registry underneath is
the shared model `CJ.Registry` of `RegisteredDecoys` (C08).

What the libraries decide is supplied per message (`Oracles`) by the harness from the real calls:
the phantom selector's answer per family (`PhantomSelector.Select`: an address and whether its subnet
supports port randomisation, or an error — unknown generation, no subnet of that family), the
transport's `ParseParams` / `GetDstPort` / `GetProto` / `GetIdentifier`, the GeoIP lookup, the covert
policy verdict (`ParseOrResolveBlocklisted`, C06), the liveness verdict.

The model follows the repaired code: in `parseRegMessage` a family whose construction fails is
skipped and the other family's registration is kept; `NewRegistrationC2SWrapper` rejects registrant
addresses and phantom overrides that are not addresses of the right family.
-/
namespace CJ.Ingest
open CJ.Detector (Bytes to4 ipOf)

inductive Fam
  | v4 | v6
deriving DecidableEq, Repr

/-- `RegistrationResponse` as far as the station applies it (registrar overrides) -/
structure RR where
  dstPort : Option Nat := none
  ipv4 : Option Nat := none       -- fixed32
  ipv6 : Option Bytes := none
  tparams : Bool := false         -- transport_params present (the registrar's parameter override)
deriving DecidableEq, Repr

def srcDetector : Nat := 1
def srcDetectorPrescan : Nat := 3

/-- the decision-relevant content of a `C2SWrapper` -/
structure Msg where
  payload : Bool                  -- registration_payload present
  v4Support : Bool
  v6Support : Bool
  registrant : Option Bytes       -- registration_address; `none` = absent
  source : Nat                    -- registration_source (absent reads as 0)
  transport : Nat
  libVer : Nat                    -- client_lib_version
  prescanned : Bool               -- flags.prescanned
  rr : Option RR
  disableOverrides : Bool := false  -- registration_payload.disable_registrar_overrides
deriving DecidableEq, Repr

/-- outcome of `NewRegistration` for one family -/
structure Build where
  phantom : Bytes
  port : Nat
  proto : Nat
deriving DecidableEq, Repr

/-- library verdicts for one message (supplied by the harness from the real calls) -/
structure Oracles where
  sel4 : Option (Bytes × Bool)    -- PhantomSelector.Select(seed, gen, libver, false): phantom, SupportRandomPort
  sel6 : Option (Bytes × Bool)    -- … includeV6 = true; `none` = error
  paramsOk : Bool                 -- transport.ParseParams succeeds
  tpPort : Option Nat             -- transport.GetDstPort(libver, seed, params); `none` = error
  proto : Nat                     -- transport.GetProto()
  geoOk : Bool                    -- GeoIP.CC / ASN succeed
  covertOk : Bool                 -- ParseOrResolveBlocklisted(covert) ≠ ""
  live : Bool                     -- what the liveness tester answers for the IPv4 phantom: the boolean of its verdict
  ident : String                  -- transport.GetIdentifier(reg)
  /-- the error component of the liveness verdict `(live, err)`: 0 = the tester's usual companion of the boolean (`NotLive` /
  `ErrLiveHost`), 1 = nil, 2 = `ErrCachedPhantom` (answered from the cache), 3 = some other error, 4 = a context error,
  5 = the companion of the *other* boolean.  `ingestRegistration` decides on the boolean alone (`if live { drop }`): no
  function of the model reads this field (`CJ.Props.C07.verdict_error_irrelevant`). -/
  liveErr : Nat := 0
  /-- how the peer-station API answers a share request: 0 = 2xx, 1 = 4xx, 2 = 5xx, 3 = takes the request and closes without
  a reply, 4 = slow 2xx, 5 = unreachable.  The share is fire-and-forget (`go tryShareRegistrationOverAPI`, one POST, the
  outcome is logged): no function of the model reads this field (`CJ.Props.C07.peer_answer_irrelevant`). -/
  peer : Nat := 0
deriving DecidableEq, Repr

/-- the transport's verdicts on the registrar's parameter override (`RegistrationResponse.TransportParams`) -/
structure RROracles where
  paramsOk : Bool                 -- transport.ParseParams(registrar's parameters) succeeds
  tpPort : Option Nat             -- transport.GetDstPort with the registrar's parameters
deriving DecidableEq, Repr

/-- `NewRegistrationC2SWrapper` replaces the client's transport parameters by the registrar's when the
response carries some and the client did not disable registrar overrides.  The replacement is made on
the payload that both families are built from, so it holds for both. -/
def paramsOverridden (m : Msg) : Bool :=
  match m.rr with
  | some rr => rr.tparams && !m.disableOverrides
  | none => false

/-- the verdicts on the parameters that are in force -/
def resolveOracles (m : Msg) (o : Oracles) (ro : RROracles) : Oracles :=
  if paramsOverridden m then { o with paramsOk := ro.paramsOk, tpPort := ro.tpPort } else o

/-- a wire message: undecodable bytes, or a decoded wrapper with its library verdicts -/
inductive Wire
  | garbage
  | msg (m : Msg) (o : Oracles)
deriving DecidableEq, Repr

/-- station configuration (`RegConfig`) -/
structure Cfg where
  enableV4 : Bool
  enableV6 : Bool
  shareOverAPI : Bool
  transports : List Nat
  blocklist : List (Bytes × Nat)  -- parsed CIDRs: network address (4 or 16 bytes), prefix length
deriving Repr

/-- a `DecoyRegistration` as far as ingest looks at it -/
structure Reg where
  phantom : Bytes
  port : Nat
  proto : Nat
  registrant : Bytes
  source : Nat
  transport : Nat
  prescanned : Bool
  v4Support : Bool                -- originalC2S.GetV4Support()
  ident : String
deriving DecidableEq, Repr

inductive BuildErr
  | newReg | override | registrant | family | geo
deriving DecidableEq, Repr

/-! ## addresses -/

def hexDigit (n : Nat) : Char :=
  if n < 10 then Char.ofNat (n + 48) else Char.ofNat (n + 87)

def hexOf (b : Bytes) : String :=
  String.ofList (b.foldr (fun x acc => hexDigit (x.toNat / 16) :: hexDigit (x.toNat % 16) :: acc) [])

/-- canonical bytes of a `net.IP`: the 4-byte form when `To4` succeeds -/
def canon (ip : Bytes) : Bytes := (to4 ip).getD ip

/-- the text key `PhantomIp.String()` as a canonical string (injective on what Go prints) -/
def phKey (ip : Bytes) : String :=
  match to4 ip with
  | some o => "4." ++ hexOf o
  | none => if ip.length = 16 then "6." ++ hexOf ip else "?" ++ hexOf ip

def isV4 (ip : Bytes) : Bool := (to4 ip).isSome

/-- `To16() != nil` -/
def validIP (ip : Bytes) : Bool := ip.length = 4 || ip.length = 16

def be32 (n : Nat) : Bytes :=
  [UInt8.ofNat (n / 16777216 % 256), UInt8.ofNat (n / 65536 % 256), UInt8.ofNat (n / 256 % 256), UInt8.ofNat (n % 256)]

/-- the first `n` bits of two byte strings agree -/
def prefixBitsEq : Nat → Bytes → Bytes → Bool
  | n, a :: as, b :: bs =>
    if n = 0 then true
    else if n ≥ 8 then a == b && prefixBitsEq (n - 8) as bs
    else a.toNat / 2 ^ (8 - n) == b.toNat / 2 ^ (8 - n)
  | n, _, _ => n == 0

/-- `net.IPNet.Contains` -/
def netContains (net : Bytes × Nat) (ip : Bytes) : Bool :=
  let x := canon ip
  let n := canon net.1
  x.length == n.length && prefixBitsEq net.2 n x

/-- `IsBlocklistedPhantom` -/
def blocklisted (c : Cfg) (ip : Bytes) : Bool := c.blocklist.any (netContains · ip)

/-! ## construction -/

/-- the registrant address after `parseRegMessage` filled an absent one with 16 zero bytes -/
def registrantOf (m : Msg) : Bytes := m.registrant.getD (List.replicate 16 0)

def overrideOf (m : Msg) : Fam → Option Bytes
  | .v4 => match m.rr with
    | some rr => match rr.ipv4 with
      | some a => if a ≠ 0 then some (be32 a) else none
      | none => none
    | none => none
  | .v6 => match m.rr with
    | some rr => rr.ipv6
    | none => none

def selOf (o : Oracles) : Fam → Option (Bytes × Bool)
  | .v4 => o.sel4
  | .v6 => o.sel6

def randomizeDstPortMinVersion : Nat := 3

/-- `getPhantomDstPort`: 443 for old clients and for subnets without port randomisation, else the
transport's choice -/
def basePort (m : Msg) (o : Oracles) (rnd : Bool) : Option Nat :=
  if m.libVer < randomizeDstPortMinVersion || !rnd then some 443 else o.tpPort

/-- `NewRegistration`: phantom selection, transport lookup, parameters, destination port, protocol. -/
def newRegistration (c : Cfg) (m : Msg) (o : Oracles) (f : Fam) : Option Build :=
  match selOf o f with
  | none => none
  | some (ph, rnd) =>
    if !c.transports.contains m.transport then none
    else if !o.paramsOk then none
    else
      match basePort m o rnd with
      | none => none
      | some p => some { phantom := ph, port := p, proto := o.proto }

/-- an override must be an address of the family the registration is built for -/
def overrideValid (f : Fam) (ip : Bytes) : Bool :=
  validIP ip && (isV4 ip == (f == .v4))

def overrideOkB (m : Msg) (f : Fam) : Bool :=
  match overrideOf m f with
  | some ip => overrideValid f ip
  | none => true

/-- the registrar's port override is cast to `uint16` -/
def finalPort (m : Msg) (p : Nat) : Nat :=
  match m.rr with
  | some rr => match rr.dstPort with
    | some q => q % 65536
    | none => p
  | none => p

def mkReg (m : Msg) (o : Oracles) (phantom : Bytes) (port : Nat) : Reg :=
  { phantom := phantom, port := port, proto := o.proto, registrant := registrantOf m, source := m.source,
    transport := m.transport, prescanned := m.prescanned, v4Support := m.v4Support, ident := o.ident }

/-- `NewRegistrationC2SWrapper(c2sw, includeV6)` -/
def buildFam (c : Cfg) (m : Msg) (o : Oracles) (f : Fam) : Except BuildErr Reg :=
  match newRegistration c m o f with
  | none => .error .newReg
  | some b =>
    if !overrideOkB m f then .error .override else
    let phantom := (overrideOf m f).getD b.phantom
    if !validIP (registrantOf m) then .error .registrant else
    if isV4 phantom && !isV4 (registrantOf m) then .error .family else
    if !o.geoOk then .error .geo else
    .ok (mkReg m o phantom (finalPort m b.port))

/-- is the family attempted at all (`parseRegMessage`'s guards) -/
def attempted (c : Cfg) (m : Msg) : Fam → Bool
  | .v4 => m.payload && m.v4Support && c.enableV4 && isV4 (registrantOf m)
  | .v6 => m.payload && m.v6Support && c.enableV6

def tryFam (c : Cfg) (m : Msg) (o : Oracles) (f : Fam) : Option (Except BuildErr Reg) :=
  if attempted c m f then some (buildFam c m o f) else none

def okRegs : List (Option (Except BuildErr Reg)) → List Reg
  | [] => []
  | some (.ok r) :: rest => r :: okRegs rest
  | _ :: rest => okRegs rest

/-- `parseRegMessage`: `none` = an error is returned (undecodable, or every attempted family failed),
otherwise the registrations that were built, IPv4 first. -/
def parse (c : Cfg) : Wire → Option (List Reg)
  | .garbage => none
  | .msg m o =>
    let rs := [tryFam c m o .v4, tryFam c m o .v6]
    let regs := okRegs rs
    if regs.isEmpty && rs.any (fun r => match r with | some (.error _) => true | _ => false) then none
    else some regs

/-! ## ingest -/

/-- the peer-share request (`GenerateC2SWrapper`): the registration it is generated from, and the two
fields the function sets on the outgoing copy -/
structure Shared where
  reg : Reg
  source : Nat
  prescanned : Bool
deriving DecidableEq, Repr

inductive Ev
  | probe (phantom : Bytes) (port : Nat)
  | share (s : Shared)
  | announce (r : Reg)
deriving DecidableEq, Repr

/-- `GenerateC2SWrapper`: nothing for the IPv6 twin of a registration whose client also supports IPv4;
otherwise the original message marked pre-scanned, source `DetectorPrescan`. -/
def genShare (r : Reg) : Option Shared :=
  if !isV4 r.phantom && r.v4Support then none
  else some { reg := r, source := srcDetectorPrescan, prescanned := true }

inductive ValidateErr
  | incomplete | transport | blocklistedPhantom
deriving DecidableEq, Repr

/-- `ValidateRegistration` (keys and source are always set on a registration built by `buildFam`) -/
def validate (c : Cfg) (r : Reg) : Except ValidateErr Unit :=
  if r.phantom.isEmpty then .error .incomplete
  else if !c.transports.contains r.transport then .error .transport
  else if r.source ≠ srcDetector && blocklisted c r.phantom then .error .blocklistedPhantom
  else .ok ()

def regCfg (c : Cfg) : CJ.Registry.Cfg := { unusedT := 600, activeT := 21600, enabled := c.transports }

def keyOf (r : Reg) : CJ.Registry.Key := (phKey r.phantom, r.ident)

abbrev RSt := CJ.Registry.St

def needProbe (r : Reg) : Bool := !r.prescanned && isV4 r.phantom

/-- `ingestRegistration`: the new registry state and the externally visible events, in order -/
def ingestReg (c : Cfg) (o : Oracles) (s : RSt) (r : Reg) : RSt × List Ev :=
  match validate c r with
  | .error _ => (s, [])
  | .ok _ =>
    let k := keyOf r
    if s.decoys.contains k then
      -- duplicate: the counter is bumped, nothing else happens
      ((CJ.Registry.track (regCfg c) s k r.transport 0).1, [])
    else
      let s1 := (CJ.Registry.track (regCfg c) s k r.transport 0).1
      if !o.covertOk then (s1, []) else
      let probes : List Ev := if needProbe r then [.probe r.phantom r.port] else []
      if needProbe r && o.live then (s1, probes) else
      let shares : List Ev :=
        if r.source = srcDetector && c.shareOverAPI then
          match genShare r with
          | some sh => [.share sh]
          | none => []
        else []
      if r.source = srcDetector && blocklisted c r.phantom then (s1, probes ++ shares) else
      match CJ.Registry.register (regCfg c) s1 k r.transport 0 with
      | (s2, .new) => (s2, probes ++ shares ++ [.announce r])
      | (s2, _) => (s2, probes ++ shares)

def ingestRegs (c : Cfg) (o : Oracles) : RSt → List Reg → RSt × List Ev
  | s, [] => (s, [])
  | s, r :: rest =>
    let (s1, e1) := ingestReg c o s r
    let (s2, e2) := ingestRegs c o s1 rest
    (s2, e1 ++ e2)

/-- one wire message through `parseRegMessage` and `ingestRegistration` (startIngestThread's loop body) -/
def ingestWire (c : Cfg) (s : RSt) (w : Wire) : RSt × List Ev :=
  match w with
  | .garbage => (s, [])
  | .msg _ o =>
    match parse c w with
    | none => (s, [])
    | some regs => ingestRegs c o s regs

/-- any number of messages, from the empty registry -/
def run (c : Cfg) : RSt → List Wire → RSt × List Ev
  | s, [] => (s, [])
  | s, w :: rest =>
    let (s1, e1) := ingestWire c s w
    let (s2, e2) := run c s1 rest
    (s2, e1 ++ e2)

/-- `GetRegistrations(phantom)` contains the registration -/
def connectable (s : RSt) (r : Reg) : Bool := (CJ.Registry.lookup s (phKey r.phantom)).contains r.ident

end CJ.Ingest
