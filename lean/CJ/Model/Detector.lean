/-!
# Model of the station → detector channel (C10)

Station side (`pkg/station/lib/registration.go`): `sendToDetector` builds a `StationToDetector`
message from a registration (`mkS2D`), `clearDetector` builds the shutdown message (`mkClear`).
Detector side (`src/sessions.rs`): `impl From<&StationToDetector> for SessionResult` (`convert`),
`SessionDetails::new` (`sessionNew`), `pubsub_handle_s2d` (`handle`: the conversion runs **before**
the operation is looked at, also for `Clear`), `pubsub_add_or_update_session`, `pubsub_clear`; the
packet path `SessionTracker::drop_stale_sessions` (`dropStale`), `is_tracked_session` (`isTracked`) and
the tag of a flow (`src/flow_tracker.rs`, `impl Taggable for FlowNoSrcPort`: `flowTag`).

Addresses are byte lists on the Go side (`net.IP` is a byte slice of any length).  The *text* of an
address field is abstracted by how the detector's parser `str::parse::<IpAddr>()` sees it (`Txt`):
a literal denoting an address, the empty string, or any other text.  Go's `IP.String()` is modelled
by its case split on the slice length (`goString`); that the text it prints for a 4- or 16-byte
address is parsed back by Rust to the same address is the one library fact the model takes on trust,
and it is exercised on every correspondence case (the real `sendToDetector` output is parsed by the
detector's own `sessions.rs` text compiled by `rustc`).
-/
namespace CJ.Detector

abbrev Bytes := List UInt8

/-- Rust `std::net::IpAddr` (octets) -/
inductive IpAddr
  | v4 (o : Bytes)
  | v6 (o : Bytes)
deriving DecidableEq, Repr, Inhabited

def IpAddr.isV4 : IpAddr → Bool
  | .v4 _ => true
  | .v6 _ => false

def IpAddr.isV6 (a : IpAddr) : Bool := !a.isV4

/-- the text of an address field as the detector's parser classifies it -/
inductive Txt
  | lit (a : IpAddr)   -- a well-formed IP literal denoting `a`
  | empty              -- ""
  | other              -- any other text ("<nil>", "?0102", "1.2.3", …): not empty, does not parse
deriving DecidableEq, Repr, Inhabited

/-! ## Go side -/

def v4InV6Prefix : Bytes := [0, 0, 0, 0, 0, 0, 0, 0, 0, 0, 0xff, 0xff]

/-- `net.IP.To4` -/
def to4 (ip : Bytes) : Option Bytes :=
  if ip.length = 4 then some ip
  else if ip.length = 16 ∧ ip.take 12 = v4InV6Prefix then some (ip.drop 12)
  else none

/-- the address a `net.IP` value denotes, if it has a valid length -/
def ipOf (ip : Bytes) : Option IpAddr :=
  match to4 ip with
  | some o => some (.v4 o)
  | none => if ip.length = 16 then some (.v6 ip) else none

/-- `net.IP.String()`: `"<nil>"` for length 0, `"?" + hex` for a length other than 4 / 16,
dotted quad when `To4` succeeds, RFC 5952 text otherwise. -/
def goString (ip : Bytes) : Txt :=
  match ipOf ip with
  | some a => .lit a
  | none => .other

/-- `StationToDetector` (proto2: every field optional; enums as their wire value) -/
structure S2D where
  phantomIp : Option Txt := none
  clientIp : Option Txt := none
  timeoutNs : Option Nat := none
  operation : Option Nat := none
  dstPort : Option Nat := none
  srcPort : Option Nat := none
  proto : Option Nat := none
deriving DecidableEq, Repr, Inhabited

/-- the part of a `DecoyRegistration` that `sendToDetector` reads -/
structure Reg where
  phantom : Bytes      -- PhantomIp
  registrant : Bytes   -- registrationAddr
  port : Nat           -- PhantomPort (uint16)
  proto : Nat          -- PhantomProto (IPProto wire value)
deriving DecidableEq, Repr, Inhabited

def opNew : Nat := 1
def opUpdate : Nat := 2
def opClear : Nat := 3
def protoTcp : Nat := 1
def protoUdp : Nat := 2

/-- `sendToDetector(reg, duration, op)` -/
def mkS2D (r : Reg) (duration op : Nat) : S2D :=
  { phantomIp := some (goString r.phantom)
    clientIp := some (goString r.registrant)
    dstPort := some r.port
    proto := some r.proto
    timeoutNs := some duration
    operation := some op }

/-- `clearDetector()`: placeholder addresses of one family (`net.IPv4zero`) and a protocol, so that
the detector's conversion succeeds and the operation is reached. -/
def mkClear : S2D :=
  { phantomIp := some (goString [0, 0, 0, 0])
    clientIp := some (goString [0, 0, 0, 0])
    proto := some protoTcp
    operation := some opClear }

/-- the clear message of the pinned commit (only the operation is set); kept to state what was wrong -/
def legacyClear : S2D := { operation := some opClear }

/-! ## Detector side -/

inductive Err
  | invalidPhantom | invalidClient | mixedV4V6 | unrecognizedProto
deriving DecidableEq, Repr

/-- `SessionDetails` (`proto` is the IP next-header number: 6 or 17) -/
structure Session where
  client : IpAddr
  phantom : IpAddr
  dstPort : Nat
  srcPort : Nat
  proto : Nat
  timeout : Nat
deriving DecidableEq, Repr

/-- `str::parse::<IpAddr>()` on the abstracted text -/
def parseIp : Txt → Option IpAddr
  | .lit a => some a
  | _ => none

/-- generated getter of an optional string field: absent reads as "" -/
def txtOf : Option Txt → Txt
  | some t => t
  | none => .empty

def loopback6 : IpAddr := .v6 [0, 0, 0, 0, 0, 0, 0, 0, 0, 0, 0, 0, 0, 0, 0, 1]

/-- `SessionDetails::new` -/
def sessionNew (client phantom : Txt) (timeout srcPort dstPort proto : Nat) : Except Err Session :=
  match parseIp phantom with
  | none => .error .invalidPhantom
  | some ph =>
    let src : Option IpAddr :=
      match parseIp client with
      | some c => some c
      | none => if client = .empty ∧ ph.isV6 then some loopback6 else none
    match src with
    | none => .error .invalidClient
    | some c =>
      if ph.isV4 ∧ !c.isV4 then .error .mixedV4V6
      else .ok { client := c, phantom := ph, dstPort := dstPort, srcPort := srcPort, proto := proto, timeout := timeout }

/-- `impl From<&StationToDetector> for SessionResult`: the protocol is matched first, ports are cast
to `u16`, absent numeric fields read as 0, absent / unknown enum values as `Unk`. -/
def convert (m : S2D) : Except Err Session :=
  let proto : Option Nat :=
    match m.proto with
    | some 1 => some 6
    | some 2 => some 17
    | _ => none
  match proto with
  | none => .error .unrecognizedProto
  | some p =>
    sessionNew (txtOf m.clientIp) (txtOf m.phantomIp) (m.timeoutNs.getD 0)
      ((m.srcPort.getD 0) % 65536) ((m.dstPort.getD 0) % 65536) p

/-- `Taggable::tag` of a session, as a structure: protocol prefix, client (IPv4 phantoms only),
phantom, destination port.  The Rust string is an injective rendering of these four. -/
structure Tag where
  proto : Nat
  client : Option IpAddr
  phantom : IpAddr
  port : Nat
deriving DecidableEq, Repr

/-- the protocol prefix of a tag: `"t-"` for TCP (6), `"u-"` for UDP (17), `""` for anything else -/
def tagProto (p : Nat) : Nat := if p = 6 then 6 else if p = 17 then 17 else 0

def tagOf (s : Session) : Tag :=
  { proto := tagProto s.proto, client := if s.phantom.isV6 then none else some s.client, phantom := s.phantom, port := s.dstPort }

/-- `FlowNoSrcPort` (`src/flow_tracker.rs`): what the packet path knows about a flow when it asks whether
the flow belongs to a registered session (`process_packet.rs`: `FlowNoSrcPort::from_flow(flow)`, then
`FlowTracker::is_phantom_session`).  `proto` is the IP next-header number of the packet. -/
structure Flow where
  src : IpAddr
  dst : IpAddr
  dstPort : Nat
  proto : Nat
deriving DecidableEq, Repr

/-- `impl Taggable for FlowNoSrcPort`: the same rendering as a session's tag, from the packet's fields -/
def flowTag (f : Flow) : Tag :=
  { proto := tagProto f.proto, client := if f.dst.isV6 then none else some f.src, phantom := f.dst, port := f.dstPort }

/-- keys of the detector's session map: tags of sessions, or anything that was there before
(diversions left over from a previous launch of the station) -/
inductive Key
  | ext (name : String)
  | tag (t : Tag)
deriving DecidableEq, Repr

abbrev Map := List (Key × Nat)

def Map.get? (m : Map) (k : Key) : Option Nat := (m.find? (·.1 = k)).map (·.2)

/-- `pubsub_add_or_update_session`: a known key keeps the later expiry, a new key is inserted -/
def addOrUpdate (now : Nat) (m : Map) (s : Session) : Map :=
  let k := Key.tag (tagOf s)
  let e := now + s.timeout
  if m.any (·.1 = k) then m.map (fun kv => if kv.1 = k then (kv.1, if kv.2 < e then e else kv.2) else kv)
  else m ++ [(k, e)]

/-- what `pubsub_handle_s2d` does with a message -/
inductive Action
  | ignored (e : Err)         -- conversion failed: logged at debug level, nothing else happens
  | addOrUpdate (s : Session)
  | clear
  | unknownOp
deriving DecidableEq, Repr

/-- `pubsub_handle_s2d`: convert first, then dispatch on the operation -/
def dispatch (m : S2D) : Action :=
  match convert m with
  | .error e => .ignored e
  | .ok s =>
    match m.operation with
    | some 1 => .addOrUpdate s
    | some 2 => .addOrUpdate s
    | some 3 => .clear
    | _ => .unknownOp

def apply (now : Nat) (st : Map) : Action → Map
  | .ignored _ => st
  | .addOrUpdate s => addOrUpdate now st s
  | .clear => []
  | .unknownOp => st

def handle (now : Nat) (st : Map) (m : S2D) : Map := apply now st (dispatch m)

/-! ## Detector side: the packet path (`SessionTracker`) -/

/-- `SessionTracker::drop_stale_sessions`: `map.retain(|_, v| *v > right_now)` -/
def dropStale (now : Nat) (st : Map) : Map := st.filter (fun kv => decide (now < kv.2))

/-- `SessionTracker::is_tracked_session` = `session_exists(flow.tag())`: the flow is forwarded to the
station iff its tag is a key of the map (the expiry is only looked at by `drop_stale_sessions`). -/
def isTracked (st : Map) (f : Flow) : Bool := (Map.get? st (.tag (flowTag f))).isSome

/-- what happens at the detector, in order: messages from the station (handled at a clock value), the
periodic sweep of stale sessions -/
inductive Evt
  | msg (now : Nat) (m : S2D)
  | sweep (now : Nat)
deriving Repr

def runEvt (st : Map) : Evt → Map
  | .msg now m => handle now st m
  | .sweep now => dropStale now st

def run (st : Map) (es : List Evt) : Map := es.foldl runEvt st

end CJ.Detector
