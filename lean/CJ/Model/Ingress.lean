import CJ.Model.Codec
/-!
# Models of the external entry points for C11 (no externally supplied bytes crash a process)

The byte-level parsers of the DNS channel (`msgformat`, `DecodeRDataTXT`, `readName`, `readMessage`) are
in `CJ/Model/Codec.lean`. Here:

* the length guards in front of every slice of first-flight data in the wrapping transports
  (`min.go` `WrapConnection`, `prefix.go` `WrapConnection` / `tryFindReg` over the prefix table,
  `obfs4.go` `WrapConnection` / `utils.go` `findMarkMac`);
* the decision procedures of the entry points that handle optional protobuf sub-messages
  (`apiregserver.go` `getC2SFromReq` / `register` / `registerBidirectional`, `regprocessor.go`
  `processBdReq` / `processC2SWrapper`, `registration_ingest.go` `parseRegMessage` /
  `NewRegistrationC2SWrapper`), with a nil dereference as an explicit `Outcome.panic`.

Everything the code looks up elsewhere (registrations, revealed tags, phantom selection, the registrar
behind the HTTP front end) is a parameter; the theorems hold for every value of it.
-/
namespace CJ.Ingress
open CJ.Codec

/-! ## wrapping transports: what `WrapConnection` answers -/

inductive Verdict
  | tryAgain | notTransport | found (consumed : Nat)
  | incorrectTransport | incorrectPrefix
deriving Repr, DecidableEq

/-- `min.Transport.WrapConnection`: `registered id` says whether the phantom has a registration with
this 32-byte identifier. -/
def wrapMin (data : Bytes) (registered : Bytes → Bool) : Outcome Verdict :=
  if data.length < 32 then .ok .tryAgain
  else (slice data 0 32).bind fun hmacID =>
    if registered hmacID then .ok (.found 32) else .ok .notTransport

/-- one row of `defaultPrefixes` -/
structure PrefixSpec where
  id : Int
  staticMatch : Bytes
  offset : Nat
  minLen : Nat
  maxLen : Nat
deriving Repr, DecidableEq

/-- what `getReg` finds for a 64-byte window, as far as `tryFindReg` looks at it -/
inductive RegView
  | otherTransport                    -- `reg.TransportType() != Prefix`
  | noPrefixParams                    -- params are not `*PrefixTransportParams` (absent or another type)
  | nilPrefixParams                   -- typed nil
  | prefixParams (id : Int)
deriving Repr, DecidableEq

def prefixTagLength : Nat := 64

/-- the body of the `for id, prefix := range t.SupportedPrefixes` loop: `none` = continue (with the
updated `err` / `eWrongPrefix`), `some v` = return -/
def tryPrefix (data : Bytes) (getReg : Bytes → Option RegView) (p : PrefixSpec) (tryAgain eWrong : Bool) :
    Outcome (Option Verdict × Bool × Bool) :=
  let matchLen := min p.staticMatch.length data.length
  let cont (ta ew : Bool) : Outcome (Option Verdict × Bool × Bool) := .ok (none, ta, ew)
  let staticOk : Outcome Bool :=
    if p.staticMatch.length > 0 then
      (slice p.staticMatch 0 matchLen).bind fun a => (slice data 0 matchLen).bind fun b => .ok (a == b)
    else .ok true
  staticOk.bind fun matched =>
  if !matched then cont tryAgain eWrong
  else if data.length < p.minLen then cont true eWrong
  else if data.length < p.offset + prefixTagLength ∧ data.length < p.maxLen then cont true eWrong
  else if data.length < p.maxLen then cont tryAgain eWrong
  else
    (slice data p.offset (p.offset + prefixTagLength)).bind fun obfuscatedID =>
    match getReg obfuscatedID with
    | none => cont tryAgain eWrong
    | some .otherTransport => .ok (some .incorrectTransport, tryAgain, eWrong)
    | some .nilPrefixParams => cont tryAgain true
    | some (.prefixParams id) =>
      if id ≠ p.id then cont tryAgain true
      else .ok (some (.found (p.offset + prefixTagLength)), tryAgain, eWrong)
    | some .noPrefixParams => cont tryAgain true     -- absent or foreign parameters: treated like a mismatch

def tryFindRegLoop (data : Bytes) (getReg : Bytes → Option RegView) :
    List PrefixSpec → Bool → Bool → Outcome Verdict
  | [], tryAgain, eWrong =>
    if !tryAgain ∧ eWrong then .ok .incorrectPrefix
    else if tryAgain then .ok .tryAgain else .ok .notTransport
  | p :: ps, tryAgain, eWrong =>
    (tryPrefix data getReg p tryAgain eWrong).bind fun (r, ta, ew) =>
      match r with
      | some v => .ok v
      | none => tryFindRegLoop data getReg ps ta ew

/-- `prefix.Transport.WrapConnection` over the prefixes in the order the Go map happens to yield -/
def wrapPrefix (table : List PrefixSpec) (data : Bytes) (getReg : Bytes → Option RegView) : Outcome Verdict :=
  if data.length < prefixTagLength then .ok .tryAgain
  else if data.length = 0 then .ok .tryAgain
  else tryFindRegLoop data getReg table false false

/-- a row is well formed when reaching the tag extraction implies the tag is inside the data -/
def PrefixSpec.wf (p : PrefixSpec) : Bool := p.offset + prefixTagLength ≤ max p.minLen p.maxLen

/-- the constants of obfs4/utils.go -/
structure Obfs4Consts where
  representativeLength : Nat
  markLength : Nat
  macLength : Nat
  clientMinHandshakeLength : Nat
  clientMinPadLength : Nat
  maxHandshakeLength : Nat
deriving Repr, DecidableEq

/-- `findMarkMac(mark, buf, startPos, maxPos, fromTail = true)`: `markAt pos` says whether
`buf[pos:pos+MarkLength]` equals the mark; the result is the position or `none` (-1). -/
def findMarkMac (c : Obfs4Consts) (markLen : Nat) (buf : Bytes) (startPos maxPos : Nat) (markAt : Bytes → Bool) :
    Outcome (Option Nat) :=
  if markLen ≠ c.markLength then .panic "BUG: Invalid mark length"
  else if startPos > buf.length then .ok none
  else
    let endPos := min buf.length maxPos
    -- Go: endPos-startPos < MarkLength+MacLength on ints; a negative difference is also "too short"
    if endPos < startPos ∨ endPos - startPos < c.markLength + c.macLength then .ok none
    else
      let pos := endPos - (c.markLength + c.macLength)
      (slice buf pos (pos + c.markLength)).bind fun m =>
        if markAt m then .ok (some pos) else .ok none

/-- `obfs4.Transport.WrapConnection`: one `markAt` per obfs4 registration on the phantom (the HMAC of
the representative under that registration's keys) -/
def wrapObfs4Loop (c : Obfs4Consts) (data : Bytes) : List (Bytes → Bool) → Outcome Verdict
  | [] => if data.length < c.maxHandshakeLength then .ok .tryAgain else .ok .notTransport
  | markAt :: rest =>
    (findMarkMac c c.markLength data (c.representativeLength + c.clientMinPadLength) c.maxHandshakeLength markAt).bind
      fun r => match r with
        | some _ => .ok (.found 0)      -- the connection is handed to the obfs4 library with all of `data`
        | none => wrapObfs4Loop c data rest

def wrapObfs4 (c : Obfs4Consts) (data : Bytes) (regs : List (Bytes → Bool)) : Outcome Verdict :=
  if data.length < c.clientMinHandshakeLength then .ok .tryAgain
  else (slice data 0 c.representativeLength).bind fun _ => wrapObfs4Loop c data regs

/-! ## HTTP front end of the registrar (apiregserver.go) -/

/-- what the handlers look at in a request -/
structure HttpReq where
  remoteAddrOk : Bool        -- `getRemoteAddr(r) != nil`
  isPost : Bool
  contentLength : Int        -- -1 for chunked bodies
  bodyReadable : Bool        -- `io.ReadAll` succeeded
  /-- `proto.Unmarshal` of the body: `none` = failed; `some hasPayload` = a C2SWrapper, with or without
  a `registration_payload` -/
  wrapper : Option Bool
deriving Repr, DecidableEq

/-- result classes of the registrar behind the front end -/
inductive ProcResult | ok | noC2SBody | legacyAddrError | otherError
deriving Repr, DecidableEq

def minimumRequestLength : Int := 33

/-- `getC2SFromReq`: a status to answer with, or the parsed wrapper (has payload?) -/
def getC2SFromReq (r : HttpReq) : Nat ⊕ Bool :=
  if !r.isPost then .inl 405
  else if r.contentLength < minimumRequestLength then .inl 400
  else if !r.bodyReadable then .inl 400
  else match r.wrapper with
    | none => .inl 400
    | some hasPayload => .inr hasPayload

/-- `register` (unidirectional) -/
def register (r : HttpReq) (proc : ProcResult) : Outcome Nat :=
  if !r.remoteAddrOk then .ok 400
  else match getC2SFromReq r with
    | .inl code => .ok code
    | .inr _ => if proc = .ok then .ok 204 else .ok 500

/-- `registerBidirectional` with the nil check of the `fix:` commit; `serverConfNewer` = the server holds
a ClientConf of a later generation than the request names. -/
def registerBidirectional (r : HttpReq) (_serverConfNewer : Bool) (proc : ProcResult) : Outcome Nat :=
  if !r.remoteAddrOk then .ok 400
  else match getC2SFromReq r with
    | .inl code => .ok code
    | .inr hasPayload =>
      if !hasPayload then .ok 400
      else
        -- `payload.RegistrationPayload.DecoyListGeneration = …` when serverConfNewer: payload present here
        match proc with
        | .noC2SBody => .ok 400
        | .legacyAddrError => .ok 400
        | .otherError => .ok 500
        | .ok => .ok 200

/-- the handler before the fix: the generation is overwritten through the absent sub-message -/
def registerBidirectionalUnchecked (r : HttpReq) (serverConfNewer : Bool) (proc : ProcResult) : Outcome Nat :=
  if !r.remoteAddrOk then .ok 400
  else match getC2SFromReq r with
    | .inl code => .ok code
    | .inr hasPayload =>
      if serverConfNewer ∧ !hasPayload then .panic "nil pointer dereference"
      else match proc with
        | .noC2SBody => .ok 400
        | .legacyAddrError => .ok 400
        | .otherError => .ok 500
        | .ok => .ok 200

/-! ## registrar: `processBdReq`, `processC2SWrapper` -/

/-- `net.IP.To4` on the bytes a selector returned -/
def to4 (ip : Bytes) : Option Bytes :=
  if ip.length = 4 then some ip
  else if ip.length = 16 ∧ ip.take 10 = List.replicate 10 0 ∧ (ip.drop 10).take 2 = [0xff, 0xff] then some (ip.drop 12)
  else none

/-- `binary.BigEndian.Uint32(b)`: indexes `b[3]` first; a nil or short slice panics -/
def beUint32 (b : Option Bytes) : Outcome Nat :=
  match b with
  | none => .panic "index out of range"
  | some b =>
    match b[0]?, b[1]?, b[2]?, b[3]? with
    | some a0, some a1, some a2, some a3 => .ok (((a0.toNat * 256 + a1.toNat) * 256 + a2.toNat) * 256 + a3.toNat)
    | _, _, _, _ => .panic "index out of range"

/-- the part of a bidirectional request `processBdReq` branches on -/
structure BdReq where
  hasPayload : Bool
  keysOk : Bool                 -- `core.GenSharedKeys` succeeded
  v4 : Bool
  v6 : Bool
  /-- results of `ipSelector.Select`: an error or the address bytes -/
  select4 : Option Bytes
  select6 : Option Bytes
  transportKnown : Bool
  paramsOk : Bool               -- `ParseParams` succeeded
  overrideOk : Bool             -- `regOverrides.Override` succeeded (or was skipped)
  dstPortOk : Bool              -- `GetDstPort` succeeded (or the subnet does not randomise)
deriving Repr

inductive BdResult | response | errNoC2SBody | errOther
deriving Repr, DecidableEq

def processBdReq (r : BdReq) : Outcome BdResult :=
  if !r.hasPayload then .ok .errNoC2SBody
  else if !r.keysOk then .ok .errOther
  else
    let sel4 : Outcome Bool :=
      if r.v4 then
        match r.select4 with
        | none => .ok false
        | some ip => (beUint32 (to4 ip)).bind fun _ => .ok true
      else .ok true
    sel4.bind fun ok4 =>
    if !ok4 then .ok .errOther
    else if r.v6 ∧ r.select6.isNone then .ok .errOther
    else if !r.transportKnown then .ok .errOther
    else if !r.paramsOk then .ok .errOther
    else if !r.overrideOk then .ok .errOther
    else if !r.dstPortOk then .ok .errOther
    else .ok .response

/-! ### the registrar as a component: requests, reloads and the selector lock

`processBdReq` takes the read lock of `selectorMutex` to snapshot the selector; `ReloadSubnets` takes the
write lock. A read lock that a return path leaves held is invisible in that request's answer; it shows when
the next reload waits for ever and, behind the waiting writer, every later request. `holdAcrossSelect` is
the variant that releases the lock only below the two selections (their error returns then keep it);
the code under test is `false`: `RLock; selector := p.ipSelector; RUnlock`. -/

/-- `processBdReq` with the number of read locks it still holds when it returns -/
def processBdReqLocks (holdAcrossSelect : Bool) (r : BdReq) : Outcome BdResult × Nat :=
  if !r.hasPayload then (.ok .errNoC2SBody, 0)
  else if !r.keysOk then (.ok .errOther, 0)
  else
    -- RLock; snapshot; (RUnlock here unless holdAcrossSelect)
    let inSelect : Nat := if holdAcrossSelect then 1 else 0
    let sel4 : Outcome Bool :=
      if r.v4 then
        match r.select4 with
        | none => .ok false
        | some ip => (beUint32 (to4 ip)).bind fun _ => .ok true
      else .ok true
    match sel4 with
    | .ok false => (.ok .errOther, inSelect)            -- `return nil, err` inside the IPv4 block
    | .ok true =>
      if r.v6 ∧ r.select6.isNone then (.ok .errOther, inSelect)   -- … inside the IPv6 block
      else
        -- (RUnlock here when holdAcrossSelect)
        if !r.transportKnown then (.ok .errOther, 0)
        else if !r.paramsOk then (.ok .errOther, 0)
        else if !r.overrideOk then (.ok .errOther, 0)
        else if !r.dstPortOk then (.ok .errOther, 0)
        else (.ok .response, 0)
    | .err e => (.err e, inSelect)
    | .panic s => (.panic s, inSelect)
    | .hang => (.hang, inSelect)

/-- the registrar's lock state between operations: read locks that were leaked, and whether a writer is
waiting for them (it waits for ever: nobody is left to release them) -/
structure RegLock where
  readers : Nat := 0
  writerWaiting : Bool := false
deriving Repr, DecidableEq

inductive RegOp
  | request (r : BdReq)
  | reload
deriving Repr

inductive RegAnswer
  | answered (r : Outcome BdResult)
  | reloaded
  /-- the operation never returns -/
  | blocked
deriving Repr

/-- one operation, run to completion before the next starts (the harness' histories are sequential).
A request that never reaches `RLock` is answered even behind a waiting writer. -/
def regStep (hold : Bool) (s : RegLock) : RegOp → RegLock × RegAnswer
  | .reload =>
    if s.writerWaiting then (s, .blocked)               -- behind the writer that is already waiting
    else if s.readers > 0 then ({ s with writerWaiting := true }, .blocked)
    else (s, .reloaded)
  | .request r =>
    let reachesLock := r.hasPayload ∧ r.keysOk
    if s.writerWaiting ∧ reachesLock then (s, .blocked)  -- `RLock` queues behind a waiting writer
    else
      let (ans, leaked) := processBdReqLocks hold r
      ({ s with readers := s.readers + leaked }, .answered ans)

def regRun (hold : Bool) : RegLock → List RegOp → RegLock × List RegAnswer
  | s, [] => (s, [])
  | s, op :: rest =>
    let (s1, a) := regStep hold s op
    let (s2, as) := regRun hold s1 rest
    (s2, a :: as)

def RegAnswer.isBlocked : RegAnswer → Bool
  | .blocked => true
  | _ => false

/-! ### the liveness cache under the ingest workers: calls into the LRU list

`lruCache` (pkg/station/liveness/cache_lru.go) keeps a map under `lc.m` and an LRU list built with an
eviction callback that takes `lc.m.Lock()`. `sync.RWMutex` is not re-entrant: the callback, which runs in the
goroutine that called into the list, waits for every holder of the mutex — including that goroutine. -/

/-- what the calling goroutine itself holds of `lc.m` when it calls `lc.lru.Add` / `lc.lru.Remove` -/
inductive OwnHold | nothing | readLock | writeLock
deriving Repr, DecidableEq

/-- the eviction callback proceeds iff the goroutine running it does not hold the mutex itself (other
holders release it eventually; the goroutine cannot release what it holds while it waits) -/
def evictionProceeds : OwnHold → Bool
  | .nothing => true
  | _ => false

/-- a call into the list: it returns unless it evicts / removes an entry while the caller holds the mutex -/
def listCall (h : OwnHold) (evicts : Bool) : Outcome Unit :=
  if evicts ∧ !evictionProceeds h then .hang else .ok ()

/-- `processC2SWrapper`: nil wrapper and short secrets are errors; everything else is read through
nil-safe getters -/
def processC2SWrapper (wrapperPresent : Bool) (secretLen : Nat) (marshalOk : Bool) : Outcome Bool :=
  if !wrapperPresent then .ok false
  else if secretLen < 8 then .ok false
  else .ok marshalOk

/-! ## station: `parseRegMessage` / `NewRegistrationC2SWrapper` -/

structure ZmqMsg where
  unmarshalOk : Bool
  hasPayload : Bool
  v4Support : Bool              -- as the nil-safe getters answer: false when the payload is absent
  v6Support : Bool
  srcIsV4 : Bool                -- `sourceAddr.To4() != nil`
  /-- the registration response carries transport parameters and the client allows overrides -/
  rrOverridesParams : Bool
deriving Repr, DecidableEq

/-- the getters are consistent with the message they read -/
def ZmqMsg.consistent (m : ZmqMsg) : Prop := m.hasPayload = false → m.v4Support = false ∧ m.v6Support = false

/-- `NewRegistrationC2SWrapper` up to `NewRegistration` (which is given as an outcome): the one write
through the payload pointer, `c2s.TransportParams = rr.GetTransportParams()` -/
def newRegistrationC2SWrapper (m : ZmqMsg) (buildOk : Bool) : Outcome Bool :=
  if m.rrOverridesParams ∧ !m.hasPayload then .panic "nil pointer dereference"
  else .ok buildOk

/-- `parseRegMessage`: number of registrations created, or an error (`none`). A family whose
registration cannot be built is skipped; the message is an error only if a family failed and none was built. -/
def parseRegMessage (m : ZmqMsg) (enableV4 enableV6 build4Ok build6Ok : Bool) : Outcome (Option Nat) :=
  if !m.unmarshalOk then .ok none
  else
    let reg4 : Outcome (Option Bool) :=
      if m.v4Support ∧ enableV4 ∧ m.srcIsV4 then (newRegistrationC2SWrapper m build4Ok).bind fun ok => .ok (some ok)
      else .ok none
    reg4.bind fun r4 =>
      let reg6 : Outcome (Option Bool) :=
        if m.v6Support ∧ enableV6 then (newRegistrationC2SWrapper m build6Ok).bind fun ok => .ok (some ok)
        else .ok none
      reg6.bind fun r6 =>
        let built := (if r4 = some true then 1 else 0) + (if r6 = some true then 1 else 0)
        if built = 0 ∧ (r4 = some false ∨ r6 = some false) then .ok none
        else .ok (some built)

/-! ## extracted facts (tie 1) -/

/-- one field access through a protobuf sub-message pointer (`x.RegistrationPayload.Field`) in an
entry-point file, with the verdict of the extractor's syntactic guard analysis -/
structure DerefSite where
  file : String
  line : Nat
  expr : String
  guarded : Bool
deriving Repr, DecidableEq

/-! ## HTTP front end: `getRemoteAddr` (apiregserver.go), with Go's indexing as a partial operation

`clientIPHeaderNames` has one entry (`X-Forwarded-For`), so the `for … range` loop runs once and its
`break` is the end of the function. Everything `net` does is a parameter: `remote` is
`parseIP(r.RemoteAddr)` rendered as a string (`none` = the nil IP), `remoteIsLoopback` is
`ip.Equal(127.0.0.1) || ip.Equal(::1)`, `parse cand` is `net.ParseIP(strings.TrimSpace(cand))` rendered
as a string. What is *not* a parameter is the part that can panic: the three index expressions
`values[len(values)-1]`, `IPs[len(IPs)-1]`, `IPs[len(IPs)-2]` and the function that produces `IPs`. -/

/-- Go `l[i]` with an `int` index: out of range (negative, or `≥ len(l)`) is a run-time panic -/
def indexAt {α : Type} (l : List α) (i : Int) : Outcome α :=
  if i < 0 then .panic "index out of range"
  else match l[i.toNat]? with
    | some a => .ok a
    | none => .panic "index out of range"

/-- the loop of `strings.Split` for a one-byte separator: `cur` is the piece being read, reversed -/
def splitOnAux (sep : UInt8) : Bytes → Bytes → List Bytes
  | [], cur => [cur.reverse]
  | b :: rest, cur =>
    if b = sep then cur.reverse :: splitOnAux sep rest [] else splitOnAux sep rest (b :: cur)

/-- Go `strings.Split(value, sep)` for a one-byte separator: `n` separators give `n + 1` pieces (empty
ones included); the empty string gives ONE empty piece, never the empty slice -/
def splitOn (sep : UInt8) (value : Bytes) : List Bytes := splitOnAux sep value []

/-- the loop of `strings.FieldsFunc`: a piece ends at a separator, an empty piece is dropped -/
def fieldsOnAux (seps : List UInt8) : Bytes → Bytes → List Bytes
  | [], cur => if cur.isEmpty then [] else [cur.reverse]
  | b :: rest, cur =>
    if seps.contains b then
      (if cur.isEmpty then fieldsOnAux seps rest [] else cur.reverse :: fieldsOnAux seps rest [])
    else fieldsOnAux seps rest (b :: cur)

/-- Go `strings.FieldsFunc(value, func(r) bool { return r ∈ seps })`: the maximal runs of
non-separators — a string of separators only (or the empty string) gives the EMPTY slice. Not what
`getRemoteAddr` calls; it is here to show what the index expressions after `strings.Split` rely on. -/
def fieldsOn (seps : List UInt8) (value : Bytes) : List Bytes := fieldsOnAux seps value []

/-- `getRemoteAddr`, parametric in the function that cuts the header value into candidates -/
def getRemoteAddrWith (split : Bytes → List Bytes) (remote : Option String) (remoteIsLoopback : Bool)
    (values : List Bytes) (parse : Bytes → Option String) : Outcome (Option String) :=
  -- ip := parseIP(r.RemoteAddr); values := r.Header.Values("X-Forwarded-For")
  if values.length > 0 then
    -- value := values[len(values)-1]
    (indexAt values ((values.length : Int) - 1)).bind fun value =>
    -- IPs := strings.Split(value, ","); IP := IPs[len(IPs)-1]
    let IPs := split value
    (indexAt IPs ((IPs.length : Int) - 1)).bind fun last =>
    -- if len(IPs) > 1 && (ip.Equal(127.0.0.1) || ip.Equal(::1)) { IP = IPs[len(IPs)-2] }
    let chosen : Outcome Bytes :=
      if IPs.length > 1 ∧ remoteIsLoopback = true then indexAt IPs ((IPs.length : Int) - 2) else .ok last
    chosen.bind fun IP =>
    -- headerIP := net.ParseIP(strings.TrimSpace(IP)); if headerIP != nil { ip = headerIP; break }
    match parse IP with
    | some headerIP => .ok (some headerIP)
    | none => .ok remote
  else .ok remote

/-- `getRemoteAddr(r)`: the client address the handlers go on with (`none` = nil); 44 is the byte `,` -/
def getRemoteAddr (remote : Option String) (remoteIsLoopback : Bool) (values : List Bytes)
    (parse : Bytes → Option String) : Outcome (Option String) :=
  getRemoteAddrWith (splitOn 44) remote remoteIsLoopback values parse

/-- `register` from the request as it arrives: `clientAddr := getRemoteAddr(r)`, then the handler; the
field `remoteAddrOk` of `r` is overwritten with what `getRemoteAddr` found -/
def registerHttp (remote : Option String) (remoteIsLoopback : Bool) (values : List Bytes)
    (parse : Bytes → Option String) (r : HttpReq) (proc : ProcResult) : Outcome Nat :=
  (getRemoteAddr remote remoteIsLoopback values parse).bind fun ip =>
    register { r with remoteAddrOk := ip.isSome } proc

/-- `registerBidirectional` from the request as it arrives -/
def registerBidirectionalHttp (remote : Option String) (remoteIsLoopback : Bool) (values : List Bytes)
    (parse : Bytes → Option String) (r : HttpReq) (serverConfNewer : Bool) (proc : ProcResult) : Outcome Nat :=
  (getRemoteAddr remote remoteIsLoopback values parse).bind fun ip =>
    registerBidirectional { r with remoteAddrOk := ip.isSome } serverConfNewer proc

end CJ.Ingress
