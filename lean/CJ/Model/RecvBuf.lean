/-!
# Receive-side buffer ownership of `hbConn` (pkg/dtls/heartbeat.go: `recvLoop` / `Read`)

`recvLoop` reads every message of the stream into a buffer, drops heartbeats and hands the slice
`buffer[:n]` to the receive queue (`recvCh`, depth `recvChBufSize`); `Read` takes one queued slice and
copies it out.  The queue holds *references*: between the hand-over and the copy the bytes live in the
buffer object.  The model makes buffers objects (a heap `id → bytes`), the queue a list of
`(buffer id, length)`, and lets arrivals, hand-overs and reads interleave in any order.

* `Policy.fresh` — a new buffer per loop iteration (`buffer := make(…)` inside the loop body);
* `Policy.ring k` — a ring of `k` buffers advanced per handed-over message (seed C16-11).

Core Lean only.
-/
namespace CJ.RecvBuf

inductive Policy where
  | fresh
  | ring (k : Nat)
deriving DecidableEq, Repr

/-- the buffer the loop reads into, from (iterations so far, messages handed over so far) -/
def Policy.buf : Policy → Nat → Nat → Nat
  | .fresh, iter, _ => iter
  | .ring k, _, next => next % k

structure St where
  heap : Nat → List Nat
  iter : Nat
  next : Nat
  /-- a message the loop has read and is trying to send on the queue -/
  pending : Option (Nat × Nat)
  queue : List (Nat × Nat)
  /-- bytes the reader got so far -/
  out : List Nat
  /-- ghost: concatenation of the non-heartbeat messages the loop took from the stream -/
  taken : List Nat

def init : St := ⟨fun _ => [], 0, 0, none, [], [], []⟩

inductive Ev where
  /-- the loop is at `stream.Read(buffer)` and the stream delivers `m` -/
  | recv (m : List Nat)
  /-- the queue has room and accepts the pending slice -/
  | send
  /-- the reader takes one queued slice and copies it out -/
  | read
deriving Repr

/-- `stream.Read(buffer)`: the first `len m` bytes of the buffer are overwritten -/
def write (old m : List Nat) : List Nat := m ++ old.drop m.length

/-- the bytes a queued slice `buffer[:n]` denotes *now* -/
def content (h : Nat → List Nat) (p : Nat × Nat) : List Nat := (h p.1).take p.2

/-- one atomic step; an event that is not enabled leaves the state alone -/
def step (pol : Policy) (depth : Nat) (hb : List Nat) (s : St) : Ev → St
  | .recv m =>
    match s.pending with
    | some _ => s
    | none =>
      let b := pol.buf s.iter s.next
      let h' : Nat → List Nat := fun i => if i = b then write (s.heap b) m else s.heap i
      if m = hb then { s with heap := h', iter := s.iter + 1 }
      else { s with heap := h', iter := s.iter + 1, pending := some (b, m.length), taken := s.taken ++ m }
  | .send =>
    match s.pending with
    | none => s
    | some p =>
      if s.queue.length < depth then { s with queue := s.queue ++ [p], pending := none, next := s.next + 1 }
      else s
  | .read =>
    match s.queue with
    | [] => s
    | p :: q => { s with queue := q, out := s.out ++ content s.heap p }

def run (pol : Policy) (depth : Nat) (hb : List Nat) (s : St) (evs : List Ev) : St :=
  evs.foldl (step pol depth hb) s

def pend (s : St) : List Nat :=
  match s.pending with
  | none => []
  | some p => content s.heap p

/-- what is queued, as the reader would see it now -/
def queued (s : St) : List Nat := (s.queue.map (content s.heap)).flatten

/-- invariant of the fresh-buffer loop: every referenced buffer is older than the next allocation, and
    delivered ++ queued ++ pending is what was taken from the stream -/
def Inv (s : St) : Prop :=
  (∀ p ∈ s.queue, p.1 < s.iter) ∧ (∀ p, s.pending = some p → p.1 < s.iter) ∧
  s.out ++ (queued s ++ pend s) = s.taken

theorem write_take (old m : List Nat) : (write old m).take m.length = m := by
  simp [write]

theorem inv_init : Inv init := by
  refine ⟨?_, ?_, ?_⟩ <;> simp [init, queued, pend]

theorem queued_congr (h h' : Nat → List Nat) (q : List (Nat × Nat)) (b : Nat)
    (hq : ∀ p ∈ q, p.1 < b) (hh : ∀ i, i ≠ b → h' i = h i) :
    (q.map (content h')).flatten = (q.map (content h)).flatten := by
  congr 1
  apply List.map_congr_left
  intro p hp
  have : p.1 ≠ b := Nat.ne_of_lt (hq p hp)
  simp [content, hh p.1 this]

theorem inv_step (depth : Nat) (hb : List Nat) (s : St) (e : Ev) (hI : Inv s) :
    Inv (step .fresh depth hb s e) := by
  obtain ⟨hq, hp, hc⟩ := hI
  cases e with
  | recv m =>
    cases hpe : s.pending with
    | some p => simp only [step, hpe]; exact ⟨hq, hp, hc⟩
    | none =>
      have hh : ∀ i, i ≠ Policy.fresh.buf s.iter s.next →
          (fun i => if i = Policy.fresh.buf s.iter s.next
            then write (s.heap (Policy.fresh.buf s.iter s.next)) m else s.heap i) i = s.heap i := by
        intro i hi; simp [hi]
      have hqc := queued_congr s.heap _ s.queue (Policy.fresh.buf s.iter s.next) hq hh
      have hpend : pend s = [] := by simp [pend, hpe]
      by_cases hm : m = hb
      · simp only [step, hpe, hm, if_true]
        refine ⟨fun p h => Nat.lt_succ_of_lt (hq p h), ?_, ?_⟩
        · intro p h; simp at h
        · simp only [queued, pend, hpe] at hc ⊢
          subst hm
          rw [hqc]; exact hc
      · simp only [step, hpe, hm, if_false]
        refine ⟨fun p h => Nat.lt_succ_of_lt (hq p h), ?_, ?_⟩
        · intro p h; simp at h; subst h; exact Nat.lt_succ_self _
        · simp only [queued, pend, hpe] at hc ⊢
          rw [hqc]
          rw [← hc]; simp [content, write_take]
  | send =>
    cases hpe : s.pending with
    | none => simp only [step, hpe]; exact ⟨hq, hp, hc⟩
    | some p =>
      by_cases hd : s.queue.length < depth
      · simp only [step, hpe, hd, if_true]
        refine ⟨?_, ?_, ?_⟩
        · intro p' h
          rcases List.mem_append.mp h with h | h
          · exact hq p' h
          · simp at h; subst h; exact hp _ hpe
        · intro p' h; simp at h
        · simp only [queued, pend, hpe] at hc ⊢
          rw [← hc]; simp
      · simp only [step, hpe, hd, if_false]; exact ⟨hq, hp, hc⟩
  | read =>
    cases hqe : s.queue with
    | nil => simp only [step, hqe]; exact ⟨hq, hp, hc⟩
    | cons p q =>
      simp only [step, hqe]
      refine ⟨?_, ?_, ?_⟩
      · intro p' h; exact hq p' (by rw [hqe]; exact List.mem_cons_of_mem _ h)
      · exact hp
      · simp only [queued, pend, hqe] at hc ⊢
        rw [← hc]; simp

theorem inv_run (depth : Nat) (hb : List Nat) (evs : List Ev) (s : St) (hI : Inv s) :
    Inv (run .fresh depth hb s evs) := by
  induction evs generalizing s with
  | nil => exact hI
  | cons e es ih => exact ih _ (inv_step depth hb s e hI)

/-- the ghost is what it is called: `taken` only grows, by exactly the non-heartbeat message of an enabled `recv` -/
theorem taken_step (pol : Policy) (depth : Nat) (hb : List Nat) (s : St) (e : Ev) :
    (step pol depth hb s e).taken =
      match e with
      | .recv m => if s.pending.isNone ∧ m ≠ hb then s.taken ++ m else s.taken
      | _ => s.taken := by
  cases e with
  | recv m =>
    cases hpe : s.pending with
    | some p => simp [step, hpe]
    | none => by_cases hm : m = hb <;> simp [step, hpe, hm]
  | send =>
    cases hpe : s.pending with
    | none => simp [step, hpe]
    | some p => by_cases hd : s.queue.length < depth <;> simp [step, hpe, hd]
  | read =>
    cases hqe : s.queue with
    | nil => simp [step, hqe]
    | cons p q => simp [step, hqe]

/-- the lagging-reader script: `k` messages `[1] … [k]` handed over and unread, message `[0]` arrives, one read -/
def lagScript (k : Nat) : List Ev :=
  (List.range k).flatMap (fun i => [Ev.recv [i + 1], Ev.send]) ++ [Ev.recv [0], Ev.read]

end CJ.RecvBuf
