/-!
# The request path of the API registrar beyond the locks (C13)

pkg/regserver/apiregserver/apiregserver.go: `registerBidirectional`, `register`, `getC2SFromReq`,
`compareClientConfGen`; pkg/regserver/regprocessor/regprocessor.go: `RegisterBidirectional`,
`RegisterUnidirectional` and the part of `processBdReq` / `processC2SWrapper` that decides *whether* and *from
which selector* a request is answered (which fields the answer carries beyond the two addresses - port,
transport parameters, overrides - is `CJ/Model/Registrar.lean`, property C12, and is not repeated here).

What "the registrar keeps answering" means for one request: the handler ends in exactly one HTTP status; the
status is 200 (bidirectional) / 204 (unidirectional) iff the processor returned no error, and then the
registration was published to the stations and the body carries an address for every family asked for, all
taken from ONE selector - the snapshot `processBdReq` takes under the read lock - however many reloads install
other selectors while the request runs; an error in either family leaves no partial response and nothing
published; every processor error maps to one definite status (400 for what the client can repair, 500
otherwise), never to a success status.

Parameters (supplied by the harness from the real code / its stand-ins): whether the remote address parses,
whether the body decodes (protobuf), what the selector answers per family *given the generation it knows*
(`SelOut`: the selector is the harness's scripted one; its contract is "the answer depends only on the selector
asked and the arguments"), whether the transport is known / parses its parameters, whether the send succeeds.
-/
namespace CJ.BdReq

/-- the errors `RegisterBidirectional` / `RegisterUnidirectional` can return, as far as the handlers tell them apart -/
inductive PErr
  | noBody          -- regprocessor.ErrNoC2SBody
  | legacyMissing   -- phantoms.ErrLegacyMissingAddrs
  | legacyV0        -- phantoms.ErrLegacyV0SelectionBug
  | legacyAddrSel   -- phantoms.ErrLegacyAddrSelectBug
  | procFailed      -- regprocessor.ErrRegProcessFailed (the send failed)
  | secret          -- regprocessor.ErrSharedSecret
  | other           -- any other error value (unknown generation, unknown transport, parameters, ...)
deriving DecidableEq, Repr, Inhabited

def PErr.all : List PErr := [.noBody, .legacyMissing, .legacyV0, .legacyAddrSel, .procFailed, .secret, .other]

/-- the `switch err` of `registerBidirectional` -/
def errStatus : PErr → Nat
  | .noBody => 400
  | .legacyMissing => 400
  | .legacyV0 => 400
  | .legacyAddrSel => 400
  | _ => 500

/-- `register` (unidirectional): every error is a 500 -/
def errStatusUni : PErr → Nat := fun _ => 500

/-- what the scripted selector does for one family once the generation is one it knows -/
inductive SelOut | ok | err (e : PErr)
deriving DecidableEq, Repr, Inhabited

/-- a phantom selector: its version (which subnet file it was built from) and the generations it knows -/
structure Snap where
  ver : Nat
  gens : List Nat
deriving DecidableEq, Repr, Inhabited

/-- `Select` on selector `s`: an unknown generation is an (unnamed) error, otherwise the scripted outcome; a
successful selection yields an address of that selector (only its version is kept) -/
def select (s : Snap) (gen : Nat) (o : SelOut) : Except PErr Nat :=
  if s.gens.contains gen then (match o with | .ok => .ok s.ver | .err e => .error e) else .error .other

/-- the selectors installed in the processor at the three instants of a bidirectional request: when the snapshot
is taken, when the first and when the second selection runs (reloads may have completed in between) -/
structure Timeline where
  atSnap : Snap
  atSel1 : Snap
  atSel2 : Snap
deriving DecidableEq, Repr, Inhabited

structure Req where
  bidi : Bool            -- /register-bidirectional or /register
  addr : Bool            -- getRemoteAddr found an address
  post : Bool            -- r.Method == "POST"
  clen : Nat             -- r.ContentLength
  decodes : Bool         -- proto.Unmarshal of the body succeeds
  payload : Bool         -- the wrapper has a RegistrationPayload
  gen : Nat              -- DecoyListGeneration of the client
  v4 : Bool
  v6 : Bool
  sel4 : SelOut
  sel6 : SelOut
  transport : Bool       -- p.transports has the transport
  params : Bool          -- ParseParams accepts the parameters
  secretLen : Nat        -- len(SharedSecret)
  send : Bool            -- the zmq send succeeds
deriving DecidableEq, Repr, Inhabited

/-- `MinimumRequestLength = SecretLength + 1` -/
def minLen : Nat := 33
/-- `RegIDLen / 2` -/
def minSecret : Nat := 8

/-- the two addresses of a response, each as the version of the selector it was taken from, and the ClientConf
generation attached for an outdated client -/
structure Resp where
  v4 : Option Nat := none
  v6 : Option Nat := none
  cc : Option Nat := none
deriving DecidableEq, Repr, Inhabited

/-- one call of `Select` as the selector saw it: family (v6?), generation asked, version of the selector asked -/
structure Ask where
  v6 : Bool
  gen : Nat
  ver : Nat
deriving DecidableEq, Repr, Inhabited

/-- result of the processor: the response or the error, the selections it performed, whether it published -/
structure POut where
  res : Except PErr Resp
  asked : List Ask
  sent : Bool

/-- one family of `processBdReq`: nothing if the client does not support it, otherwise `Select` on `s` -/
def selFam (want : Bool) (s : Snap) (gen : Nat) (o : SelOut) : Except PErr (Option Nat) :=
  if want then (match select s gen o with | .ok v => .ok (some v) | .error e => .error e) else .ok none

/-- the call the selector sees for one family -/
def asks (v6 want : Bool) (gen : Nat) (s : Snap) : List Ask := if want then [⟨v6, gen, s.ver⟩] else []

/-- what can still fail once the addresses are selected: the transport lookup and `ParseParams` (`processBdReq`),
the length of the secret (`processC2SWrapper`), the send (`sendToZMQ`) - in the order of the code -/
def tail (r : Req) : Option PErr :=
  if !r.transport then some .other
  else if !r.params then some .other
  else if r.secretLen < minSecret then some .secret
  else if !r.send then some .procFailed
  else none

/-- `RegisterBidirectional` with generation `gen` (the one the handler left in the payload): `processBdReq`
(payload check, snapshot, selection per family, transport, parameters), then `processC2SWrapper` (secret
length), then the send.  `pick` says which selector of the timeline each of the two selections goes to: the code
as it is uses the snapshot for both (`snapshotPick`). -/
def procBdWith (pick : Timeline → Snap × Snap) (tl : Timeline) (r : Req) (gen : Nat) : POut :=
  if !r.payload then ⟨.error .noBody, [], false⟩ else
  let a4 := asks false r.v4 gen (pick tl).1
  match selFam r.v4 (pick tl).1 gen r.sel4 with
  | .error e => ⟨.error e, a4, false⟩
  | .ok x4 =>
    let asked := a4 ++ asks true r.v6 gen (pick tl).2
    match selFam r.v6 (pick tl).2 gen r.sel6 with
    | .error e => ⟨.error e, asked, false⟩
    | .ok x6 =>
      match tail r with
      | some e => ⟨.error e, asked, false⟩
      | none => ⟨.ok { v4 := x4, v6 := x6 }, asked, true⟩

/-- the code: both selections on the snapshot -/
def snapshotPick (tl : Timeline) : Snap × Snap := (tl.atSnap, tl.atSnap)
/-- the variant that reads `p.ipSelector` again for each selection (what the code did before the snapshot) -/
def rereadPick (tl : Timeline) : Snap × Snap := (tl.atSel1, tl.atSel2)

def procBd := procBdWith snapshotPick

/-- `RegisterUnidirectional`: `processC2SWrapper` (secret length), then the send; nothing is selected -/
def tailUni (r : Req) : Option PErr :=
  if r.secretLen < minSecret then some .secret
  else if !r.send then some .procFailed
  else none

def procUni (r : Req) : POut :=
  match tailUni r with
  | some e => ⟨.error e, [], false⟩
  | none => ⟨.ok {}, [], true⟩

/-- what the client and the stations see of one request -/
structure Ans where
  status : Nat
  body : Option Resp     -- the decoded RegistrationResponse of the HTTP body, if there is one
  called : Bool          -- the processor was called
  asked : List Ask
  sent : Bool
deriving DecidableEq, Repr, Inhabited

def refuse (st : Nat) : Ans := ⟨st, none, false, [], false⟩

/-- `compareClientConfGen`: the server's ClientConf generation if the client's is below it -/
def outdated (cc : Option Nat) (gen : Nat) : Option Nat :=
  match cc with
  | none => none
  | some g => if gen ≥ g then none else some g

/-- the generation the processor is called with:
`payload.RegistrationPayload.DecoyListGeneration = serverClientConf.Generation` for an outdated client -/
def effGen (cc : Option Nat) (gen : Nat) : Nat :=
  match outdated cc gen with | some g => g | none => gen

/-- `getC2SFromReq` after the address check, shared by both handlers: the status that ends the request, if any -/
def front (r : Req) : Option Nat :=
  if !r.addr then some 400
  else if !r.post then some 405
  else if r.clen < minLen then some 400
  else if !r.decodes then some 400
  else none

/-- `registerBidirectional` -/
def apiBdWith (pick : Timeline → Snap × Snap) (cc : Option Nat) (tl : Timeline) (r : Req) : Ans :=
  match front r with
  | some st => refuse st
  | none =>
    if !r.payload then refuse 400 else
    let upd := outdated cc r.gen
    let o := procBdWith pick tl r (effGen cc r.gen)
    match o.res with
    | .error e => ⟨errStatus e, none, true, o.asked, o.sent⟩
    | .ok resp => ⟨200, some { resp with cc := upd }, true, o.asked, o.sent⟩

def apiBd := apiBdWith snapshotPick

/-- `register` -/
def apiUni (r : Req) : Ans :=
  match front r with
  | some st => refuse st
  | none =>
    let o := procUni r
    match o.res with
    | .error e => ⟨errStatusUni e, none, true, o.asked, o.sent⟩
    | .ok _ => ⟨204, none, true, o.asked, o.sent⟩

def api (cc : Option Nat) (tl : Timeline) (r : Req) : Ans :=
  if r.bidi then apiBd cc tl r else apiUni r

/-- the success status of the entry point -/
def okStatus (r : Req) : Nat := if r.bidi then 200 else 204

end CJ.BdReq
