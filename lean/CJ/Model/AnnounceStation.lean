import CJ.Model.Announce
/-!
# The station around the history model: ingest pipeline, shutdown, and the channel's availability (C10)

`CJ.Announce.step` runs a registry event and hands the closure's message straight to the detector.
Three things of the real station sit in between and matter for the last clause of C10 ("the clear request
… so a restarted station does not inherit diversions it knows nothing about"):

* **the ingest pipeline** (`HandleRegUpdates` / `startIngestThread`): a worker takes a message, tracks the
  registration, then waits in the covert resolver / the liveness probe (`begin`: the ingest is *parked*)
  and only later validates and announces it (`finish`);
* **the shutdown sequence of `main`**: `cancel(); wg.Wait()` (`stop`) and then the deferred `Cleanup()`
  (`cleanup`: the Clear).  Whether `stop` returns only after the parked ingests are through depends on
  whether they run *inside* the goroutines the wait groups count — the parameter `sync`, tied to the source
  by go/ast facts (`CJ.Gen.C10.asyncIngestCalls`, `workersCounted`, `mainWaitsForPipeline`);
* **the channel** (the Redis server between station and detector): a publication is delivered iff the
  server is reachable at that moment (`up`).  There is no other state: the client redials on every
  command, so an outage at the first access, or any earlier failed publication, has no effect later.

`log` is what reached the channel, in order.
-/
namespace CJ.Announce
open CJ.Registry (Key Cfg St TO Out)
open CJ.Detector (Map S2D)

inductive Msg
  | ann (k : Key) (kind : Kind)
  | clear
deriving DecidableEq, Repr

/-- an ingest between `TrackRegistration` and `AddRegistration` -/
structure Parked where
  k : Key
  tr : Nat
deriving DecidableEq, Repr

structure SParams where
  P : Params
  clear : S2D     -- the message `clearDetector` builds
  sync : Bool     -- ingests run inside the goroutines counted by the wait groups `main` waits on

structure Station where
  sys : Sys := {}
  parked : List Parked := []
  stopped : Bool := false   -- `cancel()` was called: the workers take no further message
  up : Bool := true         -- the channel is reachable
  log : List Msg := []      -- messages that reached the channel, oldest first
  lost : Nat := 0           -- publications attempted while the channel was unreachable

inductive SOp
  | op (o : HOp)                                -- an event of the history model (ingest in one piece, MarkActive, sweeps)
  | begin (k : Key) (tr now : Nat)              -- a worker takes a message: ingest up to its probe
  | finish (k : Key) (now : Nat) (passes : Bool)  -- the probe of the parked ingest of `k` returns
  | stop (now : Nat) (outcomes : List Bool)     -- `cancel(); wg.Wait()`; outcomes of the probes still running
  | cleanup (now : Nat)                         -- `Cleanup()`: the clear request
  | chanUp
  | chanDown
deriving Repr

def Msg.s2d (Q : SParams) : Msg → S2D
  | .ann k kind => Q.P.msg k kind
  | .clear => Q.clear

/-- `client.Publish`: delivered (and handled by the detector at once) iff the channel is reachable now -/
def publish (Q : SParams) (now : Nat) (st : Station) (m : Msg) : Station :=
  if st.up then
    { st with sys := { st.sys with det := CJ.Detector.handle now st.sys.det (m.s2d Q) }, log := st.log ++ [m] }
  else { st with lost := st.lost + 1 }

/-- a closure call goes through the channel -/
def viaChannel (Q : SParams) (now : Nat) (st : Station) : Option (Key × Kind) → Station
  | some (k, kind) => publish Q now st (.ann k kind)
  | none => st

/-- the detector's own sweep -/
def afterSweep (st : Station) : HOp → Station
  | .dsweep now => { st with sys := { st.sys with det := CJ.Detector.dropStale now st.sys.det } }
  | _ => st

def withReg (st : Station) (s : St) : Station := { st with sys := { st.sys with reg := s } }

/-- a registry event with its closure call going through the channel -/
def regEvent (Q : SParams) (c : Cfg) (st : Station) (o : HOp) : Station :=
  afterSweep (viaChannel Q o.time (withReg st (regStep c st.sys.reg o).1) (emitted o (regStep c st.sys.reg o).2)) o

/-- events that only the ingest workers perform -/
def HOp.viaPipeline : HOp → Bool
  | .track _ _ _ => true
  | .register _ _ _ => true
  | .ingest _ _ _ _ => true
  | _ => false

/-- `wg.Wait()` with synchronous ingests: every parked ingest runs to its end first (probe outcome
`outcomes[i]`, passing if the list is short) -/
def completeAll (Q : SParams) (c : Cfg) (now : Nat) (st : Station) (outcomes : List Bool) : Station :=
  (st.parked.zipIdx).foldl
    (fun s pi => if outcomes.getD pi.2 true then regEvent Q c s (.register pi.1.k pi.1.tr now) else s)
    { st with parked := [] }

def sstep (Q : SParams) (c : Cfg) (st : Station) : SOp → Station
  | .op o => if st.stopped && o.viaPipeline then st else regEvent Q c st o
  | .begin k tr now =>
    if st.stopped then st
    else if !c.enabled.contains tr then st
    else if st.sys.reg.decoys.contains k then regEvent Q c st (.track k tr now)
    else { regEvent Q c st (.track k tr now) with parked := st.parked ++ [⟨k, tr⟩] }
  | .finish k now passes =>
    match st.parked.find? (fun p => p.k == k) with
    | none => st
    | some p =>
      let st1 : Station := { st with parked := st.parked.erase p }
      if passes then regEvent Q c st1 (.register p.k p.tr now) else st1
  | .stop now outcomes =>
    let st1 : Station := { st with stopped := true }
    if Q.sync then completeAll Q c now st1 outcomes else st1
  | .cleanup now => publish Q now st .clear
  | .chanUp => { st with up := true }
  | .chanDown => { st with up := false }

def srun (Q : SParams) (c : Cfg) (evs : List SOp) (st : Station := {}) : Station :=
  evs.foldl (sstep Q c) st

/-- reachability of the channel after a sequence of events: the last `chanUp` / `chanDown`, nothing else -/
def avail (up : Bool) : List SOp → Bool
  | [] => up
  | .chanUp :: es => avail true es
  | .chanDown :: es => avail false es
  | _ :: es => avail up es

/-- events after which nothing may reach the channel once the station has stopped and cleared: whatever
the pipeline, the sweepers and the channel do.  (`MarkActive` is not among them: connection handlers are
not waited for by `main`; a second `cleanup` publishes a second Clear.) -/
def SOp.quiet : SOp → Bool
  | .op (.markActive _ _ _) => false
  | .cleanup _ => false
  | _ => true

end CJ.Announce
