import CJ.Model.NetAddr
import CJ.Model.Registrar
/-!
# The text of the subnet configuration (C12)

What an operator configures is text: the `cidr` strings of `[[override_subnet]]` and
`[[excluded_subnet_from_overrides]]`.  `Ipnet.UnmarshalText` (called by the TOML decoder) turns each into a
`*net.IPNet` with `net.ParseCIDR`, and `getRandUint32IPv4` later reads two things off that value:
`ipv4ToUint32(ipNet.IP)` (the base the random offset is added to) and `bits - ones` of `ipNet.Mask.Size()`
(the number of host bits).  This module mirrors that path on top of `CJ.NetAddr.parseCIDR` and produces the
`Registrar.Subnet` the registrar model works with; `written` is the specification side: the address and the
host-bit count *as written*, by arithmetic on the text alone (no masking).

Core Lean only.
-/
namespace CJ.OverrideCidr
open CJ.NetAddr CJ.Registrar

/-- `Ipnet.UnmarshalText`: `_, cidr, err := net.ParseCIDR(string(text)); n.IPNet = cidr` -/
def unmarshalText (s : Str) : Option IPNet := parseCIDR s

/-- `binary.BigEndian.Uint32` of a 4-byte address -/
def num4 : List Nat → Nat
  | [a, b, c, d] => ((a * 256 + b) * 256 + c) * 256 + d
  | _ => 0

/-- leading ones of the first byte of a mask that is not `0xff` (`simpleMaskLength`'s inner loop); `none` =
not of the form 1…10…0 -/
def byteOnes (b : Nat) : Option Nat :=
  if b == 254 then some 7 else if b == 252 then some 6 else if b == 248 then some 5 else if b == 240 then some 4
  else if b == 224 then some 3 else if b == 192 then some 2 else if b == 128 then some 1 else if b == 0 then some 0
  else none

/-- `simpleMaskLength`: `none` = -1 -/
def simpleMaskLength : List Nat → Option Nat
  | [] => some 0
  | b :: rest =>
    if b == 255 then (simpleMaskLength rest).map (· + 8)
    else match byteOnes b with
      | none => none
      | some n => if rest.all (· == 0) then some n else none

/-- `IPMask.Size()`: `(ones, bits)`, `(0, 0)` for a mask not in canonical form -/
def maskSize (m : List Nat) : Nat × Nat :=
  match simpleMaskLength m with
  | some n => (n, 8 * m.length)
  | none => (0, 0)

/-- what `getRandUint32IPv4` reads off the network: is `ipNet.IP` an IPv4 address (`ipv4ToUint32` succeeds),
its number, and `bits - ones` (the shift count of `hosts := uint32(1 << uint32(bits-ones))`) -/
def drawFields (n : IPNet) : Bool × Nat × Nat :=
  let (ones, bits) := maskSize n.mask
  match to4 n.ip with
  | some b => (true, num4 b, bits - ones)
  | none => (false, 0, bits - ones)

/-- the configured entry as the registrar model sees it.  `Registrar.Subnet.hosts = 2 ^ (32 - ones)`; the
model's `ones` is therefore `32 - (bits - ones)`: the prefix length of an IPv4 network, the prefix length
minus 96 of an IPv4-mapped one (the same number of host bits, and `IPNet.Contains` of an IPv4 address cuts a
16-byte mask to its last 4 bytes).  A network with 32 host bits and an IPv4 base (`/0`, mapped `/96`) has
`ones = 0`, `hosts = 2^32`: the code counts the hosts in a `big.Int` (the `uint32` count it used before wrapped to 0
and made `crypto/rand.Int` panic; repaired, `CJ.Props.C12Cidr.full_range_substitute`). -/
def toSubnet (n : IPNet) (weight port : Nat) (pfx : Option (Int × String × Int)) (label : TLabel) : Subnet :=
  let (v4, base, hb) := drawFields n
  { isV4 := v4, base := base, ones := 32 - hb, weight := weight, port := port, pfx := pfx, label := label }

/-- one entry of the configuration file: text → model entry; `none` = the decoder refuses the file -/
def entry (text : Str) (weight port : Nat) (pfx : Option (Int × String × Int)) (label : TLabel) : Option Subnet :=
  (unmarshalText text).map fun n => toSubnet n weight port pfx label

/-! ## specification side: the network as written -/

/-- four bytes -/
def IsBytes4 (b : List Nat) : Prop := ∃ b0 b1 b2 b3, b = [b0, b1, b2, b3] ∧ b0 < 256 ∧ b1 < 256 ∧ b2 < 256 ∧ b3 < 256

/-- the IPv4 address written in the text (not masked) and the number of host bits `k` the written prefix
length leaves: the configured subnet is `{a | a / 2^k = A / 2^k}`.  IPv4 text `a.b.c.d/n`: `(A, 32 - n)`;
IPv4-mapped text `::ffff:a.b.c.d/n` with `n ≥ 96`: `(A, 128 - n)`.  `none`: the text designates no set of
IPv4 addresses. -/
def written (s : Str) : Option (Nat × Nat) :=
  match cut '/' s with
  | (_, none) => none
  | (addr, some mask) =>
    match parseAddr addr, dtoiAll mask 0 false with
    | some (.v4 b), some n => if n ≤ 32 then some (num4 b, 32 - n) else none
    | some (.v6 b z), some n =>
      -- (16 bytes below 256: what `parseIPv6` always yields; spelled out so that the theorems need no
      -- invariant of the IPv6 group loop)
      if z.isEmpty && b.length == 16 && b.all (· < 256) && b.take 12 == v4InV6Prefix && decide (96 ≤ n) && decide (n ≤ 128)
      then some (num4 (b.drop 12), 128 - n) else none
    | _, _ => none

/-- the address `a` lies in the subnet the text designates -/
def InWritten (s : Str) (a : Nat) : Prop := ∃ A k, written s = some (A, k) ∧ a / 2 ^ k = A / 2 ^ k

end CJ.OverrideCidr
