/-!
# The process-wide byte counters of `Stat()` (pkg/station/lib/stats.go, fed by `halfPipe`)

```go
nw, ew := dst.Write(buf[:toWrite])
stats.addBytes(int64(nw), isUpload)
if isUpload { Stat().AddBytesUp(int64(nw)) } else { Stat().AddBytesDown(int64(nw)) }   // atomic.AddInt64
…
func (s *Stats) Reset() { …; atomic.StoreInt64(&s.newBytesUp, 0); atomic.StoreInt64(&s.newBytesDown, 0) }
```

Every relay direction of every session adds the number of bytes its `Write` delivered to one of two process-wide
counters; the statistics loop prints and zeroes them (`PrintStats` → `Reset`) at moments of its own.  A history is
any interleaving of the chunks of any number of sessions with epoch boundaries; the adds are atomic, so a
concurrent execution is one such sequence.
-/
namespace CJ.ByteCounters

inductive Ev
  | chunk (sess : Nat) (up : Bool) (n : Nat)   -- a `Write` of session `sess` delivered `n` bytes in direction `up`
  | reset                                      -- `Stats.Reset()` (also the end of `PrintStats(false)`)
deriving DecidableEq, Repr

structure Ctr where
  up : Nat := 0                                -- newBytesUp
  down : Nat := 0                              -- newBytesDown
deriving DecidableEq, Repr

def Ctr.get (c : Ctr) (up : Bool) : Nat := if up then c.up else c.down
def Ctr.add (c : Ctr) (up : Bool) (n : Nat) : Ctr :=
  if up then { c with up := c.up + n } else { c with down := c.down + n }

structure St where
  cur : Ctr := {}                              -- the two counters now
  closed : List Ctr := []                      -- what each epoch boundary printed and discarded, oldest first
deriving Repr

def step (s : St) : Ev → St
  | .chunk _ up n => { s with cur := s.cur.add up n }
  | .reset => { cur := {}, closed := s.closed ++ [s.cur] }

def runFrom (s : St) (evs : List Ev) : St := evs.foldl step s
def run (evs : List Ev) : St := runFrom {} evs

/-- everything the closed epochs and the current one hold for a direction -/
def St.total (s : St) (up : Bool) : Nat := (s.closed.map (·.get up)).sum + s.cur.get up

/-- bytes an event delivers in direction `up` -/
def amt (up : Bool) : Ev → Nat
  | .chunk _ u n => if u = up then n else 0
  | .reset => 0

/-- … for session `s` only -/
def sessAmt (s : Nat) (up : Bool) : Ev → Nat
  | .chunk s' u n => if s' = s ∧ u = up then n else 0
  | .reset => 0

/-- bytes delivered in direction `up` by all sessions / by session `s` in a history -/
def delivered (up : Bool) (evs : List Ev) : Nat := (evs.map (amt up)).sum
def sessDelivered (s : Nat) (up : Bool) (evs : List Ev) : Nat := (evs.map (sessAmt s up)).sum

def noReset (evs : List Ev) : Prop := ∀ e ∈ evs, e ≠ .reset

/-- the sessions that appear in a history -/
def sessOf : Ev → Option Nat
  | .chunk s _ _ => some s
  | .reset => none

end CJ.ByteCounters
