import CJ.Model.Ingress
/-!
# The three message entry points of C11 at field level (protobuf inputs, decoded outputs)

`CJ/Model/Ingress.lean` has the *decisions* of `processBdReq`, `processC2SWrapper` and `parseRegMessage`
(which exit they take). Here they are modelled on the fields of the protobuf message as the real getters
answer them, with the value they produce, so that the harness can run the real function and the model on
the same generated (structured and malformed) messages and compare accept / reject **and** the decoded
result:

* regprocessor.go `processC2SWrapper`: the wrapper forwarded to the stations (source, address, secret,
  which sub-messages, whether the response was signed); `ed25519.Sign` is a partial operation (it panics
  on a private key that is not 64 bytes long);
* regprocessor.go `processBdReq`: the two addresses of the response (`binary.BigEndian.Uint32(phantom4.To4())`
  is the partial operation);
* registration_ingest.go `parseRegMessage` / `NewRegistrationC2SWrapper`: the registrations that come out
  of one ZMQ message — phantom address (derived or overridden by the registration response, with the
  family checks on `net.IP.To4` / `To16` of byte strings of ANY length), destination port
  (`uint16(dstPort)`), and the write through the payload pointer as the partial operation.

Parameters (computed by the real code, passed on the case line): whether `proto.Unmarshal` / `proto.Marshal`
succeed, `core.GenSharedKeys`, what the selector answers, `ParseParams` / `Override` / `GetDstPort`,
what `NewRegistration` builds, the GeoIP lookups.
-/
namespace CJ.IngressMsg
open CJ.Codec CJ.Ingress

/-! ## `net.IP` on byte strings of any length -/

/-- `len(ip) == 4 || len(ip) == 16`: exactly when `ip.To16() != nil` -/
def isIPLen (ip : Bytes) : Bool := ip.length == 4 || ip.length == 16

/-- `ip.To4() != nil` -/
def isV4 (ip : Bytes) : Bool := (to4 ip).isSome

/-- `binary.BigEndian.PutUint32(b, a)` on a fresh 4-byte slice -/
def be32 (a : Nat) : Bytes :=
  [UInt8.ofNat (a / 16777216 % 256), UInt8.ofNat (a / 65536 % 256), UInt8.ofNat (a / 256 % 256), UInt8.ofNat (a % 256)]

def zeros16 : Bytes := List.replicate 16 0

/-! ## `processC2SWrapper` -/

/-- the wrapper as the nil-safe getters answer -/
structure Wrapper where
  secret : Bytes
  /-- `GetRegistrationSource()`; 0 = `Unspecified`, also when the field is absent -/
  source : Nat
  /-- `GetRegistrationAddress()`; `none` = nil -/
  addr : Option Bytes
  hasPayload : Bool
  hasResponse : Bool
deriving Repr, DecidableEq

inductive C2SErr | noBody | secret | marshal
deriving Repr, DecidableEq

/-- what the stations receive -/
structure Forward where
  source : Nat
  addr : Option Bytes
  secret : Bytes
  hasPayload : Bool
  hasResponse : Bool
  signed : Bool
deriving Repr, DecidableEq

/-- `RegIDLen / 2` -/
def minSecret : Nat := 8

/-- `ed25519.Sign(priv, msg)`: "ed25519: bad private key length" -/
def sign (privkeyLen : Nat) : Outcome Unit :=
  if privkeyLen = 64 then .ok () else .panic "ed25519: bad private key length"

/-- `processC2SWrapper(c2sPayload, clientAddr, regMethod)` -/
def processC2SWrapper (w : Option Wrapper) (clientAddr : Option Bytes) (regMethod : Nat)
    (authenticated : Bool) (privkeyLen : Nat) (rrMarshalOk marshalOk : Bool) : Outcome (Except C2SErr Forward) :=
  match w with
  | none => .ok (.error .noBody)
  | some w =>
    if w.secret.length < minSecret then .ok (.error .secret)
    else
      let source := if w.source = 0 then regMethod else w.source
      let addr := if (w.addr.isNone ∨ w.source = regMethod) ∧ clientAddr.isSome then clientAddr else w.addr
      let signed : Outcome (Option Bool) :=
        if authenticated ∧ w.hasResponse then
          if !rrMarshalOk then .ok none
          else (sign privkeyLen).bind fun _ => .ok (some true)
        else .ok (some false)
      signed.bind fun
        | none => .ok (.error .marshal)
        | some s =>
          if !marshalOk then .ok (.error .marshal)
          else .ok (.ok ⟨source, addr, w.secret, w.hasPayload, w.hasResponse, s⟩)

/-! ## `processBdReq`: the addresses of the response -/

/-- `processBdReq` with the `Ipv4Addr` / `Ipv6Addr` it puts into the response (subnet overrides not enforced) -/
def processBdReqAddrs (r : BdReq) : Outcome (Except BdResult (Option Nat × Option Bytes)) :=
  if !r.hasPayload then .ok (.error .errNoC2SBody)
  else if !r.keysOk then .ok (.error .errOther)
  else
    let sel4 : Outcome (Option (Option Nat)) :=
      if r.v4 then
        match r.select4 with
        | none => .ok none
        | some ip => (beUint32 (to4 ip)).bind fun a => .ok (some (some a))
      else .ok (some none)
    sel4.bind fun
      | none => .ok (.error .errOther)
      | some a4 =>
        if r.v6 ∧ r.select6.isNone then .ok (.error .errOther)
        else if !r.transportKnown then .ok (.error .errOther)
        else if !r.paramsOk then .ok (.error .errOther)
        else if !r.overrideOk then .ok (.error .errOther)
        else if !r.dstPortOk then .ok (.error .errOther)
        else .ok (.ok (a4, if r.v6 then r.select6 else none))

/-- forget the addresses -/
def toResult : Except BdResult (Option Nat × Option Bytes) → BdResult
  | .ok _ => .response
  | .error e => e

/-! ## `parseRegMessage` / `NewRegistrationC2SWrapper` -/

/-- the registration response inside a ZMQ message -/
structure RegResp where
  /-- `rr.DstPort` (a uint32), if set -/
  dstPort : Option Nat
  /-- `rr.GetTransportParams() != nil` -/
  hasParams : Bool
  ipv4 : Option Nat
  /-- `rr.Ipv6Addr`; `none` = nil, `some []` = present and empty -/
  ipv6 : Option Bytes
deriving Repr, DecidableEq

/-- a ZMQ message after `proto.Unmarshal`, as the getters answer -/
structure ZMsg where
  hasPayload : Bool
  v4Support : Bool
  v6Support : Bool
  disableOverrides : Bool
  /-- `GetRegistrationAddress()`; `none` = nil -/
  regAddr : Option Bytes
  keysOk : Bool
  resp : Option RegResp
deriving Repr, DecidableEq

/-- the getters read false through a nil payload -/
def ZMsg.consistent (m : ZMsg) : Prop :=
  m.hasPayload = false → m.v4Support = false ∧ m.v6Support = false

/-- `parsed.RegistrationAddress = make([]byte, 16)` when it is nil -/
def ZMsg.client (m : ZMsg) : Bytes :=
  match m.regAddr with
  | some a => a
  | none => zeros16

/-- one registration as far as the station goes on with it -/
structure Reg where
  phantom : Bytes
  port : Nat
deriving Repr, DecidableEq

/-- the phantom address the registration response asks for, for one family -/
def ipOverride (m : ZMsg) (includeV6 : Bool) : Option Bytes :=
  match m.resp with
  | none => none
  | some rr =>
    if !includeV6 then
      match rr.ipv4 with
      | some a => if a ≠ 0 then some (be32 a) else none
      | none => none
    else rr.ipv6

/-- `NewRegistrationC2SWrapper(c2sw, includeV6)`; `built` = what `NewRegistration` answers (`none` = error):
`some none` of the result = the error return -/
def newRegistrationC2SWrapper (m : ZMsg) (includeV6 : Bool) (built : Option Reg) (geoOk : Bool) : Outcome (Option Reg) :=
  if !m.keysOk then .ok none
  else
    -- `c2s.TransportParams = rr.GetTransportParams()`: the one write through the payload pointer
    let write : Outcome Unit :=
      match m.resp with
      | some rr =>
        if rr.hasParams ∧ !m.disableOverrides then
          (if m.hasPayload then .ok () else .panic "nil pointer dereference")
        else .ok ()
      | none => .ok ()
    write.bind fun _ =>
    match built with
    | none => .ok none
    | some reg =>
      let phantom : Option Bytes :=
        match ipOverride m includeV6 with
        | some o => if !isIPLen o ∨ ((!isV4 o) != includeV6) then none else some o
        | none => some reg.phantom
      match phantom with
      | none => .ok none
      | some ph =>
        if !isIPLen m.client then .ok none
        else if isV4 ph ∧ !isV4 m.client then .ok none
        else if !geoOk then .ok none
        else
          let port := match m.resp.bind (·.dstPort) with
            | some p => p % 65536          -- `uint16(dstPort)`
            | none => reg.port
          .ok (some ⟨ph, port⟩)

/-- `parseRegMessage(msg)`: `none` = the error return, otherwise the registrations in order (IPv4 first) -/
def parseRegMessage (unmarshalOk : Bool) (m : ZMsg) (enableV4 enableV6 : Bool) (built4 built6 : Option Reg)
    (geoOk : Bool) : Outcome (Option (List Reg)) :=
  if !unmarshalOk then .ok none
  else
    let r4 : Outcome (Option (Option Reg)) :=
      if m.v4Support ∧ enableV4 ∧ isV4 m.client then
        (newRegistrationC2SWrapper m false built4 geoOk).bind fun r => .ok (some r)
      else .ok none
    r4.bind fun r4 =>
      let r6 : Outcome (Option (Option Reg)) :=
        if m.v6Support ∧ enableV6 then
          (newRegistrationC2SWrapper m true built6 geoOk).bind fun r => .ok (some r)
        else .ok none
      r6.bind fun r6 =>
        let regs : List Reg :=
          (match r4 with | some (some r) => [r] | _ => []) ++ (match r6 with | some (some r) => [r] | _ => [])
        let failed : Bool := r4 == some none || r6 == some none
        if regs.isEmpty ∧ failed then .ok none else .ok (some regs)

end CJ.IngressMsg
