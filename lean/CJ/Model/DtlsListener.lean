/-!
# Model of the shared DTLS listener (pkg/dtls/listener.go)

The two maps of the Go struct keyed by the client-hello random derived from the secret:
`connToCert[id]` (certificate pair, registered first, removed last) and `connMap[id]` (the channel on
which the waiting acceptor receives its connection).  An `Id` stands for the hello-random, i.e. for
the secret (the derivation is injective up to HKDF collisions — a cryptographic idealisation).

Threads, one atomic step per mutex-protected method call / channel operation:

* an **acceptor** (`acceptDTLSConn`): `registerCert` → `registerChannel` → `select { conn | ctx.Done }`
  → deferred `removeChannel` → deferred `removeCert`;
* a **handshake** goroutine of `acceptLoop` for one incoming connection whose client hello carries
  the random `rnd` and whose client certificate was derived from the secret `cert`:
  `getCertificateFromClientHello` (server certificate of `connToCert[rnd]`, else a random one) →
  `verifyConnection` (`connToCert[rnd]` must exist and the peer certificate must verify against its
  client certificate) → `chFromID(rnd)` → send on the channel (buffer 1) or give up after the timeout.
  The client completes the handshake only if the server certificate it was shown is the one derived
  from *its* secret (dial.go `verifyServerCertificate`).  That certificates verify exactly when they
  come from the same secret is the idealisation of ECDSA / x509 (checked empirically by the harness).

Channels are objects: the map holds a reference, a handshake goroutine that fetched the reference
keeps it after the entry is removed.  A channel is identified with the acceptor that created it.


Go maps are modelled as finite-support functions `Nat → Option α` (`set` / `del`): the keys that can
occur are the ones named by the operations, which is what the driver enumerates when it prints a map.
-/
namespace CJ.DtlsListener

abbrev Id := Nat     -- hello-random / secret
abbrev Acc := Nat    -- acceptor (= its channel)
abbrev Hs := Nat     -- handshake goroutine (= the connection it carries)

abbrev Map (α : Type) := Nat → Option α
def Map.empty {α : Type} : Map α := fun _ => none
def Map.set {α : Type} (m : Map α) (k : Nat) (v : α) : Map α := fun q => if q = k then some v else m q
def Map.del {α : Type} (m : Map α) (k : Nat) : Map α := fun q => if q = k then none else m q
def Map.has {α : Type} (m : Map α) (k : Nat) : Bool := (m k).isSome

inductive APc
  | start                 -- before `registerCert`
  | regChan               -- certificate registered, before `registerChannel`
  | waiting               -- in the `select`
  | rmChan (res : Option Hs)   -- returning (`some c`: got connection `c`; `none`: cancelled): `removeChannel` next
  | rmCert (res : Option Hs)   -- `removeCert` next
  | rmCertErr             -- `registerChannel` failed: deferred `removeCert` next
  | done (res : Option Hs)     -- returned a connection / `ctx.Err()`
  | failed                -- returned "seed already registered"
deriving DecidableEq, Repr

inductive HPc
  | hello                         -- before `getCertificateFromClientHello`
  | verify (shown : Option Id)    -- server certificate shown to the client: of secret `id`, or a random one
  | route                         -- handshake complete, before `chFromID`
  | send (ch : Acc)               -- holds the channel reference
  | delivered (ch : Acc)
  | dropped                       -- handshake failed / id not registered / timed out
deriving DecidableEq, Repr

structure HsSt where
  rnd : Id          -- the hello random (the secret it was derived from)
  cert : Id         -- the secret the client certificate was derived from
  pc : HPc
deriving DecidableEq, Repr

structure St where
  certs : Map Acc := Map.empty        -- connToCert (ghost value: the acceptor that registered it)
  chans : Map Acc := Map.empty        -- connMap (value: the channel = the acceptor that created it)
  buf : Map Hs := Map.empty           -- content of each channel's one-slot buffer
  accId : Map Id := Map.empty         -- the secret each acceptor waits for (set when it starts)
  apc : Map APc := Map.empty
  hs : Map HsSt := Map.empty

inductive Op
  | accStart (a : Acc) (id : Id)      -- a new `Accept` call (fresh `a`) for secret `id`
  | accStep (a : Acc)                 -- the acceptor takes its next step (in `waiting`: receives if a connection is buffered)
  | accCancel (a : Acc)               -- `ctx.Done()` wins the `select`
  | hsStart (h : Hs) (rnd cert : Id)  -- a new incoming connection (fresh `h`)
  | hsStep (h : Hs)                   -- the handshake goroutine takes its next step
  | hsTimeout (h : Hs)                -- the 5 s context expires while it tries to send
deriving Repr

def accStep (s : St) (a : Acc) : St :=
  match s.apc a, s.accId a with
  | some .start, some id =>
    if s.certs.has id then { s with apc := s.apc.set a .failed }
    else { s with certs := s.certs.set id a, apc := s.apc.set a .regChan }
  | some .regChan, some id =>
    if s.chans.has id then { s with apc := s.apc.set a .rmCertErr }
    else { s with chans := s.chans.set id a, apc := s.apc.set a .waiting }
  | some .waiting, some _ =>
    match s.buf a with
    | some c => { s with buf := s.buf.del a, apc := s.apc.set a (.rmChan (some c)) }
    | none => s                         -- blocked
  | some (.rmChan r), some id => { s with chans := s.chans.del id, apc := s.apc.set a (.rmCert r) }
  | some (.rmCert r), some id => { s with certs := s.certs.del id, apc := s.apc.set a (.done r) }
  | some .rmCertErr, some id => { s with certs := s.certs.del id, apc := s.apc.set a .failed }
  | _, _ => s

def hsStep (s : St) (h : Hs) : St :=
  match s.hs h with
  | some ⟨rnd, cert, .hello⟩ =>
    -- server certificate of the registered pair, else a random one
    { s with hs := s.hs.set h ⟨rnd, cert, .verify (if s.certs.has rnd then some rnd else none)⟩ }
  | some ⟨rnd, cert, .verify shown⟩ =>
    -- server side: pair registered and client certificate verifies; client side: shown certificate is its own secret's
    if s.certs.has rnd && cert == rnd && shown == some cert then
      { s with hs := s.hs.set h ⟨rnd, cert, .route⟩ }
    else { s with hs := s.hs.set h ⟨rnd, cert, .dropped⟩ }
  | some ⟨rnd, cert, .route⟩ =>
    match s.chans rnd with
    | some ch => { s with hs := s.hs.set h ⟨rnd, cert, .send ch⟩ }
    | none => { s with hs := s.hs.set h ⟨rnd, cert, .dropped⟩ }
  | some ⟨rnd, cert, .send ch⟩ =>
    if s.buf.has ch then s          -- buffer full: blocked
    else { s with buf := s.buf.set ch h, hs := s.hs.set h ⟨rnd, cert, .delivered ch⟩ }
  | _ => s

def step (s : St) : Op → St
  | .accStart a id =>
    if s.apc.has a then s else { s with apc := s.apc.set a .start, accId := s.accId.set a id }
  | .accStep a => accStep s a
  | .accCancel a =>
    match s.apc a with
    | some .waiting => { s with apc := s.apc.set a (.rmChan none) }
    | _ => s
  | .hsStart h rnd cert =>
    if s.hs.has h then s else { s with hs := s.hs.set h ⟨rnd, cert, .hello⟩ }
  | .hsStep h => hsStep s h
  | .hsTimeout h =>
    match s.hs h with
    | some ⟨rnd, cert, .send _⟩ => { s with hs := s.hs.set h ⟨rnd, cert, .dropped⟩ }
    | _ => s

def run (ops : List Op) (s : St := {}) : St := ops.foldl step s

end CJ.DtlsListener
