import CJ.Model.LivenessX
import CJ.Model.DurationText
/-!
# The liveness configuration as written (add-only layer over `CJ.Model.Liveness`)

`liveness.Config` carries the two lifetimes as *strings*; `Init` parses them with `time.ParseDuration`
(`CJ.DurationText.parseDuration`).  `TextConfig.toConfig` is that step: the empty string leaves the cache
unconfigured, a text the parser rejects is `Dur.bad` (Init returns an error), anything else is the lifetime in
nanoseconds - zero and negative values included, which the code accepts without comment.
-/
namespace CJ.Liveness
open CJ.DurationText

structure TextConfig where
  liveText : Bytes
  capLive : Int
  nonLiveText : Bytes
  capNonLive : Int
deriving Repr

/-- `if expiration != "" { convertedTime, err := time.ParseDuration(expiration); if err != nil { return … } … }` -/
def durOf (s : Bytes) : Dur :=
  if s = [] then .unset
  else
    match parseDuration s with
    | .ok d => .ok d
    | .err => .bad
    | .fuel => .bad      -- never happens: `CJ.Props.C18Config.parse_total`

def TextConfig.text (c : TextConfig) (v : Bool) : Bytes := if v then c.liveText else c.nonLiveText

def TextConfig.toConfig (c : TextConfig) : Config :=
  { durLive := durOf c.liveText, capLive := c.capLive, durNonLive := durOf c.nonLiveText, capNonLive := c.capNonLive }

/-- `liveness.New` on the configuration as written -/
def newText (c : TextConfig) : Tester × Option InitErr := new c.toConfig

end CJ.Liveness
