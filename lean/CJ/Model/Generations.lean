import CJ.Model.Derive
/-!
# The station's table of generations (C01)

`PhantomIPSelector.Networks` (pkg/phantoms/station_phantoms.go) maps a ClientConf generation to the
subnet configuration the station selects phantoms from; a client selects from the configuration of the
generation *it* holds, so the rendezvous depends on the table answering each generation with the
configuration that was published under it.  `CJ.Phantom.Cfg` was that table as a given; here are the
operations that build and change it: `IsTakenGeneration`, `GetSubnetsByGeneration`, `AddGeneration`
(with `newGenerationIndex`), `RemoveGeneration`, `UpdateGeneration`, and the loop of
`SubnetsFromTomlFile` that adds the generations of the configuration file one by one (in the order of a
Go map iteration, i.e. any order).

The table is an association list `key ↦ (nil | configuration)`: `RemoveGeneration` leaves the key with
a nil value (it stays *taken*), exactly what `Cfg.lookup` reads.  Keys are `uint`: `uint(gen)` and
`maxGen + 1` wrap at 2^64 as in the code.  `strconv.Atoi` on the file's keys and the TOML decoding are
outside (libraries): the loop receives (number, configuration) pairs.
-/
namespace CJ.Generations
open CJ.Phantom

abbrev GMap (α : Type) := List (Nat × Option α)

/-- the range of Go's `uint` on the station's platform -/
def word : Nat := 18446744073709551616

variable {α : Type}

/-- `IsTakenGeneration(gen)`: the key is in the map (a removed generation still is) -/
def taken (m : GMap α) (g : Nat) : Bool := m.any (fun p => p.1 == g)

/-- `GetSubnetsByGeneration(gen)` as `Select` uses it: the configuration, unless the key is missing or
its value nil (both end in "generation number not recognized") -/
def lookup (m : GMap α) (g : Nat) : Option α :=
  match m.find? (fun p => p.1 == g) with
  | some (_, some c) => some c
  | _ => none

/-- `p.Networks[g] = v` -/
def assign (m : GMap α) (g : Nat) (v : Option α) : GMap α := (g, v) :: m.filter (fun p => !(p.1 == g))

/-- the `maxGen` of `newGenerationIndex` (0 for an empty map) -/
def maxKey (m : GMap α) : Nat := m.foldl (fun a p => max a p.1) 0

/-- `newGenerationIndex()`: `maxGen + 1` in `uint` arithmetic -/
def newIndex (m : GMap α) : Nat := (maxKey m + 1) % word

/-- `uint(gen)` -/
def toUint (gen : Int) : Nat := (gen % 18446744073709551616).toNat

/-- `AddGeneration(gen, subnets)`: the requested index unless it is -1 or taken, then the next unused
one; answers the index used -/
def add (m : GMap α) (gen : Int) (c : α) : GMap α × Nat :=
  let g := if gen = -1 ∨ taken m (toUint gen) = true then newIndex m else toUint gen
  (assign m g (some c), g)

/-- `RemoveGeneration(gen)` -/
def remove (m : GMap α) (g : Nat) : GMap α := assign m g none

/-- `UpdateGeneration(gen, subnets)` -/
def update (m : GMap α) (g : Nat) (c : α) : GMap α := assign m g (some c)

/-- the loop of `SubnetsFromTomlFile`: `pss.AddGeneration(g, set)` for every entry, from an empty map -/
def loadFrom (m : GMap α) : List (Int × α) → GMap α
  | [] => m
  | (g, c) :: rest => loadFrom (add m g c).1 rest

def load (entries : List (Int × α)) : GMap α := loadFrom [] entries

/-! ### histories -/

inductive Op (α : Type)
  | add (gen : Int) (c : α)
  | remove (g : Nat)
  | update (g : Nat) (c : α)
  | taken (g : Nat)
  | get (g : Nat)

inductive Ans (α : Type)
  | index (g : Nat)       -- `AddGeneration`
  | done                  -- `RemoveGeneration`, `UpdateGeneration` (always `true`)
  | bool (b : Bool)
  | cfg (c : Option α)
deriving DecidableEq, Repr

def step (m : GMap α) : Op α → GMap α × Ans α
  | .add gen c => let r := add m gen c; (r.1, .index r.2)
  | .remove g => (remove m g, .done)
  | .update g c => (update m g c, .done)
  | .taken g => (m, .bool (taken m g))
  | .get g => (m, .cfg (lookup m g))

def run (m : GMap α) : List (Op α) → GMap α × List (Ans α)
  | [] => (m, [])
  | op :: ops =>
    let r := step m op
    let rs := run r.1 ops
    (rs.1, r.2 :: rs.2)

/-- the table as the selection model reads it -/
def toCfg (m : GMap GenCfg) : Cfg := ⟨m⟩

end CJ.Generations
