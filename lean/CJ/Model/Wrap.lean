/-!
# Classification of first-flight bytes by the wrapping transports (C02)

`WrapConnection` of min (`min.go`), prefix (`prefix.go: WrapConnection / tryFindReg / getReg`) and
obfs4 (`obfs4.go`), as pure functions of the bytes seen so far and of the registrations that
`GetRegistrations(originalDst)` returns: the VALID registrations tracked for the connection's phantom.

Cryptography is an oracle: `reveal w` is what `TagObfuscator.TryReveal` answers for the 64-byte
window `w` under the station's keys (hex text of the revealed identifier), `marks` are the obfs4
registrations whose HMAC mark is found at the tail of the buffer.
-/
namespace CJ.Wrap

abbrev Bytes := List UInt8

/-- one valid registration on the probed phantom, as the transports see it -/
structure RegView where
  ident : String                 -- transport identifier, hex text (the key of the per-phantom map)
  transport : Nat                -- pb.TransportType: 1 min, 2 obfs4, 4 prefix
  /-- registered prefix parameters: `none` = absent / not prefix parameters,
      `some none` = typed nil, `some (some id)` = prefix id -/
  prefixParam : Option (Option Int)
  rid : Nat                      -- which registration (for reporting)
deriving Repr, DecidableEq

inductive Verdict
  | tryAgain | notTransport
  | errIncorrectTransport | errIncorrectPrefix
  | found (rid : Nat) (consumed : Nat)
  | panic
deriving Repr, DecidableEq

def hexDigit (n : Nat) : Char :=
  if n < 10 then Char.ofNat (n + 48) else Char.ofNat (n - 10 + 97)

def toHex (bs : Bytes) : String :=
  String.ofList (bs.foldr (fun b acc => hexDigit (b.toNat / 16) :: hexDigit (b.toNat % 16) :: acc) [])

def findReg (regs : List RegView) (ident : String) : Option RegView :=
  regs.find? (fun r => r.ident == ident)

/-! ## min -/

def minTagLen : Nat := 32

def wrapMin (regs : List RegView) (d : Bytes) : Verdict :=
  if d.length < minTagLen then .tryAgain
  else match findReg regs (toHex (d.take minTagLen)) with
    | some r => .found r.rid minTagLen
    | none => .notTransport

/-! ## prefix -/

structure PrefixEntry where
  id : Int
  static : Bytes
  offset : Nat
  minLen : Nat
  maxLen : Nat
deriving Repr, DecidableEq

def prefixTagLen : Nat := 64

def staticOk (e : PrefixEntry) (d : Bytes) : Bool :=
  e.static.isEmpty || (e.static.take (Nat.min e.static.length d.length) == d.take (Nat.min e.static.length d.length))

/-- state of the loop over the prefix table: `err` starts as NotTransport and is raised to TryAgain;
`wrong` remembers that a registration was found under a prefix it did not register -/
structure PLoop where
  tryAgain : Bool := false
  wrong : Bool := false

/-- `data.Bytes()[off : off+64]` (the caller has checked the bounds) -/
def window (d : Bytes) (off : Nat) : Bytes := (d.drop off).take prefixTagLen

/-- one iteration of the `for id, prefix := range t.SupportedPrefixes` loop; `inl v` = return `v` -/
def prefixIter (reveal : Bytes → Option String) (regs : List RegView) (d : Bytes) (st : PLoop)
    (e : PrefixEntry) : Verdict ⊕ PLoop :=
  if !staticOk e d then .inr st
  else if d.length < e.minLen then .inr { st with tryAgain := true }
  else if d.length < e.offset + prefixTagLen && d.length < e.maxLen then .inr { st with tryAgain := true }
  else if d.length < e.maxLen then .inr st
  else if d.length < e.offset + prefixTagLen then .inl .panic        -- slice out of range
  else
    match reveal (window d e.offset) with
    | none => .inr st
    | some id =>
      match findReg regs id with
      | none => .inr st
      | some r =>
        if r.transport != 4 then .inl .errIncorrectTransport
        else if r.prefixParam != some (some e.id) then .inr { st with wrong := true }
        else .inl (.found r.rid (e.offset + prefixTagLen))

def prefixLoop (reveal : Bytes → Option String) (regs : List RegView) (d : Bytes) :
    PLoop → List PrefixEntry → Verdict
  | st, [] =>
    if !st.tryAgain && st.wrong then .errIncorrectPrefix
    else if st.tryAgain then .tryAgain else .notTransport
  | st, e :: es =>
    match prefixIter reveal regs d st e with
    | .inl v => v
    | .inr st' => prefixLoop reveal regs d st' es

/-- `prefix.Transport.WrapConnection`; `table` is the supported-prefix map in iteration order -/
def wrapPrefix (table : List PrefixEntry) (reveal : Bytes → Option String) (regs : List RegView)
    (d : Bytes) : Verdict :=
  if d.length < prefixTagLen then .tryAgain
  else prefixLoop reveal regs d {} table

/-! ## prefix with several station keys

`getReg` (prefix.go) tries every configured private key in order: the window is revealed under the
key, and if the revealed identifier is not registered on this phantom the next key is tried.
`reveals w` lists, in key order, what each key reveals for the window `w` (a key for which
`TryReveal` fails contributes nothing).  `wrapPrefix` above is the one-key special case
(`wrapPrefixK_single`); it is kept unchanged because C03 / C04 build on it. -/

def getRegK (regs : List RegView) (ids : List String) : Option RegView := ids.findSome? (findReg regs)

def prefixIterK (reveals : Bytes → List String) (regs : List RegView) (d : Bytes) (st : PLoop)
    (e : PrefixEntry) : Verdict ⊕ PLoop :=
  if !staticOk e d then .inr st
  else if d.length < e.minLen then .inr { st with tryAgain := true }
  else if d.length < e.offset + prefixTagLen && d.length < e.maxLen then .inr { st with tryAgain := true }
  else if d.length < e.maxLen then .inr st
  else if d.length < e.offset + prefixTagLen then .inl .panic        -- slice out of range
  else
    match getRegK regs (reveals (window d e.offset)) with
    | none => .inr st
    | some r =>
      if r.transport != 4 then .inl .errIncorrectTransport
      else if r.prefixParam != some (some e.id) then .inr { st with wrong := true }
      else .inl (.found r.rid (e.offset + prefixTagLen))

def prefixLoopK (reveals : Bytes → List String) (regs : List RegView) (d : Bytes) :
    PLoop → List PrefixEntry → Verdict
  | st, [] =>
    if !st.tryAgain && st.wrong then .errIncorrectPrefix
    else if st.tryAgain then .tryAgain else .notTransport
  | st, e :: es =>
    match prefixIterK reveals regs d st e with
    | .inl v => v
    | .inr st' => prefixLoopK reveals regs d st' es

/-- `prefix.Transport.WrapConnection` with any number of station keys -/
def wrapPrefixK (table : List PrefixEntry) (reveals : Bytes → List String) (regs : List RegView)
    (d : Bytes) : Verdict :=
  if d.length < prefixTagLen then .tryAgain
  else prefixLoopK reveals regs d {} table

/-! ## obfs4 -/

def obfs4MinHandshake : Nat := 64      -- representative 32 + mark 16 + mac 16
def obfs4MaxHandshake : Nat := 8192
def obfs4IdentHexLen : Nat := 104      -- identifier of 52 bytes (public key 32 + node id 20)

/-- `marks`: rids of registrations whose mark sits at the tail of the buffer. On a hit the rest of the
handshake is the obfs4 library's (outcome `found r 0`: nothing is consumed by the classifier). -/
def wrapObfs4 (marks : List Nat) (regs : List RegView) (d : Bytes) : Verdict :=
  if d.length < obfs4MinHandshake then .tryAgain
  else
    match (regs.filter (fun r => r.ident.length == obfs4IdentHexLen)).find? (fun r => marks.contains r.rid) with
    | some r => .found r.rid 0
    | none => if d.length < obfs4MaxHandshake then .tryAgain else .notTransport

end CJ.Wrap
