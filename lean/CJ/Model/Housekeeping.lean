/-! Housekeeping of the station as it exists in the source (C19): the ticker loops (`Loop`, regenerated as
`CJ.Gen.C19Housekeeping.loops`) and a frame model of "a periodic job runs between the statements of a reload":
the station's memory is a map from field index to value, a piece of work done without interruption (one run of a
printer / reset under its own locks, one statement of `OnReload`) is a `Step` that may panic (`none`). -/
namespace CJ.Housekeeping

/-- what a tick does -/
inductive Job
  | printStats (verbose : Bool)   -- Stats.PrintStats(verbose): every registered module's PrintAndReset, then Reset
  | removeOld                     -- RegistrationManager.RemoveOldRegistrations
  | other
deriving DecidableEq, Repr

/-- how the loop receives from its ticker -/
inductive LoopKind
  | rangeC        -- `for range ticker.C { … }` (never ends)
  | selectDone    -- `for { select { case <-ticker.C: …; case <-ctx.Done(): return } }`
  | other
deriving DecidableEq, Repr

structure Loop where
  periodSec : Nat
  kind : LoopKind
  jobs : List Job
deriving DecidableEq, Repr

abbrev Mem := Nat → Nat
abbrev Step := Mem → Option Mem

/-- two memories agree on a set of fields -/
def agree (fp : List Nat) (m m' : Mem) : Prop := ∀ i ∈ fp, m i = m' i

/-- a step writes nothing outside `fp` -/
def WritesWithin (fp : List Nat) (s : Step) : Prop := ∀ m m1, s m = some m1 → ∀ i, i ∉ fp → m1 i = m i

/-- a schedule: steps one after the other, a panic ends the run -/
def runAll : List Step → Mem → Option Mem
  | [], m => some m
  | s :: ss, m =>
    match s m with
    | none => none
    | some m1 => runAll ss m1

end CJ.Housekeeping
