/-!
# The relay's deadline discipline on a virtual clock (pkg/station/lib/proxies.go, `halfPipe` × 2)

`Proxy` runs two `halfPipe`s over the same two connections: *Up* reads the client and writes the covert,
*Down* reads the covert and writes the client.  Each direction

* arms a deadline on both of its connections before its first read (`proxyInitTimeout`), and
* at the end of **every** iteration of its copy loop arms both again (`proxyStallTimeout`),

so that traffic in *either* direction keeps *both* connections alive: the direction that has nothing to
read sits in a blocked `Read` whose deadline is pushed forward by the other direction's iterations.  A
blocked `Read` fails with a timeout as soon as the clock passes the connection's deadline; the direction
then ends and its deferred functions close both connections (C05), which ends the other direction too.

`CJ/Model/HalfPipe.lean` abstracts the clock away (each `setConnDeadline` is a scripted ok / fail).  This
module keeps the clock and abstracts the faults away: the state is the virtual time, the deadline of the
client connection, the deadline of the covert connection, and what has been delivered each way.  *Which*
connections a direction arms, and with which timeout, is a parameter (`Cfg.initArms`, `Cfg.loopArms`:
`(onSrc, timeout)` per `setConnDeadline` call, in source order); the lists of the source under check are
regenerated with go/ast on every run (`CJ/Gen/RelayLoop.lean`) together with the statement skeleton of
the loop body (`LStmt`).

Events (`Evt`): time passes; the source of a direction has a chunk (the direction reads it, writes it,
re-arms); the source of a direction reports end of stream.  Between events both directions sit in `Read`.
-/
namespace CJ.RelayClock

abbrev Bytes := List UInt8

/-- which of the two constants a `setConnDeadline(c, time.Now().Add(…))` call uses -/
inductive Tmo
  | init      -- `proxyInitTimeout`
  | stall     -- `proxyStallTimeout`
deriving Repr, DecidableEq

def Tmo.val (init stall : Nat) : Tmo → Nat
  | .init => init
  | .stall => stall

/-- one `setConnDeadline` call of a direction: on its source (`true`) or its destination, and the timeout -/
abbrev Arm := Bool × Tmo

/-- a statement of the body of the relay loop (`for { … }` in `halfPipe`), as the extractor classifies it -/
inductive LStmt
  | read                          -- `nr, er := src.Read(buf)`
  | writeIfData                   -- `if nr > 0 { … nw, ew := dst.Write(…) … if ew != nil { …; break } }`, nothing else leaves
  | breakIfReadErr                -- `if er != nil { …; break }`: no `continue` / `return` / `goto`, no call on a connection
  | arm (onSrc : Bool) (t : Tmo)  -- `err :=|= setConnDeadline(src|dst, time.Now().Add(proxyInitTimeout|proxyStallTimeout))`
  | retIfErr (logs : Bool)        -- `if err != nil { [log]; return }`
  | other                         -- cannot leave the iteration, touches no connection
  | unknown                       -- anything else
deriving Repr, DecidableEq

/-- the loop body the hand-written models (`CJ.HalfPipe.loop`, `step` below) mirror -/
def canonicalLoop : List LStmt :=
  [.read, .writeIfData, .breakIfReadErr, .arm true .stall, .retIfErr true, .arm false .stall, .retIfErr true]

/-- the deadline calls in front of the loop -/
def canonicalInit : List Arm := [(true, .init), (false, .init)]

def loopSkeleton (p : List LStmt) : List LStmt := p.filter (fun s => s != .other)

/-- the `setConnDeadline` calls of one iteration, in order -/
def armsOf : List LStmt → List Arm
  | [] => []
  | .arm b t :: p => (b, t) :: armsOf p
  | _ :: p => armsOf p

structure Cfg where
  init : Nat                      -- `proxyInitTimeout`  (any unit; the harness uses milliseconds)
  stall : Nat                     -- `proxyStallTimeout`
  initArms : List Arm := canonicalInit
  loopArms : List Arm := armsOf canonicalLoop
deriving Repr

inductive Evt
  | wait (dt : Nat)               -- time passes, nothing arrives
  | chunk (up : Bool) (bs : Bytes)   -- the client (`up`) / the covert has `bs` ready: one iteration of that direction
  | eof (up : Bool)               -- the client (`up`) / the covert ends its stream: `Read` returns `(0, io.EOF)`
deriving Repr, DecidableEq

structure St where
  now : Nat := 0
  dlClient : Option Nat := none   -- deadline of the client connection (`none`: never armed, never expires)
  dlCovert : Option Nat := none
  alive : Bool := true            -- both directions are running, both connections open
  up : Bytes := []                -- bytes delivered to the covert
  down : Bytes := []              -- bytes delivered to the client
  lost : Nat := 0                 -- bytes that arrived after the tunnel was gone
  cli : String := ""              -- tunnelStats.ClientConnErr
  cov : String := ""              -- tunnelStats.CovertConnErr
deriving Repr, DecidableEq

/-- a blocked `Read` fails iff the clock is past the deadline -/
def expired (now : Nat) : Option Nat → Bool
  | some d => decide (d < now)
  | none => false

/-- the deadline one connection has after the direction `up` ran the calls `as` at time `now`: the last
call that addresses it wins; untouched if none does.  (`onSrc == up` ⇔ the call is on the client connection.) -/
def newDl (c : Cfg) (up : Bool) (as : List Arm) (client : Bool) (now : Nat) (old : Option Nat) : Option Nat :=
  match (as.filter (fun a => (a.1 == up) == client)).getLast? with
  | some a => some (now + a.2.val c.init c.stall)
  | none => old

def refresh (c : Cfg) (up : Bool) (as : List Arm) (s : St) : St :=
  { s with dlClient := newDl c up as true s.now s.dlClient, dlCovert := newDl c up as false s.now s.dlCovert }

/-- both directions have armed their initial deadlines and sit in their first `Read` -/
def start (c : Cfg) : St := refresh c false c.initArms (refresh c true c.initArms {})

def step (c : Cfg) (s : St) : Evt → St
  | .wait dt =>
    let s := { s with now := s.now + dt }
    if !s.alive then s else
    let ea := expired s.now s.dlClient    -- Up's `Read` on the client times out
    let eb := expired s.now s.dlCovert    -- Down's `Read` on the covert times out
    if ea || eb then
      { s with alive := false, cli := if ea then "timeout" else s.cli, cov := if eb then "timeout" else s.cov }
    else s
  | .chunk up bs =>
    if !s.alive then { s with lost := s.lost + bs.length } else
    let s := if up then { s with up := s.up ++ bs } else { s with down := s.down ++ bs }
    refresh c up c.loopArms s
  | .eof _ => { s with alive := false }   -- EOF is generalised to nil: nothing recorded; both sides are closed

def run (c : Cfg) (evs : List Evt) : St := evs.foldl (step c) (start c)

/-- index of the event that ended the tunnel -/
def diedAt (c : Cfg) : St → Nat → List Evt → Option Nat
  | _, _, [] => none
  | s, i, e :: es =>
    let s' := step c s e
    if s.alive && !s'.alive then some i else diedAt c s' (i + 1) es

/-- what the client / the covert sent -/
def sent (up : Bool) : List Evt → Bytes
  | [] => []
  | .chunk u bs :: es => if u == up then bs ++ sent up es else sent up es
  | _ :: es => sent up es

/-- **Pacing**: no `eof`, and the time since the last chunk of *either* direction (since the start, for
the first one) never exceeds the limit — `proxyInitTimeout` until the first chunk, `proxyStallTimeout` after it. -/
def paced (stall : Nat) : Nat → Nat → List Evt → Bool
  | _, _, [] => true
  | limit, idle, .wait dt :: es => decide (idle + dt ≤ limit) && paced stall limit (idle + dt) es
  | _, _, .chunk _ _ :: es => paced stall stall 0 es
  | _, _, .eof _ :: _ => false

end CJ.RelayClock
