import CJ.Model.Ingest
/-!
# The stored registration objects under sequences of messages (C07, history dimension)

`CJ.Ingest.ingestReg` models what `ingestRegistration` does to the *flags* of the registry (tracked,
valid, counter) and which events it causes.  The property also speaks about what a connectable
registration *is*: `GetRegistrations(phantom)` hands the stored `*DecoyRegistration` to the connection
handler, which dials `reg.Covert` and matches on `reg.PhantomIp` / `reg.PhantomPort`.  So the fields of
the stored object must be the fields that passed the admission conditions, whatever further messages of
the same session (same phantom, same identifier) say.

This module adds that object store next to the registry state.  It mirrors the unchanged code:

* `RegisteredDecoys.track`, branch "already tracked": `reg.regCount++` and nothing else — no field of
  the tracked object is replaced by a field of the new message;
* `ingestRegistration`: a duplicate returns right after `TrackRegistration` (before the covert policy);
  a new registration is stored by `track` as built by `NewRegistrationC2SWrapper`, with the covert
  address as the client sent it; when the covert policy accepts, `reg.Covert = covert` writes the
  policy's answer (the resolved literal) into that same object; nothing else is written.

The registry flags keep being computed by `ingestReg` itself (`ingestRegC` pairs the two), so every
theorem about `ingestReg` / `run` applies to the combined run unchanged (`CJ.Props.C07.runC_reg`).
-/
namespace CJ.Ingest
open CJ.Registry (Key)

/-- the covert address of a message and what the covert policy answered for it
(`ParseOrResolveBlocklisted`: `none` = the empty string, refused) — a library verdict like `Oracles`,
supplied per message from the real call -/
structure Covert where
  raw : String
  resolved : Option String
deriving DecidableEq, Repr

/-- a stored `DecoyRegistration`, as far as admission looked at it -/
structure Obj where
  reg : Reg
  covert : String                 -- `reg.Covert` as it is stored now
deriving DecidableEq, Repr

/-- `decoys[phantom][identifier]`, the objects (the flags live in `RSt`) -/
abbrev Store := Key → Option Obj

def Store.empty : Store := fun _ => none

def Store.set (st : Store) (k : Key) (obj : Obj) : Store := fun k' => if k' = k then some obj else st k'

/-- what one `ingestRegistration` does to the stored objects (`s`: the registry before the call) -/
def storeReg (c : Cfg) (cv : Covert) (s : RSt) (st : Store) (r : Reg) : Store :=
  match validate c r with
  | .error _ => st
  | .ok _ =>
    -- duplicate: `track` bumps the counter of the tracked object; none of its fields is touched
    if s.decoys.contains (keyOf r) then st
    -- new: `track` stores the object as built, covert address as sent; if the policy accepts it,
    -- `reg.Covert = covert` replaces it by the policy's answer
    else st.set (keyOf r) { reg := r, covert := cv.resolved.getD cv.raw }

/-- registry flags and stored objects -/
structure StC where
  reg : RSt
  objs : Store

def StC.init : StC := { reg := CJ.Registry.init, objs := Store.empty }

/-- a wire message with its covert address -/
structure WireC where
  w : Wire
  cv : Covert

def ingestRegC (c : Cfg) (o : Oracles) (cv : Covert) (x : StC) (r : Reg) : StC × List Ev :=
  ({ reg := (ingestReg c o x.reg r).1, objs := storeReg c cv x.reg x.objs r }, (ingestReg c o x.reg r).2)

def ingestRegsC (c : Cfg) (o : Oracles) (cv : Covert) : StC → List Reg → StC × List Ev
  | x, [] => (x, [])
  | x, r :: rest =>
    let (x1, e1) := ingestRegC c o cv x r
    let (x2, e2) := ingestRegsC c o cv x1 rest
    (x2, e1 ++ e2)

def ingestWireC (c : Cfg) (x : StC) (w : WireC) : StC × List Ev :=
  match w.w with
  | .garbage => (x, [])
  | .msg _ o =>
    match parse c w.w with
    | none => (x, [])
    | some regs => ingestRegsC c o w.cv x regs

/-- any number of messages -/
def runC (c : Cfg) : StC → List WireC → StC × List Ev
  | x, [] => (x, [])
  | x, w :: rest =>
    let (x1, e1) := ingestWireC c x w
    let (x2, e2) := runC c x1 rest
    (x2, e1 ++ e2)

end CJ.Ingest
