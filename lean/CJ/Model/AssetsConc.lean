import CJ.Gen.C20Locks
/-!
# C20, calls of one process running at the same time

Two layers.

* `CJ.AssetsLocks` — the analysis of the regenerated lock table `CJ.Gen.assetsLockTable` (go/ast facts of
  `pkg/client/assets/assets.go`): which side of the struct's `RWMutex` is held at every event of a function,
  whether every access to `config` / `path` is covered, which functions are lock-free helpers and where they are
  called from, and the *shape* of a setter: one write-side critical section that contains the swap / mutation and the
  store, or anything else.
* `CJ.AssetsConc` — concurrent callers at critical-section granularity.  A call is a list of sections, a section
  runs atomically on the shared pair (configuration in memory, configuration in the file) and the caller's locals.
  The shape found in the table selects the program of a call: `oneSection` gives one section, `storeOutside` (the
  shape of "only hold the lock for the swap, write outside, take it again for the roll-back") gives three.
-/
namespace CJ.AssetsLocks

abbrev Ev := String × String × Bool
abbrev Row := String × Bool × List Ev

inductive Held | none | r | w
deriving DecidableEq, Repr

def sideOf (a : String) : Option Held := if a = "W" then some .w else if a = "R" then some .r else .none

/-- the fields whose accesses the discipline is about -/
def guardedField (f : String) : Bool := f = "config" || f = "path"

def isAccess (e : Ev) : Bool := (e.1 = "read" || e.1 = "write" || e.1 = "mutate") && guardedField e.2.1
def isWriteAccess (e : Ev) : Bool := (e.1 = "write" || e.1 = "mutate") && guardedField e.2.1
def isLockOp (e : Ev) : Bool := e.1 = "lock" || e.1 = "unlock" || e.1 = "defer-unlock" || e.1 = "go-lock" || e.1 = "go-unlock"

/-- scan: (held side, deferred unlock registered, ok so far).  `need e h` says whether event `e` is fine under `h`. -/
def scan (need : Ev → Held → Bool) : List Ev → Held → Bool → Bool
  | [], h, deferred => h = .none || deferred
  | e :: es, h, deferred =>
    if e.1 = "lock" then
      match sideOf e.2.1, h with
      | some s, .none => !deferred && scan need es s false
      | _, _ => false                       -- unknown side, or taken while held (self-deadlock)
    else if e.1 = "unlock" then
      match sideOf e.2.1 with
      | some s => s = h && !deferred && scan need es .none false
      | .none => false
    else if e.1 = "defer-unlock" then
      match sideOf e.2.1 with
      | some s => s = h && !deferred && scan need es h true
      | .none => false
    else if e.1 = "go" || e.1 = "go-lock" || e.1 = "go-unlock" || e.1 = "go-call" || e.1 = "go-ext" || e.1 = "go-callvar" then false
    else need e h && scan need es h deferred

/-- an access needs a side: writes and mutations the write side, reads either -/
def accessNeed (e : Ev) (h : Held) : Bool :=
  if isWriteAccess e then h = .w else if isAccess e then h != .none else true

def usesLock (r : Row) : Bool := r.2.2.any isLockOp
def hasAccess (r : Row) : Bool := r.2.2.any isAccess
def hasWrite (r : Row) : Bool := r.2.2.any isWriteAccess
def storesFile (r : Row) : Bool := r.2.2.any fun e => e.1 = "ext" && (e.2.1 = "os.WriteFile" || e.2.1 = "os.Rename")

/-- functions that take the mutex themselves -/
def lockers (t : List Row) : List Row := t.filter usesLock
/-- functions that touch `config` / `path` (or write the file) without taking it: they rely on the caller -/
def helpers (t : List Row) : List Row := t.filter fun r => !usesLock r && (hasAccess r || storesFile r)
def writingHelpers (t : List Row) : List String := ((helpers t).filter fun r => hasWrite r || storesFile r).map (·.1)
def readingHelpers (t : List Row) : List String := ((helpers t).filter fun r => !(hasWrite r || storesFile r)).map (·.1)

/-- every locker: balanced, no `go`, every access covered by the right side -/
def lockersGuarded (t : List Row) : Bool := (lockers t).all fun r => scan accessNeed r.2.2 .none false

/-- a call of one of `hs` needs the write side -/
def callNeed (hs : List String) (e : Ev) (h : Held) : Bool :=
  if (e.1 = "call" || e.1 = "defer-call") && hs.contains e.2.1 then h = .w else true

/-- callers of the writing helpers: every function except the constructor `initAssets` calls them under the write side -/
def writingHelpersCalledUnderW (t : List Row) : Bool :=
  t.all fun r => r.1 = "initAssets" || (writingHelpers t).contains r.1 && !(r.2.2.any fun e => e.1 = "call" && (writingHelpers t).contains e.2.1)
    || scan (callNeed (writingHelpers t)) (r.2.2.filter fun e => isLockOp e || e.1 = "call" || e.1 = "defer-call" || e.1 = "go") .none false

/-- `initAssets` (builds the object and loads into it without the lock) is only ever called inside a function
    literal of a function that hands a literal to `assetsOnce.Do` and calls it nowhere else -/
def constructorOnlyUnderOnce (t : List Row) : Bool :=
  t.all fun r =>
    let calls := r.2.2.filter fun e => (e.1 = "call" || e.1 = "go-call" || e.1 = "defer-call") && e.2.1 = "initAssets"
    calls.isEmpty || (calls.all (·.2.2) && r.2.2.any (fun e => e.1 = "once" && e.2.1 = "Do:_initAssets")
      && !(r.2.2.any fun e => e.1 = "callvar" || e.1 = "go-callvar"))

inductive Shape | oneSection | storeOutside | other
deriving DecidableEq, Repr

/-- the events of a function that matter to the shape: lock operations, accesses, the store -/
def isStoreCall (e : Ev) : Bool := (e.1 = "call" && e.2.1 = "saveClientConf") || (e.1 = "ext" && (e.2.1 = "os.WriteFile" || e.2.1 = "os.Rename"))

/-- `oneSection`: the first event is `lock W`, the second the deferred unlock, no further lock operation, the body
    swaps or mutates and stores, every access guarded.  `storeOutside`: a store call while nothing is held. -/
def shapeOf (evs : List Ev) : Shape :=
  match evs with
  | ("lock", "W", false) :: ("defer-unlock", "W", false) :: body =>
    if !(body.any isLockOp) && body.any isWriteAccess && body.any isStoreCall
        && scan accessNeed evs .none false then .oneSection else .other
  | ("lock", "W", false) :: body =>
    if body.any isStoreCall && !scan (fun e h => !isStoreCall e || h = .w) evs .none false then .storeOutside else .other
  | _ => .other

def rowOf (t : List Row) (name : String) : Option Row := t.find? (·.1 = name)
def shapeOfMethod (t : List Row) (name : String) : Option Shape := (rowOf t name).map fun r => shapeOf r.2.2

/-- a locking reader: `RLock`, deferred `RUnlock`, then only reads -/
def readerSection (evs : List Ev) : Bool :=
  match evs with
  | ("lock", "R", false) :: ("defer-unlock", "R", false) :: body =>
    !(body.any isLockOp) && !(body.any isWriteAccess) && !(body.any isStoreCall) && scan accessNeed evs .none false
  | _ => false

def lockingReaders (t : List Row) : List String := (t.filter fun r => readerSection r.2.2).map (·.1)

/-- the `os.*` / `proto.*` calls of a function, in source order -/
def extCalls (t : List Row) (name : String) : List String :=
  match rowOf t name with
  | some r => (r.2.2.filter (·.1 = "ext")).map (·.2.1)
  | .none => []

end CJ.AssetsLocks

namespace CJ.AssetsConc
open CJ.AssetsLocks (Shape)

structure Shared (α : Type) where
  mem : α
  file : α
deriving DecidableEq, Repr

structure Local (α : Type) where
  orig : Option α := none
  failed : Bool := false
  seen : List α := []
deriving DecidableEq, Repr

abbrev Sec (α : Type) := Shared α → Local α → Shared α × Local α

def capSwap (c : α) : Sec α := fun s l => ({ s with mem := c }, { l with orig := some s.mem })
/-- `saveClientConf` under the lock: the file becomes what `a.config` is, or the call fails and nothing is written -/
def storeMem (ok : Bool) : Sec α := fun s l => if ok then ({ s with file := s.mem }, l) else (s, { l with failed := true })
/-- the store of the `storeOutside` shape writes the argument it was handed -/
def storeArg (c : α) (ok : Bool) : Sec α := fun s l => if ok then ({ s with file := c }, l) else (s, { l with failed := true })
def rollback : Sec α := fun s l =>
  if l.failed then (match l.orig with | some o => ({ s with mem := o }, l) | none => (s, l)) else (s, l)
def mutate (f : α → α) : Sec α := fun s l => ({ s with mem := f s.mem }, l)
def readSec : Sec α := fun s l => (s, { l with seen := s.mem :: l.seen })
def andThen (a b : Sec α) : Sec α := fun s l => b (a s l).1 (a s l).2

inductive Call (α : Type) where
  | setConf (c : α) (ok : Bool)
  | inPlace (f : α → α) (ok : Bool)
  | read

/-- the program of a call under a shape -/
def prog : Shape → Call α → List (Sec α)
  | _, .read => [readSec]
  | .oneSection, .setConf c ok => [andThen (capSwap c) (andThen (storeMem ok) rollback)]
  | .oneSection, .inPlace f ok => [andThen (mutate f) (storeMem ok)]
  | .storeOutside, .setConf c ok => [capSwap c, storeArg c ok, rollback]
  | .storeOutside, .inPlace f ok => [mutate f, storeMem ok]
  | .other, _ => []

/-- the sequential meaning of a call (what `CJ.AssetsMem` says about one call, on the pair memory / file) -/
def callStep (s : Shared α) : Call α → Shared α
  | .setConf c true => ⟨c, c⟩
  | .setConf _ false => s
  | .inPlace f true => ⟨f s.mem, f s.mem⟩
  | .inPlace f false => ⟨f s.mem, s.file⟩
  | .read => s

structure Thr (α : Type) where
  call : Call α
  todo : List (Sec α)
  loc : Local α := {}
  started : Bool := false

structure Out (α : Type) where
  sh : Shared α
  ts : List (Thr α)
  /-- the calls in the order in which their first section ran -/
  log : List (Call α)

/-- a schedule names, step by step, the caller whose next section runs (a caller with nothing left: no step) -/
def run (s : Shared α) (ts : List (Thr α)) : List Nat → Out α
  | [] => ⟨s, ts, []⟩
  | i :: is =>
    match ts[i]? with
    | some ⟨c, sec :: rest, l, st⟩ =>
      let r := run (sec s l).1 (ts.set i ⟨c, rest, (sec s l).2, true⟩) is
      if st then r else { r with log := c :: r.log }
    | _ => run s ts is

def start (sh : Shape) (cs : List (Call α)) : List (Thr α) := cs.map fun c => ⟨c, prog sh c, {}, false⟩

/-- calls that leave memory and file alone -/
def quietCall : Call α → Bool
  | .setConf _ false => true
  | .read => true
  | _ => false

end CJ.AssetsConc
