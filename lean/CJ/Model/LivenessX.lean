import CJ.Model.Liveness
/-!
# The probe result as a pair (layer on top of `CJ.Model.Liveness`)

`phantomIsLive` returns `(bool, error)`.  The built-in scanner only ever produces the pairings
`(true, ErrLiveHost | dial error)` and `(false, NotLive | wraps NotLive)`, but the probe is an injectable
function (`CachedLivenessTester.phantomIsLive`, `UncachedLivenessTester.phantomIsLive`) and nothing in
the property restricts it: the verdict is the *boolean*, the error is a remark that travels with it.
This layer makes the whole pair part of the operation: `store` (the branch of
`CachedLivenessTester.PhantomIsLive`, cached.go:107-125, that files a fresh measurement) takes the pair,
the answer of a probing query carries the pair back.  The operations of the base model are the
projections (`XOp.forget`); `CJ.Lemmas.LivenessX` proves that the two models run in lock step, so every
theorem about histories of the base model applies to histories of pairs.
-/
namespace CJ.Liveness

/-- the error component of a probe result, as far as any code in the package could tell them apart
(`==`, `errors.Is(·, NotLive)`, `errors.Is(·, ErrLiveHost)`, context errors, `net.Error.Timeout()`) -/
inductive ProbeErr
  | nil            -- no error
  | notLive        -- the sentinel `NotLive` itself
  | wrapsNotLive   -- `fmt.Errorf("%w …", NotLive)` (what the scanner returns on its default branch)
  | liveHost       -- `ErrLiveHost` (or an error wrapping it)
  | other          -- any other error: a dial failure, a scanner that could not run
  | ctxCanceled    -- `context.Canceled`
  | ctxDeadline    -- `context.DeadlineExceeded` (a `net.Error` whose `Timeout()` is true)
deriving Repr, DecidableEq

/-- what one call of the probe function returned -/
structure Measured where
  live : Bool
  err : ProbeErr
deriving Repr, DecidableEq

/-- cached.go:107-125: the fresh measurement is filed in the cache *matching its boolean* (when that cache
is enabled).  The function receives the whole pair, as the code has both variables in scope; the branch
condition is `if isLive`. -/
def store (live nonLive : Option Cache) (now : Int) (a : String) (r : Measured) : Option Cache × Option Cache :=
  if r.live then (addOpt live now a, nonLive) else (live, addOpt nonLive now a)

inductive XOp
  | query (now : Int) (addr : String) (r : Measured)   -- PhantomIsLive; `r` = what a probe would return
  | clear (now : Int)                                   -- ClearExpiredCache
deriving Repr

def XOp.time : XOp → Int
  | .query now _ _ => now
  | .clear now => now

/-- the base-model operation: the boolean alone -/
def XOp.forget : XOp → Op
  | .query now a r => .query now a r.live
  | .clear now => .clear now

inductive XOut
  | cached (v : Bool)      -- answered from the cache: `(v, ErrCachedPhantom)`, no probe sent
  | probed (r : Measured)  -- the probe was called once; the tester returned `(r.live, r.err)`
  | cleared
deriving Repr, DecidableEq

/-- `PhantomIsLive` (both testers) with the probe result as a pair: `return isLive, err` hands back exactly
what the probe returned. -/
def queryX (t : Tester) (now : Int) (a : String) (r : Measured) : Tester × XOut :=
  match t with
  | .uncached => (t, .probed r)
  | .cached live nonLive =>
    let (live1, hitL) := lookupOpt live now a
    if hitL then (.cached live1 nonLive, .cached true) else
    let (nonLive1, hitN) := lookupOpt nonLive now a
    if hitN then (.cached live1 nonLive1, .cached false) else
    let s := store live1 nonLive1 now a r
    (.cached s.1 s.2, .probed r)

def stepX (t : Tester) : XOp → Tester × XOut
  | .query now a r => queryX t now a r
  | .clear now => (clear t now, .cleared)

def runXFrom (t : Tester) (ops : List XOp) : Tester := ops.foldl (fun t o => (stepX t o).1) t

/-- the tester after a history of operations, starting from `New(config)` -/
def runX (c : Config) (ops : List XOp) : Tester := runXFrom (new c).1 ops

end CJ.Liveness
