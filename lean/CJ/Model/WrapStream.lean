import CJ.Model.Wrap
/-!
# What the wrapping transports consume and what they hand on (C02, used by C04's reading of the relay)

`WrapConnection` of min and prefix ends in `data.Next(k)` and `transports.PrependToConn(c, data)`:
the proving bytes are taken out of the buffer, and the connection handed to the tunnel reads
`io.MultiReader(data, c)` — the rest of the buffer first, then the socket.  This file models

* `bytes.Buffer.Read`, the socket as a script of later reads, `io.MultiReader.Read` over the two
  (`mrRead`, branch by branch as in `io/multi.go`), and a run of reads of any sizes;
* the buffer a classifier leaves behind (`handedOn`);
* obfs4's `findMarkMac(mark, buf, startPos, maxPos, fromTail = true)` with its length window
  (`findMarkTail`) and the classifier built on it (`wrapObfs4M`): the per-registration mark is the
  HMAC oracle, *where* it must sit is modelled.
-/
namespace CJ.WrapStream
open CJ.Wrap

inductive Err | none | eof | other
deriving Repr, DecidableEq

/-- the raw connection: `chunks` are what successive `Read`s have available (a read takes at most the
current chunk), after them every read reports `io.EOF` (`endErr = false`) or another error
(`endErr = true`); `lastWithEof`: the read that takes the end of the last chunk already reports
`io.EOF` together with the bytes (allowed by `io.Reader`) -/
structure Sock where
  chunks : List Bytes
  endErr : Bool
  lastWithEof : Bool
deriving Repr, DecidableEq

structure ReadRes where
  data : Bytes
  err : Err
deriving Repr, DecidableEq

def sockRead (s : Sock) (n : Nat) : ReadRes × Sock :=
  match s.chunks with
  | [] => (⟨[], if s.endErr then .other else .eof⟩, s)
  | c :: cs =>
    if n = 0 then (⟨[], .none⟩, s)
    else if n < c.length then (⟨c.take n, .none⟩, { s with chunks := c.drop n :: cs })
    else (⟨c, if cs.isEmpty && s.lastWithEof && !s.endErr then .eof else .none⟩, { s with chunks := cs })

/-- `io.MultiReader(buffer, conn)`: `rem` is the unread part of the buffer, `bufDone` / `sockDone` say
that the reader has answered `io.EOF` and was dropped from the list -/
structure MR where
  rem : Bytes
  bufDone : Bool
  sock : Sock
  sockDone : Bool
deriving Repr, DecidableEq

/-- one `PrefixConn.Read(p)` with `len(p) = n`.
`bytes.Buffer.Read`: empty buffer → `(0, nil)` for an empty `p`, else `(0, EOF)`; otherwise copies.
`multiReader.Read`: a reader that answers EOF is dropped; `n > 0 || err != EOF` returns, with the
EOF silenced while readers remain. -/
def mrRead (m : MR) (n : Nat) : ReadRes × MR :=
  if !m.bufDone && (!m.rem.isEmpty || n == 0) then
    (⟨m.rem.take n, .none⟩, { m with rem := m.rem.drop n })
  else if m.sockDone then (⟨[], .eof⟩, { m with bufDone := true })
  else
    if (sockRead m.sock n).1.err = .eof then
      (⟨(sockRead m.sock n).1.data, .eof⟩, { m with bufDone := true, sock := (sockRead m.sock n).2, sockDone := true })
    else ((sockRead m.sock n).1, { m with bufDone := true, sock := (sockRead m.sock n).2 })

def runReads : MR → List Nat → List ReadRes × MR
  | m, [] => ([], m)
  | m, n :: ns =>
    let r := mrRead m n
    let rest := runReads r.2 ns
    (r.1 :: rest.1, rest.2)

/-- everything the reads returned, in order -/
def delivered (rs : List ReadRes) : Bytes := (rs.map (·.data)).flatten

/-- what is still to come -/
def pending (m : MR) : Bytes :=
  (if m.bufDone then [] else m.rem) ++ (if m.sockDone then [] else m.sock.chunks.flatten)

/-- `transports.PrependToConn(c, data)` -/
def prepend (rem : Bytes) (s : Sock) : MR := { rem := rem, bufDone := false, sock := s, sockDone := false }

/-- the buffer after `WrapConnection` returned verdict `v` on buffer `d`: a match has taken its
`consumed` bytes out (`data.Next`), every other return leaves the buffer as it was (the caller offers
it to the next transport, or again with more bytes) -/
def handedOn (v : Verdict) (d : Bytes) : Bytes :=
  match v with
  | .found _ n => d.drop n
  | _ => d

/-! ## obfs4: where the mark has to sit -/

inductive MarkRes | panic | absent | at (pos : Nat)
deriving Repr, DecidableEq

def markLen : Nat := 16
def macLen : Nat := 16

/-- `findMarkMac(mark, buf, startPos, maxPos, true)` (utils.go).  Go's `endPos-startPos` is a signed
subtraction that can be negative; it is then below `MarkLength+MacLength` just as the truncated one. -/
def findMarkTail (mark buf : Bytes) (startPos maxPos : Nat) : MarkRes :=
  if mark.length ≠ markLen then .panic
  else if buf.length < startPos then .absent
  else if min buf.length maxPos - startPos < markLen + macLen then .absent
  else if (buf.drop (min buf.length maxPos - (markLen + macLen))).take markLen = mark then
    .at (min buf.length maxPos - (markLen + macLen))
  else .absent

def obfs4SearchFrom : Nat := 109     -- representative 32 + ClientMinPadLength 77 (pinned against Gen.Obfs4)

/-- registrations whose mark is located: `markOf rid rep` = `generateMark` for the keys of registration
`rid` over the representative `rep` (the first 32 bytes), `none` when the registration has no usable keys -/
def located (markOf : Nat → Bytes → Option Bytes) (regs : List RegView) (d : Bytes) : List Nat :=
  regs.filterMap fun r =>
    match markOf r.rid (d.take 32) with
    | some mk =>
      match findMarkTail mk d obfs4SearchFrom obfs4MaxHandshake with
      | .at _ => some r.rid
      | _ => none
    | none => none

/-- obfs4's `WrapConnection` with the mark search inside the model -/
def wrapObfs4M (markOf : Nat → Bytes → Option Bytes) (regs : List RegView) (d : Bytes) : Verdict :=
  wrapObfs4 (located markOf regs d) regs d

end CJ.WrapStream
