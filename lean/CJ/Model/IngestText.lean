import CJ.Model.IngestStore
import CJ.Model.CovertLit
/-!
# The station's admission lists from their configured text (C07)

`CJ.Ingest.Cfg.blocklist` was handed to the model already parsed — by the harness's own `net.ParseCIDR` — and the
covert policy's verdict was a library verdict (`Oracles.covertOk`, `Covert.resolved`, tied together by the assumed
`WireC.WF`).  Here both are *computed*:

* `phantomBlocklist` mirrors the phantom part of `RegConfig.ParseBlocklists` (registration_config.go): every entry
  through `strings.TrimSpace` and `net.ParseCIDR` (the parser is `CJ.NetAddr`'s, shared with C06), an entry that does
  not parse is a configuration error (`none`) — it is not skipped;  `toEntry` turns the `*IPNet` into the
  (network bytes, prefix length) form `CJ.Ingest.netContains` works on, the way `networkNumberAndMask` reads it
  (an IPv4-mapped network written as an IPv6 literal is a 4-byte network with the last 4 mask bytes);
* `covertOfLit` is `ParseOrResolveBlocklisted` on a covert string whose host is an address literal
  (`CJ.CovertLit.admitLit` over the policy parsed from the configured text); `litWire` is a message whose covert
  verdict is that computation, so `WireC.WF` holds by construction (`CJ.Props.C07.litWire_WF`).

Nothing is defaulted: what the Go code rejects is `none`.
-/
namespace CJ.IngestText
open CJ.NetAddr CJ.Ingest
open CJ.Detector (Bytes)

/-- `unicode.IsSpace` (the Latin-1 part is what `strings.TrimSpace` tests on ASCII bytes, the rest is the White_Space
property table) -/
def isSpace (c : Char) : Bool :=
  let n := c.toNat
  (decide (9 ≤ n) && decide (n ≤ 13)) || n == 32 || n == 0x85 || n == 0xA0 || n == 0x1680 ||
  (decide (0x2000 ≤ n) && decide (n ≤ 0x200a)) || n == 0x2028 || n == 0x2029 || n == 0x202f || n == 0x205f || n == 0x3000

def trimLeft : Str → Str
  | [] => []
  | c :: r => if isSpace c then trimLeft r else c :: r

/-- `strings.TrimSpace` -/
def trimSpace (s : Str) : Str := (trimLeft (trimLeft s).reverse).reverse

/-- a parsed CIDR: masked address bytes, prefix length, number of address bytes (4 or 16) -/
structure Entry where
  ip : List Nat
  ones : Nat
  bytes : Nat
deriving DecidableEq, Repr

/-- `net.ParseCIDR` keeping the prefix length (`CJ.NetAddr.parseCIDR` returns the mask; `parseCIDR_of_cidrEntry` in
`CJ.Props.C07Text` shows it is the same parser) -/
def cidrEntry (s : Str) : Option Entry :=
  match cut '/' s with
  | (_, none) => none
  | (addr, some mask) =>
    match parseAddr addr with
    | none => none
    | some a =>
      if !a.zone.isEmpty then none else
      match dtoiAll mask 0 false with
      | none => none
      | some n =>
        match a with
        | .v4 b => if n > 32 then none else some ⟨andBytes b (cidrMask n 4), n, 4⟩
        | .v6 b _ => if n > 128 then none else some ⟨andBytes b (cidrMask n 16), n, 16⟩

/-- the `*IPNet` of an entry -/
def Entry.ipnet (e : Entry) : IPNet := ⟨e.ip, cidrMask e.ones e.bytes⟩

def toBytes (l : List Nat) : Bytes := l.map UInt8.ofNat

/-- the entry as `(*IPNet).Contains` reads it (`networkNumberAndMask`): the 4-byte form of the network when `To4`
succeeds, then the last 4 bytes of a 16-byte mask (`ones - 96` leading ones, none when `ones < 96`) -/
def toEntry (e : Entry) : Bytes × Nat :=
  match to4 e.ip with
  | some x => if e.bytes == 16 then (toBytes x, e.ones - 96) else (toBytes x, e.ones)
  | none => (toBytes e.ip, e.ones)

/-- the phantom part of `ParseBlocklists`: `none` = the configuration is refused -/
def phantomBlocklist (texts : List String) : Option (List (Bytes × Nat)) :=
  texts.mapM fun t => (cidrEntry (trimSpace t.toList)).map toEntry

/-- the station configuration with the phantom blocklist as configured -/
def cfgOfText (e4 e6 share : Bool) (transports : List Nat) (texts : List String) : Option Cfg :=
  (phantomBlocklist texts).map fun bl =>
    { enableV4 := e4, enableV6 := e6, shareOverAPI := share, transports := transports, blocklist := bl }

/-! ## the covert policy from text -/

/-- the covert part of `ParseBlocklists` (subnets; no domain patterns): `none` = the configuration is refused -/
def covertPolicy (block allow : List String) : Option (CJ.Covert.Policy IPNet Unit) := do
  let b ← block.mapM (fun s => parseCIDR (trimSpace s.toList))
  let a ← allow.mapM (fun s => parseCIDR (trimSpace s.toList))
  some { block := b, allow := a, enableAllow := !a.isEmpty, domains := [] }

def noPatterns : Unit → String → Bool := fun _ _ => false

/-- `ParseOrResolveBlocklisted(raw)` for a covert string the call decides without the resolver (address literal as
host, or refused before the lookup): the covert address of the message and the policy's answer.  `none` = the host is
a name (stays a library verdict). -/
def covertOfLit (pol : CJ.Covert.Policy IPNet Unit) (raw : String) : Option Covert :=
  (CJ.CovertLit.admitLit noPatterns pol raw).map fun r =>
    { raw := raw, resolved := if r.out = "" then none else some r.out }

/-- a message whose covert verdict is computed from its covert string -/
def litWire (pol : CJ.Covert.Policy IPNet Unit) (m : Msg) (o : Oracles) (raw : String) : Option WireC :=
  (covertOfLit pol raw).map fun cv => { w := .msg m { o with covertOk := cv.resolved.isSome }, cv := cv }

end CJ.IngestText
