/-!
# Model of the in-memory side of the client's asset store (pkg/client/assets/assets.go)

`CJ.AtomicStore` models one `saveClientConf` system call by system call.  This module models what the
package does *around* it, call by call, for whole histories:

* the `assets` struct: `config` is a **pointer** (`*pb.ClientConf`, possibly nil), `path` the directory;
* `SetClientConf(conf)`: swap the pointer, store, put the previous pointer back when the store fails;
* `SetGeneration` / `SetPubkey` / `SetDecoys` / `SetPhantomSubnets`: mutate the object `config` points to
  (an object the caller may still hold — aliasing is part of the model), store, no roll-back; a nil
  `config` is dereferenced by the first three (Go panic) and replaced by a fresh empty object by the last;
* the load path: `initAssets(dir)` (built-in default, then `readConfigs`), `AssetsSetDir(dir)` (stat, switch
  `path`, `readConfigs`), `readConfigs` (missing / unreadable / unparsable file: the configuration in
  memory stays and an error is returned; otherwise a *fresh* object replaces it);
* the locking readers (`GetGeneration`, `IsDecoyInList`, `GetPhantomSubnets`, `GetDNSRegConf`) and the
  unlocked ones (`GetClientConfPtr`, `GetAllDecoys`).

One `saveClientConf` is one step here with two outcomes — the file now holds the marshalled
configuration and `nil` is returned, or the file is untouched and an error is returned — which are exactly
the two return states proved for the system-call model (`CJ.Props.C20.success_installs_new`,
`failure_keeps_old_on_disk`; bridge theorem `CJ.Props.C20Mem.save_outcomes_are_atomic_store_outcomes`).

A configuration is the four fields the setters touch plus one token for all the others; `restOK` says
whether `proto.Marshal` accepts the others (the only `required` fields of a `ClientConf` are inside its
`DnsRegConf`).  Tokens are opaque strings; a decoy token is `<hostname>@<ipv4>#<rest>` and
`IsDecoyInList` compares the part before `#`.
-/
namespace CJ.AssetsMem

structure Conf where
  gen : Option Nat                 -- Generation *uint32
  pub : Option String              -- DefaultPubkey *PubKey
  decoys : Option (List String)    -- DecoyList *DecoyList (nil / its TlsDecoys)
  subnets : Option String          -- PhantomSubnetsList
  rest : String                    -- every other field
  restOK : Bool                    -- the other fields have their required members
deriving DecidableEq, Repr

/-- `&pb.ClientConf{}` -/
def emptyConf : Conf := ⟨none, none, none, none, "-", true⟩

/-- the ClientConf file of one directory -/
inductive File
  | missing                        -- `os.ReadFile` fails (absent, a directory, the directory is gone)
  | data (c : Conf)                -- the bytes `proto.Marshal` produced for `c`
  | junk (parsed : Option Conf)    -- any other content; what `proto.Unmarshal` makes of it
deriving DecidableEq, Repr

/-- `os.ReadFile` + `proto.Unmarshal` -/
def decode : File → Option Conf
  | .missing => none
  | .data c => some c
  | .junk p => p

structure St where
  heap : List Conf                 -- configuration objects; a pointer is an index
  cfg : Option Nat                 -- `a.config`
  path : Nat                       -- `a.path` (directory number)
  disk : Nat → File                -- the ClientConf file of every directory

def upd (f : Nat → File) (d : Nat) (v : File) : Nat → File := fun x => if x = d then v else f x

inductive Reader
  | getGen                         -- GetGeneration
  | isDecoy (tok : String)         -- IsDecoyInList
  | subnets (dflt : String)        -- GetPhantomSubnets; `dflt`: token of the built-in default list
  | dnsReg                         -- GetDNSRegConf
  | ptr                            -- GetClientConfPtr
  | nDecoys                        -- len(GetAllDecoys())
deriving DecidableEq, Repr

inductive Ev
  /-- the caller builds a configuration object; its pointer is the next free index -/
  | alloc (c : Conf)
  /-- `SetClientConf(p)`; `io`: the environment lets the system calls of the store succeed -/
  | setConf (p : Option Nat) (io : Bool)
  | setGen (g : Nat) (io : Bool)
  | setPub (k : Option String) (io : Bool)
  | setDecoys (ds : List String) (io : Bool)
  | setSubnets (t : Option String) (io : Bool)
  /-- the caller changes the generation of an object it holds (possibly the one in effect) -/
  | mutate (p : Nat) (g : Nat)
  /-- `AssetsSetDir(d)`; `ex`: `os.Stat(d)` succeeds -/
  | setDir (d : Nat) (ex : Bool)
  /-- `initAssets(d)` with the built-in default configuration `dflt` -/
  | init (d : Nat) (dflt : Conf)
  /-- somebody else replaces the ClientConf file of directory `d` -/
  | tamper (d : Nat) (f : File)
  | read (r : Reader)
deriving Repr

inductive Res
  | ok | err | panic
  | val (s : String)
deriving DecidableEq, Repr

/-- what `saveClientConf` marshals: `proto.Marshal` of a nil message is the empty byte string -/
def stored (s : St) : Option Conf :=
  match s.cfg with
  | none => some emptyConf
  | some p => s.heap[p]?

/-- `saveClientConf`: `some true` = an error was returned.  `none`: dangling pointer (ill-formed state). -/
def save (s : St) (io : Bool) : Option (St × Bool) :=
  match stored s with
  | none => none
  | some c =>
    if !c.restOK then some (s, true)            -- proto.Marshal: required field missing
    else if !io then some (s, true)             -- temporary file / rename failed: target untouched
    else some ({ s with disk := upd s.disk s.path (.data c) }, false)

/-- `readConfigs`: `true` = an error was returned -/
def load (s : St) : St × Bool :=
  match decode (s.disk s.path) with
  | none => (s, true)
  | some c => ({ s with heap := s.heap ++ [c], cfg := some s.heap.length }, false)

def resOf (err : Bool) : Res := if err then .err else .ok

/-- the in-place setters: modify the object `a.config` points to, then store -/
def inPlace (s : St) (f : Conf → Conf) (io : Bool) : Option (St × Res) :=
  match s.cfg with
  | none => some (s, .panic)                    -- nil pointer dereference (the deferred Unlock runs)
  | some p =>
    match s.heap[p]? with
    | none => none
    | some c =>
      match save { s with heap := s.heap.set p (f c) } io with
      | none => none
      | some (s', e) => some (s', resOf e)

def decoyKey (tok : String) : String := (tok.splitOn "#").headD ""

def readerRes (s : St) : Reader → Option Res
  | .ptr => some (.val (match s.cfg with | none => "nil" | some p => toString p))
  | r =>
    match s.cfg with
    | none =>
      match r with
      | .getGen => some (.val "0")              -- the generated getters are nil-safe
      | .isDecoy _ => some (.val "0")
      | .subnets d => some (.val d)
      | .dnsReg => some .panic                  -- `a.config.DnsRegConf` on a nil pointer
      | .nDecoys => some (.val "0")
      | .ptr => some (.val "nil")
    | some p =>
      match s.heap[p]? with
      | none => none
      | some c =>
        match r with
        | .getGen => some (.val (toString (c.gen.getD 0)))   -- `GetGeneration` of an unset field is 0
        | .isDecoy t => some (.val (if ((c.decoys.getD []).map decoyKey).contains (decoyKey t) then "1" else "0"))
        | .subnets d => some (.val (match c.subnets with | none => d | some t => t))
        | .dnsReg => some .ok
        | .nDecoys => some (.val (toString (c.decoys.getD []).length))
        | .ptr => some (.val (toString p))

def ptrOK (s : St) : Option Nat → Bool
  | none => true
  | some q => decide (q < s.heap.length)

/-- `SetClientConf(p)`: `origConf := a.config; a.config = conf; err = save; if err != nil { a.config = origConf }` -/
def setConf (s : St) (p : Option Nat) (io : Bool) : Option (St × Res) :=
  if ptrOK s p then
    match save { s with cfg := p } io with
    | none => none
    | some (s', e) => if e then some ({ s' with cfg := s.cfg }, .err) else some (s', .ok)
  else none

/-- `SetPhantomSubnets`: a nil `a.config` is first replaced by `&pb.ClientConf{}` -/
def setSubnets (s : St) (t : Option String) (io : Bool) : Option (St × Res) :=
  match s.cfg with
  | none => inPlace { s with heap := s.heap ++ [emptyConf], cfg := some s.heap.length } (fun c => { c with subnets := t }) io
  | some _ => inPlace s (fun c => { c with subnets := t }) io

def mutate (s : St) (p g : Nat) : Option (St × Res) :=
  match s.heap[p]? with
  | none => none
  | some c => some ({ s with heap := s.heap.set p { c with gen := some g } }, .ok)

/-- `AssetsSetDir(d)` on an initialised singleton -/
def setDir (s : St) (d : Nat) (ex : Bool) : St × Res :=
  if d = s.path then (s, .ok)                      -- same directory: nothing (the Once is spent)
  else if !ex then (s, .err)                       -- os.Stat failed: path unchanged
  else
    let r := load { s with path := d }             -- path switched, then readConfigs
    (r.1, resOf r.2)

/-- `initAssets(d)`: a fresh default object, then readConfigs -/
def initAssets (s : St) (d : Nat) (dflt : Conf) : St × Res :=
  let r := load { s with heap := s.heap ++ [dflt], cfg := some s.heap.length, path := d }
  (r.1, resOf r.2)

def readStep (s : St) (r : Reader) : Option (St × Res) :=
  match readerRes s r with
  | none => none
  | some v => some (s, v)

/-- one call.  `none`: the case is ill-formed (a pointer that was never allocated). -/
def step (s : St) : Ev → Option (St × Res)
  | .alloc c => some ({ s with heap := s.heap ++ [c] }, .ok)
  | .setConf p io => setConf s p io
  | .setGen g io => inPlace s (fun c => { c with gen := some g }) io
  | .setPub k io => inPlace s (fun c => { c with pub := k }) io
  | .setDecoys ds io => inPlace s (fun c => { c with decoys := some ds }) io
  | .setSubnets t io => setSubnets s t io
  | .mutate p g => mutate s p g
  | .setDir d ex => some (setDir s d ex)
  | .init d dflt => some (initAssets s d dflt)
  | .tamper d f => some ({ s with disk := upd s.disk d f }, .ok)
  | .read r => readStep s r

/-- a history: the states and results after every call -/
def run (s : St) : List Ev → Option (St × List Res)
  | [] => some (s, [])
  | e :: es =>
    match step s e with
    | none => none
    | some (s', r) =>
      match run s' es with
      | none => none
      | some (s'', rs) => some (s'', r :: rs)

end CJ.AssetsMem
