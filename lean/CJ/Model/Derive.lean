import CJ.Model.Phantom
import CJ.Model.Port
/-!
# Key, tag and whole-registration derivation (C01)

Station side: `core.GenSharedKeys` (pkg/core/keys.go) and what `NewRegistrationC2SWrapper` /
`NewRegistration` derive from a registration: ConjureSeed, phantom address (`stationSelect`), port
(`stationPort`), the transport identifier (`GetIdentifier`), obfs4 node keys (`generateObfs4Keys`).
Client side: `core.GenerateClientSharedKeys`, `phantoms.SelectPhantom` (versions ≥ 2) or the frozen
clients (versions 0/1), `ClientTransport.GetDstPort`, `PrepareKeys`.

Cryptography is a parameter (`Crypto`): the HKDF key stream of a shared secret, `ConjureHMAC`, X25519
on the base point.  The drivers instantiate the first two with the Lean SHA-256; the theorems hold
for every instantiation.
-/
namespace CJ.Derive
open CJ.Phantom CJ.Port

structure Crypto where
  /-- `hkdf.New(sha256.New, secret, "conjureconjureconjureconjure", nil)` -/
  keyStream : Bytes → Stream
  /-- `hkdf.New(sha256.New, seed, nil, info)` and the entropy limit of every such reader -/
  hk : Hk
  /-- `core.ConjureHMAC(secret, label)` -/
  hmac : Bytes → String → Bytes
  /-- `curve25519.X25519(priv, Basepoint)` -/
  x25519Base : Bytes → Bytes

/-- `l := 16 + 12 + 16 + 12 + 48` bytes drawn and discarded for clients before the key refactor -/
def legacySkipLen : Nat := 16 + 12 + 16 + 12 + 48
/-- `core.SharedKeysRefactorMinVersion` -/
def sharedKeysRefactorMinVersion : Nat := 4
/-- the client library version of the client code in this repository (`CurrentClientLibraryVersion`) -/
def currentClientVersion : Nat := 4

def hmacMin : String := "MinTrasportHMACString"
def hmacPrefix : String := "PrefixTransportHMACString"
def hmacDtls : String := "dtlsTrasportHMACString"

/-- `ConjureSharedKeys`: the seed and where `TransportReader` stands in the key stream -/
structure Keys where
  seed : Bytes
  readerPos : Nat
deriving DecidableEq, Repr

/-- a `Read` of `n` bytes at `pos` of an HKDF reader: fails, consuming nothing, past the limit -/
def readN (s : Stream) (lim pos n : Nat) : Option (Bytes × Nat) :=
  if lim < pos + n then none else some (readAt s pos n, pos + n)

/-- `core.GenSharedKeys(clientLibVer, sharedSecret, _)` — station -/
def genSharedKeys (c : Crypto) (ver : Nat) (secret : Bytes) : Outcome Keys :=
  let s := c.keyStream secret
  let start : Option Nat :=
    if ver < sharedKeysRefactorMinVersion then (readN s c.hk.lim 0 legacySkipLen).map (·.2) else some 0
  match start with
  | none => .err .entropy
  | some p =>
    match readN s c.hk.lim p 16 with
    | some (seed, p') => .ok ⟨seed, p'⟩
    | none => .err .entropy

/-- `core.GenerateClientSharedKeys` after the key exchange — the client of `currentClientVersion` -/
def clientSharedKeys (c : Crypto) (secret : Bytes) : Outcome Keys :=
  match readN (c.keyStream secret) c.hk.lim 0 16 with
  | some (seed, p') => .ok ⟨seed, p'⟩
  | none => .err .entropy

/-- the published derivation of a client of library version `ver`: versions before the refactor drew
`legacySkipLen` bytes of registrar keys first (gotapdance ≤ v1.3, conjure PR 202) -/
def specClientKeys (c : Crypto) (ver : Nat) (secret : Bytes) : Outcome Keys :=
  let s := c.keyStream secret
  let p := if ver < sharedKeysRefactorMinVersion then legacySkipLen else 0
  match readN s c.hk.lim p 16 with
  | some (seed, p') => .ok ⟨seed, p'⟩
  | none => .err .entropy

/-- `generateObfs4Keys(reader)`: 32 bytes of private key, clamped, then 20 bytes of node id -/
structure Obfs4Keys where
  priv : Bytes
  pub : Bytes
  nodeID : Bytes
deriving DecidableEq, Repr

def clampKey (k : Bytes) : Bytes :=
  (k.mapIdx fun i b => if i = 0 then b &&& 248 else if i = 31 then (b &&& 127) ||| 64 else b)

def obfs4Keys (c : Crypto) (secret : Bytes) (readerPos : Nat) : Outcome Obfs4Keys :=
  let s := c.keyStream secret
  match readN s c.hk.lim readerPos 32 with
  | none => .err .entropy
  | some (k, p) =>
    let priv := clampKey k
    match readN s c.hk.lim p 20 with
    | none => .err .entropy
    | some (nid, _) => .ok ⟨priv, c.x25519Base priv, nid⟩

/-- the station transports' `GetIdentifier(reg)` -/
def stationIdentifier (c : Crypto) (t : Transport) (secret : Bytes) (k : Keys) : Outcome Bytes :=
  match t with
  | .min => .ok (c.hmac secret hmacMin)
  | .prefix => .ok (c.hmac secret hmacPrefix)
  | .dtls => .ok (c.hmac secret hmacDtls)
  | .obfs4 =>
    match obfs4Keys c secret k.readerPos with
    | .ok ks => .ok (ks.pub ++ ks.nodeID)
    | .err e => .err e
    | .panic w => .panic w
  | .unknown => .err .unknownGen

/-- what the client transports' `PrepareKeys(pubkey, sharedSecret, reader)` derive to identify the
session to the station: the connect tag (min, prefix), the obfs4 public key and node id; DTLS has no
tag (both ends key the handshake with the shared secret itself) -/
def clientIdentifier (c : Crypto) (t : Transport) (secret : Bytes) (k : Keys) : Outcome Bytes :=
  match t with
  | .min => .ok (c.hmac secret hmacMin)
  | .prefix => .ok (c.hmac secret hmacPrefix)
  | .dtls => .ok []
  | .obfs4 =>
    match obfs4Keys c secret k.readerPos with
    | .ok ks => .ok (ks.pub ++ ks.nodeID)
    | .err e => .err e
    | .panic w => .panic w
  | .unknown => .err .unknownGen

/-! ### DTLS credentials

The DTLS transport sends no tag.  Both ends configure the handshake with a pre-shared key
(`dtls.Config{PSK: …}`), from which `pkg/dtls` derives everything that identifies the session: the
ClientHello random the station's listener dispatches on (`clientHelloRandomFromSeed`) and the two
certificates (`certsFromSeed`).  -/

/-- station: `dtls.Config{PSK: reg.SharedSecret()}` in both branches of `Transport.Connect` -/
def stationDtlsPsk (secret : Bytes) : Bytes := secret
/-- client: `PrepareKeys(pubkey, sharedSecret, reader)` keeps `t.psk = sharedSecret` — not the seed,
and nothing from the reader (whose position differs between library versions) -/
def clientDtlsPsk (secret : Bytes) (_keys : Keys) : Bytes := secret

/-- what the handshake derives from a pre-shared key; `hello` is `clientHelloRandomFromSeed`
(HKDF-SHA256, info "clientHelloRandomFromSeed", 28 bytes: computed by the driver), the certificates
are a function of the key as well (pinned by golden vectors in the harness) -/
structure DtlsCred where
  psk : Bytes
  helloRandom : Bytes
deriving DecidableEq, Repr

def dtlsCred (hello : Bytes → Bytes) (psk : Bytes) : DtlsCred := ⟨psk, hello psk⟩

/-! ### the whole derivation -/

/-- what the two ends must agree on -/
structure Rendezvous where
  seed : Bytes
  addr : Bytes
  port : Nat
  ident : Bytes
deriving DecidableEq, Repr

inductive DOut where
  | ok (r : Rendezvous)
  | errKeys (e : Err)
  | errAddr (e : Err)
  | errPort (e : PErr)
  | errIdent (e : Err)
  | panic (w : String)
deriving DecidableEq, Repr

/-- a registration as far as the derivation is concerned -/
structure Reg where
  secret : Bytes
  ver : Nat
  gen : Nat
  v6 : Bool
  transport : Transport
  params : Option Wire
deriving Repr

def portStream (c : Crypto) (seed : Bytes) : Stream := c.hk.hk seed labelPort

def finish (seed : Bytes) (a : Outcome Addr) (port : Bool → POut Nat) (ident : Outcome Bytes) : DOut :=
  match a with
  | .err e => .errAddr e
  | .panic w => .panic w
  | .ok a =>
    match port a.randPort with
    | .err e => .errPort e
    | .panic w => .panic w
    | .ok p =>
      match ident with
      | .err e => .errIdent e
      | .panic w => .panic w
      | .ok i => .ok ⟨seed, a.bytes, p, i⟩

/-- station: `NewRegistrationC2SWrapper` / `NewRegistration` (no registrar overrides) followed by the
transport's `GetIdentifier`. -/
def stationDerive (c : Crypto) (k : Consts) (cfg : Cfg) (r : Reg) : Prog DOut :=
  match genSharedKeys c r.ver r.secret with
  | .err e => .done (.errKeys e)
  | .panic w => .done (.panic w)
  | .ok keys => do
    let a ← stationSelect c.hk cfg keys.seed r.gen r.ver r.v6
    return finish keys.seed a
      (fun rp => stationPort k (portStream c keys.seed) c.hk.lim r.transport r.ver r.params rp)
      (stationIdentifier c r.transport r.secret keys)

/-- the client of library version `r.ver` (published derivation): keys, then the selector of its
generation (frozen version 0 / 1 clients, `SelectPhantom` from version 2), the port rule, the tag. -/
def clientDerive (c : Crypto) (k : Consts) (gc : GenCfg) (r : Reg) : Prog DOut :=
  match specClientKeys c r.ver r.secret with
  | .err e => .done (.errKeys e)
  | .panic w => .done (.panic w)
  | .ok keys => do
    let a : Outcome Addr ←
      if r.ver < hkdfMinVersion then do
        match ← compatSelect (decide (r.ver < selectionMinGeneration)) gc keys.seed r.v6 with
        | .ok b => pure (.ok ⟨b, false⟩)     -- these clients know no port randomisation
        | .err e => pure (.err e)
        | .panic w => pure (.panic w)
      else pure (clientSelect c.hk gc keys.seed r.v6)
    return finish keys.seed a
      (fun rp => clientPort k (portStream c keys.seed) c.hk.lim r.transport r.ver r.params rp)
      (clientIdentifier c r.transport r.secret keys)

end CJ.Derive
