import CJ.Model.Logger
/-!
# From the configured `log_level` text to the level the process runs at (`main`)

`cmd/application/main.go` (station logger) and `cmd/registration-server/main.go` (logrus) turn the `log_level` string of
the configuration into a level: declare a default, parse the text (the station only when it is not empty), stop with
`log.Fatal` when the parser reports an error (the station also when the level is `UnknownLevel`), hand the level to
`SetLevel`.  The statements are re-extracted on every run (`CJ.Gen.appStartup`, `CJ.Gen.regStartup`); `compile`
accepts exactly that shape — in that order — and names its parts; `startup` runs the compiled code on a configured text.
-/
namespace CJ.Startup
open CJ.Logger

inductive Stmt
  | declLevel (init : String)
  | parse (guard arg errVar : String) (define : Bool)
  | check (disjuncts : List String) (fatal inIf : Bool)
  | setLevel (fn arg guard : String)
  | other (text : String)
deriving Repr, DecidableEq

structure Extracted where
  file : String
  logger : String
  stmts : List Stmt
deriving Repr, DecidableEq

inductive Parser | station | logrus
deriving Repr, DecidableEq

/-- the start-up code with its parts named -/
structure LevelCode where
  parser : Parser
  /-- `var logLevel = log.ErrorLevel` (none: the variable is declared by the ParseLevel assignment) -/
  init : Option Int
  /-- the parse and its check stand under `if conf.LogLevel != ""` -/
  guarded : Bool
  checksErr : Bool
  checksUnknown : Bool
  fatal : Bool
  sets : Bool
deriving Repr, DecidableEq

def levelConst : String → Option Int
  | "log.ErrorLevel" => some errorLevel
  | "log.InfoLevel" => some infoLevel
  | "log.WarnLevel" => some warnLevel
  | "log.DebugLevel" => some debugLevel
  | "log.TraceLevel" => some traceLevel
  | "log.UnknownLevel" => some unknownLevel
  | _ => none

def parserOf : String → Option Parser
  | "station" => some .station
  | "logrus" => some .logrus
  | _ => none

def checkOf (ds : List String) : Option (Bool × Bool) :=
  if ds.all (fun d => d == "err != nil" || d == "logLevel == log.UnknownLevel") then
    some (ds.contains "err != nil", ds.contains "logLevel == log.UnknownLevel")
  else none

/-- the extracted statements, read as the start-up shape; anything else — another order, another guard, a second
assignment or use of the level variable, a `SetLevel` under a condition, a check that is not followed by `Fatal` — is
`none` -/
def compile (e : Extracted) : Option LevelCode := do
  let p ← parserOf e.logger
  match e.stmts with
  | [.declLevel init, .parse "conf.LogLevel != \"\"" "conf.LogLevel" "err" false, .check ds fatal true,
      .setLevel "log.SetLevel" "logLevel" ""] => do
    let (ce, cu) ← checkOf ds
    some ⟨p, some (← levelConst init), true, ce, cu, fatal, true⟩
  | [.parse "" "conf.LogLevel" "err" true, .check ds fatal false, .setLevel "log.SetLevel" "logLevel" ""] => do
    let (ce, cu) ← checkOf ds
    some ⟨p, none, false, ce, cu, fatal, true⟩
  | _ => none

/-! ## logrus' `ParseLevel` and level test (the registration server's logger) -/

def lrPanic : Int := 0
def lrFatal : Int := 1
def lrError : Int := 2
def lrWarn : Int := 3
def lrInfo : Int := 4
def lrDebug : Int := 5
def lrTrace : Int := 6

def logrusNames : List (Bytes × Level) :=
  [ ([112, 97, 110, 105, 99], lrPanic), ([102, 97, 116, 97, 108], lrFatal), ([101, 114, 114, 111, 114], lrError),
    ([119, 97, 114, 110], lrWarn), ([119, 97, 114, 110, 105, 110, 103], lrWarn), ([105, 110, 102, 111], lrInfo),
    ([100, 101, 98, 117, 103], lrDebug), ([116, 114, 97, 99, 101], lrTrace) ]

/-- `logrus.ParseLevel`: `switch strings.ToLower(lvl)`; `none` is the error return (the level returned with it is the
zero value, `PanicLevel`) -/
def parseLogrus (s : Bytes) : Option Level := logrusNames.lookup (toLower s)

def Parser.parse : Parser → Bytes → Option Level
  | .station => parseLevel
  | .logrus => parseLogrus

/-- the level value that comes with the parser's error -/
def Parser.errValue : Parser → Level
  | .station => unknownLevel
  | .logrus => lrPanic

/-- the level of a process that never calls `SetLevel` -/
def Parser.default : Parser → Level
  | .station => defaultLevel
  | .logrus => lrInfo

inductive Outcome
  | refused                -- `log.Fatal`: the process exits before anything else runs
  | runs (level : Level)   -- the package level after the start-up lines
  | illformed              -- the level variable is read before it is assigned (does not compile in Go)
deriving Repr, DecidableEq

def LevelCode.finish (c : LevelCode) (l : Level) : Outcome :=
  if c.sets then .runs l else .runs c.parser.default

def startup (c : LevelCode) (conf : Bytes) : Outcome :=
  if c.guarded && conf.isEmpty then
    match c.init with
    | some l => c.finish l
    | none => .illformed
  else
    match c.parser.parse conf with
    | some l =>
      if c.fatal && c.checksUnknown && decide (l = unknownLevel) && c.parser == .station then .refused else c.finish l
    | none =>
      if c.fatal && (c.checksErr || (c.checksUnknown && c.parser == .station)) then .refused
      else c.finish c.parser.errValue

/-- what the station's start-up lines are on the tree the model was written against -/
def appCode : LevelCode := ⟨.station, some errorLevel, true, true, true, true, true⟩
def regCode : LevelCode := ⟨.logrus, none, false, true, false, true, true⟩

end CJ.Startup
