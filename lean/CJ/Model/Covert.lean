/-!
# Model of covert-address admission (pkg/station/lib/registration_config.go, registration_ingest.go, proxies.go)

`ParseOrResolveBlocklisted` is mirrored branch by branch.  Every standard-library call it makes is an
*oracle*: the case carries the answer the real call gave, in its real result shape —

* `net.ParseIP(provided) != nil`, `net.SplitHostPort(provided)` (error, or host and port),
* `strconv.ParseUint(port, 10, 16)` succeeded, `net.ParseIP(host) != nil`,
* `net.ResolveIPAddr("ip", host)`: an error, a nil address, or an `*IPAddr` whose `IP` **may be nil**
  (that is what the stdlib answers for the empty host), with its zone and its `String()` text,
* `(*net.IPNet).Contains` and `(*regexp.Regexp).MatchString` as functions of an abstract environment.

`net.JoinHostPort` is modelled (brackets iff the host contains a colon).
The model follows the repaired code: a resolved address without an IP, or with a zone, is rejected.
-/

namespace CJ.Covert

/-- `net.JoinHostPort` -/
def joinHostPort (host port : String) : String :=
  if host.contains ':' then "[" ++ host ++ "]:" ++ port else host ++ ":" ++ port

/-- the parsed address policy of a `RegConfig` (`covertBlocklistSubnets`, `covertAllowlistSubnets`,
`enableCovertAllowlist`, `covertBlocklistDomains`) -/
structure Policy (Net Pat : Type) where
  block : List Net
  allow : List Net
  enableAllow : Bool
  domains : List Pat

/-- the two library predicates the policy is evaluated with -/
structure Env (Net Pat IP : Type) where
  contains : Net → IP → Bool          -- (*net.IPNet).Contains(ip), ip non-nil
  matchString : Pat → String → Bool   -- (*regexp.Regexp).MatchString(host)

/-- result shape of `net.ResolveIPAddr("ip", host)` -/
inductive Resolved (IP : Type)
  | err                                                    -- (nil, err)
  | nilAddr                                                -- (nil, nil)
  | addr (ip : Option IP) (zone : String) (text : String)  -- *IPAddr; `ip = none` is a nil `IP`; text = addr.String()

/-- what the standard library answered for one `provided` string -/
structure Answers (IP : Type) where
  providedIsIP : Bool                    -- net.ParseIP(provided) != nil
  split : Option (String × String)       -- net.SplitHostPort(provided): none = error
  portOk : Bool                          -- strconv.ParseUint(port, 10, 16) returned no error
  hostIsIP : Bool                        -- net.ParseIP(host) != nil
  resolved : Resolved IP                 -- net.ResolveIPAddr("ip", host) — the single resolution

variable {Net Pat IP : Type}

/-- `isBlocklistedCovertAddr`: a configured allowlist takes precedence over the blocklist -/
def isBlocklistedCovertAddr (env : Env Net Pat IP) (pol : Policy Net Pat) (ip : IP) : Bool :=
  if pol.enableAllow then !(pol.allow.any (fun n => env.contains n ip))
  else pol.block.any (fun n => env.contains n ip)

/-- `isBlocklistedCovertDomain` -/
def isBlocklistedCovertDomain (env : Env Net Pat IP) (pol : Policy Net Pat) (host : String) : Bool :=
  pol.domains.any (fun p => env.matchString p host)

structure Result where
  out : String        -- "" = rejected
  lookup : Bool       -- the station resolved a name (statistics only)
  resolverCalls : Nat -- how many times the resolver was consulted
deriving Repr, DecidableEq

/-- `ParseOrResolveBlocklisted` -/
def parseOrResolve (env : Env Net Pat IP) (pol : Policy Net Pat) (a : Answers IP) : Result :=
  if a.providedIsIP then ⟨"", false, 0⟩ else       -- an address without a port
  match a.split with
  | none => ⟨"", false, 0⟩
  | some (host, port) =>
    if isBlocklistedCovertDomain env pol host then ⟨"", false, 0⟩ else
    if !a.portOk then ⟨"", false, 0⟩ else
    let lookup := !a.hostIsIP
    match a.resolved with
    | .err => ⟨"", lookup, 1⟩
    | .nilAddr => ⟨"", lookup, 1⟩
    | .addr none _ _ => ⟨"", lookup, 1⟩                  -- no IP (empty host)
    | .addr (some ip) zone text =>
      if isBlocklistedCovertAddr env pol ip then ⟨"", lookup, 1⟩
      else if zone ≠ "" then ⟨"", lookup, 1⟩             -- zone: the text would not be a plain literal
      else ⟨joinHostPort text port, lookup, 1⟩

/-- the part of a registration this property is about -/
structure Reg where
  covert : String
  valid : Bool
deriving Repr, DecidableEq

/-- the covert step of `ingestRegistration`: a rejected covert drops the registration before it can
become valid; otherwise `reg.Covert` is overwritten with the resolved literal (the later admission
steps, which never touch `Covert` again, are C07's). -/
def ingestCovert (env : Env Net Pat IP) (pol : Policy Net Pat) (reg : Reg) (a : Answers IP) : Option Reg :=
  let r := parseOrResolve env pol a
  if r.out = "" then none else some { reg with covert := r.out, valid := true }

/-- `Proxy`: `net.Dial("tcp", reg.Covert)` — the stored string, verbatim, no resolver involved here -/
def proxyDial (reg : Reg) : String := reg.covert

end CJ.Covert
