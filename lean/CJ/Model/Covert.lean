/-!
# Model of covert-address admission (pkg/station/lib/registration_config.go, registration_ingest.go,
# registration.go, proxies.go)

`ParseOrResolveBlocklisted` is mirrored branch by branch.  Every standard-library call it makes is an
*oracle*: the case carries the answer the real call gave, in its real result shape —

* `net.ParseIP(provided) != nil`, `net.SplitHostPort(provided)` (error, or host and port),
* `strconv.ParseUint(port, 10, 16)` succeeded, `net.ParseIP(host) != nil`,
* `net.ResolveIPAddr("ip", host)`: an error, a nil address, or an `*IPAddr` whose `IP` **may be nil**
  (that is what the stdlib answers for the empty host) and its zone,
* `(*net.IPNet).Contains`, `(*regexp.Regexp).MatchString` and `net.IP.String` as functions of an
  abstract environment.

The resolver is a **stream of answers** (`Resolver`), one consumed per lookup: a second lookup of the
same name may be answered differently (names whose answers change between lookups).  Every function
that can consult the resolver takes the stream and a cursor and returns the new cursor, so "resolved
once, at admission" is a statement about cursors, not a constant.

`net.JoinHostPort` is modelled (brackets iff the host contains a colon); `IPAddr.String()` is
`IP.String()` when the zone is empty, else `IP.String() + "%" + zone`.
The model follows the repaired code: a resolved address without an IP, the unspecified address (which
`net.Dial` replaces by the local system) and an address with a zone are rejected.

The second half models the *objects*: a registration is a heap cell with a `Covert` field, the
registry stores a **pointer** and a `Valid` flag, `ingestRegistration` of several workers runs
interleaved at the granularity of the code's scheduling points, and `Proxy` hands the `Covert` field of
the stored object to `net.Dial` (`netDial`: a literal host is connected to directly, anything else is
resolved — consuming a resolver answer — at dial time).
-/

namespace CJ.Covert

/-- `net.JoinHostPort` -/
def joinHostPort (host port : String) : String :=
  if host.contains ':' then "[" ++ host ++ "]:" ++ port else host ++ ":" ++ port

/-- the parsed address policy of a `RegConfig` (`covertBlocklistSubnets`, `covertAllowlistSubnets`,
`enableCovertAllowlist`, `covertBlocklistDomains`) -/
structure Policy (Net Pat : Type) where
  block : List Net
  allow : List Net
  enableAllow : Bool
  domains : List Pat

/-- the library functions the policy is evaluated with and the result is rendered with -/
structure Env (Net Pat IP : Type) where
  contains : Net → IP → Bool          -- (*net.IPNet).Contains(ip), ip non-nil
  matchString : Pat → String → Bool   -- (*regexp.Regexp).MatchString(host)
  ipText : IP → String                -- net.IP.String()
  unspecified : IP → Bool             -- net.IP.IsUnspecified(): 0.0.0.0, ::, ::ffff:0.0.0.0

/-- result shape of `net.ResolveIPAddr("ip", host)` -/
inductive Resolved (IP : Type)
  | err                                    -- (nil, err)
  | nilAddr                                -- (nil, nil)
  | addr (ip : Option IP) (zone : String)  -- *IPAddr; `ip = none` is a nil `IP`

/-- the resolver: the `n`-th lookup is answered `rs n` (answers may change between lookups) -/
abbrev Resolver (IP : Type) := Nat → Resolved IP

/-- `IPAddr.String()` of an address with an IP -/
def addrText {Net Pat IP : Type} (env : Env Net Pat IP) (ip : IP) (zone : String) : String :=
  if zone = "" then env.ipText ip else env.ipText ip ++ "%" ++ zone

/-- what the standard library answered about one `provided` string (everything but the resolution) -/
structure Answers where
  providedIsIP : Bool                    -- net.ParseIP(provided) != nil
  split : Option (String × String)       -- net.SplitHostPort(provided): none = error
  portOk : Bool                          -- strconv.ParseUint(port, 10, 16) returned no error
  hostIsIP : Bool                        -- net.ParseIP(host) != nil

variable {Net Pat IP : Type}

/-- `isBlocklistedCovertAddr`: a configured allowlist takes precedence over the blocklist -/
def isBlocklistedCovertAddr (env : Env Net Pat IP) (pol : Policy Net Pat) (ip : IP) : Bool :=
  if pol.enableAllow then !(pol.allow.any (fun n => env.contains n ip))
  else pol.block.any (fun n => env.contains n ip)

/-- `isBlocklistedCovertDomain` -/
def isBlocklistedCovertDomain (env : Env Net Pat IP) (pol : Policy Net Pat) (host : String) : Bool :=
  pol.domains.any (fun p => env.matchString p host)

structure Result where
  out : String        -- "" = rejected
  lookup : Bool       -- the station resolved a name (statistics only)
  cursor : Nat        -- the resolver cursor after the call
deriving Repr, DecidableEq

/-- `ParseOrResolveBlocklisted`, with the resolver `rs` at cursor `n` -/
def parseOrResolve (env : Env Net Pat IP) (pol : Policy Net Pat) (a : Answers) (rs : Resolver IP) (n : Nat) :
    Result :=
  if a.providedIsIP then ⟨"", false, n⟩ else       -- an address without a port
  match a.split with
  | none => ⟨"", false, n⟩
  | some (host, port) =>
    if isBlocklistedCovertDomain env pol host then ⟨"", false, n⟩ else
    if !a.portOk then ⟨"", false, n⟩ else
    let lookup := !a.hostIsIP
    match rs n with                                      -- net.ResolveIPAddr: the one lookup
    | .err => ⟨"", lookup, n + 1⟩
    | .nilAddr => ⟨"", lookup, n + 1⟩
    | .addr none _ => ⟨"", lookup, n + 1⟩                -- no IP (empty host)
    | .addr (some ip) zone =>
      if isBlocklistedCovertAddr env pol ip then ⟨"", lookup, n + 1⟩
      else if env.unspecified ip then ⟨"", lookup, n + 1⟩     -- 0.0.0.0 / ::  — net.Dial would dial the local system
      else if zone ≠ "" then ⟨"", lookup, n + 1⟩         -- zone: the text would not be a plain literal
      else ⟨joinHostPort (addrText env ip zone) port, lookup, n + 1⟩

/-! ## the dial: `net.Dial("tcp", s)` -/

/-- the two standard-library functions `net.Dial` applies to its argument before it connects -/
structure DialLib (IP : Type) where
  splitHostPort : String → Option (String × String)   -- net.SplitHostPort
  parseIP : String → Option IP                        -- the literal fast path (no zone)
  unspecified : IP → Bool                             -- IP.IsUnspecified()

/-- what `net.Dial("tcp", s)` connects to -/
inductive Dialed (IP : Type)
  | bad                                         -- the string does not split into host and port
  | literal (ip : IP) (port : String)           -- a literal: connected to as is, no resolver involved
  | localSystem (port : String)                 -- a literal unspecified address: "the local system is assumed"
  | resolved (r : Resolved IP) (port : String)  -- a name: whatever the resolver answers *now*

/-- `net.Dial`: returns what is connected to and the resolver cursor afterwards -/
def netDial (L : DialLib IP) (s : String) (rs : Resolver IP) (n : Nat) : Dialed IP × Nat :=
  match L.splitHostPort s with
  | none => (.bad, n)
  | some (host, port) =>
    match L.parseIP host with
    | some ip => if L.unspecified ip then (.localSystem port, n) else (.literal ip port, n)
    | none => (.resolved (rs n) port, n + 1)

/-! ## objects, the registry entry, interleaved ingest workers -/

/-- program counter of one `ingestRegistration` call, at the scheduling points of the code -/
inductive PC
  | start | afterExists (dup : Bool) | afterTrack | beforeRegister | done
deriving DecidableEq, Repr

/-- the registry entry of the one key all workers of a run compete for: **which object** is stored
(`r.decoys[phantom][identifier]` is a pointer) and its `Valid` flag -/
structure Entry where
  ptr : Nat
  valid : Bool
deriving DecidableEq, Repr

/-- Worker `i` ingests its own freshly parsed registration object `i`. -/
structure World where
  covertOf : Nat → String      -- the `Covert` field of object `i` (initially the client's raw string)
  pc : Nat → PC
  store : Option Entry
  cursor : Nat                 -- resolver cursor (shared: one resolver for the process)

/-- per-worker inputs: the library's answers about worker `i`'s raw covert string, and whether the
later admission steps (liveness, phantom blocklist: C07) let the registration pass -/
structure Inputs where
  ans : Nat → Answers
  passes : Nat → Bool

def updateAt {α : Type} (f : Nat → α) (i : Nat) (v : α) : Nat → α := fun j => if j = i then v else f j

/-- `RegisteredDecoys.register(d)`: track `d` if nothing is tracked; then the **stored** object — whatever
`registrationExists(d)` returns — is marked valid, unless it already is (announced once). -/
def registerStep (st : Option Entry) (i : Nat) : Option Entry :=
  match st with
  | none => some ⟨i, true⟩
  | some e => some ⟨e.ptr, true⟩

/-- one step of worker `i` (one segment between two scheduling points of `ingestRegistration`) -/
def step (env : Env Net Pat IP) (pol : Policy Net Pat) (inp : Inputs) (rs : Resolver IP) (w : World) (i : Nat) :
    World :=
  match w.pc i with
  | .start =>                       -- ValidateRegistration; RegistrationExists
    { w with pc := updateAt w.pc i (.afterExists w.store.isSome) }
  | .afterExists true =>            -- duplicate path: TrackRegistration bumps the counter; return
    { w with pc := updateAt w.pc i .done }
  | .afterExists false =>
    -- TrackRegistration stores this object unless one is stored; then (the repaired code) the worker
    -- looks at what is tracked: if it is another worker's object, this message is a duplicate
    match w.store with
    | none => { w with pc := updateAt w.pc i .afterTrack, store := some ⟨i, false⟩ }
    | some _ => { w with pc := updateAt w.pc i .done }
  | .afterTrack =>                  -- covert policy; overwrite of this object's Covert; C07's later steps
    let r := parseOrResolve env pol (inp.ans i) rs w.cursor
    if r.out = "" then { w with pc := updateAt w.pc i .done, cursor := r.cursor }
    else if !inp.passes i then
      { w with pc := updateAt w.pc i .done, cursor := r.cursor, covertOf := updateAt w.covertOf i r.out }
    else
      { w with pc := updateAt w.pc i .beforeRegister, cursor := r.cursor, covertOf := updateAt w.covertOf i r.out }
  | .beforeRegister =>              -- AddRegistration → register
    { w with pc := updateAt w.pc i .done, store := registerStep w.store i }
  | .done => w

/-- a schedule: which worker runs its next segment -/
def runSched (env : Env Net Pat IP) (pol : Policy Net Pat) (inp : Inputs) (rs : Resolver IP) (w : World) :
    List Nat → World
  | [] => w
  | i :: rest => runSched env pol inp rs (step env pol inp rs w i) rest

/-- the code **before the repair**, kept to show that the model can express the defect: a worker whose
`TrackRegistration` only bumped the counter (another worker's object is stored) went on as if it had
tracked its own -/
def stepUnrepaired (env : Env Net Pat IP) (pol : Policy Net Pat) (inp : Inputs) (rs : Resolver IP) (w : World)
    (i : Nat) : World :=
  match w.pc i, w.store with
  | .afterExists false, some _ => { w with pc := updateAt w.pc i .afterTrack }
  | _, _ => step env pol inp rs w i

def runSchedUnrepaired (env : Env Net Pat IP) (pol : Policy Net Pat) (inp : Inputs) (rs : Resolver IP) (w : World) :
    List Nat → World
  | [] => w
  | i :: rest => runSchedUnrepaired env pol inp rs (stepUnrepaired env pol inp rs w i) rest

/-! ### the dial-back of connecting transports (`handleConnectingTpReg`)

For a registration of a *connecting* transport (DTLS-style: the station reaches out to the client) the
last statement of `ingestRegistration`, after `AddRegistration`, starts a goroutine that connects to the
client and then runs `Proxy(reg, conn)` on **the worker's own object** — not on what the registry stores.
Whenever that goroutine gets to `net.Dial("tcp", reg.Covert)` it reads the `Covert` field of that object
as it is then. -/

/-- the dial-backs a schedule launches: worker `i` launches one, for object `i`, in the segment that begins
at `beforeRegister` (`AddRegistration` … `handleConnectingTpReg`), if its transport is a connecting one -/
def launched (connecting : Nat → Bool) (env : Env Net Pat IP) (pol : Policy Net Pat) (inp : Inputs)
    (rs : Resolver IP) (w : World) : List Nat → List Nat
  | [] => []
  | i :: rest =>
    (if w.pc i = .beforeRegister ∧ connecting i = true then [i] else []) ++
      launched connecting env pol inp rs (step env pol inp rs w i) rest

/-- the same with the call moved in front of the covert admission step (right after the registration is
tracked): kept to show that the model can tell the two orders apart -/
def launchedEarly (connecting : Nat → Bool) (env : Env Net Pat IP) (pol : Policy Net Pat) (inp : Inputs)
    (rs : Resolver IP) (w : World) : List Nat → List Nat
  | [] => []
  | i :: rest =>
    (if w.pc i = .afterTrack ∧ connecting i = true then [i] else []) ++
      launchedEarly connecting env pol inp rs (step env pol inp rs w i) rest

/-- the code with the overwrite `reg.Covert = covert` moved behind `AddRegistration`: up to and including the
moment the entry is marked valid (and announced to the detector) the object still holds the client's raw
string.  The worlds this step function produces are the ones a connection handler can observe between
`register` and the late overwrite; kept to show that the model can tell the two orders apart. -/
def stepLateOverwrite (env : Env Net Pat IP) (pol : Policy Net Pat) (inp : Inputs) (rs : Resolver IP) (w : World)
    (i : Nat) : World :=
  match w.pc i with
  | .afterTrack =>
    let r := parseOrResolve env pol (inp.ans i) rs w.cursor
    if r.out = "" then { w with pc := updateAt w.pc i .done, cursor := r.cursor }
    else if !inp.passes i then { w with pc := updateAt w.pc i .done, cursor := r.cursor }
    else { w with pc := updateAt w.pc i .beforeRegister, cursor := r.cursor }
  | _ => step env pol inp rs w i

def runSchedLateOverwrite (env : Env Net Pat IP) (pol : Policy Net Pat) (inp : Inputs) (rs : Resolver IP) (w : World) :
    List Nat → World
  | [] => w
  | i :: rest => runSchedLateOverwrite env pol inp rs (stepLateOverwrite env pol inp rs w i) rest

/-- before any worker ran: every object holds its client's raw covert string, nothing is tracked -/
def World.init (raw : Nat → String) (cursor : Nat) : World :=
  { covertOf := raw, pc := fun _ => .start, store := none, cursor := cursor }

/-- the string a connection handler hands to `net.Dial` for a registration returned by
`GetRegistrations` (valid entries only): the `Covert` field of the stored object -/
def World.dialString (w : World) : Option String :=
  match w.store with
  | some e => if e.valid then some (w.covertOf e.ptr) else none
  | none => none

/-- `Proxy`: `net.Dial("tcp", reg.Covert)` on the stored object -/
def World.proxyDial (L : DialLib IP) (rs : Resolver IP) (w : World) : Option (Dialed IP × Nat) :=
  w.dialString.map fun s => netDial L s rs w.cursor

end CJ.Covert
