import CJ.Model.ConnHandler
/-!
# `handleNewTCPConn` together with its statistics calls (cmd/application/conns.go, `connStats`)

Around every read and every classification pass the handler moves the connection through the
connection statistics (`cm.addCreated`, `cm.createdToCheck`, `cm.readToCheck`, `cm.checkToRead`, … —
20 transition methods).  Each of them updates the counters of the phantom's address family and, when
the source's country code is not empty (`isValidCC`), the per-ASN record of that family, creating the
record when the map has none (`if _, ok := c.v6geoIPMap[asn]; !ok { … }` — the maps are replaced by
`PrintAndReset` / `Reset`, so a record can be missing at any transition).

`handlerS` is the handler of `CJ.Model.ConnHandler` with these calls in place, branch by branch; the
counting itself is a parameter: *any* state `σ` with *any total* function `count : σ → Tr → σ` (which
record, which family, resets of the epoch between any two transitions, other connections in between —
all of that is inside `count`).  That each Go transition method is total — never meets a nil record — is
what the harness checks on the real code (sources of never-seen ASNs, both families, epoch resets at
every point of a connection); see `CJ.Props.C03.stats_transitions_do_not_affect_outcome` for what
follows from totality.

`Stats` / `Stats.count` is the concrete instance used by the driver: transitions per family and per
(family, ASN) record.
-/
namespace CJ.ConnStats
open CJ.ConnHandler

/-- the transition methods of `connStats` -/
inductive Tr
  | addCreated
  | createdToDiscard | createdToCheck | createdToReset | createdToTimeout | createdToError | createdToClose
  | readToCheck | readToTimeout | readToReset | readToError
  | checkToCreated | checkToRead | checkToFound | checkToError | checkToDiscard
  | discardToReset | discardToTimeout | discardToError | discardToClose
deriving Repr, DecidableEq

/-- the transition counted when a `Read` of the read loop fails; `first` = nothing was received so far
(`received.Len() == 0`).  `io.EOF` is generalised to "closed": `createdToClose`, but `readToError`. -/
def readFail (first : Bool) : Term → Tr
  | .eof => if first then .createdToClose else .readToError
  | .reset => if first then .createdToReset else .readToReset
  | .deadline => if first then .createdToTimeout else .readToTimeout
  | .otherErr => if first then .createdToError else .readToError

/-- the transition counted when `io.Copy(io.Discard, clientConn)` returns (`nil` at EOF: the final
`else` branch counts a close) -/
def discardEnd : Term → Tr
  | .eof => .discardToClose
  | .reset => .discardToReset
  | .deadline => .discardToTimeout
  | .otherErr => .discardToError

section
variable {T R σ : Type}

def discardS (count : σ → Tr → σ) : List Ev → σ → List (Act T R) × σ
  | [], s => ([.readEnd .deadline, .ret], count s (discardEnd .deadline))
  | .data bs :: evs, s => let r := discardS count evs s; (.readData bs.length :: r.1, r.2)
  | .eof :: _, s => ([.readEnd .eof, .ret], count s (discardEnd .eof))
  | .reset :: _, s => ([.readEnd .reset, .ret], count s (discardEnd .reset))
  | .deadline :: _, s => ([.readEnd .deadline, .ret], count s (discardEnd .deadline))
  | .otherErr :: _, s => ([.readEnd .otherErr, .ret], count s (discardEnd .otherErr))

/-- the transition counted at the end of a classification pass that neither found a registration nor
hit an error -/
def afterPass (keep : List T) (buf : Bytes) : Tr :=
  if keep.isEmpty then .checkToDiscard else if buf.isEmpty then .checkToCreated else .checkToRead

def loopS (cls : T → Bytes → Verdict R) (sched : Nat → List T → List T) (count : σ → Tr → σ) :
    Nat → List T → Bytes → List Ev → σ → List (Act T R) × σ
  | _, [], _, evs, s => let r := discardS count evs s; (.discardUntilErr :: r.1, r.2)
  | _, _ :: _, buf, [], s => ([.readEnd .deadline, .ret], count s (readFail buf.isEmpty .deadline))
  | _, _ :: _, buf, .eof :: _, s => ([.readEnd .eof, .ret], count s (readFail buf.isEmpty .eof))
  | _, _ :: _, buf, .reset :: _, s => ([.readEnd .reset, .ret], count s (readFail buf.isEmpty .reset))
  | _, _ :: _, buf, .deadline :: _, s => ([.readEnd .deadline, .ret], count s (readFail buf.isEmpty .deadline))
  | _, _ :: _, buf, .otherErr :: _, s => ([.readEnd .otherErr, .ret], count s (readFail buf.isEmpty .otherErr))
  | i, t :: ts, buf, .data c :: evs, s =>
    let s1 := count s (if buf.isEmpty then .createdToCheck else .readToCheck)
    let p := pass cls (buf ++ c) (sched i (t :: ts)) []
    match p.2 with
    | .cont ts' =>
      let r := loopS cls sched count (i + 1) ts' (buf ++ c) evs (count s1 (afterPass ts' (buf ++ c)))
      (.readData c.length :: (p.1 ++ r.1), r.2)
    | .abort => (.readData c.length :: (p.1 ++ [.sleepUntilDeadline, .ret]), count s1 .checkToError)
    | .found r k =>
      (.readData c.length :: (p.1 ++ [.clearDeadline, .markActive r, .proxy r ((buf ++ c).drop k ++ dataOf evs), .ret]),
        count s1 .checkToFound)

/-- `handleNewTCPConn` with its statistics calls: the action trace and the statistics afterwards -/
def handlerS (cls : T → Bytes → Verdict R) (sched : Nat → List T → List T) (count : σ → Tr → σ)
    (geo : Geo) (n : Nat) (ts : List T) (evs : List Ev) (s : σ) : List (Act T R) × σ :=
  match geo with
  | .ok =>
    let s1 := count s .addCreated
    if n < 1 then
      let r := discardS count evs (count s1 .createdToDiscard)
      (.setDeadline :: .discardUntilErr :: r.1, r.2)
    else
      let r := loopS cls sched count 0 ts [] evs s1
      (.setDeadline :: r.1, r.2)
  | _ => ([.ret], s)

end

/-! ## the concrete statistics: per family and per (family, ASN) record -/

/-- what the preamble of the handler derived for the connection -/
structure Src where
  v4 : Bool        -- `originalDstIP.To4() != nil`: the phantom's family
  ccValid : Bool   -- `isValidCC(cc)`: the country code is not empty
  asn : Nat

structure Stats where
  tot4 : List Tr := []
  tot6 : List Tr := []
  rec4 : List (Nat × Tr) := []   -- v4geoIPMap, flattened: (asn, transition counted in that record)
  rec6 : List (Nat × Tr) := []

/-- one transition method: the family's counters; behind `isValidCC(cc)` the family's record of the ASN
(created when missing: total) -/
def Stats.count (src : Src) (s : Stats) (t : Tr) : Stats :=
  if src.v4 then
    { s with tot4 := t :: s.tot4, rec4 := if src.ccValid then (src.asn, t) :: s.rec4 else s.rec4 }
  else
    { s with tot6 := t :: s.tot6, rec6 := if src.ccValid then (src.asn, t) :: s.rec6 else s.rec6 }

/-- `PrintAndReset` / `Reset`: a new epoch -/
def Stats.reset (_ : Stats) : Stats := {}

end CJ.ConnStats
