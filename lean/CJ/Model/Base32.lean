/-!
# Model of `encoding/base32` as the DNS registrar uses it

`base32.StdEncoding.WithPadding(base32.NoPadding)` (`requester/dns.go` `queryName`: `Encode`;
`responder/responder.go` `responseFor`: `Decode`), Go 1.23's `encoding/base32`, branch by branch:

* `Encode`: 5 bytes → 8 symbols of the alphabet `A`..`Z` `2`..`7`; a tail of 1, 2, 3, 4 bytes → 2, 4, 5, 7
  symbols, no padding;
* `Decode`: `stripNewlines` (every `\r` and `\n` of the text is dropped first), then quanta of up to 8
  symbols.  The text may end inside a quantum: 8, 7, 5, 4, 2 symbols give 5, 4, 3, 2, 1 bytes, **1, 3 and 6
  symbols give no byte and no error** (the `switch dlen` has no such case).  A byte outside the alphabet is
  `CorruptInputError` (`none` here) — except that `NoPadding` is the rune `-1`, whose conversion
  `byte(enc.padChar)` is `0xFF`: the byte `0xFF` after at least two symbols of a quantum and with fewer than
  8 bytes behind it is taken for a padding character, with the padding rules (enough of them, 1 / 3 / 6
  symbols in front are an error), and ends the decoding — whatever follows the padding is ignored.

Bit operations on the disjoint fields of a quantum are written as `*`, `/`, `%`, `+` on `Nat` (the
correspondence lines `b32|enc`, `b32|dec` compare the results with the real codec byte by byte).
Core Lean only.
-/
namespace CJ.Base32

abbrev Bytes := List UInt8

/-- `encodeStd[v & 31]` -/
def encChar (v : Nat) : UInt8 :=
  UInt8.ofNat (if v % 32 < 26 then 65 + v % 32 else 24 + v % 32)

/-- `decodeMap[c]`: `none` is the table's `0xFF` -/
def decVal (c : UInt8) : Option Nat :=
  if 65 ≤ c.toNat ∧ c.toNat ≤ 90 then some (c.toNat - 65)
  else if 50 ≤ c.toNat ∧ c.toNat ≤ 55 then some (c.toNat - 24)
  else none

/-- the eight 5-bit groups of a quantum of five bytes (absent bytes are 0) -/
def groups (b0 b1 b2 b3 b4 : Nat) : List Nat :=
  [b0 / 8, b0 % 8 * 4 + b1 / 64, b1 / 2 % 32, b1 % 2 * 16 + b2 / 16,
   b2 % 16 * 2 + b3 / 128, b3 / 4 % 32, b3 % 4 * 8 + b4 / 32, b4 % 32]

/-- `Encoding.Encode` without padding -/
def encode : Bytes → Bytes
  | b0 :: b1 :: b2 :: b3 :: b4 :: rest =>
      (groups b0.toNat b1.toNat b2.toNat b3.toNat b4.toNat).map encChar ++ encode rest
  | [b0, b1, b2, b3] => ((groups b0.toNat b1.toNat b2.toNat b3.toNat 0).take 7).map encChar
  | [b0, b1, b2] => ((groups b0.toNat b1.toNat b2.toNat 0 0).take 5).map encChar
  | [b0, b1] => ((groups b0.toNat b1.toNat 0 0 0).take 4).map encChar
  | [b0] => ((groups b0.toNat 0 0 0 0).take 2).map encChar
  | [] => []

/-- `Encoding.EncodedLen` without padding -/
def encodedLen (n : Nat) : Nat := n / 5 * 8 + (n % 5 * 8 + 4) / 5

/-- `Encoding.DecodedLen` without padding (the size of the buffer `responseFor` allocates) -/
def decodedLen (n : Nat) : Nat := n / 8 * 5 + n % 8 * 5 / 8

/-- `stripNewlines` -/
def stripNewlines (src : Bytes) : Bytes := src.filter fun b => !(b == 13 || b == 10)

/-- the bytes of a quantum of `dlen` symbol values (`switch dlen` with its fallthroughs; a conversion to
`byte` drops the bits above the eighth) -/
def pack : List Nat → Bytes
  | [c0, c1, c2, c3, c4, c5, c6, c7] =>
      [UInt8.ofNat (c0 * 8 + c1 / 4), UInt8.ofNat (c1 * 64 + c2 * 2 + c3 / 16), UInt8.ofNat (c3 * 16 + c4 / 2),
       UInt8.ofNat (c4 * 128 + c5 * 4 + c6 / 8), UInt8.ofNat (c6 * 32 + c7)]
  | [c0, c1, c2, c3, c4, c5, c6] =>
      [UInt8.ofNat (c0 * 8 + c1 / 4), UInt8.ofNat (c1 * 64 + c2 * 2 + c3 / 16), UInt8.ofNat (c3 * 16 + c4 / 2),
       UInt8.ofNat (c4 * 128 + c5 * 4 + c6 / 8)]
  | [c0, c1, c2, c3, c4] =>
      [UInt8.ofNat (c0 * 8 + c1 / 4), UInt8.ofNat (c1 * 64 + c2 * 2 + c3 / 16), UInt8.ofNat (c3 * 16 + c4 / 2)]
  | [c0, c1, c2, c3] => [UInt8.ofNat (c0 * 8 + c1 / 4), UInt8.ofNat (c1 * 64 + c2 * 2 + c3 / 16)]
  | [c0, c1] => [UInt8.ofNat (c0 * 8 + c1 / 4)]
  | _ => []

/-- what the inner `for j := 0; j < 8;` loop leaves -/
inductive Quantum where
  /-- eight symbols read, the outer loop goes on behind them -/
  | full (vs : List Nat)
  /-- the text (or the quantum, at a padding byte) ended after `vs.length` symbols: `end = true` -/
  | last (vs : List Nat)
  /-- `CorruptInputError` -/
  | corrupt
  deriving Repr, DecidableEq

/-- the inner loop: `k` symbols are still missing, `acc` are the values read (`j = acc.length`) -/
def readQuantum : Nat → List Nat → Bytes → Quantum
  | 0, acc, _ => .full acc
  | _ + 1, acc, [] => .last acc
  | k + 1, acc, c :: src =>
    if c = 255 ∧ 2 ≤ acc.length ∧ src.length < 8 then
      if src.length + acc.length < 7 then .corrupt
      else if (src.take (7 - acc.length)).any (· != 255) then .corrupt
      else if acc.length = 3 ∨ acc.length = 6 then .corrupt
      else .last acc
    else
      match decVal c with
      | none => .corrupt
      | some v => readQuantum k (acc ++ [v]) src

/-- `Encoding.decode` (after `stripNewlines`): `none` = an error is returned -/
def decodeQuanta (src : Bytes) : Option Bytes :=
  if _h : src.length = 0 then some []
  else
    match readQuantum 8 [] src with
    | .corrupt => none
    | .last vs => some (pack vs)
    | .full vs => (decodeQuanta (src.drop 8)).map (pack vs ++ ·)
termination_by src.length
decreasing_by simp [List.length_drop]; omega

/-- `Encoding.Decode` into a buffer of `DecodedLen` bytes, cut to the `n` it returns -/
def decode (src : Bytes) : Option Bytes := decodeQuanta (stripNewlines src)

end CJ.Base32
