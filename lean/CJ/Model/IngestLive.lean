import CJ.Model.Ingest
import CJ.Model.LivenessX
/-!
# The liveness tester in front of `ingestRegistration` (C07 growth pass 3)

`CJ.Ingest.ingestReg` takes the liveness verdict as a parameter (`Oracles.live`).  In the code the verdict comes from
`rm.PhantomIsLive(reg.PhantomIp.String(), reg.PhantomPort)` = `rm.LivenessTester.PhantomIsLive` — with the default
configuration the *caching* tester of `pkg/station/liveness`, which answers from its caches when it holds a fresh enough
verdict and otherwise sends the probe and files what it measured.  This module composes the model of that tester
(`CJ.Liveness.queryX`, C18's model, unchanged) with `ingestReg`:

* the station state is the registry **and** the tester (`LSt`);
* a message arrives at a time `now` in a *world*: what a probe of each phantom address would return at that time
  (`World`, the ground truth about the phantoms — not what any tester says);
* `ingestRegistration` asks the tester exactly when it gets as far as the liveness branch (`reachesProbe`: the
  registration passed `ValidateRegistration`, is not tracked yet, its covert address was accepted, it is not
  pre-scanned and its phantom is an IPv4 address); the question is `(phantom address text, now)`; the boolean of the
  tester's answer — cached or measured — is the `live` that `ingestReg` branches on; where the code does not ask, the
  tester is untouched and the verdict field is read by nothing (`CJ.Props.C07.unasked_verdict_irrelevant`).

The key of the tester's caches is the address text `PhantomIp.String()`; the model uses `phKey` (injective on canonical
address bytes) in its place, as the registry model does.
-/
namespace CJ.IngestLive
open CJ.Ingest CJ.Liveness

/-- registry and liveness tester of one station -/
structure LSt where
  reg : RSt
  tester : Tester

/-- what a probe of each phantom (by address key) would return now: the ground truth of one instant -/
abbrev World := String → Measured

/-- `live, response := rm.PhantomIsLive(…)`: the boolean the tester hands back -/
def verdict : XOut → Bool
  | .cached v => v
  | .probed r => r.live
  | .cleared => false

/-- `ingestRegistration` gets as far as `rm.PhantomIsLive` -/
def reachesProbe (c : Cfg) (o : Oracles) (s : RSt) (r : Reg) : Bool :=
  match validate c r with
  | .error _ => false
  | .ok _ => !s.decoys.contains (keyOf r) && o.covertOk && needProbe r

/-- the result of one `ingestRegistration` on a station with a tester: new state, events, and the questions put to the
tester with its answers (at most one) -/
structure Res where
  st : LSt
  evs : List Ev
  asked : List (XOp × XOut)

/-- `ingestRegistration` with the tester inside -/
def ingestRegL (c : Cfg) (o : Oracles) (now : Int) (w : World) (x : LSt) (r : Reg) : Res :=
  if reachesProbe c o x.reg r then
    let a := phKey r.phantom
    let q := queryX x.tester now a (w a)
    let res := ingestReg c { o with live := verdict q.2 } x.reg r
    { st := { reg := res.1, tester := q.1 }, evs := res.2, asked := [(.query now a (w a), q.2)] }
  else
    let res := ingestReg c o x.reg r
    { st := { reg := res.1, tester := x.tester }, evs := res.2, asked := [] }

def ingestRegsL (c : Cfg) (o : Oracles) (now : Int) (w : World) : LSt → List Reg → Res
  | x, [] => { st := x, evs := [], asked := [] }
  | x, r :: rest =>
    let r1 := ingestRegL c o now w x r
    let r2 := ingestRegsL c o now w r1.st rest
    { st := r2.st, evs := r1.evs ++ r2.evs, asked := r1.asked ++ r2.asked }

/-- a message with its arrival time and the world it arrives in -/
structure TMsg where
  now : Int
  world : World
  wire : Wire

/-- the loop body of the ingest worker on a station with a tester -/
def ingestWireL (c : Cfg) (x : LSt) (m : TMsg) : Res :=
  match m.wire with
  | .garbage => { st := x, evs := [], asked := [] }
  | .msg _ o =>
    match parse c m.wire with
    | none => { st := x, evs := [], asked := [] }
    | some regs => ingestRegsL c o m.now m.world x regs

/-- any number of messages -/
def runL (c : Cfg) : LSt → List TMsg → Res
  | x, [] => { st := x, evs := [], asked := [] }
  | x, m :: rest =>
    let r1 := ingestWireL c x m
    let r2 := runL c r1.st rest
    { st := r2.st, evs := r1.evs ++ r2.evs, asked := r1.asked ++ r2.asked }

/-- a station that has just started: empty registry, the tester `liveness.New` builds for the configuration -/
def LSt.init (lc : Config) : LSt := { reg := CJ.Registry.init, tester := (new lc).1 }

end CJ.IngestLive
