import CJ.Model.Registry
/-!
# The string-indexed registry: `decoysTimeouts` keyed by `timeoutIndex(phantom, identifier)`

`CJ.Registry.St` keys both maps by the pair (phantom text, identifier).  The code does not: the timeout
map is keyed by ONE Go string, `timeoutIndex(phantomAddr, identifier) = phantomAddr + "|" + identifier`
(registration.go), the record stored there repeats the two halves in its `decoy` / `identifier` fields,
and `removeRegistration(index)` goes index → record → `decoys[record.decoy][record.identifier]`.
Identifiers are what the transports return (`string(HMAC…)`): arbitrary bytes, 0x7c included.

This module mirrors exactly that: `KSt.timeouts` is keyed by the sequence of code units of the index
string (`Index = List Nat`; a model `String` stands for a Go string unit by unit, `units`), records carry
`decoy` and `identifier`, and removal follows the record's fields, not the key.  Nothing here assumes
that an identifier is free of the separator; `CJ/Lemmas/RegistryIndex.lean` proves that the phantom text
being free of it is enough for the pair-keyed model to be an exact abstraction (and that it is needed).
-/
open Std

namespace CJ.RegistryIndex
open CJ.Registry

abbrev Index := List Nat

/-- `'|'` -/
def sep : Nat := 124

/-- a Go string, unit by unit -/
def units (s : String) : List Nat := s.toList.map Char.toNat

/-- `phantomAddr + "|" + identifier` -/
def join (p i : List Nat) : Index := p ++ sep :: i

/-- `timeoutIndex` -/
def idx (k : Key) : Index := join (units k.1) (units k.2)

/-- the phantom text does not contain the separator (what `net.IP.String()` guarantees) -/
def sepFree (k : Key) : Prop := sep ∉ units k.1

instance (k : Key) : Decidable (sepFree k) := by unfold sepFree; exact inferInstance

/-- the inverse a reader of the index would use: cut at the FIRST separator -/
def splitFirst : Index → Option (List Nat × List Nat)
  | [] => none
  | a :: rest =>
    if a = sep then some ([], rest) else
    match splitFirst rest with
    | some (p, i) => some (a :: p, i)
    | none => none

/-- the tempting wrong inverse: cut at the LAST separator -/
def splitLast (l : Index) : Option (List Nat × List Nat) :=
  match splitFirst l.reverse with
  | some (ri, rp) => some (rp.reverse, ri.reverse)
  | none => none

/-- `DecoyTimeout` -/
structure KTO where
  decoy : String
  identifier : String
  time : Nat
  used : Bool
deriving Repr, DecidableEq, Inhabited

def KTO.to (t : KTO) : TO := ⟨t.time, t.used⟩
def KTO.key (t : KTO) : Key := (t.decoy, t.identifier)

structure KSt where
  decoys : HashMap Key Reg := {}
  timeouts : HashMap Index KTO := {}

def kinit : KSt := {}

/-- `track` -/
def ktrack (c : Cfg) (s : KSt) (k : Key) (tr now : Nat) : KSt × Bool :=
  if !c.enabled.contains tr then (s, false) else
  match s.decoys[k]? with
  | some r => ({ s with decoys := s.decoys.insert k { r with regCount := r.regCount + 1 } }, true)
  | none => ({ decoys := s.decoys.insert k ⟨tr, false, 1⟩,
               timeouts := s.timeouts.insert (idx k) ⟨k.1, k.2, now, false⟩ }, true)

/-- `register` -/
def kregister (c : Cfg) (s : KSt) (k : Key) (tr now : Nat) : KSt × Out :=
  if !c.enabled.contains tr then (s, .err) else
  match s.decoys[k]? with
  | some r =>
    if r.valid then (s, .dup)
    else ({ s with decoys := s.decoys.insert k { r with valid := true } }, .new)
  | none =>
    ({ decoys := s.decoys.insert k ⟨tr, true, 1⟩,
       timeouts := s.timeouts.insert (idx k) ⟨k.1, k.2, now, false⟩ }, .new)

/-- `markActive`: the record is found through `timeoutIndex(phantom, identifier)` -/
def kmarkActive (c : Cfg) (s : KSt) (k : Key) (tr : Nat) : KSt × Out :=
  if !c.enabled.contains tr then (s, .none) else
  match s.timeouts[idx k]? with
  | some t => ({ s with timeouts := s.timeouts.insert (idx k) { t with used := true } }, .upd)
  | none => (s, .none)

/-- `getExpiredRegistrations`: the index strings of the expired records -/
def kcollect (c : Cfg) (now : Nat) (s : KSt) : List Index :=
  (s.timeouts.toList.filter (fun kv => expired c now kv.2.to)).map (·.1)

/-- `removeRegistration(index)`: record under the index, expiry re-evaluated, then the registration the
RECORD names is looked up and both are deleted -/
def kremove (c : Cfg) (now : Nat) (s : KSt) (i : Index) : KSt × Option Bool :=
  match s.timeouts[i]? with
  | none => (s, .none)
  | some t =>
    if expired c now t.to then
      match s.decoys[t.key]? with
      | none => (s, .none)
      | some r => ({ decoys := s.decoys.erase t.key, timeouts := s.timeouts.erase i }, some r.valid)
    else (s, .none)

def kremoveAll (c : Cfg) (now : Nat) (is : List Index) (s : KSt) : KSt × Nat :=
  is.foldl (fun (acc : KSt × Nat) i =>
    let (s', r) := kremove c now acc.1 i
    (s', if r = some true then acc.2 + 1 else acc.2)) (s, 0)

/-- `removeOldRegistrations` -/
def ksweep (c : Cfg) (now : Nat) (s : KSt) : KSt × Out :=
  let is := kcollect c now s
  let (s', v) := kremoveAll c now is s
  (s', .swept is.length v)

def klookup (s : KSt) (p : String) : List String :=
  (s.decoys.toList.filter (fun kv => kv.1.1 == p && kv.2.valid)).map (·.1.2)

inductive KOp
  | track (k : Key) (tr now : Nat)
  | register (k : Key) (tr now : Nat)
  | markActive (k : Key) (tr : Nat)
  | collect (now : Nat)
  | removeIdx (i : Index) (now : Nat)
  | sweep (now : Nat)
  | lookup (p : String)
  | total
  | totalTimeouts
deriving Repr

inductive KOut
  | base (o : Out)
  | idxs (l : List Index)
deriving Repr

def kstep (c : Cfg) (s : KSt) : KOp → KSt × KOut
  | .track k tr now => let (s', ok) := ktrack c s k tr now; (s', .base (if ok then .ok else .err))
  | .register k tr now => let (s', o) := kregister c s k tr now; (s', .base o)
  | .markActive k tr => let (s', o) := kmarkActive c s k tr; (s', .base o)
  | .collect now => (s, .idxs (kcollect c now s))
  | .removeIdx i now =>
    let (s', r) := kremove c now s i
    (s', .base (match r with | some v => .bool v | none => .none))
  | .sweep now => let (s', o) := ksweep c now s; (s', .base o)
  | .lookup p => (s, .base (.regs (klookup s p)))
  | .total => (s, .base (.num s.decoys.size))
  | .totalTimeouts => (s, .base (.num s.timeouts.size))

def krun (c : Cfg) (ops : List KOp) (s : KSt := kinit) : KSt :=
  ops.foldl (fun s o => (kstep c s o).1) s

/-- the keys an operation names have separator-free phantom texts -/
def KOp.sepFree : KOp → Prop
  | .track k _ _ => RegistryIndex.sepFree k
  | .register k _ _ => RegistryIndex.sepFree k
  | .markActive k _ => RegistryIndex.sepFree k
  | _ => True

end CJ.RegistryIndex
