import CJ.Model.Config
import CJ.Model.NetAddr
/-!
# `ParseBlocklists` on the text of the entries

`CJ.Config.parseBlocklists` takes the entry parser as an oracle (`cidr : String → Outcome Net`).  Here the
oracle for the three subnet lists is replaced by modelled code: `strings.TrimSpace` (this file) followed by
`net.ParseCIDR` (`CJ.NetAddr.parseCIDR`, the C06 grower's model of the standard library), and the decisions are
taken with `CJ.NetAddr.contains` on the bytes of the probed address.  What remains an oracle is `regexp.Compile` /
`MatchString` (patterns) and `net.Interfaces`.

A Go string is taken as the list of its characters (valid UTF-8; `TrimSpace` looks at runes).
-/

namespace CJ.BlocklistText
open CJ.Config

/-- `unicode.IsSpace` (the Latin-1 cases of the fast path and the `White_Space` table) -/
def isSpace (c : Char) : Bool :=
  let n := c.toNat
  (decide (9 ≤ n) && decide (n ≤ 13)) || n == 32 || n == 0x85 || n == 0xA0 || n == 0x1680 ||
  (decide (0x2000 ≤ n) && decide (n ≤ 0x200a)) || n == 0x2028 || n == 0x2029 || n == 0x202f || n == 0x205f || n == 0x3000

/-- `strings.TrimSpace` -/
def trimSpace (s : List Char) : List Char :=
  ((s.dropWhile isSpace).reverse.dropWhile isSpace).reverse

/-- the entry parser of the three subnet lists: `net.ParseCIDR(strings.TrimSpace(entry))`; it returns an error
or a network, it never panics -/
def cidr (s : String) : Outcome CJ.NetAddr.IPNet :=
  match CJ.NetAddr.parseCIDR (trimSpace s.toList) with
  | some n => .ok n
  | none => .err

variable {Pat : Type}

/-- `RegConfig.ParseBlocklists` with the subnet entries read from their text -/
def parseText (re : String → Outcome Pat) (ifaces : Option (List CJ.NetAddr.IPNet)) (raw : Raw) :
    Outcome (Parsed CJ.NetAddr.IPNet Pat) :=
  parseBlocklists cidr re ifaces raw

/-- `isBlocklistedCovertAddr` on the bytes of an address -/
def covertBlocked (p : Parsed CJ.NetAddr.IPNet Pat) (ip : List Nat) : Bool :=
  p.covertAddrBlocked CJ.NetAddr.contains ip

/-- `IsBlocklistedPhantom` on the bytes of an address -/
def phantomBlocked (p : Parsed CJ.NetAddr.IPNet Pat) (ip : List Nat) : Bool :=
  p.phantomBlocked CJ.NetAddr.contains ip

end CJ.BlocklistText
