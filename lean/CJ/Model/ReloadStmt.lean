/-!
# Statement trees of the reload handler and of `loadConfig`, and how they run (C13)

The trees are regenerated from cmd/registration-server/main.go by go/extract/reloadround
(`CJ/Gen/ReloadRound.lean`).  `run` executes a tree against an environment that says which calls return an error,
which flags are set and which variables are nil; it records the calls made, in order, with their argument texts,
and what the function returned.  `err` is the one variable the interpreter tracks: an assignment from a call with
`err` on the left sets it to that call's error.
-/
namespace CJ.ReloadStmt

inductive Cond
  | nonNil (v : String)
  | flag (v : String)
  | not (c : Cond)
  | and (a b : Cond)
  | or (a b : Cond)
deriving Repr

inductive Node
  | log
  | call (fn : String) (args : List String)
  | assign (lhs : List String) (fn : String) (args : List String)
  | set (lhs : List String) (rhs : String)
  | iff (c : Cond) (thn els : List Node)
  | ret (results : List String)
deriving Repr

structure Env where
  fails : String → Bool      -- the call returns a non-nil error
  flag : String → Bool
  nonNil : String → Bool     -- variables other than `err`

structure St where
  err : Bool := false
  trace : List (String × List String) := []
  returned : Option (List String) := none
deriving DecidableEq, Repr

def evalCond (env : Env) (s : St) : Cond → Bool
  | .nonNil v => if v == "err" then s.err else env.nonNil v
  | .flag v => env.flag v
  | .not c => !evalCond env s c
  | .and a b => evalCond env s a && evalCond env s b
  | .or a b => evalCond env s a || evalCond env s b

mutual
def exec (env : Env) : Node → St → St
  | .log, s => s
  | .call fn args, s => { s with trace := s.trace ++ [(fn, args)] }
  | .assign lhs fn args, s =>
    { s with trace := s.trace ++ [(fn, args)], err := if lhs.contains "err" then env.fails fn else s.err }
  | .set _ _, s => s
  | .iff c t e, s => if evalCond env s c then execList env t s else execList env e s
  | .ret rs, s => { s with returned := some rs }
def execList (env : Env) : List Node → St → St
  | [], s => s
  | n :: r, s =>
    let s' := exec env n s
    if s'.returned.isSome then s' else execList env r s'
end

def run (env : Env) (body : List Node) : St := execList env body {}

end CJ.ReloadStmt
