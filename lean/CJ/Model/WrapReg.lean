import CJ.Model.Wrap
import CJ.Model.Registry
/-! What `GetRegistrations(originalDst)` shows a transport: the VALID registrations tracked for that
phantom (registration.go getRegistrations), as `RegView`s. -/
open Std
namespace CJ.Wrap
open CJ.Registry

/-- the registrations a transport is shown for phantom `p` in registry state `s`; `info` supplies the
per-registration data that the registry model does not carry (prefix parameters, numbering) -/
def views (s : St) (p : String) (info : Key → (Option (Option Int)) × Nat) : List RegView :=
  (s.decoys.toList.filter (fun kv => kv.1.1 == p && kv.2.valid)).map
    (fun kv => { ident := kv.1.2, transport := kv.2.transport, prefixParam := (info kv.1).1, rid := (info kv.1).2 })

end CJ.Wrap
