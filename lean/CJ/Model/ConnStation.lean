import CJ.Model.ConnHandler
/-!
# The station across connections, and the socket under the read loop (C04)

`CJ/Model/ConnHandler.lean` is *one* run of `handleNewTCPConn` over the results of its `Read` calls, the
candidate transports being an argument.  Two pieces of the real code sit between that model and the
property text ("a registered client is recognised no matter how its flight is split into TCP segments
or paced") and are modelled here.

## 1. The candidate map and the history of earlier connections

```go
possibleTransports := regManager.GetWrappingTransports()   // conns.go
…   delete(possibleTransports, i)                          // ErrNotTransport, wrong registration type
```
```go
func (regManager *RegistrationManager) GetWrappingTransports() map[pb.TransportType]WrappingTransport {
	m := make(map[pb.TransportType]WrappingTransport)       // registration.go
	… for k, v := range regManager.registeredDecoys.transports { if wt, ok := v.(WrappingTransport); ok { m[k] = wt } }
	return m
}
```
A Go map is a reference: whether the handler's `delete`s stay private to the connection depends on
what the getter returns.  `Getter.fresh` — a map made in the call (the code under check; regenerated
source fact `CJ/Gen/ConnCandidates.lean`) — leaves the station's own map alone; `Getter.shared` — the
station's own map — makes every deletion permanent.  `serve` is one connection: the trace of the handler
on the station's current set, and the station's set afterwards (`handlerLeft`: what is left in the
handler's map when it returns).  `run` is a whole history of connections on one station.

## 2. The receive queue under `clientConn.Read(buf[:])`, `var buf [4096]byte`

The handler does not see TCP segments: segments are appended to the socket's receive queue, a `Read`
takes at most `cap` (= `len(buf)` = 4096) bytes from the front of it and blocks while it is empty;
the handler then appends exactly these `n` bytes to `received` (`received.Write(buf[:n])`).  `kreads`
turns an interleaving of arriving segments and `Read` calls into the list of read results.
-/
namespace CJ.ConnStation
open CJ.ConnHandler

/-! ## 1. history of connections -/

/-- what `GetWrappingTransports()` hands the handler: a map made for this call, or the station's own -/
inductive Getter | fresh | shared
deriving Repr, DecidableEq

/-- the handler's map at the end of the pass in which it stops (found / unexpected error), or after a
whole pass: the transports visited so far that answered try-again, and the ones not yet visited -/
def passLeft {T R : Type} (cls : T → Bytes → Verdict R) (buf : Bytes) : List T → List T → List T
  | [], keep => keep.reverse
  | t :: ts, keep =>
    match cls t buf with
    | .tryAgain => passLeft cls buf ts (t :: keep)
    | .notT => passLeft cls buf ts keep
    | .err => keep.reverse ++ t :: ts
    | .found _ _ => keep.reverse ++ t :: ts

/-- the handler's map when the read loop ends (same recursion as `ConnHandler.loop`) -/
def loopLeft {T R : Type} (cls : T → Bytes → Verdict R) (sched : Nat → List T → List T) :
    Nat → List T → Bytes → List Ev → List T
  | _, [], _, _ => []
  | _, t :: ts, _, [] => t :: ts
  | _, t :: ts, _, .eof :: _ => t :: ts
  | _, t :: ts, _, .reset :: _ => t :: ts
  | _, t :: ts, _, .deadline :: _ => t :: ts
  | _, t :: ts, _, .otherErr :: _ => t :: ts
  | i, t :: ts, buf, .data c :: evs =>
    match (pass cls (buf ++ c) (sched i (t :: ts)) []).2 with
    | .cont ts' => loopLeft cls sched (i + 1) ts' (buf ++ c) evs
    | _ => passLeft cls (buf ++ c) (sched i (t :: ts)) []

/-- the map `GetWrappingTransports()` returned, as the handler leaves it.  The getter is only called
when the preamble succeeded and the phantom has registrations. -/
def handlerLeft {T R : Type} (cls : T → Bytes → Verdict R) (sched : Nat → List T → List T)
    (geo : Geo) (count : Nat) (ts : List T) (evs : List Ev) : List T :=
  match geo with
  | .ok => if count < 1 then ts else loopLeft cls sched 0 ts [] evs
  | _ => ts

/-- one connection as the station sees it.  Verdicts, iteration orders, phantom (`count`) and what
the peer sends are the connection's own: any client, any prober. -/
structure Conn (T R : Type) where
  cls : T → Bytes → Verdict R
  sched : Nat → List T → List T
  geo : Geo
  count : Nat
  evs : List Ev

/-- one connection on a station whose wrapping transports are `own`: the handler's trace and the
station's transports afterwards -/
def serve {T R : Type} (g : Getter) (own : List T) (c : Conn T R) : List (Act T R) × List T :=
  (handler c.cls c.sched c.geo c.count own c.evs,
   match g with
   | .fresh => own
   | .shared => handlerLeft c.cls c.sched c.geo c.count own c.evs)

/-- a history of connections, one after the other, on one station -/
def run {T R : Type} (g : Getter) : List T → List (Conn T R) → List (List (Act T R) × List T)
  | _, [] => []
  | own, c :: cs => serve g own c :: run g (serve g own c).2 cs

/-! ## 2. receive queue -/

/-- what happens at the socket: a segment arrives, or the handler calls `Read` -/
inductive Net
  | seg (bs : Bytes)
  | read
deriving Repr, DecidableEq

/-- bytes of the segments of a script, in order -/
def segsOf : List Net → Bytes
  | [] => []
  | .seg bs :: s => bs ++ segsOf s
  | .read :: s => segsOf s

/-- the handler keeps reading: what is still queued is handed out `cap` bytes at a time
(`fuel` ≥ queue length is enough when `0 < cap`) -/
def drain (cap : Nat) : Nat → Bytes → List Bytes
  | 0, _ => []
  | fuel + 1, q => if q.isEmpty then [] else q.take cap :: drain cap fuel (q.drop cap)

/-- the results of the successive `Read(buf[:cap])` calls: a `Read` on an empty queue blocks until the
next segment (it yields no result of its own — the following `read` / the final drain does), a `Read`
on a non-empty queue takes `min cap queued` bytes from the front -/
def kreads (cap : Nat) : Bytes → List Net → List Bytes
  | q, [] => drain cap q.length q
  | q, .seg bs :: s => kreads cap (q ++ bs) s
  | q, .read :: s => if q.isEmpty then kreads cap q s else q.take cap :: kreads cap (q.drop cap) s


/-! ## 3. what the source facts (`CJ/Gen/ConnCandidates.lean`, go/ast) are stated in -/

/-- what a `return` of `GetWrappingTransports` returns -/
inductive MapSrc
  | makeLocal   -- a local bound once by `:= make(map…)` in the call, afterwards only indexed into
  | field       -- a selector expression (a map that lives in the station)
  | other
deriving Repr, DecidableEq

/-- where the handler's candidate map comes from -/
inductive CandBind
  | getterCall  -- `possibleTransports := regManager.GetWrappingTransports()`
  | other
deriving Repr, DecidableEq

/-- top-level statements of the body of the read loop of `handleNewTCPConn` -/
inductive RStmt
  | exhaustedCheck        -- `if len(possibleTransports) < 1 { … return }` (every path ends in return)
  | read (whole : Bool)   -- `n, err := clientConn.Read(buf[:])`; `whole`: the argument is the full buffer
  | errReturn             -- `if err != nil { … return }`
  | append (sameN : Bool) -- `received.Write(buf[:n])`; `sameN`: `n` is the count of this iteration's Read
  | offer                 -- `for i, t := range possibleTransports { … t.WrapConnection(&received, clientConn, …) … }`
  | other                 -- no return / break / continue / goto inside, `buf`, `clientConn` not mentioned,
                          -- `received` only as `received.Len()`, `possibleTransports` only as `len(…)`
  | unknown
deriving Repr, DecidableEq

/-- the getter of the source under check, as a `Getter` of the model -/
def getterOf (rets : List MapSrc) : Option Getter :=
  if rets.isEmpty then none
  else if rets.all (· == .makeLocal) then some .fresh
  else if rets.all (· == .field) then some .shared
  else none

/-- the loop body the model `ConnHandler.loop` mirrors: check for exhaustion, one `Read` into the whole
buffer, return on error, append exactly what was read, offer the buffer to every candidate -/
def canonicalReadLoop : List RStmt := [.exhaustedCheck, .read true, .errReturn, .append true, .offer]

end CJ.ConnStation
