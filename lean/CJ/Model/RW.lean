/-!
# Model of the registrar's selector lock (pkg/regserver/regprocessor/regprocessor.go)

`RegProcessor.selectorMutex` is a Go `sync.RWMutex` guarding the swappable field `ipSelector`.
Requests (`RegisterBidirectional` with `processBdReq` inlined) are threads whose *lock-operation program*
is extracted from the source on every run (`CJ/Gen/LockPrograms.lean`: every path through every exported
entry point of the package that touches the lock); reloads (`ReloadSubnets`) likewise.  `zmqMutex`, a
plain `sync.Mutex` around the publishing socket, is the same model used through `lock`/`unlock` only.

Semantics of the mutex (Go's writer preference, modelled, not verified):

* `rlock` succeeds iff no writer holds the lock **and no writer is pending** — also when the calling
  goroutine already holds a read lock (this is what makes a nested `RLock` deadlock-prone);
* `lock` is two steps: *announce* (from then on new readers are refused; one writer at a time passes
  this point, like Go's inner writer mutex) and *acquire* once the active readers have drained;
* `runlock` / `unlock` of a lock that is not held are stuck (Go aborts the process);
* `tryrlock` / `trylock` (`TryRLock` / `TryLock`) never wait: they acquire under exactly the condition under
  which `rlock` / a `lock` that finds no reader would go through at once, and otherwise *fail* — the caller
  takes its failure branch, which in the programs the extractor accepts is an immediate error return without
  further operations: the thread ends *refused* (it has completed, but it has not been answered).

How an acquisition is made — waiting (`RLock`, `Lock`) or not (`TryRLock`, `TryLock`) — is part of the
extracted program: the kinds are different operations.

Selector accesses: `readSel` evaluates the field `p.ipSelector` (the thread remembers the version it
read), `swapSel` assigns it (version + 1), `select` calls `Select` on the selector last read and logs
the version used.  `gate` is a point where a harness holds a thread (no effect on lock or selector); it
only occurs in the stand-in programs of the harness (a critical section kept open), never in extracted ones.
One op = one atomic step; a schedule is a list of thread indices.
-/
namespace CJ.RW

inductive Op | rlock | runlock | lock | unlock | readSel | swapSel | select | tryrlock | trylock | gate
deriving DecidableEq, Repr, Inhabited, Hashable

/-- state of a thread with respect to the write lock -/
inductive W | none | waiting | held
deriving DecidableEq, Repr, Inhabited, Hashable

structure Thread where
  /-- number of read locks held -/
  rd : Nat := 0
  w : W := .none
  /-- remaining operations -/
  prog : List Op
  /-- selector version last read from the field (`none`: never read) -/
  cur : Option Nat := none
  /-- versions used by the `Select` calls made so far -/
  seen : List (Option Nat) := []
  /-- a `Try*` acquisition failed: the entry point returned an error instead of doing its work -/
  refused : Bool := false
deriving DecidableEq, Repr, Inhabited, Hashable

structure St where
  ths : List Thread
  /-- current selector version (number of swaps so far) -/
  ver : Nat := 0
deriving DecidableEq, Repr, Inhabited, Hashable

def readersActive (s : St) : Bool := s.ths.any (fun t => decide (0 < t.rd))
def writerActive (s : St) : Bool := s.ths.any (fun t => t.w == .held)
def writerPending (s : St) : Bool := s.ths.any (fun t => t.w == .waiting)

/-- One step of thread `t` in the global state `s`: the new thread and the new selector version;
`none` = blocked, finished or stuck. -/
def stepThread (s : St) (t : Thread) : Option (Thread × Nat) :=
  match t.w, t.prog with
  | _, [] => none
  -- a writer that has announced only waits for the readers to drain
  | .waiting, .lock :: p =>
    if readersActive s = false ∧ writerActive s = false then some ({ t with w := .held, prog := p }, s.ver) else none
  | .waiting, _ :: _ => none
  | _, .rlock :: p =>
    if writerActive s = false ∧ writerPending s = false then some ({ t with rd := t.rd + 1, prog := p }, s.ver) else none
  | _, .runlock :: p =>
    if 0 < t.rd then some ({ t with rd := t.rd - 1, prog := p }, s.ver) else none
  | _, .lock :: p =>
    if writerActive s = false ∧ writerPending s = false then some ({ t with w := .waiting, prog := .lock :: p }, s.ver) else none
  -- `TryRLock`: the read lock if `RLock` would not wait, otherwise the failure branch (error return)
  | _, .tryrlock :: p =>
    if writerActive s = false ∧ writerPending s = false then some ({ t with rd := t.rd + 1, prog := p }, s.ver)
    else some ({ t with prog := [], refused := true }, s.ver)
  -- `TryLock`: the write lock if nobody holds or awaits the lock in any mode, otherwise the failure branch
  | _, .trylock :: p =>
    if readersActive s = false ∧ writerActive s = false ∧ writerPending s = false then some ({ t with w := .held, prog := p }, s.ver)
    else some ({ t with prog := [], refused := true }, s.ver)
  | _, .gate :: p => some ({ t with prog := p }, s.ver)
  | .held, .unlock :: p => some ({ t with w := .none, prog := p }, s.ver)
  | .none, .unlock :: _ => none
  | _, .readSel :: p => some ({ t with cur := some s.ver, prog := p }, s.ver)
  | _, .swapSel :: p => some ({ t with prog := p }, s.ver + 1)
  | _, .select :: p => some ({ t with seen := t.seen ++ [t.cur], prog := p }, s.ver)

/-- thread `i` takes one step -/
def step (s : St) (i : Nat) : Option St :=
  match s.ths[i]? with
  | none => none
  | some t =>
    match stepThread s t with
    | none => none
    | some (t', v) => some { ths := s.ths.set i t', ver := v }

/-- run a schedule; every entry must be an enabled step -/
def exec (s : St) : List Nat → Option St
  | [] => some s
  | i :: is =>
    match step s i with
    | none => none
    | some s' => exec s' is

def Thread.done (t : Thread) : Bool := t.prog.isEmpty
def allDone (s : St) : Bool := s.ths.all Thread.done

def init (progs : List (List Op)) : St := { ths := progs.map fun p => { prog := p } }

/-! ### flat programs -/

/-- where a program is with respect to critical sections -/
inductive Sec | out | rd | wr
deriving DecidableEq, Repr

/-- *Flat*: no acquisition while a lock is held, every section closed, every selector access inside a
section (reads in read or write sections, the swap in a write section); `Select` on a snapshot may be
called anywhere. -/
def flatFrom : Sec → List Op → Bool
  | .out, [] => true
  | .out, .rlock :: p => flatFrom .rd p
  | .out, .lock :: p => flatFrom .wr p
  | .out, .select :: p => flatFrom .out p
  | .out, .tryrlock :: p => flatFrom .rd p
  | .out, .trylock :: p => flatFrom .wr p
  | .out, .gate :: p => flatFrom .out p
  | .rd, .gate :: p => flatFrom .rd p
  | .wr, .gate :: p => flatFrom .wr p
  | .rd, .runlock :: p => flatFrom .out p
  | .rd, .readSel :: p => flatFrom .rd p
  | .rd, .select :: p => flatFrom .rd p
  | .wr, .unlock :: p => flatFrom .out p
  | .wr, .readSel :: p => flatFrom .wr p
  | .wr, .swapSel :: p => flatFrom .wr p
  | .wr, .select :: p => flatFrom .wr p
  | _, _ => false

def flat (p : List Op) : Bool := flatFrom .out p

/-- thread state and remaining program agree with the flat grammar (a thread-local condition) -/
def Thread.ok (t : Thread) : Bool :=
  match t.rd, t.w, t.prog with
  | 0, .none, p => flatFrom .out p
  | 1, .none, p => flatFrom .rd p
  | 0, .waiting, .lock :: p => flatFrom .wr p
  | 0, .held, p => flatFrom .wr p
  | _, _, _ => false

/-- termination measure: two per remaining op, one less once the writer has announced -/
def Thread.measure (t : Thread) : Nat := 2 * t.prog.length + (if t.w = .waiting then 0 else 1)
def measure (s : St) : Nat := (s.ths.map Thread.measure).sum

/-! ### one read section per request -/

def noRead : List Op → Bool
  | [] => true
  | .readSel :: _ => false
  | _ :: p => noRead p

/-- after a selector read: up to the end of the section no swap, afterwards no further read -/
def inSec : List Op → Bool
  | [] => true
  | .runlock :: p => noRead p
  | .unlock :: p => noRead p
  | .swapSel :: _ => false
  | _ :: p => inSec p

/-- all selector reads of the program lie in one critical section and no `Select` precedes the first read -/
def oneSection : List Op → Bool
  | [] => true
  | .select :: _ => false
  | .readSel :: p => inSec p
  | _ :: p => oneSection p

/-- a request never touches the write side -/
def readerProg (p : List Op) : Bool := p.all fun o => o != .lock && o != .unlock && o != .swapSel && o != .trylock

/-- *Waiting acquisitions only*: the program takes the lock through `RLock` / `Lock`, never through `TryRLock` /
`TryLock`, so it has no failure branch in which the entry point gives up because the lock is busy. -/
def blocking (p : List Op) : Bool := p.all fun o => o != .tryrlock && o != .trylock

/-- some thread has been turned away by a failed `Try*` -/
def anyRefused (s : St) : Bool := s.ths.any (·.refused)

/-! ### extracted paths (`CJ/Gen/LockPrograms.lean`) and the plain mutex -/

/-- One path through an exported entry point of the package, as the extractor emits it: the entry point,
the branch labels (informational), the address families whose selection block the path enters, whether
it leaves some function on the way through a `return` that is not the last statement of its body, and
the operations on the lock in execution order. -/
structure Path where
  root : String
  name : String
  fams : List Nat
  early : Bool
  ops : List Op
deriving Repr, Inhabited

/-- *Balanced* (for a plain `sync.Mutex`, which is an `RWMutex` used through `Lock`/`Unlock` only): the
path is a sequence of `Lock; Unlock` pairs and nothing else — every `Lock` is followed by its `Unlock`
before the function returns, nothing is acquired while the lock is held. -/
def balanced : List Op → Bool
  | [] => true
  | .lock :: .unlock :: p => balanced p
  | _ => false

/-! ### lock order between several mutexes (static) -/

/-- the `(held, requested)` pairs of a program over several locks (operations tagged with a lock index):
lock `requested` is acquired while lock `held` is held -/
def nestingsFrom (held : List Nat) : List (Nat × Op) → List (Nat × Nat)
  | [] => []
  | (l, .rlock) :: p => held.map (·, l) ++ nestingsFrom (l :: held) p
  | (l, .lock) :: p => held.map (·, l) ++ nestingsFrom (l :: held) p
  -- a `Try*` that succeeded holds the lock from here on, but it has not waited for it while holding the others
  | (l, .tryrlock) :: p => nestingsFrom (l :: held) p
  | (l, .trylock) :: p => nestingsFrom (l :: held) p
  | (l, .runlock) :: p => nestingsFrom (held.erase l) p
  | (l, .unlock) :: p => nestingsFrom (held.erase l) p
  | _ :: p => nestingsFrom held p

def nestings (p : List (Nat × Op)) : List (Nat × Nat) := nestingsFrom [] p

/-- no lock is requested while it is itself held, and no two locks are requested in both orders -/
def orderAcyclic (n : List (Nat × Nat)) : Bool := n.all fun e => e.1 != e.2 && !n.contains (e.2, e.1)

/-! ### executable search for a deadlock (small thread sets) -/

def enabled (s : St) : List Nat :=
  (List.range s.ths.length).filter fun i => (step s i).isSome

/-- stuck and not finished -/
def deadlocked (s : St) : Bool := !allDone s && (enabled s).isEmpty

/-- breadth-first search over all schedules from `s`; returns the first schedule that ends in a
deadlocked state. `fuel` bounds the number of BFS layers (the measure of the initial state suffices). -/
def bfs (fuel : Nat) (frontier : List (St × List Nat)) (visited : List St) : Option (List Nat) :=
  match fuel with
  | 0 => none
  | fuel + 1 =>
    match frontier.find? (fun x => deadlocked x.1) with
    | some (_, sched) => some sched.reverse
    | none =>
      let (next, vis) := frontier.foldl (fun (acc : List (St × List Nat) × List St) (x : St × List Nat) =>
        (enabled x.1).foldl (fun (acc : List (St × List Nat) × List St) i =>
          match step x.1 i with
          | none => acc
          | some s' => if acc.2.contains s' then acc else ((s', i :: x.2) :: acc.1, s' :: acc.2)) acc) ([], visited)
      if next.isEmpty then none else bfs fuel next.reverse vis

def findDeadlock (progs : List (List Op)) : Option (List Nat) :=
  let s := init progs
  bfs (measure s + 1) [(s, [])] [s]

/-- breadth-first search over all schedules for a state in which a thread has been refused -/
def bfsRefusal (fuel : Nat) (frontier : List (St × List Nat)) (visited : List St) : Option (List Nat) :=
  match fuel with
  | 0 => none
  | fuel + 1 =>
    match frontier.find? (fun x => anyRefused x.1) with
    | some (_, sched) => some sched.reverse
    | none =>
      let (next, vis) := frontier.foldl (fun (acc : List (St × List Nat) × List St) (x : St × List Nat) =>
        (enabled x.1).foldl (fun (acc : List (St × List Nat) × List St) i =>
          match step x.1 i with
          | none => acc
          | some s' => if acc.2.contains s' then acc else ((s', i :: x.2) :: acc.1, s' :: acc.2)) acc) ([], visited)
      if next.isEmpty then none else bfsRefusal fuel next.reverse vis

def findRefusal (progs : List (List Op)) : Option (List Nat) :=
  let s := init progs
  bfsRefusal (measure s + 1) [(s, [])] [s]

/-! ### coarse-grained runs used by the correspondence check

The harness controls real goroutines only at *gates* (inside `Select`) and by starting them; between
two events everything that can run does run.  `settle` mirrors that: every thread that is not parked
at a gate steps until it is blocked, finished or has just executed a `select` on the initial selector
(version 0 is the harness's gate-controlled selector; the selectors installed by the real
`ReloadSubnets` have no gate) or a `gate` of a stand-in program, then it parks. -/

structure Coarse where
  s : St
  /-- threads that have been started -/
  started : List Nat := []
  /-- threads parked at a gate (inside `Select`) -/
  parked : List Nat := []
deriving Repr

def canRun (c : Coarse) (i : Nat) : Bool :=
  c.started.contains i && !c.parked.contains i && (step c.s i).isSome

def nextIs (c : Coarse) (i : Nat) (o : Op) : Bool :=
  match c.s.ths[i]? with
  | some t => t.prog.head? == some o
  | none => false

/-- The thread that runs next.  When several started threads can step they were all waiting for the same
release, and Go's mutex decides between them: `RWMutex.Unlock` hands the lock to every reader blocked in
`RLock` before it lets the next writer pass the announce point (so blocked readers go first), and the writers
queued on the inner mutex are woken in the order in which they arrived (so the thread started earlier goes
first).  The fine-grained semantics (`exec`) admits every order; this is the one the runtime takes. -/
def runnable (c : Coarse) : Option Nat :=
  let order := c.started.reverse
  match order.find? (fun i => canRun c i && nextIs c i .rlock) with
  | some i => some i
  | none => order.find? (canRun c)

def settle : Nat → Coarse → Coarse
  | 0, c => c
  | fuel + 1, c =>
    match runnable c with
    | none => c
    | some i =>
      match c.s.ths[i]?, step c.s i with
      | some t, some s' =>
        let parks := match t.prog with | .select :: _ => t.cur == some 0 | .gate :: _ => true | _ => false
        settle fuel { c with s := s', parked := if parks then i :: c.parked else c.parked }
      | _, _ => c

inductive Ev | start (i : Nat) | release (i : Nat)
deriving Repr

/-- An event that does not apply in the current state (the thread is already running, or is not parked
because it finished or is blocked in the mutex) is skipped, so one event list can be run against
different versions of the code; an index outside the thread set is an error. -/
def applyEv (c : Coarse) : Ev → Option Coarse
  | .start i =>
    if i ≥ c.s.ths.length then none
    else if c.started.contains i then some c
    else some (settle (measure c.s + 1) { c with started := i :: c.started })
  | .release i =>
    if i ≥ c.s.ths.length then none
    else if c.parked.contains i then some (settle (measure c.s + 1) { c with parked := c.parked.erase i })
    else some c

/-- after the scripted events: release every parked thread (lowest index first) until nothing is parked -/
def drain : Nat → Coarse → Coarse
  | 0, c => c
  | fuel + 1, c =>
    match (List.range c.s.ths.length).find? (fun i => c.parked.contains i) with
    | none => c
    | some i => drain fuel (settle (measure c.s + 1) { c with parked := c.parked.erase i })

/-- events the harness could issue in a settled state -/
def coarseEnabled (c : Coarse) : List Ev :=
  ((List.range c.s.ths.length).filter (fun i => !c.started.contains i)).map Ev.start ++
  ((List.range c.s.ths.length).filter (fun i => c.parked.contains i)).map Ev.release

/-- settled, nothing parked, and a started thread that has not finished: it is blocked for good -/
def coarseDeadlocked (c : Coarse) : Bool :=
  c.parked.isEmpty && c.started.any fun i => match c.s.ths[i]? with | some t => !t.done | none => false

/-- depth-first search over event sequences for a coarse deadlock; yields the events -/
def findCoarse : Nat → Coarse → List Ev → Option (List Ev)
  | 0, c, acc => if coarseDeadlocked c then some acc.reverse else none
  | fuel + 1, c, acc =>
    if coarseDeadlocked c then some acc.reverse
    else (coarseEnabled c).firstM fun e =>
      match applyEv c e with
      | none => none
      | some c' => findCoarse fuel c' (e :: acc)

/-- depth-first search over event sequences for a state in which a thread has been refused; yields the events -/
def findCoarseRefusal : Nat → Coarse → List Ev → Option (List Ev)
  | 0, c, acc => if anyRefused c.s then some acc.reverse else none
  | fuel + 1, c, acc =>
    if anyRefused c.s then some acc.reverse
    else (coarseEnabled c).firstM fun e =>
      match applyEv c e with
      | none => none
      | some c' => findCoarseRefusal fuel c' (e :: acc)

def findRefusalEvents (progs : List (List Op)) : Option (List Ev) :=
  let s := init progs
  findCoarseRefusal (measure s + 1) { s := s } []

def findDeadlockEvents (progs : List (List Op)) : Option (List Ev) :=
  let s := init progs
  findCoarse (measure s + 1) { s := s } []

def runEvents (progs : List (List Op)) (evs : List Ev) : Option Coarse :=
  evs.foldlM applyEv { s := init progs }

end CJ.RW
