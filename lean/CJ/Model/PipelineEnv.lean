import CJ.Model.Pipeline
/-!
# The ingest pipeline against an environment that answers late or never, C09

`CJ.Pipeline` treats "worker `i` finishes ingesting its message" as an action the scheduler may take at
any time.  An ingest is not only computation: it talks to the world — it resolves the covert host name,
probes the phantom, shares the registration with the peer station over HTTP, publishes the announcement
to the detector, lets a connecting transport dial back to the client — and the world may answer at once,
late, or never.  Here each message carries how long the environment keeps the worker that ingests it
(`Msg.good occ`: `some d` ticks of a virtual clock, `none` = for ever), `finish` is enabled only when
that time has passed, and time is an action (`tick`).

How long a worker is kept follows from *which interactions the worker makes itself*: `Cfg.sync` — a
parameter; `CJ/Gen/IngestCalls.lean` (regenerated from the source on every run) says which calls of
`ingestRegistration` are plain calls and which are `go` statements.

Core Lean only.
-/
namespace CJ.PipelineEnv
open CJ.Pipeline (Dist)

/-- the external interactions of one ingest -/
inductive Ix
  | dns        -- ParseOrResolveBlocklisted: the system resolver
  | probe      -- LivenessTester.PhantomIsLive
  | share      -- tryShareRegistrationOverAPI: http.Post to the peer station
  | publish    -- AddRegistration → registerForDetector: the detector's Redis channel
  | dialback   -- handleConnectingTpReg: the connecting transport's Connect, then Proxy
deriving Repr, DecidableEq

/-- program order in `ingestRegistration` -/
def Ix.all : List Ix := [.dns, .probe, .share, .publish, .dialback]

/-- the environment's answer to each interaction of one ingest: after `some d` ticks, or never -/
abbrev Env := Ix → Option Nat

structure Cfg where
  /-- the interactions the worker makes itself (a plain call); the others run on a goroutine of their own -/
  sync : List Ix
deriving Repr

def occ (sync : List Ix) (e : Env) : List Ix → Option Nat
  | [] => some 0
  | ix :: rest =>
    if ix ∈ sync then
      match e ix, occ sync e rest with
      | some d, some r => some (d + r)
      | _, _ => none
    else occ sync e rest

/-- how long the environment `e` keeps the worker that ingests a message: the sum of its answers to the
synchronous interactions; `none` if one of them never comes -/
def occupancy (c : Cfg) (e : Env) : Option Nat := occ c.sync e Ix.all

/-- the reviewed tree: resolution, probe and publication are made by the worker; the share and the
dial-back are spawned -/
def reviewed : Cfg := { sync := [.dns, .probe, .publish] }

/-! ## the timed pipeline -/

/-- what a worker will do with a message: reject it at parse, or ingest it (kept for `occ` ticks) -/
inductive Msg
  | bad
  | good (occ : Option Nat)
deriving Repr, DecidableEq

inductive TW
  | idle
  | busy (m : Msg)
  | exited
deriving Repr, DecidableEq

structure TSt where
  cap : Nat
  queue : List Msg := []        -- the shallow buffer, oldest first
  workers : List TW
  cancelled : Bool := false
  dist : Dist := .loop
  received : Nat := 0
  forwarded : Nat := 0
  dropped : Nat := 0
  processed : Nat := 0
  rejected : Nat := 0
deriving Repr

inductive TAct
  | cancel
  /-- one iteration of the distributor; `input` = the message available on the input channel, if any -/
  | dist (input : Option Msg)
  | take (i : Nat)
  | exit (i : Nat)
  /-- worker `i` comes back from its ingest: enabled only when the environment has let it go -/
  | finish (i : Nat)
  | bad (i : Nat)
  /-- one unit of time passes -/
  | tick
deriving Repr

def idleTW (ws : List TW) : Option Nat := ws.findIdx? (· == .idle)
def allExitedT (ws : List TW) : Bool := ws.all (· == .exited)

def tickW : TW → TW
  | .busy (.good (some (n + 1))) => .busy (.good (some n))
  | w => w

def tstep (s : TSt) : TAct → TSt
  | .cancel => { s with cancelled := true }
  | .dist input =>
    match s.dist with
    | .loop =>
      if s.cancelled then { s with dist := .waiting }
      else match input with
        | none => s
        | some m =>
          match (if s.queue.isEmpty then idleTW s.workers else none) with
          | some i => { s with received := s.received + 1, forwarded := s.forwarded + 1, workers := s.workers.set i (.busy m) }
          | none =>
            if s.queue.length < s.cap then { s with received := s.received + 1, forwarded := s.forwarded + 1, queue := s.queue ++ [m] }
            else { s with received := s.received + 1, dropped := s.dropped + 1 }
    | .waiting => if allExitedT s.workers then { s with dist := .done } else s
    | .done => s
  | .take i =>
    match s.workers[i]?, s.queue with
    | some .idle, m :: q => { s with queue := q, workers := s.workers.set i (.busy m) }
    | _, _ => s
  | .exit i =>
    match s.workers[i]? with
    | some .idle => if s.cancelled then { s with workers := s.workers.set i .exited } else s
    | _ => s
  | .finish i =>
    match s.workers[i]? with
    | some (.busy (.good (some 0))) => { s with workers := s.workers.set i .idle, processed := s.processed + 1 }
    | _ => s
  | .bad i =>
    match s.workers[i]? with
    | some (.busy .bad) => { s with workers := s.workers.set i .idle, rejected := s.rejected + 1 }
    | _ => s
  | .tick => { s with workers := s.workers.map tickW }

def trun (s : TSt) (acts : List TAct) : TSt := acts.foldl tstep s

def tinit (cap n : Nat) : TSt := { cap := cap, workers := List.replicate n .idle }

/-- a worker / a message the environment never lets go -/
def Msg.parked : Msg → Bool
  | .good none => true
  | _ => false

def TW.parked : TW → Bool
  | .busy m => m.parked
  | _ => false

end CJ.PipelineEnv
