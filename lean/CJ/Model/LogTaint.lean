/-!
# Model of what can carry a client address into the station's logs (C17)

* **Errors as trees** mirroring the Go error values the network stack produces (`syscall.Errno`,
  `*os.SyscallError`, `*net.OpError` with its two endpoint addresses, the sentinels `io.EOF`,
  `net.ErrClosed`, `os.ErrClosed`, `os.ErrDeadlineExceeded`, `fmt.Errorf("…: %w", e)` wrappers, opaque
  values) with the three things the code asks of them: their text (`Error()`), `errors.Is`
  against the targets `generalizeErr` tests, and `err.(net.Error)` / `Timeout()`.
  A text is a list of tokens; an address is a token of its own that remembers whose address it is.
  The text of an *opaque* error (and the prefix a wrapper adds) is a token list as well: nothing in the
  type of a Go error keeps `errors.New`, `fmt.Errorf("…: %v", opErr)` (the operation error flattened into
  text) or `*net.AddrError` from naming an address, and the sanitiser cannot look inside them.
* **Both `generalizeErr` functions** (cmd/application/conns.go and pkg/station/lib/proxies.go) — they
  differ only in what the closed class maps to — including the reduction of unanticipated errors to
  address-free text (`strip`: a `*net.OpError` found in the chain is rebuilt without its endpoints).
* **Logger call sites** (`Site`, `Arg`): the shape of the table the extractor regenerates from the Go
  sources into `CJ/Gen/LogSites.lean` — logger calls, logger prefixes and the string fields of the JSON
  summaries as sinks — and the reviewed table that says which logged expressions are client addresses.
* **Where error texts come from** (`Cls`, `Origin`, `Src`, `ErrFn`): an error value is judged by the calls it
  can come from.  Calls that leave the repository are reviewed by name (`leafClasses`); functions of the
  repository are summarised by the extractor (`CJ.Gen.errFns`: what each returns — other calls' errors as
  they are / wrapped / flattened / sanitised, client-derived values formatted into constructed errors) and
  get the class their sources give them (`rfnCls`; the classes are a certificate checked against these
  equations).  `generalizeErr` is modelled precisely: it cleans structured errors (`Cls.gen`), not flattened
  ones (`Cls.flat`) and not errors built from client-derived values.
* The flow description, the tunnel summary, the registration digest and the expiry record as token lists.
-/
namespace CJ.LogTaint

/-- whose address a token is -/
inductive Role
  | client      -- a client's network address (connection peer or registrant)
  | station     -- the station's own (local / listening) address
  | phantom     -- the phantom (original destination) address
  | covert      -- the covert destination
  | decoy       -- the decoy site used for a registration
deriving Repr, DecidableEq

structure Addr where
  role : Role
  text : String
deriving Repr, DecidableEq

inductive Tok
  | str (s : String)
  | addr (a : Addr)
deriving Repr, DecidableEq

def Tok.render : Tok → String
  | .str s => s
  | .addr a => a.text

def render (ts : List Tok) : String := String.join (ts.map Tok.render)

def Tok.isStr : Tok → Bool
  | .str _ => true
  | .addr _ => false

def Tok.notClient : Tok → Bool
  | .str _ => true
  | .addr a => a.role != .client

/-- no address token at all -/
def noAddr (ts : List Tok) : Bool := ts.all Tok.isStr

/-- no token that is a client's address -/
def noClient (ts : List Tok) : Bool := ts.all Tok.notClient

/-! ### errors -/

inductive Err
  | errno (n : Nat) (msg : String)                               -- syscall.Errno (msg = strerror text)
  | syscallErr (call : String) (inner : Err)                     -- *os.SyscallError
  | opError (op net : String) (src dst : Option Addr) (inner : Err)  -- *net.OpError
  | eof                                                          -- io.EOF
  | netClosed                                                    -- net.ErrClosed
  | osClosed                                                     -- os.ErrClosed
  | deadline                                                     -- os.ErrDeadlineExceeded
  | wrapped (pre : List Tok) (inner : Err)                       -- fmt.Errorf(pre + "%w", inner)
  | other (toks : List Tok)                                      -- an opaque error: errors.New, transport sentinels,
                                                                 -- fmt.Errorf("…%v", e) (e is flattened into the text)
  | netErr (toks : List Tok) (timeout : Bool)                    -- some other net.Error implementation (*net.AddrError, …)
deriving Repr, DecidableEq

/-- `Error()`.  `*net.OpError` prints `op net src->dst: inner` with the endpoints it was given. -/
def Err.text : Err → List Tok
  | .errno _ msg => [.str msg]
  | .syscallErr call inner => .str (call ++ ": ") :: inner.text
  | .opError op net src dst inner =>
    [.str op] ++ (if net = "" then [] else [.str (" " ++ net)]) ++
    (match src with | some a => [.str " ", .addr a] | none => []) ++
    (match dst with
      | some a => [.str (if src.isSome then "->" else " "), .addr a]
      | none => []) ++
    [.str ": "] ++ inner.text
  | .eof => [.str "EOF"]
  | .netClosed => [.str "use of closed network connection"]
  | .osClosed => [.str "file already closed"]
  | .deadline => [.str "i/o timeout"]
  | .wrapped pre inner => pre ++ inner.text
  | .other toks => toks
  | .netErr toks _ => toks

/-- the comparison targets of `generalizeErr` -/
inductive Target
  | netClosed | eof | epipe | osClosed | reset | refused | aborted | unreach
deriving Repr, DecidableEq

/-- Linux errno values -/
def EAGAIN : Nat := 11
def EPIPE : Nat := 32
def ECONNABORTED : Nat := 103
def ECONNRESET : Nat := 104
def ETIMEDOUT : Nat := 110
def ECONNREFUSED : Nat := 111
def EHOSTUNREACH : Nat := 113

/-- `err == target` for one link of the chain -/
def Err.eqTarget : Err → Target → Bool
  | .netClosed, .netClosed => true
  | .eof, .eof => true
  | .osClosed, .osClosed => true
  | .errno n _, .epipe => n == EPIPE
  | .errno n _, .reset => n == ECONNRESET
  | .errno n _, .refused => n == ECONNREFUSED
  | .errno n _, .aborted => n == ECONNABORTED
  | .errno n _, .unreach => n == EHOSTUNREACH
  | _, _ => false

/-- `errors.Is(err, target)`: walk the `Unwrap` chain -/
def Err.is : Err → Target → Bool
  | .syscallErr c inner, t => (Err.syscallErr c inner).eqTarget t || inner.is t
  | .opError o n s d inner, t => (Err.opError o n s d inner).eqTarget t || inner.is t
  | .wrapped x inner, t => (Err.wrapped x inner).eqTarget t || inner.is t
  | e, t => e.eqTarget t

/-- the `Timeout() bool` method, where the dynamic type has one -/
def Err.timeoutMethod : Err → Option Bool
  | .errno n _ => some (n == EAGAIN || n == ETIMEDOUT)
  | .syscallErr _ inner => some (inner.timeoutMethod == some true)
  | .opError _ _ _ _ inner =>
    match inner with
    | .syscallErr _ x => some (x.timeoutMethod == some true)
    | i => some (i.timeoutMethod == some true)
  | .netClosed => some false
  | .deadline => some true
  | .netErr _ t => some t
  | .eof | .osClosed | .wrapped _ _ | .other _ => none

/-- `err.(net.Error)` succeeds: the dynamic type has `Timeout` and `Temporary`
(`*os.SyscallError` has no `Temporary`; `fmt`'s wrapper has neither) -/
def Err.isNetError : Err → Bool
  | .errno _ _ | .opError _ _ _ _ _ | .netClosed | .deadline | .netErr _ _ => true
  | _ => false

/-- `if errN, ok := err.(net.Error); ok && errN.Timeout()` -/
def Err.netTimeout (e : Err) : Bool := e.isNetError && e.timeoutMethod == some true

/-- is there a `*net.OpError` in the chain (`errors.As(err, &opErr)`) -/
def Err.hasOp : Err → Bool
  | .opError _ _ _ _ _ => true
  | .syscallErr _ inner => inner.hasOp
  | .wrapped _ inner => inner.hasOp
  | _ => false

/-- Reduction of an unanticipated error to address-free text: the first `*net.OpError` of the chain is
rebuilt from its operation, network and (recursively reduced) cause, without `Source` and `Addr`;
wrappers around it are dropped (their text repeats the endpoints).  An error without an operation
error in its chain is returned unchanged. -/
def Err.strip : Err → Err
  | .opError op net _ _ inner => .opError op net none none inner.strip
  | .syscallErr c inner => if inner.hasOp then inner.strip else .syscallErr c inner
  | .wrapped t inner => if inner.hasOp then inner.strip else .wrapped t inner
  | e => e

/-- the sentinels the two functions substitute -/
def errConnClosed : Err := .other [.str "closed"]
def errConnReset : Err := .other [.str "rst"]
def errConnRefused : Err := .other [.str "refused"]
def errConnAborted : Err := .other [.str "aborted"]
def errUnreachable : Err := .other [.str "unreachable"]
def errConnTimeout : Err := .other [.str "timeout"]

/-- every opaque part of the error (text of `errors.New`-like values and of foreign `net.Error`s, prefixes
added by wrappers) is free of addresses: true of what package net, os, syscall and the wrapping
transports return from Read / Write / Close / SetDeadline / File — they name endpoints only through
`*net.OpError` — and exactly what the sanitiser relies on -/
def Err.opaqueClean : Err → Bool
  | .syscallErr _ inner => inner.opaqueClean
  | .opError _ _ _ _ inner => inner.opaqueClean
  | .wrapped pre inner => noAddr pre && inner.opaqueClean
  | .other toks => noAddr toks
  | .netErr toks _ => noAddr toks
  | _ => true

/-- `generalizeErr(err)` for a non-nil `err`; `none` = nil.  `app = true`: cmd/application/conns.go (the
closed class becomes the sentinel "closed"); `app = false`: pkg/station/lib/proxies.go (it becomes nil). -/
def generalize (app : Bool) (e : Err) : Option Err :=
  if e.is .netClosed || e.is .eof || e.is .epipe || e.is .osClosed then
    (if app then some errConnClosed else none)
  else if e.is .reset then some errConnReset
  else if e.is .refused then some errConnRefused
  else if e.is .aborted then some errConnAborted
  else if e.is .unreach then some errUnreachable
  else if e.netTimeout then some errConnTimeout
  else some e.strip

/-- text of `generalizeErr(err)` as the call sites print or store it (`%v` of a nil error prints `<nil>`) -/
def generalizedText (app : Bool) (e : Err) : List Tok :=
  match generalize app e with
  | none => [.str "<nil>"]
  | some r => r.text

/-! ### logger call sites -/

inductive Level
  | trace | debug | warn | error | info
  | print        -- Print/Printf/Println of the embedded standard logger: no level test
  | fatal        -- Fatal*/Panic*
deriving Repr, DecidableEq

/-- Which levels write at the level a logger starts with is *observed on the code under check* (a table
`CJ.Gen.levelEmitted`, regenerated on every run); a level the table does not list counts as emitted. -/
def emittedBy (tbl : List (Level × Bool)) (l : Level) : Bool :=
  match tbl.lookup l with
  | some b => b
  | none => true

/-- the table at the time of review (`ErrorLevel` is the default, `Info` ranks above `Error`); theorems
about call sites use the regenerated table, this one documents what the harness assumes -/
def reviewedLevels : List (Level × Bool) :=
  [(.trace, false), (.debug, false), (.warn, false), (.error, true), (.info, true), (.print, true), (.fatal, true)]

/-! ### where the text of an error comes from -/

/-- what the text of an error can hold -/
inductive Cls
  | clean        -- its text never names a client
  | structured   -- it names a client at most inside `*net.OpError` values reachable by `Unwrap` (what package
                 -- net returns for I/O on a client connection): `generalizeErr` removes that
  | leaky       -- a client address may sit in text the sanitiser cannot look into
deriving Repr, DecidableEq

def Cls.max : Cls → Cls → Cls
  | .leaky, _ => .leaky
  | _, .leaky => .leaky
  | .structured, _ => .structured
  | _, .structured => .structured
  | .clean, .clean => .clean

/-- formatting an error into a new one with a verb other than `%w` (or through `.Error()`): its text
becomes opaque text of the new error — harmless only when there was no client address in it -/
def Cls.flat : Cls → Cls
  | .clean => .clean
  | _ => .leaky

/-- what `generalizeErr` makes of it: operation errors lose their endpoints, opaque text passes unchanged -/
def Cls.gen : Cls → Cls
  | .leaky => .leaky
  | _ => .clean

/-- the call an error value came from.  `fns`: the functions of this repository the call can reach (indices
into the regenerated summary table `CJ.Gen.errFns`); `ext`: the call can (also) reach code outside the
repository — the receiver's type is unknown, or nothing in the repository has that name — so the call is
judged by the reviewed table `leafClasses` as well. -/
structure Origin where
  text : String
  fns : List Nat
  ext : Bool
deriving Repr, DecidableEq

/-- one source of the text of an error value -/
inductive Src
  | err (flat gen : Bool) (o : Origin)   -- the error of a call: passed through `generalizeErr` first (`gen`),
                                         -- then returned as it is / wrapped with `%w`, or flattened (`flat`)
  | tainted (what : String)              -- a value derived from a client address is formatted into a
                                         -- constructed error (data flow found by the extractor)
deriving Repr, DecidableEq

/-- summary of a function of the repository: everything its returned error can be made of -/
structure ErrFn where
  key : String
  srcs : List Src
deriving Repr, DecidableEq

/-- one argument of a logger call, as the extractor classifies it -/
inductive Arg
  | lit                        -- a literal
  | num                        -- a number built from literals, counters (atomic loads), lengths, arithmetic
  | err (s : Src)              -- an error value, with where it came from
  | typeOf (src : String)      -- operand of a `%T` verb: only its type is printed
  | expr (src : String)        -- anything else, by source text
deriving Repr, DecidableEq

structure Site where
  file : String
  fn : String
  line : Nat
  level : Level
  format : String
  guard : String     -- the conditions of the if statements around the call (inside its function), joined with &&
  args : List Arg
deriving Repr, DecidableEq

/-- Reviewed: calls that leave the repository (or whose receiver is of unknown type), with what their errors
can hold.  A bare call text is a call whose error a logger prints; `pkg.Func: call` is a call inside a
function of the repository whose error reaches a logger through return values; a trailing ⚑ marks a call
that is handed a client-derived argument (parsers and resolvers repeat their input in their errors).
A call that is not listed counts as `leaky`: a raw or sanitised error from a new place fails the
call-site theorem until it is reviewed here. -/
def leafClasses : List (String × Cls) := [
  -- ── errors a logger prints as they are ────────────────────────────────────────────────────────
  -- cmd/application/main.go: start-up, before/independent of any connection
  ("strconv.ParseBool", .clean),
  -- conns.go: listener errors carry the listening address only (`OpError{Source: nil, Addr: laddr}`)
  ("net.ListenTCP", .clean), ("ln.AcceptTCP", .clean),
  -- bare errno values from socket options
  ("syscall.SetNonblock", .clean), ("application.getOriginalDst: syscall.GetsockoptIPv6MTUInfo", .clean),
  -- `SetDeadline` failures are `OpError{Op: "set", Source: nil, Addr: laddr}` (local address only,
  -- `deadline_error_no_client`) or a bare errno (obfs4: ENOTSUP); the DTLS connection hands the call down to
  -- its UDP socket
  ("clientConn.SetDeadline", .clean), ("wrapped.SetDeadline", .clean),
  ("dtls.SCTPConn.SetDeadline: s.conn.SetDeadline", .clean),
  -- GeoIP lookups: every implementation of geoip.Database is in pkg/station/geoip (summaries below: the
  -- reader's error goes through `withoutAddr`, which takes the looked-up address out of the text — maxminddb
  -- repeats it for an IPv6 lookup in an IPv4-only database; exercised by the harness with such a database)
  ("regManager.GeoIPDatabase().CC ⚑", .clean), ("regManager.GeoIPDatabase().ASN ⚑", .clean),
  ("lib.RegistrationManager.NewRegistrationC2SWrapper: rm.GeoIPDatabase().CC ⚑", .clean),
  ("lib.RegistrationManager.NewRegistrationC2SWrapper: rm.GeoIPDatabase().ASN ⚑", .clean),
  -- the error handed to the sanitiser `withoutAddr` is the reader's (the sanitiser is reviewed below)
  ("geoip.withoutAddr: param err", .leaky),
  -- proxies.go, writePROXYHeader: the header is written to the covert connection (station and covert
  -- endpoints; a write error never repeats the data written); the client address is parsed from
  -- `RemoteAddr().String()`, which is host:port for TCP and UDP peers, so SplitHostPort does not fail
  ("lib.writePROXYHeader: conn.Write ⚑", .clean), ("lib.writePROXYHeader: net.SplitHostPort ⚑", .clean),
  -- registration.go / registration_ingest.go: protobuf, registry and HTTP-share errors
  ("proto.Marshal", .clean), ("proto.Unmarshal", .clean),
  ("lib.RegistrationManager.parseRegMessage: proto.Unmarshal", .clean),
  ("regManager.registeredDecoys.register", .clean),
  ("lib.RegistrationManager.TrackRegistration: regManager.registeredDecoys.Track", .clean),
  ("lib.executeHTTPRequest: http.Post", .clean),      -- the registration API of a peer station (configured URL)
  -- the same calls handed a protobuf message / payload that holds the registrant's address (C2SWrapper shared
  -- with a peer station): marshalling errors name fields, not values; `*url.Error` names the configured URL and
  -- the transport error towards the peer, never the body
  ("proto.Marshal ⚑", .clean), ("lib.executeHTTPRequest: http.Post ⚑", .clean),
  -- phantom selection, transport parameters and ports: arithmetic on subnets, protobuf decoding, HKDF streams
  ("lib.RegistrationManager.NewRegistration: rm.Selector().Select", .clean),
  ("lib.RegistrationManager.getPhantomDstPort: transport.GetDstPort", .clean),
  ("lib.RegistrationManager.getTransportParams: transport.ParseParams", .clean),
  ("lib.mockTransport.ParseParams: anypb.UnmarshalTo", .clean),
  ("transports.UnmarshalAnypbTo: anypb.New", .clean), ("transports.UnmarshalAnypbTo: anypb.UnmarshalTo", .clean),
  ("core.GenSharedKeys: cjHkdf.Read", .clean), ("phantoms.SelectAddrFromSubnet: rng.Read", .clean),
  ("phantoms.SubnetConfig.getSubnetsVarint: wr.NewChooser", .clean), ("phantoms.getSubnetsHkdf: rand.Int", .clean),
  ("phantoms.selectPhantomImplHkdf: rand.Int", .clean), ("phantoms.parseSubnet: net.ParseCIDR", .clean),
  -- configuration, keys, databases, certificates: files and values of the station's own configuration
  ("lib.ParseConfig: toml.DecodeFile", .clean), ("lib.ParseConfig: c.ParseBlocklists", .clean),
  ("lib.RegConfig.ParseBlocklists: net.ParseCIDR", .clean), ("lib.RegConfig.ParseBlocklists: regexp.Compile", .clean),
  ("lib.Config.ParsePrivateKey: os.Stat", .clean), ("lib.Config.ParsePrivateKey: os.ReadDir", .clean),
  ("lib.loadPrivateKey: os.ReadFile", .clean), ("lib.NewZMQIngest: zmq.AuthCurvePublic", .clean),
  ("liveness.CachedLivenessTester.Init: time.ParseDuration", .clean),
  ("phantoms.SubnetsFromTomlFile: toml.LoadFile", .clean), ("phantoms.SubnetsFromTomlFile: tree.Unmarshal", .clean),
  ("phantoms.SubnetsFromTomlFile: strconv.Atoi", .clean), ("geoip.maxMindDatabase.init: geoip2.Open", .clean),
  ("dtls.Listen: lc.Listen", .clean),                   -- the station's own UDP listening address
  ("dtls.NewTransport: buildDnat", .clean),             -- opens the tun device
  ("dtls.getPrivkey: keygen.ECDSALegacy", .clean), ("dtls.getX509Tpl: rand.Int", .clean),
  ("dtls.getX509Tpl: io.ReadFull", .clean), ("dtls.newCertificate: x509.CreateCertificate", .clean),
  -- liveness probes dial the *phantom* address
  ("liveness.CachedLivenessTester.PhantomIsLive: blt.phantomIsLive", .clean),
  ("liveness.UncachedLivenessTester.PhantomIsLive: blt.phantomIsLive", .clean),
  ("lib.RegistrationManager.PhantomIsLive: regManager.LivenessTester.PhantomIsLive", .clean),
  ("regManager.LivenessTester.PhantomIsLive", .clean),
  -- zmq_proxy.go: the ZMQ sockets connect the station to its detector and to the registrars (configured
  -- endpoints); libzmq errors are errno texts
  ("zmq.NewSocket", .clean), ("sub.Connect", .clean), ("sub.SetSubscribe", .clean), ("sub.RecvBytes", .clean),
  ("pubSock.Bind", .clean), ("pubSock.SendBytes", .clean), ("sock.SetHeartbeatIvl", .clean),
  ("sock.SetHeartbeatTimeout", .clean), ("sock.ClientAuthCurve", .clean), ("sock.SetSubscribe", .clean),
  ("sock.Connect", .clean),
  -- ── errors that are printed or stored only after `generalizeErr` ──────────────────────────────
  -- I/O on the client connection (package net: `*net.OpError` with both endpoints) and on what wraps it
  ("clientConn.File", .structured), ("clientConn.Read", .structured), ("io.Copy", .structured),
  ("cTCP.SetLinger", .structured), ("src.Read", .structured), ("dst.Write", .structured), ("c.Close", .structured),
  ("net.Dial", .structured), ("t.WrapConnection", .structured), ("=io.ErrShortWrite", .clean),
  -- the connecting transport's Connect: its own failures, the context's error, and the dial error of the
  -- network stack towards the client (`dial udp <station>-><client>: …`): structured as package net returns it —
  -- the DTLS transport flattens it (`Cls.flat`), which is why what Connect returns is leaky and may only be
  -- counted, never printed, sanitised or not
  ("dtls.Transport.Connect: ctx.Err", .clean), ("dtls.Transport.Connect: reuseport.Dial ⚑", .structured),
  ("dtls.SCTPConn.Read: s.stream.Read", .structured), ("dtls.SCTPConn.Read: =s.readErr", .structured),
  ("dtls.hbConn.Read: =net.ErrClosed", .clean), ("dtls.hbConn.Read: =readBytes.err", .structured),
  ("dtls.Not1Reader.Read: n1r.r.Read", .structured), ("transports.PrefixConn.Read: pc.r.Read", .structured),
  ("dtls.SCTPConn.Write: s.stream.Write ⚑", .structured), ("dtls.hbConn.Write: c.stream.Write ⚑", .structured),
  ("dtls.hbConn.Close: c.stream.Close", .structured)
]

/-- Reviewed: calls whose receiver is an interface value that is known not to hold a type of this repository,
although methods of that name exist in it (the extractor resolves by name): the random stream an address is
drawn from (an HKDF / DRBG reader, not a connection) and the covert connection `net.Dial` returned. -/
def notRepo : List String := [
  "phantoms.SelectAddrFromSubnet: rng.Read", "lib.writePROXYHeader: conn.Write ⚑"
]

/-- Reviewed sanitisers: functions whose returned error is free of the address they are given although they
format it (`withoutAddr` replaces the looked-up address in the reader's text by "_"; the harness runs the
GeoIP lookups on IPv4-only databases, where the reader's error repeats the address). -/
def reviewedSanitizers : List String := ["pkg/station/geoip.withoutAddr"]

def lookupCls (s : String) : List (String × Cls) → Option Cls
  | [] => none
  | (k, v) :: rest => if k = s then some v else lookupCls s rest

def leafCls (s : String) : Cls := (lookupCls s leafClasses).getD .leaky

/-! The reviewed tables are keyed by text; they are consulted once per source (`Src.resolve`), the class
computation then runs on numbers only. -/

/-- a source with the reviewed tables already consulted -/
structure RSrc where
  tainted : Bool
  flat : Bool
  gen : Bool
  fns : List Nat     -- summarised functions the call can reach
  leaf : Cls         -- what the reviewed table says about the call (`clean` when it stays inside the repository)

structure RFn where
  key : String
  srcs : List RSrc

def Origin.fnsR (o : Origin) : List Nat := if notRepo.contains o.text then [] else o.fns

def Origin.leafR (o : Origin) : Cls := if o.ext || o.fns.isEmpty then leafCls o.text else .clean

def Src.resolve : Src → RSrc
  | .tainted _ => ⟨true, false, false, [], .leaky⟩
  | .err flat gen o => ⟨false, flat, gen, o.fnsR, o.leafR⟩

def ErrFn.resolve (f : ErrFn) : RFn := ⟨f.key, f.srcs.map Src.resolve⟩

/-- class contributed by the summarised functions a call can reach, given their classes (a function's
reference to itself adds nothing; a reference outside the table counts as leaky) -/
def viaFns (known : List Cls) (self : Nat) (fns : List Nat) : Cls :=
  fns.foldl (fun acc i => acc.max (if i = self then .clean else (known[i]?).getD .leaky)) Cls.clean

def rsrcCls (known : List Cls) (self : Nat) (s : RSrc) : Cls :=
  if s.tainted then .leaky else
  let c := (viaFns known self s.fns).max s.leaf
  let c := if s.gen then c.gen else c
  if s.flat then c.flat else c

/-- class of a summarised function: the worst of its sources, unless it is a reviewed sanitiser (the table is
consulted only for functions that are not clean anyway) -/
def rfnCls (known : List Cls) (self : Nat) (f : RFn) : Cls :=
  match f.srcs.foldl (fun acc s => acc.max (rsrcCls known self s)) Cls.clean with
  | .clean => .clean
  | c => if reviewedSanitizers.contains f.key then .clean else c

/-- class of what a call returns -/
def originCls (known : List Cls) (self : Nat) (o : Origin) : Cls := (viaFns known self o.fnsR).max o.leafR

def srcCls (known : List Cls) (self : Nat) (s : Src) : Cls := rsrcCls known self s.resolve

/-- the class equations: entry `i` of `k` is the class computed for function `i` from `k` itself -/
def checkFrom (k : List Cls) : Nat → List RFn → List Cls → Bool
  | _, [], [] => true
  | i, f :: fs, c :: cs => (rfnCls k i f == c) && checkFrom k (i + 1) fs cs
  | _, _, _ => false

/-- `k` solves the class equations of the table: every function's class is what its sources give, computed
from the classes `k` assigns to the functions they reach.  The classes are a certificate (the extractor
computes the least solution and writes it next to the summaries); the equations are monotone, so *every*
solution lies above the least one and can only over-approximate what a function returns. -/
def solves (r : List RFn) (k : List Cls) : Bool := checkFrom k 0 r k

/-- Reviewed: every non-error expression that reaches a logger (or a logger prefix) in the covered
directories, with the role of the address it renders (`none`: it renders no address).  A plain
identifier is keyed together with what was assigned to it (`name=<right-hand side>`), a parameter with its
function.  Unlisted expressions fail the call-site theorem. -/
def exprRoles : List (String × Option Role) := [
  -- numbers, durations, flags, names, identifiers derived from the shared secret
  ("count=regManager.CountRegistrations(originalDstIP)", none), ("timeout=time.Duration(ms) * time.Millisecond", none),
  ("n=clientConn.Read(buf[:])", none), ("nr=src.Read(buf)", none), ("time.Until(deadline)", none),
  ("d=time.Until(deadline)", none), ("t.Name()", none), ("t.LogPrefix()", none), ("reg.IDString()", none),
  ("newRegs[0].IDString()", none), ("tag=param(halfPipe)", none), ("isUpload=strings.HasPrefix(tag, \"Up\")", none),
  ("sig.String()", none), ("reg.RegistrationSource", none), ("parsed.GetRegistrationSource()", none),
  ("r.TotalRegistrations()", none), ("r.totalTimeouts()", none), ("s.registeredDecoys.TotalRegistrations()", none),
  ("zi.HeartbeatInterval", none), ("zi.HeartbeatTimeout", none),
  -- statistics keyed by ASN / country code / generation / transport / library version, never by address
  ("asn=range(val)", none), ("counts.cc", none), ("c.connectingCounts.string()", none),
  ("counts.connectingCounts.string()", none), ("stats.newRegistrations", none), ("gen=range(s.generations)", none),
  ("tt=range(s.ttStats)", none), ("lv=range(s.lvStats)", none),
  -- summaries shown client-free below (`tunnel_summary_no_client`, `digest_omits_registrant`,
  -- `summary_fields_reviewed` over the regenerated field table)
  ("tunStatsStr=json.Marshal(ts)", none), ("statsStr=json.Marshal(stats)", none), ("reg.String()", none),
  -- client-side library code (prefix transport's debug print): prefix id and session parameters
  ("s=param(debug)", none), ("t.Prefix", none), ("t.parameters", none), ("t.sessionParams", none),
  -- what is stored in the string fields of the JSON summaries (`<field tunnelStats.X>` sinks): GeoIP country
  -- code, names of the transport and the registrar, option strings of the transport
  ("reg.regCC", none), ("reg.Transport.String()", none), ("reg.RegistrationSource.String()", none),
  ("paramStrs=(*reg.TransportPtr).ParamStrings(reg.transportParams)", none),
  ("expiredRegObj.regCC", none), ("expiredRegObj.Transport.String()", none),
  ("expiredRegObj.RegistrationSource.String()", none),
  ("reg.PhantomIp.String()", some .phantom), ("expiredReg.decoy", some .phantom),
  -- addresses that are not a client's
  ("listenAddr=&net.TCPAddr{IP: nil, Port: 41245, Zone: \"\"}", some .station), ("ln.Addr()", some .station),
  ("http.ListenAndServe(\"localhost:6060\", nil)", some .station),
  ("zi.connectAddr", some .station), ("connectSocket.Address", some .station), ("config.Address", some .station),
  ("originalDstIP=param(handleNewTCPConn)", some .phantom), ("originalDst=originalDstIP.String()", some .phantom),
  ("reg.PhantomIp", some .phantom), ("reg.Covert", some .covert),
  ("decoyAddress=net.IP(parsed.GetDecoyAddress())", some .decoy),
  -- client addresses
  ("sourceAddr=net.IP(parsed.GetRegistrationAddress())", some .client), ("reg.GetRegistrationAddress()", some .client),
  ("clientConn.RemoteAddr()", some .client), ("clientConn.RemoteAddr().String()", some .client),
  ("originalSrc=clientConn.RemoteAddr().String()", some .client)
]

def lookupRole (s : String) : List (String × Option Role) → Option (Option Role)
  | [] => none
  | (k, v) :: rest => if k = s then some v else lookupRole s rest

/-- a source at a call site (not inside a summarised function): no `self` -/
def siteSrcCls (known : List Cls) (s : Src) : Cls := srcCls known known.length s

def Arg.ok (known : List Cls) : Arg → Bool
  | .lit | .num | .typeOf _ => true
  | .err s => siteSrcCls known s == .clean
  | .expr s =>
    match lookupRole s exprRoles with
    | some (some .client) => false
    | some _ => true
    | none => false

/-- Reviewed exemption: the diagnostic for a reader that claims more bytes than the buffer holds prints
the raw read error (through the package-level logger, i.e. the standard logger on stderr); it is unreachable
for connections that honour `io.Reader` (`nr ≤ len(buf)`).  The exemption names the guard it was reviewed
under — the extractor records the conditions around every call — so a call with this format under any other
guard (a widened one, say `er != nil && nr > 0`) is judged like every other call: guards are not trusted,
this one text is. -/
def exemptions : List (String × String) :=
  [("unexpected read len error - up:%t (%dB): %s", "er != nil && nr > len(buf)")]

def Site.exempt (s : Site) : Bool := exemptions.any fun e => e.1 == s.format && e.2 == s.guard

def Site.ok (tbl : List (Level × Bool)) (known : List Cls) (s : Site) : Bool :=
  !emittedBy tbl s.level || s.exempt || s.args.all (Arg.ok known)

/-! ### rendering of a call site in an environment -/

/-- every opaque part of the error is free of *client* addresses (it may name the station, a phantom or a
covert): the weaker form of `opaqueClean` that the call-site theorem needs -/
def Err.opaqueNoClient : Err → Bool
  | .syscallErr _ inner => inner.opaqueNoClient
  | .opError _ _ _ _ inner => inner.opaqueNoClient
  | .wrapped pre inner => noClient pre && inner.opaqueNoClient
  | .other toks => noClient toks
  | .netErr toks _ => noClient toks
  | _ => true

/-- an error value is within a class -/
def Err.inCls : Cls → Err → Prop
  | .clean, e => noClient e.text = true
  | .structured, e => e.opaqueNoClient = true
  | .leaky, _ => True

/-- what the arguments of a call evaluate to -/
structure Env where
  app : Bool                       -- which `generalizeErr` the file uses
  raw : Origin → Err               -- the error returned by each call
  exprToks : String → List Tok     -- rendering of every other expression (and of client-derived values)

/-- the text a source contributes to what is printed: flattening keeps the tokens (they become part of
another error's text), `generalizeErr` is applied where the code applies it -/
def srcText (env : Env) : Src → List Tok
  | .tainted w => env.exprToks w
  | .err _ gen o => if gen then generalizedText env.app (env.raw o) else (env.raw o).text

def renderArg (env : Env) : Arg → List Tok
  | .lit => [.str "…"]
  | .num => [.str "0"]
  | .err s => srcText env s
  | .typeOf _ => [.str "T"]
  | .expr s => env.exprToks s

def renderSite (env : Env) (s : Site) : List Tok := s.args.flatMap (renderArg env)

/-- The environment respects the tables: what a call returns is within the class computed for it (from the
reviewed leaves and the regenerated summaries), listed expressions render no client address unless they are
listed as one. -/
structure Env.Ok (known : List Cls) (env : Env) : Prop where
  raw_ok : ∀ o, (env.raw o).inCls (originCls known known.length o)
  expr_ok : ∀ s r, lookupRole s exprRoles = some r → r ≠ some Role.client → noClient (env.exprToks s) = true

/-! ### reviewed facts about the switch and the summaries (checked against regenerated tables) -/

/-- the only values `logClientIP` may be given: the constant `false` and the parsed environment variable -/
def reviewedLogClientIPAssigns : List String :=
  ["false", "strconv.ParseBool(os.Getenv(\"LOG_CLIENT_IP\"))"]

/-- assignments the extractor leaves out because they stand under `if logClientIP` -/
def reviewedGuarded : List String := ["handleNewTCPConn: originalSrc"]

/-- Reviewed: where an error is flattened into text (`fmt.Errorf("…%v", err)`) in the code whose errors
reach `generalizeErr` or a logger of the connection path.  Configuration loading only: the error of
reading / parsing the station's config file.  A flattening `fmt.Errorf` anywhere else in those directories
fails `no_unreviewed_flattening` — flattened operation errors are what `generalizeErr` cannot clean
(`opaque_address_passes_through`). -/
def reviewedFlatten : List (String × String) := [("pkg/station/lib/config.go", "ParseConfig")]

/-- Go types / JSON kinds of summary fields that cannot hold an address -/
def plainTypes : List String :=
  ["int64", "int32", "uint", "uint32", "bool", "number", "object", "null",
   "*proto.RegistrationFlags", "proto.TransportType", "*proto.RegistrationSource", "time.Time"]

/-- Reviewed: the string-valued fields of the JSON summaries and what fills them.  A string field that is
not listed (say a `ClientAddr` added to `tunnelStats`) fails `summary_fields_reviewed`. -/
def reviewedStringFields : List (String × String) := [
  -- tunnelStats: error texts that went through generalizeErr (relay injection tests), the phantom, GeoIP
  -- country code, transport / registrar names, option strings of the transport
  ("tunnelStats", "CovertDialErr"), ("tunnelStats", "CovertConnErr"), ("tunnelStats", "ClientConnErr"),
  ("tunnelStats", "PhantomAddr"), ("tunnelStats", "CC"), ("tunnelStats", "Transport"), ("tunnelStats", "Registrar"),
  ("tunnelStats", "TransportOpts"), ("tunnelStats", "RegOpts"), ("tunnelStats", "Tags"),
  ("regExpireLogMsg", "PhantomAddr"), ("regExpireLogMsg", "CC"), ("regExpireLogMsg", "Transport"),
  ("regExpireLogMsg", "Registrar"), ("regExpireLogMsg", "TransportOpts"), ("regExpireLogMsg", "RegOpts"),
  ("regExpireLogMsg", "Tags"),
  -- the registration digest: phantom host:port, hex of the shared secret, covert, mask site, time
  ("DecoyRegistration.String", "Phantom"), ("DecoyRegistration.String", "SharedSecret"),
  ("DecoyRegistration.String", "Covert"), ("DecoyRegistration.String", "Mask"), ("DecoyRegistration.String", "RegTime")
]

def fieldOk (f : String × String × String) : Bool :=
  plainTypes.contains f.2.2 ||
    ((f.2.2 == "string" || f.2.2 == "[]string") && reviewedStringFields.contains (f.1, f.2.1))

/-! ### summaries -/

/-- `flowDescription := fmt.Sprintf("%s -> %s ", originalSrc, originalDst)`, `originalSrc = "_"` unless
`logClientIP` -/
def flowDescription (logClientIP : Bool) (client phantom : Addr) : List Tok :=
  [if logClientIP then .addr client else .str "_", .str " -> ", .addr phantom, .str " "]

/-- a `SetDeadline` failure as package net builds it -/
def deadlineError (net : String) (local_ : Addr) (cause : Err) : Err :=
  .opError "set" net none (some local_) cause

/-- the fields of `tunnelStats` that are not numbers or fixed vocabulary -/
structure Tunnel where
  dialErr : Option Err            -- error of `net.Dial` (through `generalizeErr`)
  covertErr : Option Err          -- last error recorded for the covert side (through `generalizeErr`)
  clientErr : Option Err          -- last error recorded for the client side (through `generalizeErr`)
  phantom : Addr
  cc : String
  transport : String

def statText (e : Option Err) : List Tok :=
  match e with
  | none => []
  | some e => match generalize false e with
    | none => []
    | some r => r.text

/-- `proxy closed {json}` -/
def tunnelSummary (t : Tunnel) : List Tok :=
  [.str "proxy closed {\"CovertDialErr\":\""] ++ statText t.dialErr ++ [.str "\",\"CovertConnErr\":\""] ++
  statText t.covertErr ++ [.str "\",\"ClientConnErr\":\""] ++ statText t.clientErr ++
  [.str "\",\"PhantomAddr\":\"", .addr t.phantom, .str ("\",\"CC\":\"" ++ t.cc ++ "\",\"Transport\":\"" ++ t.transport ++ "\"}")]

/-- what a registration knows -/
structure RegInfo where
  registrant : Addr
  phantom : Addr
  covert : Addr
  secretHex : String
  mask : String
  misc : String      -- flags, transport, time, generation, source, counters

/-- `DecoyRegistration.String()` -/
def regDigest (r : RegInfo) : List Tok :=
  [.str "{\"Phantom\":\"", .addr r.phantom, .str ("\",\"SharedSecret\":\"" ++ r.secretHex ++ "\",\"Covert\":\""),
   .addr r.covert, .str ("\",\"Mask\":\"" ++ r.mask ++ "\"," ++ r.misc ++ "}")]

/-- `regExpireLogMsg` -/
def expireRecord (r : RegInfo) : List Tok :=
  [.str "{\"PhantomAddr\":\"", .addr r.phantom, .str ("\"," ++ r.misc ++ "}")]

/-- the line that drops a registration with a blocklisted covert -/
def droppingRegLine (r : RegInfo) : List Tok :=
  [.str ("Dropping reg, malformed or blocklisted covert: " ++ r.secretHex ++ ", "), .addr r.covert]

end CJ.LogTaint
