/-!
# Model of what can carry a client address into the station's logs (C17)

* **Errors as trees** mirroring the Go error values the network stack produces (`syscall.Errno`,
  `*os.SyscallError`, `*net.OpError` with its two endpoint addresses, the sentinels `io.EOF`,
  `net.ErrClosed`, `os.ErrClosed`, `os.ErrDeadlineExceeded`, `fmt.Errorf("…: %w", e)` wrappers, opaque
  values) with the three things the code asks of them: their text (`Error()`), `errors.Is`
  against the targets `generalizeErr` tests, and `err.(net.Error)` / `Timeout()`.
  A text is a list of tokens; an address is a token of its own that remembers whose address it is.
  The text of an *opaque* error (and the prefix a wrapper adds) is a token list as well: nothing in the
  type of a Go error keeps `errors.New`, `fmt.Errorf("…: %v", opErr)` (the operation error flattened into
  text) or `*net.AddrError` from naming an address, and the sanitiser cannot look inside them.
* **Both `generalizeErr` functions** (cmd/application/conns.go and pkg/station/lib/proxies.go) — they
  differ only in what the closed class maps to — including the reduction of unanticipated errors to
  address-free text (`strip`: a `*net.OpError` found in the chain is rebuilt without its endpoints).
* **Logger call sites** (`Site`, `Arg`): the shape of the table the extractor regenerates from the Go
  sources into `CJ/Gen/LogSites.lean`, and the reviewed tables that say which raw-error origins and
  which logged expressions are free of client addresses.
* The flow description, the tunnel summary, the registration digest and the expiry record as token lists.
-/
namespace CJ.LogTaint

/-- whose address a token is -/
inductive Role
  | client      -- a client's network address (connection peer or registrant)
  | station     -- the station's own (local / listening) address
  | phantom     -- the phantom (original destination) address
  | covert      -- the covert destination
  | decoy       -- the decoy site used for a registration
deriving Repr, DecidableEq

structure Addr where
  role : Role
  text : String
deriving Repr, DecidableEq

inductive Tok
  | str (s : String)
  | addr (a : Addr)
deriving Repr, DecidableEq

def Tok.render : Tok → String
  | .str s => s
  | .addr a => a.text

def render (ts : List Tok) : String := String.join (ts.map Tok.render)

def Tok.isStr : Tok → Bool
  | .str _ => true
  | .addr _ => false

def Tok.notClient : Tok → Bool
  | .str _ => true
  | .addr a => a.role != .client

/-- no address token at all -/
def noAddr (ts : List Tok) : Bool := ts.all Tok.isStr

/-- no token that is a client's address -/
def noClient (ts : List Tok) : Bool := ts.all Tok.notClient

/-! ### errors -/

inductive Err
  | errno (n : Nat) (msg : String)                               -- syscall.Errno (msg = strerror text)
  | syscallErr (call : String) (inner : Err)                     -- *os.SyscallError
  | opError (op net : String) (src dst : Option Addr) (inner : Err)  -- *net.OpError
  | eof                                                          -- io.EOF
  | netClosed                                                    -- net.ErrClosed
  | osClosed                                                     -- os.ErrClosed
  | deadline                                                     -- os.ErrDeadlineExceeded
  | wrapped (pre : List Tok) (inner : Err)                       -- fmt.Errorf(pre + "%w", inner)
  | other (toks : List Tok)                                      -- an opaque error: errors.New, transport sentinels,
                                                                 -- fmt.Errorf("…%v", e) (e is flattened into the text)
  | netErr (toks : List Tok) (timeout : Bool)                    -- some other net.Error implementation (*net.AddrError, …)
deriving Repr, DecidableEq

/-- `Error()`.  `*net.OpError` prints `op net src->dst: inner` with the endpoints it was given. -/
def Err.text : Err → List Tok
  | .errno _ msg => [.str msg]
  | .syscallErr call inner => .str (call ++ ": ") :: inner.text
  | .opError op net src dst inner =>
    [.str op] ++ (if net = "" then [] else [.str (" " ++ net)]) ++
    (match src with | some a => [.str " ", .addr a] | none => []) ++
    (match dst with
      | some a => [.str (if src.isSome then "->" else " "), .addr a]
      | none => []) ++
    [.str ": "] ++ inner.text
  | .eof => [.str "EOF"]
  | .netClosed => [.str "use of closed network connection"]
  | .osClosed => [.str "file already closed"]
  | .deadline => [.str "i/o timeout"]
  | .wrapped pre inner => pre ++ inner.text
  | .other toks => toks
  | .netErr toks _ => toks

/-- the comparison targets of `generalizeErr` -/
inductive Target
  | netClosed | eof | epipe | osClosed | reset | refused | aborted | unreach
deriving Repr, DecidableEq

/-- Linux errno values -/
def EAGAIN : Nat := 11
def EPIPE : Nat := 32
def ECONNABORTED : Nat := 103
def ECONNRESET : Nat := 104
def ETIMEDOUT : Nat := 110
def ECONNREFUSED : Nat := 111
def EHOSTUNREACH : Nat := 113

/-- `err == target` for one link of the chain -/
def Err.eqTarget : Err → Target → Bool
  | .netClosed, .netClosed => true
  | .eof, .eof => true
  | .osClosed, .osClosed => true
  | .errno n _, .epipe => n == EPIPE
  | .errno n _, .reset => n == ECONNRESET
  | .errno n _, .refused => n == ECONNREFUSED
  | .errno n _, .aborted => n == ECONNABORTED
  | .errno n _, .unreach => n == EHOSTUNREACH
  | _, _ => false

/-- `errors.Is(err, target)`: walk the `Unwrap` chain -/
def Err.is : Err → Target → Bool
  | .syscallErr c inner, t => (Err.syscallErr c inner).eqTarget t || inner.is t
  | .opError o n s d inner, t => (Err.opError o n s d inner).eqTarget t || inner.is t
  | .wrapped x inner, t => (Err.wrapped x inner).eqTarget t || inner.is t
  | e, t => e.eqTarget t

/-- the `Timeout() bool` method, where the dynamic type has one -/
def Err.timeoutMethod : Err → Option Bool
  | .errno n _ => some (n == EAGAIN || n == ETIMEDOUT)
  | .syscallErr _ inner => some (inner.timeoutMethod == some true)
  | .opError _ _ _ _ inner =>
    match inner with
    | .syscallErr _ x => some (x.timeoutMethod == some true)
    | i => some (i.timeoutMethod == some true)
  | .netClosed => some false
  | .deadline => some true
  | .netErr _ t => some t
  | .eof | .osClosed | .wrapped _ _ | .other _ => none

/-- `err.(net.Error)` succeeds: the dynamic type has `Timeout` and `Temporary`
(`*os.SyscallError` has no `Temporary`; `fmt`'s wrapper has neither) -/
def Err.isNetError : Err → Bool
  | .errno _ _ | .opError _ _ _ _ _ | .netClosed | .deadline | .netErr _ _ => true
  | _ => false

/-- `if errN, ok := err.(net.Error); ok && errN.Timeout()` -/
def Err.netTimeout (e : Err) : Bool := e.isNetError && e.timeoutMethod == some true

/-- is there a `*net.OpError` in the chain (`errors.As(err, &opErr)`) -/
def Err.hasOp : Err → Bool
  | .opError _ _ _ _ _ => true
  | .syscallErr _ inner => inner.hasOp
  | .wrapped _ inner => inner.hasOp
  | _ => false

/-- Reduction of an unanticipated error to address-free text: the first `*net.OpError` of the chain is
rebuilt from its operation, network and (recursively reduced) cause, without `Source` and `Addr`;
wrappers around it are dropped (their text repeats the endpoints).  An error without an operation
error in its chain is returned unchanged. -/
def Err.strip : Err → Err
  | .opError op net _ _ inner => .opError op net none none inner.strip
  | .syscallErr c inner => if inner.hasOp then inner.strip else .syscallErr c inner
  | .wrapped t inner => if inner.hasOp then inner.strip else .wrapped t inner
  | e => e

/-- the sentinels the two functions substitute -/
def errConnClosed : Err := .other [.str "closed"]
def errConnReset : Err := .other [.str "rst"]
def errConnRefused : Err := .other [.str "refused"]
def errConnAborted : Err := .other [.str "aborted"]
def errUnreachable : Err := .other [.str "unreachable"]
def errConnTimeout : Err := .other [.str "timeout"]

/-- every opaque part of the error (text of `errors.New`-like values and of foreign `net.Error`s, prefixes
added by wrappers) is free of addresses: true of what package net, os, syscall and the wrapping
transports return from Read / Write / Close / SetDeadline / File — they name endpoints only through
`*net.OpError` — and exactly what the sanitiser relies on -/
def Err.opaqueClean : Err → Bool
  | .syscallErr _ inner => inner.opaqueClean
  | .opError _ _ _ _ inner => inner.opaqueClean
  | .wrapped pre inner => noAddr pre && inner.opaqueClean
  | .other toks => noAddr toks
  | .netErr toks _ => noAddr toks
  | _ => true

/-- `generalizeErr(err)` for a non-nil `err`; `none` = nil.  `app = true`: cmd/application/conns.go (the
closed class becomes the sentinel "closed"); `app = false`: pkg/station/lib/proxies.go (it becomes nil). -/
def generalize (app : Bool) (e : Err) : Option Err :=
  if e.is .netClosed || e.is .eof || e.is .epipe || e.is .osClosed then
    (if app then some errConnClosed else none)
  else if e.is .reset then some errConnReset
  else if e.is .refused then some errConnRefused
  else if e.is .aborted then some errConnAborted
  else if e.is .unreach then some errUnreachable
  else if e.netTimeout then some errConnTimeout
  else some e.strip

/-- text of `generalizeErr(err)` as the call sites print or store it (`%v` of a nil error prints `<nil>`) -/
def generalizedText (app : Bool) (e : Err) : List Tok :=
  match generalize app e with
  | none => [.str "<nil>"]
  | some r => r.text

/-! ### logger call sites -/

inductive Level
  | trace | debug | warn | error | info
  | print        -- Print/Printf/Println of the embedded standard logger: no level test
  | fatal        -- Fatal*/Panic*
deriving Repr, DecidableEq

/-- Which levels write at the level a logger starts with is *observed on the code under check* (a table
`CJ.Gen.levelEmitted`, regenerated on every run); a level the table does not list counts as emitted. -/
def emittedBy (tbl : List (Level × Bool)) (l : Level) : Bool :=
  match tbl.lookup l with
  | some b => b
  | none => true

/-- the table at the time of review (`ErrorLevel` is the default, `Info` ranks above `Error`); theorems
about call sites use the regenerated table, this one documents what the harness assumes -/
def reviewedLevels : List (Level × Bool) :=
  [(.trace, false), (.debug, false), (.warn, false), (.error, true), (.info, true), (.print, true), (.fatal, true)]

/-- one argument of a logger call, as the extractor classifies it -/
inductive Arg
  | lit                        -- a literal
  | num                        -- a number built from literals, counters (atomic loads), lengths, arithmetic
  | genErr                     -- an error value that went through `generalizeErr`
  | rawErr (origin : String)   -- an error value printed as returned by the call `origin`
  | typeOf (src : String)      -- operand of a `%T` verb: only its type is printed
  | expr (src : String)        -- anything else, by source text
deriving Repr, DecidableEq

structure Site where
  file : String
  fn : String
  line : Nat
  level : Level
  format : String
  args : List Arg
deriving Repr, DecidableEq

/-- Reviewed: calls whose error results never carry a client address (what each returns is noted).
An origin that is not listed makes the call-site theorem fail — that is the alarm for a raw error logged at a
new place. -/
def safeOrigins : List String := [
  -- cmd/application/main.go: start-up and reload, before/independent of any connection
  "cj.ParseConfig", "log.ParseLevel", "dtls.NewTransport", "strconv.ParseBool", "conf.ParsePrivateKey",
  "conf.ParseZMQPrivateKey", "prefix.New", "prefix.Default", "regManager.AddTransport", "cj.NewZMQIngest",
  -- conns.go: listener errors carry the listening address only (`OpError{Source: nil, Addr: laddr}`)
  "net.ListenTCP", "ln.AcceptTCP",
  -- bare errno values from socket options
  "getOriginalDst", "syscall.SetNonblock",
  -- `SetDeadline` failures are `OpError{Op: "set", Source: nil, Addr: laddr}` (local address only,
  -- `deadline_error_no_client`) or a bare errno (obfs4: ENOTSUP)
  "clientConn.SetDeadline", "wrapped.SetDeadline",
  -- GeoIP lookups: pkg/station/geoip takes the looked-up address out of the reader's error text (maxminddb
  -- repeats it for an IPv6 lookup in an IPv4-only database); exercised by the harness with such a database
  "regManager.GeoIP.CC", "regManager.GeoIP.ASN", "regManager.GeoIPDatabase().CC", "regManager.GeoIPDatabase().ASN",
  -- proxies.go: the PROXY header is written to the covert connection (station and covert endpoints); the
  -- client address is parsed from `RemoteAddr().String()`, which is host:port for TCP and UDP peers
  "writePROXYHeader",
  -- registration.go / registration_ingest.go: configuration, protobuf, registry and HTTP-share errors
  "liveness.New", "phantoms.NewPhantomIPSelector", "geoip.New",
  "regManager.registeredDecoys.register", "regManager.registeredDecoys.Register",
  "rm.parseRegMessage", "rm.ValidateRegistration", "rm.TrackRegistration", "proto.Marshal", "proto.Unmarshal",
  "executeHTTPRequest", "rm.NewRegistrationC2SWrapper", "rm.PhantomIsLive",
  -- zmq_proxy.go: the ZMQ sockets connect the station to its detector and to the registrars (configured
  -- endpoints); libzmq errors are errno texts
  "zmq.NewSocket", "sub.Connect", "sub.SetSubscribe", "sub.RecvBytes", "pubSock.Bind", "pubSock.SendBytes",
  "sock.SetHeartbeatIvl", "sock.SetHeartbeatTimeout", "sock.ClientAuthCurve", "sock.SetSubscribe", "sock.Connect"
]

/-- Reviewed: every non-error expression that reaches a logger (or a logger prefix) in the covered
directories, with the role of the address it renders (`none`: it renders no address).  A plain
identifier is keyed together with what was assigned to it (`name=<right-hand side>`), a parameter with its
function.  Unlisted expressions fail the call-site theorem. -/
def exprRoles : List (String × Option Role) := [
  -- numbers, durations, flags, names, identifiers derived from the shared secret
  ("count=regManager.CountRegistrations(originalDstIP)", none), ("timeout=time.Duration(ms) * time.Millisecond", none),
  ("n=clientConn.Read(buf[:])", none), ("nr=src.Read(buf)", none), ("time.Until(deadline)", none),
  ("d=time.Until(deadline)", none), ("t.Name()", none), ("t.LogPrefix()", none), ("reg.IDString()", none),
  ("newRegs[0].IDString()", none), ("tag=param(halfPipe)", none), ("isUpload=strings.HasPrefix(tag, \"Up\")", none),
  ("sig.String()", none), ("reg.RegistrationSource", none), ("parsed.GetRegistrationSource()", none),
  ("r.TotalRegistrations()", none), ("r.totalTimeouts()", none), ("s.registeredDecoys.TotalRegistrations()", none),
  ("zi.HeartbeatInterval", none), ("zi.HeartbeatTimeout", none),
  -- statistics keyed by ASN / country code / generation / transport / library version, never by address
  ("asn=range(val)", none), ("counts.cc", none), ("c.connectingCounts.string()", none),
  ("counts.connectingCounts.string()", none), ("stats.newRegistrations", none), ("gen=range(s.generations)", none),
  ("tt=range(s.ttStats)", none), ("lv=range(s.lvStats)", none),
  -- summaries shown client-free below (`tunnel_summary_no_client`, `digest_omits_registrant`,
  -- `summary_fields_reviewed` over the regenerated field table)
  ("tunStatsStr=json.Marshal(ts)", none), ("statsStr=json.Marshal(stats)", none), ("reg.String()", none),
  -- client-side library code (prefix transport's debug print): prefix id and session parameters
  ("s=param(debug)", none), ("t.Prefix", none), ("t.parameters", none), ("t.sessionParams", none),
  -- addresses that are not a client's
  ("listenAddr=&net.TCPAddr{IP: nil, Port: 41245, Zone: \"\"}", some .station), ("ln.Addr()", some .station),
  ("http.ListenAndServe(\"localhost:6060\", nil)", some .station),
  ("zi.connectAddr", some .station), ("connectSocket.Address", some .station), ("config.Address", some .station),
  ("originalDstIP=param(handleNewTCPConn)", some .phantom), ("originalDst=originalDstIP.String()", some .phantom),
  ("reg.PhantomIp", some .phantom), ("reg.Covert", some .covert),
  ("decoyAddress=net.IP(parsed.GetDecoyAddress())", some .decoy),
  -- client addresses
  ("sourceAddr=net.IP(parsed.GetRegistrationAddress())", some .client), ("reg.GetRegistrationAddress()", some .client),
  ("clientConn.RemoteAddr()", some .client), ("clientConn.RemoteAddr().String()", some .client),
  ("originalSrc=clientConn.RemoteAddr().String()", some .client)
]

def lookupRole (s : String) : List (String × Option Role) → Option (Option Role)
  | [] => none
  | (k, v) :: rest => if k = s then some v else lookupRole s rest

def Arg.ok : Arg → Bool
  | .lit | .num | .genErr | .typeOf _ => true
  | .rawErr o => safeOrigins.contains o
  | .expr s =>
    match lookupRole s exprRoles with
    | some (some .client) => false
    | some _ => true
    | none => false

/-- Reviewed exemption: the diagnostic for a reader that claims more bytes than the buffer holds prints
the raw read error; it is unreachable for connections that honour `io.Reader` (`nr ≤ len(buf)`). -/
def exemptFormats : List String := ["unexpected read len error - up:%t (%dB): %s"]

def Site.ok (tbl : List (Level × Bool)) (s : Site) : Bool :=
  !emittedBy tbl s.level || exemptFormats.contains s.format || s.args.all Arg.ok

/-! ### rendering of a call site in an environment -/

/-- what the arguments of a call evaluate to -/
structure Env where
  app : Bool                       -- which `generalizeErr` the file uses
  err : Err                        -- the error value handed to `generalizeErr`
  raw : String → Err               -- the error returned by each origin
  exprToks : String → List Tok     -- rendering of every other expression

def renderArg (env : Env) : Arg → List Tok
  | .lit => [.str "…"]
  | .num => [.str "0"]
  | .genErr => generalizedText env.app env.err
  | .rawErr o => (env.raw o).text
  | .typeOf _ => [.str "T"]
  | .expr s => env.exprToks s

def renderSite (env : Env) (s : Site) : List Tok := s.args.flatMap (renderArg env)

/-- The environment respects the reviewed tables: listed origins return errors without client
addresses, listed expressions render no client address unless they are listed as one; the error handed
to `generalizeErr` names endpoints only through operation errors. -/
structure Env.Ok (env : Env) : Prop where
  err_clean : env.err.opaqueClean = true
  raw_ok : ∀ o, o ∈ safeOrigins → noClient (env.raw o).text = true
  expr_ok : ∀ s r, lookupRole s exprRoles = some r → r ≠ some Role.client → noClient (env.exprToks s) = true

/-! ### reviewed facts about the switch and the summaries (checked against regenerated tables) -/

/-- the only values `logClientIP` may be given: the constant `false` and the parsed environment variable -/
def reviewedLogClientIPAssigns : List String :=
  ["false", "strconv.ParseBool(os.Getenv(\"LOG_CLIENT_IP\"))"]

/-- assignments the extractor leaves out because they stand under `if logClientIP` -/
def reviewedGuarded : List String := ["handleNewTCPConn: originalSrc"]

/-- Reviewed: where an error is flattened into text (`fmt.Errorf("…%v", err)`) in the code whose errors
reach `generalizeErr` or a logger of the connection path.  Configuration loading only: the error of
reading / parsing the station's config file.  A flattening `fmt.Errorf` anywhere else in those directories
fails `no_unreviewed_flattening` — flattened operation errors are what `generalizeErr` cannot clean
(`opaque_address_passes_through`). -/
def reviewedFlatten : List (String × String) := [("pkg/station/lib/config.go", "ParseConfig")]

/-- Go types / JSON kinds of summary fields that cannot hold an address -/
def plainTypes : List String :=
  ["int64", "int32", "uint", "uint32", "bool", "number", "object", "null",
   "*proto.RegistrationFlags", "proto.TransportType", "*proto.RegistrationSource", "time.Time"]

/-- Reviewed: the string-valued fields of the JSON summaries and what fills them.  A string field that is
not listed (say a `ClientAddr` added to `tunnelStats`) fails `summary_fields_reviewed`. -/
def reviewedStringFields : List (String × String) := [
  -- tunnelStats: error texts that went through generalizeErr (relay injection tests), the phantom, GeoIP
  -- country code, transport / registrar names, option strings of the transport
  ("tunnelStats", "CovertDialErr"), ("tunnelStats", "CovertConnErr"), ("tunnelStats", "ClientConnErr"),
  ("tunnelStats", "PhantomAddr"), ("tunnelStats", "CC"), ("tunnelStats", "Transport"), ("tunnelStats", "Registrar"),
  ("tunnelStats", "TransportOpts"), ("tunnelStats", "RegOpts"), ("tunnelStats", "Tags"),
  ("regExpireLogMsg", "PhantomAddr"), ("regExpireLogMsg", "CC"), ("regExpireLogMsg", "Transport"),
  ("regExpireLogMsg", "Registrar"), ("regExpireLogMsg", "TransportOpts"), ("regExpireLogMsg", "RegOpts"),
  ("regExpireLogMsg", "Tags"),
  -- the registration digest: phantom host:port, hex of the shared secret, covert, mask site, time
  ("DecoyRegistration.String", "Phantom"), ("DecoyRegistration.String", "SharedSecret"),
  ("DecoyRegistration.String", "Covert"), ("DecoyRegistration.String", "Mask"), ("DecoyRegistration.String", "RegTime")
]

def fieldOk (f : String × String × String) : Bool :=
  plainTypes.contains f.2.2 ||
    ((f.2.2 == "string" || f.2.2 == "[]string") && reviewedStringFields.contains (f.1, f.2.1))

/-! ### summaries -/

/-- `flowDescription := fmt.Sprintf("%s -> %s ", originalSrc, originalDst)`, `originalSrc = "_"` unless
`logClientIP` -/
def flowDescription (logClientIP : Bool) (client phantom : Addr) : List Tok :=
  [if logClientIP then .addr client else .str "_", .str " -> ", .addr phantom, .str " "]

/-- a `SetDeadline` failure as package net builds it -/
def deadlineError (net : String) (local_ : Addr) (cause : Err) : Err :=
  .opError "set" net none (some local_) cause

/-- the fields of `tunnelStats` that are not numbers or fixed vocabulary -/
structure Tunnel where
  dialErr : Option Err            -- error of `net.Dial` (through `generalizeErr`)
  covertErr : Option Err          -- last error recorded for the covert side (through `generalizeErr`)
  clientErr : Option Err          -- last error recorded for the client side (through `generalizeErr`)
  phantom : Addr
  cc : String
  transport : String

def statText (e : Option Err) : List Tok :=
  match e with
  | none => []
  | some e => match generalize false e with
    | none => []
    | some r => r.text

/-- `proxy closed {json}` -/
def tunnelSummary (t : Tunnel) : List Tok :=
  [.str "proxy closed {\"CovertDialErr\":\""] ++ statText t.dialErr ++ [.str "\",\"CovertConnErr\":\""] ++
  statText t.covertErr ++ [.str "\",\"ClientConnErr\":\""] ++ statText t.clientErr ++
  [.str "\",\"PhantomAddr\":\"", .addr t.phantom, .str ("\",\"CC\":\"" ++ t.cc ++ "\",\"Transport\":\"" ++ t.transport ++ "\"}")]

/-- what a registration knows -/
structure RegInfo where
  registrant : Addr
  phantom : Addr
  covert : Addr
  secretHex : String
  mask : String
  misc : String      -- flags, transport, time, generation, source, counters

/-- `DecoyRegistration.String()` -/
def regDigest (r : RegInfo) : List Tok :=
  [.str "{\"Phantom\":\"", .addr r.phantom, .str ("\",\"SharedSecret\":\"" ++ r.secretHex ++ "\",\"Covert\":\""),
   .addr r.covert, .str ("\",\"Mask\":\"" ++ r.mask ++ "\"," ++ r.misc ++ "}")]

/-- `regExpireLogMsg` -/
def expireRecord (r : RegInfo) : List Tok :=
  [.str "{\"PhantomAddr\":\"", .addr r.phantom, .str ("\"," ++ r.misc ++ "}")]

/-- the line that drops a registration with a blocklisted covert -/
def droppingRegLine (r : RegInfo) : List Tok :=
  [.str ("Dropping reg, malformed or blocklisted covert: " ++ r.secretHex ++ ", "), .addr r.covert]

end CJ.LogTaint
