import CJ.Model.CovertLit
/-!
# The address-literal functions over *bytes*

A Go string is a sequence of bytes, not of characters, and the functions of `net` / `netip` / `strconv` that
`ParseOrResolveBlocklisted` calls walk it byte by byte: every byte they compare with is ASCII, every index and
length is a byte count.  `CJ.NetAddr` reads `List Char`; a covert string that is not valid UTF-8 has no such reading
through UTF-8 decoding.  Here each byte `b` is read as the character with code point `b` (U+0000 … U+00FF): the bytes
below 0x80 are the ASCII characters themselves, the bytes from 0x80 are characters that equal no ASCII character —
exactly what the byte loops see — and lengths and indices are byte counts.  So the byte-level functions are the
character-level ones on this reading, for *every* byte string (valid UTF-8 or not), and what they hand back
(host, port, zone: slices of the input) is read back byte for byte.
-/
namespace CJ.NetAddrBytes
open CJ.NetAddr CJ.Covert CJ.CovertLit

abbrev Bytes := List UInt8

def byteChar (b : UInt8) : Char := Char.ofNat b.toNat
def ofBytes (b : Bytes) : Str := b.map byteChar
/-- a character of a slice handed back: its byte, if it is one (always, for slices of an `ofBytes` string and
for the ASCII texts the formatters produce) -/
def charByte (c : Char) : Option UInt8 := if c.toNat < 256 then some (UInt8.ofNat c.toNat) else none
def toBytes (s : Str) : Option Bytes := s.mapM charByte

def parseAddrB (b : Bytes) : Option Addr := parseAddr (ofBytes b)
def parseIPB (b : Bytes) : Option (List Nat) := parseIP (ofBytes b)
def splitHostPortB (b : Bytes) : Option (Str × Str) := splitHostPort (ofBytes b)
def parseUint16B (b : Bytes) : Option Nat := parseUint16 (ofBytes b)
def parseCIDRB (b : Bytes) : Option IPNet := parseCIDR (ofBytes b)
def resolveLiteralB (b : Bytes) : LitResolved := resolveLiteral (ofBytes b)
def joinHostPortB (h p : Bytes) : Str := joinHostPort (ofBytes h) (ofBytes p)

/-- the covert string as the model of `ParseOrResolveBlocklisted` takes it -/
def covertString (b : Bytes) : String := String.ofList (ofBytes b)

/-- `ParseOrResolveBlocklisted` on a covert string given as bytes -/
def admitLitB {Pat : Type} (ms : Pat → String → Bool) (pol : Policy IPNet Pat) (provided : Bytes) : Option Result :=
  admitLit ms pol (covertString provided)

end CJ.NetAddrBytes
