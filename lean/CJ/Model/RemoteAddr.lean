import CJ.Model.NetAddr
/-!
# `getRemoteAddr` / `parseIP` of the API registrar (C13)

pkg/regserver/apiregserver/apiregserver.go, with `clientIPHeaderNames = ["X-Forwarded-For"]` (a regenerated fact
would be needed for a second name; the harness feeds the real function and this one the same request and
compares): which address a request is attributed to.  A request for which this is `none` is answered 400 before
anything else happens (`BdReq.front`, field `addr`).

`net.ParseIP` and `net.SplitHostPort` are `CJ/Model/NetAddr.lean`'s.  Strings are `List Char` restricted to ASCII
(the harness generates ASCII only; `strings.TrimSpace` also trims U+0085, U+00A0 and the Unicode spaces).
-/
namespace CJ.RemoteAddr
open CJ.NetAddr

/-- `parseIP(addrPort)`: the host of `host:port`, the whole string when it does not split or the host is empty -/
def parseHostIP (addrPort : Str) : Option (List Nat) :=
  match splitHostPort addrPort with
  | some (host, _) => if host.isEmpty then parseIP addrPort else parseIP host
  | none => parseIP addrPort

/-- `strings.TrimSpace` on ASCII: space, \t, \n, \v, \f, \r -/
def isBlank (c : Char) : Bool := c == ' ' || (decide (9 ≤ c.toNat) && decide (c.toNat ≤ 13))
def trim (s : Str) : Str := ((s.dropWhile isBlank).reverse.dropWhile isBlank).reverse

/-- `strings.Split(value, ",")`: always at least one piece -/
def splitComma : Str → List Str
  | [] => [[]]
  | c :: rest =>
    match splitComma rest with
    | [] => [[]]                     -- not reached: the result is never empty
    | p :: ps => if c == ',' then [] :: p :: ps else (c :: p) :: ps

/-- the entry of the header value the code parses: the last one, or the one before it when there are several and
the connection comes from the loopback address; blanks trimmed -/
def headerChoice (loopback : Bool) (value : Str) : Str :=
  match (splitComma value).reverse with
  | [] => []
  | [p] => trim p
  | p :: q :: _ => trim (if loopback then q else p)

def loopback4 : List Nat := v4InV6Prefix ++ [127, 0, 0, 1]
def loopback6 : List Nat := [0, 0, 0, 0, 0, 0, 0, 0, 0, 0, 0, 0, 0, 0, 0, 1]

/-- `ip.Equal(net.ParseIP("127.0.0.1")) || ip.Equal(net.ParseIP("::1"))` (a nil address equals neither) -/
def isLoopback (ip : Option (List Nat)) : Bool := ip == some loopback4 || ip == some loopback6

/-- `getRemoteAddr`: `remote` is `r.RemoteAddr`, `values` the X-Forwarded-For lines in order -/
def getRemoteAddr (remote : Str) (values : List Str) : Option (List Nat) :=
  let ip := parseHostIP remote
  match values.getLast? with
  | none => ip
  | some v =>
    match parseIP (headerChoice (isLoopback ip) v) with
    | some h => some h
    | none => ip

end CJ.RemoteAddr
