import CJ.Model.Codec
/-!
# The DNS registrar's request handler as C11 sees it (`dnsregserver.go: processRequest`)

The callback the DNS responder runs on every request that survived Noise: bytes in, bytes (or an error) out.
C11's clause: whatever the bytes are **and whatever the processor behind it answers**, the handler does not
panic, calls the processor at most once, and answers every request that decodes.  (The C13 model of the same
function, `CJ/Model/DnsReq.lean`, fixes the processor to the real one and looks at generations over time; here
the processor is an arbitrary answer - response present or not, error or not, in all four combinations - and
`proto.Marshal` of the answer may fail, which it does exactly when the processor's response cannot be marshalled.)

Pointers are `Option`s: `RegistrationPayload` is a sub-message pointer, `DecoyListGeneration` an optional scalar
(proto2: a `*uint32`).  The code reads the generation through the generated getters
(`c2sPayload.RegistrationPayload.GetDecoyListGeneration()`, nil-safe on both levels); `genDirect` is the same
read through the fields, the partial operation the getters stand in front of.
-/
namespace CJ.DnsHandler
open CJ.Codec

structure Payload where
  gen : Option Nat            -- DecoyListGeneration
deriving DecidableEq, Repr, Inhabited

structure Wrapper where
  payload : Option Payload    -- RegistrationPayload
  srcBd : Bool                -- GetRegistrationSource() == RegistrationSource_BidirectionalDNS
deriving DecidableEq, Repr, Inhabited

/-- what the processor returns: for `RegisterBidirectional` a response pointer (identified by the `Ipv4Addr` it
carries) and an error; for `RegisterUnidirectional` only the error is there to look at -/
structure RegAns where
  resp : Option Nat
  respMarshals : Bool         -- `proto.Marshal` accepts that response (it does not with a string that is not UTF-8 inside its `Any`)
  err : Bool
deriving DecidableEq, Repr, Inhabited

/-- the entry point of the processor the handler chose (`bd`: with source `BidirectionalDNS`, `uni`: with `DNS`) -/
inductive Call | bd | uni
deriving DecidableEq, Repr, Inhabited

/-- the `DnsResponse` that was marshalled -/
structure DnsResp where
  success : Bool
  outdated : Bool
  bd : Option Nat             -- BidirectionalResponse
deriving DecidableEq, Repr, Inhabited

structure Ans where
  out : Option DnsResp        -- `none`: `(nil, err)`, the responder then writes nothing
  call : Option Call
deriving DecidableEq, Repr, Inhabited

/-- `w.RegistrationPayload.GetDecoyListGeneration()` -/
def getGen (w : Wrapper) : Nat :=
  match w.payload with
  | none => 0
  | some p => match p.gen with
    | none => 0
    | some g => g

/-- `*w.RegistrationPayload.DecoyListGeneration` -/
def genDirect (w : Wrapper) : Outcome Nat :=
  match w.payload with
  | none => .panic "nil pointer dereference"
  | some p => match p.gen with
    | none => .panic "nil pointer dereference"
    | some g => .ok g

/-- `processRequest`; `decoded = none`: `proto.Unmarshal` failed.  `proto.Marshal(dnsResp)`: two scalars always
marshal, a response inside marshals when the response does. -/
def handleWith (gen : Wrapper → Outcome Nat) (decoded : Option Wrapper) (latest : Nat) (reg : RegAns) : Outcome Ans :=
  match decoded with
  | none => .ok ⟨none, none⟩
  | some w =>
    (gen w).bind fun g =>
      let call := if w.srcBd then Call.bd else Call.uni
      -- dnsResp.BidirectionalResponse = regResponse is assigned before the error is looked at
      let bd := if w.srcBd then reg.resp else none
      let marshalOk := match bd with
        | none => true
        | some _ => reg.respMarshals
      if marshalOk then .ok ⟨some ⟨!reg.err, decide (g < latest), bd⟩, some call⟩
      else .ok ⟨none, some call⟩

def handle : Option Wrapper → Nat → RegAns → Outcome Ans := handleWith (fun w => .ok (getGen w))

end CJ.DnsHandler
