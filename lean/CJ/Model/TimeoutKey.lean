/-! The key under which the registry stores a registration's timeout record (C02 / C08).

`pkg/station/lib/registration.go`: `timeoutIndex(phantomAddr, identifier) = phantomAddr + "|" + identifier`.
The identifier is raw key material (HMAC output, obfs4 public key ‖ node id): any byte value, the separator
included. The phantom address is the text of an IP address: free of the separator. Strings are modelled as
byte lists (Go strings are byte sequences). -/
namespace CJ.TimeoutKey

abbrev Bytes := List Nat

/-- `'|'` -/
def sep : Nat := 0x7c

/-- mirror of `timeoutIndex` -/
def timeoutIndex (p i : Bytes) : Bytes := p ++ sep :: i

/-- cut a key at its FIRST separator (what recovers the pair when the phantom is separator-free) -/
def splitFirst : Bytes → Bytes × Bytes
  | [] => ([], [])
  | b :: r => if b = sep then ([], r) else ((b :: (splitFirst r).1), (splitFirst r).2)

/-- cut a key at its LAST separator (no inverse of `timeoutIndex`: identifiers may hold the separator) -/
def splitLast (k : Bytes) : Bytes × Bytes :=
  ((splitFirst k.reverse).2.reverse, (splitFirst k.reverse).1.reverse)

end CJ.TimeoutKey
