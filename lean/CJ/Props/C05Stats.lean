import CJ.Lemmas.StatsEpoch
import CJ.Gen.StatsShape
/-!
# C05 — the session gauge across statistics epochs ("balanced session gauge")

Property theorems only.  `ProxyStats.sessionsProxying` is the anchored state of C05: a gauge of open proxy
sessions.  The stats loop ends an epoch (`PrintAndReset` / `Reset`) whenever its ticker fires, i.e. at
arbitrary moments relative to the sessions; the theorems quantify over **every interleaving** of session
starts, transfers, ends of directions, session ends and epoch resets (`List SEv`, events that are not
enabled are no-ops), and over the set `z` of fields the reset zeroes.  `CJ.Gen.statsMods` is what the
reset path of each statistics module of the tree under check does, regenerated from the source on every
run (go/harness/C05/zz_verif_c05_statsx_test.go).
-/
namespace CJ.Props.C05Stats
open CJ.StatsEpoch

/-- **At every moment the gauge equals the number of open sessions** — the sessions between
`addSession` and `removeSession` — for every interleaving of opens, transfers, closes and epoch resets,
provided the reset does not name the gauge. -/
theorem gauge_counts_open_sessions (z : List String) (hz : gaugeName ∉ z) (evs : List SEv) :
    (wrun z {} evs).ps.sessionsProxying = (wrun z {} evs).sessions.length := by
  have gen : ∀ (evs : List SEv) (w : W), w.ps.sessionsProxying = w.sessions.length →
      (wrun z w evs).ps.sessionsProxying = (wrun z w evs).sessions.length := by
    intro evs
    induction evs with
    | nil => intro w h; exact h
    | cons e evs ih => intro w h; exact ih _ (wstep_gauge z hz w e h)
  exact gen evs {} rfl

/-- … and the proviso is needed: a reset that zeroes the gauge forgets the sessions that are open across
the epoch boundary; when the one open session ends the gauge is negative although nothing is open. -/
theorem gauge_reset_forgets (z : List String) (hz : gaugeName ∈ z) :
    (wrun z {} [.start 0, .epoch, .stop 0]).ps.sessionsProxying = -1 ∧
    (wrun z {} [.start 0, .epoch, .stop 0]).sessions = [] := by
  have h0 : zf z "sessionsProxying" 1 = 0 := zf_of_mem _ _ _ hz
  refine ⟨?_, ?_⟩ <;>
    simp [wrun, wstep, findS, step, add, delta, zero, h0]

/-- **Epochs partition the totals**: what the resets of the closed epochs discarded (for a counter: that
epoch's count, which `PrintAndReset` has just printed), plus the current values, is everything that was
ever added — for every sequence of calls and every reset set.  Nothing is counted twice or lost at an
epoch boundary. -/
theorem epochs_partition_totals (z : List String) (evs : List Ev) :
    add (runClosed z ({}, {}) evs).1 (run z {} evs) = total evs := by
  have := closed_inv z evs {} {} {} (by simp [add])
  rw [runClosed_snd] at this
  exact this

/-- the gauge is untouched by epochs: it is always `#addSession − #removeSession` of the whole history -/
theorem gauge_is_adds_minus_removes (z : List String) (hz : gaugeName ∉ z) (evs : List Ev) :
    (run z {} evs).sessionsProxying = (total evs).sessionsProxying := by
  have h := epochs_partition_totals z evs
  have h0 := closed_gauge_zero z hz evs {} {} rfl
  have := congrArg PS.sessionsProxying h
  simp only [add] at this
  omega

/-- a counter the reset does not zero is cumulative, not per epoch: the closed epochs account for nothing
of it (stated for `newBytesUp`; the reviewed tree zeroes all seven) -/
theorem unreset_counter_is_cumulative (z : List String) (hz : "newBytesUp" ∉ z) (evs : List Ev) :
    (run z {} evs).newBytesUp = (total evs).newBytesUp := by
  have gen : ∀ (evs : List Ev) (c p : PS), c.newBytesUp = 0 → (runClosed z (c, p) evs).1.newBytesUp = 0 := by
    intro evs
    induction evs with
    | nil => intro c p h; exact h
    | cons e evs ih =>
      intro c p h
      simp only [runClosed, List.foldl_cons] at ih ⊢
      cases e with
      | reset =>
        apply ih
        have : kept z "newBytesUp" p.newBytesUp = 0 := kept_of_not_mem _ _ _ hz
        simp [add, discarded, h, this]
      | addSession => exact ih _ _ h
      | removeSession => exact ih _ _ h
      | addBytes n up => exact ih _ _ h
      | addCompleted n up => exact ih _ _ h
  have h := congrArg PS.newBytesUp (epochs_partition_totals z evs)
  have h0 := gen evs {} {} rfl
  simp only [add] at h
  omega

/-! ## the source of the tree under check -/

def modOf (name : String) : StatsMod :=
  (CJ.Gen.statsMods.find? (·.name == name)).getD
    { name := "", dir := "", fields := [], resetMethods := [], resetStores := [], resetReplaces := [], adds := [], storesElsewhere := [] }

def sameSet (a b : List String) : Bool := a.all (· ∈ b) && b.all (· ∈ a)

/-- `ProxyStats` has exactly the eight fields of the model -/
theorem proxystats_fields_are_the_models : (modOf "ProxyStats").fields = gaugeName :: counterNames := by decide

/-- **`ProxyStats.reset()` zeroes exactly the seven epoch counters** (each with the literal 0) and replaces
nothing — the `z` of the model the harness is compared with -/
theorem proxystats_reset_is_the_models :
    sameSet (modOf "ProxyStats").zeroed expectedReset = true ∧
    (modOf "ProxyStats").resetStores.all (·.2 == "0") = true ∧
    (modOf "ProxyStats").resetReplaces = [] := by decide

/-- in particular it spares the gauge, so `gauge_counts_open_sessions` applies to the code -/
theorem proxystats_reset_spares_the_gauge : gaugeName ∉ (modOf "ProxyStats").zeroed := by decide

/-- the gauge is moved by `addSession` (+1) and `removeSession` (−1) and by nothing else -/
theorem proxystats_gauge_moved_by_add_remove_only :
    (modOf "ProxyStats").adds.filter (·.2.1 == gaugeName) =
      [("addSession", gaugeName, "+"), ("removeSession", gaugeName, "-")] ∧
    (modOf "ProxyStats").storesElsewhere = [] := by decide

/-- the code's gauge, at every moment of every interleaving -/
theorem proxystats_gauge_counts_open_sessions (evs : List SEv) :
    (wrun (modOf "ProxyStats").zeroed {} evs).ps.sessionsProxying =
      (wrun (modOf "ProxyStats").zeroed {} evs).sessions.length :=
  gauge_counts_open_sessions _ proxystats_reset_spares_the_gauge evs

/-! ### the other statistics modules the stats loop resets each epoch

A field that some method moves *down* is a level of things in flight.  For the three modules of
`pkg/station/lib` the levels are exactly the reviewed four, and no reset path stores into one or replaces
a table that holds one. -/

def libMods : List StatsMod := CJ.Gen.statsMods.filter (·.dir == "pkg/station/lib")

def forgotten (m : StatsMod) : List String :=
  m.gauges.filter fun g => g ∈ m.zeroed || m.resetReplaces.any fun r => r == g || (r ++ ".").isPrefixOf g || (r ++ "[]").isPrefixOf g

theorem lib_levels_reviewed :
    libMods.map (fun m => (m.name, m.gauges)) =
      [("ProxyStats", ["sessionsProxying"]), ("Stats", ["activeConns", "activeRegistrations"]),
       ("RegistrationStats", ["activeRegistrations"])] := by decide +kernel

theorem lib_levels_never_reset : libMods.all (fun m => forgotten m == []) = true := by decide +kernel

/-- `connStats` (cmd/application) is recorded, not claimed: its per-ASN tables are thrown away at each
epoch together with the state levels they hold (never printed), and `resetConnecting` replaces the
connecting-transport counts wholesale, including the level `numCreatedConnecting` (dial-backs in
progress), which the conn-stats line prints — see the improver report.  The theorem pins the list. -/
theorem connstats_forgotten_levels_recorded :
    forgotten (modOf "connStats") =
      ["numCreatedConnecting", "v4geoIPMap[].numCreatedConnecting", "v4geoIPMap[].numChecking",
       "v6geoIPMap[].numChecking", "v4geoIPMap[].numCreated", "v6geoIPMap[].numCreated",
       "v4geoIPMap[].numIODiscarding", "v6geoIPMap[].numIODiscarding", "v4geoIPMap[].numReading",
       "v6geoIPMap[].numReading"] := by decide +kernel

/-! ## non-vacuity -/

example : (wrun expectedReset {} [.start 0, .start 1, .bytes 0 5 true, .epoch, .finish 0 true, .finish 0 false,
    .stop 0, .epoch]).ps.sessionsProxying = 1 := by decide
example : gaugeName ∉ expectedReset := by decide
example : (run expectedReset {} [.addBytes 3 true, .reset, .addBytes 4 true]).newBytesUp = 4 ∧
    (total [.addBytes 3 true, .reset, .addBytes 4 true]).newBytesUp = 7 := by decide

end CJ.Props.C05Stats
