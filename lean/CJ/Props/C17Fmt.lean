import CJ.Model.Fmt
import CJ.Gen.LogFormats
import CJ.Gen.LogSites
import CJ.Props.C17Logger
/-!
# C17 — from the judgement of a call site's arguments to the text the logger is handed

`CJ.Fmt` reads a format string the way `fmt.(*pp).doPrintf` does (corresponded on the real `fmt.Sprintf`, line
`logger|fmt|…`).  Over it:

* `site_formats_ok` — for every formatted logger call of the regenerated table the model reads the format, hands out
  the verbs the extractor assigned (so the extractor's regular expression is no longer trusted for it), finds exactly as
  many arguments as verbs, and "only the type is printed" is claimed for a position exactly when the model's verb there
  is `%T`;
* `render_clean` — the text `Sprintf` builds satisfies `P` whenever the format's own bytes, the type names, `fmt`'s
  constant texts and the rendering of every argument that is **printed by a verb other than `%T`** do: an argument
  under `%T` may be anything;
* `render_independent` — and it does not depend on such an argument at all (two runs that differ only in arguments
  under `%T` build the same text): an address enters the text only through an argument that a verb prints;
* `formatted_call_good` / `formatted_site_sink_clean` — a formatted call whose printed arguments are clean is a good
  operation of the logger model, so `sink_clean` carries the judgement to the sink.
-/
namespace CJ.Props.C17
open CJ.Fmt CJ.Logger

theorem site_formats_ok : CJ.Gen.siteFormats.all (FmtSite.ok CJ.Gen.logSites) = true := by decide +kernel

/-- every argument position that a verb other than `%T` prints — and every argument left over — is `clean` -/
def okPieces (clean : Nat → Bool) : List Piece → Nat → Nat → Bool
  | [], i, n => (List.range (n - i)).all fun k => clean (i + k)
  | .verb v _ :: rest, i, n =>
    if i < n then (v == 84 || clean i) && okPieces clean rest (i + 1) n else okPieces clean rest i n
  | _ :: rest, i, n => okPieces clean rest i n

section
variable {α : Type}

theorem render_clean (P : α → Prop) (lit : Nat → α) (argText : Nat → Disp → List α) (typeText : Nat → List α)
    (noise : List α) (clean : Nat → Bool) (hlit : ∀ b, P (lit b)) (htype : ∀ i, ∀ x ∈ typeText i, P x)
    (hnoise : ∀ x ∈ noise, P x) (harg : ∀ j d, clean j = true → ∀ x ∈ argText j d, P x) (n : Nat) :
    ∀ (ps : List Piece) (i : Nat), okPieces clean ps i n = true →
      ∀ x ∈ renderPieces lit argText typeText noise ps i n, P x := by
  intro ps
  induction ps with
  | nil =>
    intro i hok x hx
    simp only [renderPieces, List.mem_flatMap, List.mem_range, List.mem_append] at hx
    obtain ⟨k, hk, hx⟩ := hx
    simp only [okPieces, List.all_eq_true, List.mem_range] at hok
    rcases hx with hx | hx
    · exact hnoise x hx
    · exact harg _ _ (hok k hk) x hx
  | cons p rest ih =>
    intro i hok x hx
    cases p with
    | lit b =>
      simp only [renderPieces, List.mem_cons] at hx
      rcases hx with rfl | hx
      · exact hlit b
      · exact ih i (by simpa [okPieces] using hok) x hx
    | pct =>
      simp only [renderPieces, List.mem_cons] at hx
      rcases hx with rfl | hx
      · exact hlit 37
      · exact ih i (by simpa [okPieces] using hok) x hx
    | noverb =>
      simp only [renderPieces, List.mem_append] at hx
      rcases hx with hx | hx
      · exact hnoise x hx
      · exact ih i (by simpa [okPieces] using hok) x hx
    | verb v p =>
      simp only [renderPieces] at hx
      simp only [okPieces] at hok
      by_cases hin : i < n
      · simp only [hin, if_true, Bool.and_eq_true, Bool.or_eq_true] at hok hx
        simp only [List.mem_append] at hx
        rcases hx with hx | hx
        · by_cases hv : (v == 84) = true
          · simp only [hv, if_true] at hx; exact htype i x hx
          · simp only [hv] at hx
            rcases hok.1 with h84 | hc
            · exact absurd h84 hv
            · exact harg i _ hc x hx
        · exact ih (i + 1) hok.2 x hx
      · simp only [hin, if_false] at hok hx
        simp only [List.mem_append] at hx
        rcases hx with hx | hx
        · exact hnoise x hx
        · exact ih i hok x hx

/-- the text does not depend on an argument that stands under `%T` -/
theorem render_independent (lit : Nat → α) (argText argText' : Nat → Disp → List α) (typeText : Nat → List α)
    (noise : List α) (dep : Nat → Bool) (hagree : ∀ j d, dep j = true → argText j d = argText' j d) (n : Nat) :
    ∀ (ps : List Piece) (i : Nat), okPieces dep ps i n = true →
      renderPieces lit argText typeText noise ps i n = renderPieces lit argText' typeText noise ps i n := by
  intro ps
  induction ps with
  | nil =>
    intro i hok
    simp only [okPieces, List.all_eq_true, List.mem_range] at hok
    simp only [renderPieces]
    have : ∀ (l : List Nat), (∀ k ∈ l, dep (i + k) = true) →
        l.flatMap (fun k => noise ++ argText (i + k) .extra) = l.flatMap (fun k => noise ++ argText' (i + k) .extra) := by
      intro l
      induction l with
      | nil => intro _; rfl
      | cons a t iht =>
        intro h
        simp only [List.flatMap_cons]
        rw [hagree _ _ (h a (by simp)), iht (fun k hk => h k (by simp [hk]))]
    exact this _ (fun k hk => hok k (List.mem_range.mp hk))
  | cons p rest ih =>
    intro i hok
    cases p with
    | lit b => simp only [renderPieces]; rw [ih i (by simpa [okPieces] using hok)]
    | pct => simp only [renderPieces]; rw [ih i (by simpa [okPieces] using hok)]
    | noverb => simp only [renderPieces]; rw [ih i (by simpa [okPieces] using hok)]
    | verb v p =>
      simp only [renderPieces]
      simp only [okPieces] at hok
      by_cases hin : i < n
      · simp only [hin, if_true, Bool.and_eq_true, Bool.or_eq_true] at hok ⊢
        rw [ih (i + 1) hok.2]
        by_cases hv : (v == 84) = true
        · simp [hv]
        · rcases hok.1 with h84 | hc
          · exact absurd h84 hv
          · rw [hagree i _ hc]
      · simp only [hin, if_false] at hok ⊢
        rw [ih i hok]

variable [DecidableEq α]

/-- a formatted call is a good operation of the logger model when what its format prints is clean -/
theorem formatted_call_good (P : α → Prop) (lit : Nat → α) (argText : Nat → Disp → List α) (typeText : Nat → List α)
    (noise : List α) (clean : Nat → Bool) (hlit : ∀ b, P (lit b)) (htype : ∀ i, ∀ x ∈ typeText i, P x)
    (hnoise : ∀ x ∈ noise, P x) (harg : ∀ j d, clean j = true → ∀ x ∈ argText j d, P x)
    (ps : List Piece) (n : Nat) (hok : okPieces clean ps 0 n = true) (tgt : Option Nat) (m : Meth) :
    OpGood P (.call tgt m .f (renderPieces lit argText typeText noise ps 0 n)) := by
  intro _
  exact render_clean P lit argText typeText noise clean hlit htype hnoise harg n ps 0 hok

/-- **Site judgement → formatted text → sink.**  A history that sets no level below `ErrorLevel`, followed by a
formatted call whose format prints (by a verb other than `%T`, or as a left-over argument) only clean arguments:
everything in the sink satisfies `P`. -/
theorem formatted_site_sink_clean (P : α → Prop) (nl : α) (hnl : P nl) (lit : Nat → α)
    (argText : Nat → Disp → List α) (typeText : Nat → List α) (noise : List α) (clean : Nat → Bool)
    (hlit : ∀ b, P (lit b)) (htype : ∀ i, ∀ x ∈ typeText i, P x) (hnoise : ∀ x ∈ noise, P x)
    (harg : ∀ j d, clean j = true → ∀ x ∈ argText j d, P x)
    (ps : List Piece) (n : Nat) (hok : okPieces clean ps 0 n = true) (tgt : Option Nat) (m : Meth)
    (ops : List (Op α)) (hops : ∀ o ∈ ops, OpGood P o) (s' : St α)
    (hr : run nl (ops ++ [.call tgt m .f (renderPieces lit argText typeText noise ps 0 n)]) {} = some s') :
    ∀ x ∈ s'.sink, P x := by
  refine sink_clean P nl hnl _ {} s' (init_good P) ?_ hr
  intro o ho
  simp only [List.mem_append, List.mem_singleton] at ho
  rcases ho with ho | rfl
  · exact hops o ho
  · exact formatted_call_good P lit argText typeText noise clean hlit htype hnoise harg ps n hok tgt m

end

/-- `%T` hides its argument, `%v` does not: "got %T from %v" with a tainted first argument is fine, with a tainted
second one it is not -/
example : (parse [37, 84, 32, 37, 118]).map (fun ps => okPieces (fun j => j != 0) ps 0 2) = some true := by decide
example : (parse [37, 84, 32, 37, 118]).map (fun ps => okPieces (fun j => j != 1) ps 0 2) = some false := by decide
/-- a left-over argument is printed (`%!(EXTRA …)`) -/
example : (parse [37, 84]).map (fun ps => okPieces (fun j => j != 1) ps 0 2) = some false := by decide
example : shows [37, 46, 48, 115, 37, 53, 100, 37, 37] [.str, .int] = some [false, true] := by decide
example : parse [37, 42, 100] = none := by decide

end CJ.Props.C17
