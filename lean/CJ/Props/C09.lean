import CJ.Lemmas.RegistryConc
import CJ.Lemmas.RegistryWorld
import CJ.Lemmas.Pipeline
import CJ.Props.C08
/-!
# C09 — concurrent ingest, lookup, activation and expiry behave like some serial order; the pipeline
does not stall on overload or shutdown

Property theorems only.  Threads are interleaved at the points where the real code releases the
registry mutex (the `verifhook.Yield` points); a schedule is any list of thread indices, the number
of threads is arbitrary.
-/
open Std

namespace CJ.Props.C09
open CJ.Registry CJ.RegistryConc CJ.Props.C08

/-! ## every interleaving is a serial sequence of registry operations -/

/-- one scheduled step keeps the registry inside the set of states reachable by *serial* histories -/
theorem world_step_reach (c : Cfg) (w : World) (i : Nat) (h : Reach c w.st) : Reach c (w.step c i).st := by
  unfold World.step
  split
  · exact h
  · rename_i t _
    split
    · exact h
    · rename_i s' t' ev hs
      rcases stepThread_is_op c w.st _ s' t' ev hs with rfl | ⟨op, rfl⟩
      · exact h
      · obtain ⟨ops, hops⟩ := h
        refine ⟨ops ++ [op], ?_⟩
        simp only [run, List.foldl_append, List.foldl_cons, List.foldl_nil]
        simp only [run] at hops
        rw [← hops]

/-- **Serial at the level of registry operations**: whatever the threads (any number, any mix of
workers, duplicate deliveries, sweepers, connection handlers) and whatever the schedule, the registry
state is one that some *serial* history of registry OPERATIONS (critical sections) produces.  This is
what the lock gives by construction — each thread step is at most one operation — and it is what lets
every C08 theorem apply to concurrent executions.  It does NOT say that the outcome equals a serial
order of whole THREADS; see `outcome_serialisable_full` below. -/
theorem interleaving_is_op_serial (c : Cfg) (w : World) (sched : List Nat) (h : Reach c w.st) :
    Reach c (w.run c sched).st := by
  unfold World.run
  induction sched generalizing w with
  | nil => exact h
  | cons i sched ih => exact ih _ (world_step_reach c w i h)

/-- hence the two maps never disagree under any interleaving … -/
theorem interleaving_inv (c : Cfg) (ths : List Th) (sched : List Nat) :
    Inv (({ st := init, ths := ths } : World).run c sched).st :=
  reach_inv (interleaving_is_op_serial c _ sched ⟨[], rfl⟩)

/-- … and every C08 guarantee holds after a sweep that follows any interleaving. -/
theorem interleaving_then_sweep_exact (c : Cfg) (ths : List Th) (sched : List Nat) (now : Nat) (k : Key) :
    let s := (({ st := init, ths := ths } : World).run c sched).st
    tracked (sweep c now s).1 k ↔ ∃ t, tracked s k ∧ s.timeouts[k]? = some t ∧ alive c now t :=
  sweep_exact c _ (interleaving_is_op_serial c _ sched ⟨[], rfl⟩) now k

/-! ## announced as new exactly once per lifetime -/

/-- If a `register` step announced `k` as new, then after ANY further operations during which `k`
stays tracked (i.e. within that lifetime), no `register` of `k` announces it again — duplicates,
other workers, sweeps of other registrations and activations may interleave arbitrarily. -/
theorem announce_once_per_lifetime (c : Cfg) (s : St) (k : Key) (tr1 now1 tr2 now2 : Nat) (ops : List Op)
    (hnew : (register c s k tr1 now1).2 = .new)
    (hlife : ∀ pre, pre <+: ops → (run c pre (register c s k tr1 now1).1).decoys[k]? ≠ none) :
    (register c (run c ops (register c s k tr1 now1).1) k tr2 now2).2 ≠ .new := by
  intro h2
  have hv := register_new_valid c s k tr1 now1 hnew
  have hv' := valid_persists_run c ops _ k hv hlife
  exact register_new_not_valid c _ k tr2 now2 h2 hv'

/-- and a registration IS announced when it becomes valid: `register` answers `.new` exactly when
the registration was not valid before (and its transport is enabled). -/
theorem announce_iff_becomes_valid (c : Cfg) (s : St) (k : Key) (tr now : Nat)
    (hen : c.enabled.contains tr = true) :
    (register c s k tr now).2 = .new ↔ ¬ validIn s k := by
  constructor
  · exact register_new_not_valid c s k tr now
  · intro hnv
    unfold register
    simp only [hen, Bool.not_true, Bool.false_eq_true, if_false]
    split
    · rename_i r hr
      split
      · rename_i hv; exact absurd ⟨r, hr, hv⟩ hnv
      · rfl
    · rfl

/-! ## a connection handler sees a registration only after it was validated -/

/-- histories with the list of operations that produced them -/
inductive ReachH (c : Cfg) : St → List Op → Prop
  | init : ReachH c init []
  | step {s h} (op : Op) : ReachH c s h → ReachH c (step c s op).1 (h ++ [op])

/-- validity originates only from a `register` step (the step that runs after the liveness probe) -/
theorem valid_only_by_register (c : Cfg) (s : St) (h : List Op) (hr : ReachH c s h) (k : Key)
    (hv : validIn s k) : ∃ tr now, Op.register k tr now ∈ h := by
  induction hr with
  | init => obtain ⟨r, hr, _⟩ := hv; simp [init] at hr
  | step op hprev ih =>
    rename_i s0 h0
    by_cases hv0 : validIn s0 k
    · obtain ⟨tr, now, hm⟩ := ih hv0
      exact ⟨tr, now, List.mem_append_left _ hm⟩
    · -- validity appeared in this step: the step must be `register k`
      obtain ⟨r, hr, hval⟩ := hv
      cases op with
      | register k0 tr now =>
        by_cases e : k0 = k
        · subst e; exact ⟨tr, now, by simp⟩
        · exfalso
          have : (register c s0 k0 tr now).1.decoys[k]? = some r := hr
          rw [register_decoys_get] at this
          simp only [e, false_and, if_false] at this
          exact hv0 ⟨r, this, hval⟩
      | track k0 tr now =>
        exfalso
        have : (track c s0 k0 tr now).1.decoys[k]? = some r := hr
        rw [track_decoys_get] at this
        by_cases e : k0 = k ∧ c.enabled.contains tr = true
        · obtain ⟨rfl, _⟩ := e
          simp only [*, and_self, if_true] at this
          split at this
          · rename_i r0 hr0
            simp only [Option.some.injEq] at this
            subst this
            exact hv0 ⟨r0, hr0, hval⟩
          · simp only [Option.some.injEq] at this
            subst this; cases hval
        · simp only [e, if_false] at this
          exact hv0 ⟨r, this, hval⟩
      | markActive k0 tr =>
        exfalso
        have : (markActive c s0 k0 tr).1.decoys[k]? = some r := hr
        rw [markActive_decoys] at this
        exact hv0 ⟨r, this, hval⟩
      | remove k0 now =>
        exfalso
        have : (remove c now s0 k0).1.decoys[k]? = some r := hr
        rcases remove_decoys_get c now s0 k0 k with h | h
        · rw [h] at this; exact hv0 ⟨r, this, hval⟩
        · rw [h] at this; cases this
      | sweep now =>
        exfalso
        have : (sweep c now s0).1.decoys[k]? = some r := hr
        rcases sweep_decoys_get c now s0 k with h | h
        · rw [h] at this; exact hv0 ⟨r, this, hval⟩
        · rw [h] at this; cases this
      | collect now => exact absurd ⟨r, hr, hval⟩ hv0
      | lookup p => exact absurd ⟨r, hr, hval⟩ hv0
      | exists_ k0 tr => exact absurd ⟨r, hr, hval⟩ hv0
      | count p => exact absurd ⟨r, hr, hval⟩ hv0
      | total => exact absurd ⟨r, hr, hval⟩ hv0

/-- **Visible only after validation**: whatever a lookup returns, in any state reached by any
history, was validated by a `register` step of that history. -/
theorem visible_only_after_valid (c : Cfg) (s : St) (h : List Op) (hr : ReachH c s h) (p i : String)
    (hl : i ∈ lookup s p) : ∃ tr now, Op.register (p, i) tr now ∈ h := by
  obtain ⟨r, hr1, hv⟩ := lookup_sound s p i hl
  exact valid_only_by_register c s h hr (p, i) ⟨r, hr1, hv⟩

/-! ## the same two clauses for threads, schedules and the event trace -/

/-- **Announced as new exactly once per lifetime, for all threads and schedules**: in the event trace
of ANY schedule of ANY threads started from the empty registry, between two `new` announcements of a
registration there is a removal of that registration (and there is at most one before the first
removal) — duplicate deliveries to several workers, sweeps and connections interleaved at will. -/
theorem world_announce_once (c : Cfg) (ths : List Th) (hstart : ∀ t ∈ ths, t.atStart = true)
    (sched : List Nat) (k : Key) :
    announcedOncePerLifetime k (({ st := init, ths := ths } : World).run c sched).evs :=
  ((winv_run c _ sched (winv_init c ths hstart)).annOk k).1

/-- … and a registration that is announced and not removed since IS valid (visible to connections) -/
theorem world_announced_is_valid (c : Cfg) (ths : List Th) (hstart : ∀ t ∈ ths, t.atStart = true)
    (sched : List Nat) (k : Key)
    (h : (annSt k (({ st := init, ths := ths } : World).run c sched).evs).1 = true) :
    validIn (({ st := init, ths := ths } : World).run c sched).st k :=
  ((winv_run c _ sched (winv_init c ths hstart)).annOk k).2 h

/-- **Visible only after validation, for all threads and schedules**: if the trace contains a lookup
by a connection handler that returned registration `k`, then some worker thread for `k` has executed
its validate step — a worker whose covert address passed the policy and which, if a liveness probe
was required, was told "not live". -/
theorem world_visible_only_after_validation (c : Cfg) (ths : List Th)
    (hstart : ∀ t ∈ ths, t.atStart = true) (sched : List Nat) (k : Key)
    (h : Ev.looked k true ∈ (({ st := init, ths := ths } : World).run c sched).evs) :
    ∃ (j : Nat) (tr now : Nat) (probe live : Bool),
      (({ st := init, ths := ths } : World).run c sched).ths[j]? = some (.ingest k tr now true probe live .done) ∧
      (probe = true → live = false) := by
  obtain ⟨j, t, hj, tr, now, probe, live, rfl, hp⟩ := (winv_run c _ sched (winv_init c ths hstart)).looked k h
  exact ⟨j, tr, now, probe, live, hj, hp⟩

/-- **A reload takes effect at once**: a worker that reads the covert policy after the configuration
reload has run (its step after `track`) finds the blocklisted covert address and ends there — it
never reaches the liveness probe or the validate step — while one that read it before goes on under
the policy it saw. -/
theorem policy_read_after_reload_drops (c : Cfg) (w : World) (i : Nat) (k : Key) (tr now : Nat)
    (cov probe live : Bool) (hi : w.ths[i]? = some (.ingest k tr now cov probe live .afterTrack))
    (hr : reloaded w.ths = true) :
    (w.step c i).ths[i]? = some (.ingest k tr now false probe live .done) ∧ (w.step c i).st = w.st ∧
    (w.step c i).evs = w.evs := by
  have hlt : i < w.ths.length := by
    rcases Nat.lt_or_ge i w.ths.length with h | h
    · exact h
    · rw [List.getElem?_eq_none h] at hi; cases hi
  refine ⟨?_, ?_, ?_⟩ <;>
    simp only [World.step, hi, hr, applyPolicy, stepThread, Bool.not_true, Bool.and_false, Bool.not_false,
      if_true, List.append_nil]
  rw [List.getElem?_set_self hlt]

theorem policy_read_before_reload_goes_on (c : Cfg) (w : World) (i : Nat) (k : Key) (tr now : Nat)
    (probe live : Bool) (hi : w.ths[i]? = some (.ingest k tr now true probe live .afterTrack))
    (hr : reloaded w.ths = false) :
    (w.step c i).ths[i]? = some (.ingest k tr now true probe live (if probe then .probing else .beforeRegister)) := by
  have hlt : i < w.ths.length := by
    rcases Nat.lt_or_ge i w.ths.length with h | h
    · exact h
    · rw [List.getElem?_eq_none h] at hi; cases hi
  simp only [World.step, hi, hr, applyPolicy, stepThread, Bool.not_false, Bool.and_true, Bool.not_true,
    Bool.false_eq_true, if_false]
  cases probe <;> simp [List.getElem?_set_self hlt]

/-! ## whole-thread serialisability: stated, NOT claimed -/

/-- run thread `i` to completion (at most `fuel` steps) -/
def finishThread (c : Cfg) (w : World) (i : Nat) : Nat → World
  | 0 => w
  | fuel + 1 =>
    match w.ths[i]? with
    | some t => if t.done then w else finishThread c (w.step c i) i fuel
    | none => w

/-- the serial execution: each thread runs to completion, in the given order -/
def serialRun (c : Cfg) (ths : List Th) (order : List Nat) (fuel : Nat) : World :=
  order.foldl (fun w i => finishThread c w i fuel) { st := init, ths := ths }

def sameRegistry (a b : St) : Prop := ∀ k : Key, a.decoys[k]? = b.decoys[k]? ∧ a.timeouts[k]? = b.timeouts[k]?

/-- FULL-STRENGTH reading of the title ("behave like some serial order" of whole threads): every
complete interleaved execution ends in the registry state and with the multiset of events of some
serial order of the threads.  This is NOT a theorem of the code and is not claimed: `exists` / `track`
and `lookup` / `markActive` are separate critical sections by design (a liveness probe of seconds
lies between them), and two kinds of schedule have no whole-thread serial equivalent —
(a) a handler looks a registration up, the sweeper expires it, the handler's activation finds nothing
(`lost-activation` scenarios: `look 1; rm` without `upd`);
(b) a worker sees its registration as tracked, the sweeper expires it, the worker's duplicate `track`
re-creates it unvalidated (`reingest-expired` scenario).
Both are executed against the real code by the harness (model and code agree on them).  What IS
proved is `outcome_serialisable_partial`: serialisability at the granularity of critical sections
plus the clauses the property statement itself enumerates. -/
def outcome_serialisable_full : Prop :=
  ∀ (c : Cfg) (ths : List Th) (sched : List Nat), (∀ t ∈ ths, t.atStart = true) →
    let w := ({ st := init, ths := ths } : World).run c sched
    w.bad = false → w.ths.all Th.done = true →
    ∃ (order : List Nat) (fuel : Nat), order.Perm (List.range ths.length) ∧
      sameRegistry w.st (serialRun c ths order fuel).st ∧ w.evs.Perm (serialRun c ths order fuel).evs

/-- what holds for every thread list and every schedule: the registry is in a state that a serial
history of critical sections produces (so all of C08 applies), the two maps agree, every
registration is announced at most once per lifetime and what is announced is valid, and a lookup
shows only what a worker has validated after passing policy and liveness. -/
theorem outcome_serialisable_partial (c : Cfg) (ths : List Th) (hstart : ∀ t ∈ ths, t.atStart = true)
    (sched : List Nat) :
    let w := ({ st := init, ths := ths } : World).run c sched
    Reach c w.st ∧ Inv w.st ∧ (∀ k, announcedOncePerLifetime k w.evs) ∧
    (∀ k, (annSt k w.evs).1 = true → validIn w.st k) ∧
    (∀ k, Ev.looked k true ∈ w.evs → ∃ (j : Nat) (tr now : Nat) (probe live : Bool),
      w.ths[j]? = some (.ingest k tr now true probe live .done) ∧ (probe = true → live = false)) :=
  ⟨interleaving_is_op_serial c _ sched ⟨[], rfl⟩, interleaving_inv c ths sched,
   fun k => world_announce_once c ths hstart sched k,
   fun k => world_announced_is_valid c ths hstart sched k,
   fun k => world_visible_only_after_validation c ths hstart sched k⟩

/-! ## no update is lost -/

/-- the sweeper's second critical section decides on the state it finds: a record is deleted only if
it is expired in the state *at the deleting step* -/
theorem sweep_decides_on_current_state (c : Cfg) (now : Nat) (s : St) (k : Key)
    (hb : s.decoys.contains k = true) (ha : (remove c now s k).1.decoys.contains k = false) :
    ∃ t, s.timeouts[k]? = some t ∧ expired c now t = true := by
  rcases remove_decoys c now s k with h | ⟨_, ht⟩
  · rw [h] at ha; rw [hb] at ha; cases ha
  · exact ht

/-- **An activation between the sweeper's two critical sections is never discarded**: if a
connection handler marks `k` active after the sweeper collected it, the later removal keeps it
(as long as it is younger than the active lifetime the detector was just told). -/
theorem activation_not_lost (c : Cfg) (now : Nat) (s : St) (k : Key) (tr : Nat) (t : TO)
    (hen : c.enabled.contains tr = true) (ht : s.timeouts[k]? = some t)
    (hage : now - t.time ≤ c.activeT) (hk : tracked s k) :
    tracked (remove c now (markActive c s k tr).1 k).1 k := by
  unfold tracked at *
  have hd : (markActive c s k tr).1.decoys = s.decoys := markActive_decoys c s k tr
  have htm : (markActive c s k tr).1.timeouts[k]? = some { t with used := true } := by
    have hen' : tr ∈ c.enabled := by simpa using hen
    unfold markActive
    simp [hen', ht]
  rcases remove_decoys c now (markActive c s k tr).1 k with h | ⟨_, t', ht', he⟩
  · rw [h, hd]; exact hk
  · rw [htm] at ht'; cases ht'
    unfold expired at he
    simp at he
    omega

/-- a `track` of a tracked registration increments its counter by exactly one … -/
theorem track_increments (c : Cfg) (s : St) (k : Key) (tr now : Nat) (r : Reg)
    (hen : c.enabled.contains tr = true) (hr : s.decoys[k]? = some r) :
    (track c s k tr now).1.decoys[k]? = some { r with regCount := r.regCount + 1 } := by
  have hen' : tr ∈ c.enabled := by simpa using hen
  rw [track_decoys_get]; simp [hen', hr]

/-- … and no operation on another registration, no lookup and no activation touches the counter -/
theorem regcount_untouched_by_others (c : Cfg) (s : St) (k k' : Key) (tr now : Nat) (h : k' ≠ k) :
    (track c s k' tr now).1.decoys[k]? = s.decoys[k]? ∧
    (register c s k' tr now).1.decoys[k]? = s.decoys[k]? ∧
    (markActive c s k' tr).1.decoys[k]? = s.decoys[k]? ∧
    (markActive c s k tr).1.decoys[k]? = s.decoys[k]? ∧
    (remove c now s k').1.decoys[k]? = s.decoys[k]? := by
  refine ⟨?_, ?_, ?_, ?_, ?_⟩
  · rw [track_decoys_get]; simp [h]
  · rw [register_decoys_get]; simp [h]
  · rw [markActive_decoys]
  · rw [markActive_decoys]
  · exact remove_decoys_get_ne c now s k' k h

/-- validating a registration keeps its counter -/
theorem register_keeps_count (c : Cfg) (s : St) (k : Key) (tr now : Nat) (r : Reg)
    (hr : s.decoys[k]? = some r) :
    ∃ r', (register c s k tr now).1.decoys[k]? = some r' ∧ r'.regCount = r.regCount := by
  rw [register_decoys_get]
  by_cases he : c.enabled.contains tr = true
  · simp only [he, and_self, if_true, hr]; exact ⟨_, rfl, rfl⟩
  · simp only [he]; exact ⟨r, by simpa using hr, rfl⟩

/-- nothing panics: removing an index that another thread already removed is a no-op -/
theorem remove_vanished_noop (c : Cfg) (now : Nat) (s : St) (k : Key) (h : s.timeouts[k]? = none) :
    remove c now s k = (s, none) := by
  unfold remove; simp [h]

/-! ## the pipeline: overload and shutdown -/
open CJ.Pipeline

/-- messages are conserved in every execution: received = forwarded + dropped, and every forwarded
message is processed, in the buffer, or being processed -/
theorem pipeline_conservation (cap n : Nat) (acts : List Act) :
    let s := Pipeline.run (Pipeline.init cap n) acts
    s.received = s.forwarded + s.dropped ∧
      s.forwarded = s.processed + s.rejected + s.buf + busyCount s.workers :=
  cons_run _ acts (cons_init cap n)

/-- a message that does not parse costs the pool nothing: the worker that drew it is idle again (not
gone), and the message is accounted for as rejected -/
theorem bad_message_keeps_worker (s : Pipeline.St) (i : Nat) (h : s.workers[i]? = some .busy) :
    (Pipeline.step s (.bad i)).workers[i]? = some .idle ∧
    (Pipeline.step s (.bad i)).rejected = s.rejected + 1 ∧
    (Pipeline.step s (.bad i)).cancelled = s.cancelled := by
  have hlt : i < s.workers.length := by
    rcases Nat.lt_or_ge i s.workers.length with h' | h'
    · exact h'
    · rw [List.getElem?_eq_none h'] at h; cases h
  refine ⟨?_, ?_, ?_⟩ <;> simp only [Pipeline.step, h]
  rw [List.getElem?_set_self hlt]

theorem run_cancelled_false (acts : List Act) (s : Pipeline.St)
    (h : (Pipeline.run s acts).cancelled = false) : s.cancelled = false := by
  induction acts generalizing s with
  | nil => exact h
  | cons a acts ih =>
    have h' : (Pipeline.run (Pipeline.step s a) acts).cancelled = false := h
    exact cancelled_false_of_step s a (ih _ h')

/-- **Workers leave the pool only after a stop request**: in every execution — any mix of good and
malformed messages, overload, idle periods — as long as no stop was requested all `n` workers are
still there (idle or busy).  (A worker that returned on a parse error would break this.) -/
theorem workers_exit_only_after_stop (cap n : Nat) (acts : List Act)
    (h : (Pipeline.run (Pipeline.init cap n) acts).cancelled = false) :
    liveCount (Pipeline.run (Pipeline.init cap n) acts).workers = n := by
  have gen : ∀ (acts : List Act) (s : Pipeline.St), (Pipeline.run s acts).cancelled = false →
      liveCount (Pipeline.run s acts).workers = liveCount s.workers := by
    intro acts
    induction acts with
    | nil => intro s _; rfl
    | cons a acts ih =>
      intro s hc
      have hc' : (Pipeline.run (Pipeline.step s a) acts).cancelled = false := hc
      have h1 := ih (Pipeline.step s a) hc'
      have h2 := liveCount_step s a (run_cancelled_false (a :: acts) s hc)
      show liveCount (Pipeline.run (Pipeline.step s a) acts).workers = _
      rw [h1, h2]
  rw [gen acts _ h]
  simp [Pipeline.init, liveCount]

/-- the distributor never blocks on the hand-off: whenever a message is available its loop
iteration completes — the message is counted, and forwarded or dropped — whatever the workers and
the buffer are doing -/
theorem distributor_never_blocks_on_send (s : Pipeline.St) (hd : s.dist = .loop) (hc : s.cancelled = false) :
    (Pipeline.step s (.dist true)).received = s.received + 1 ∧
    ((Pipeline.step s (.dist true)).forwarded = s.forwarded + 1 ∨ (Pipeline.step s (.dist true)).dropped = s.dropped + 1) := by
  simp only [Pipeline.step, hd, hc]
  simp only [Bool.false_eq_true, if_false, Bool.not_true]
  split
  · exact ⟨rfl, Or.inl rfl⟩
  · split
    · exact ⟨rfl, Or.inl rfl⟩
    · exact ⟨rfl, Or.inr rfl⟩

/-- after a stop request every action is a no-op or strictly decreases the measure `mu`
(≤ 2 + 2·buffered + 2·workers): shutdown takes a bounded number of steps whether or not
registrations keep arriving -/
theorem shutdown_steps_bounded (s : Pipeline.St) (hc : s.cancelled = true) (acts : List Act) :
    mu (Pipeline.run s acts) ≤ mu s ∧ (Pipeline.run s acts).cancelled = true := by
  unfold Pipeline.run
  induction acts generalizing s with
  | nil => exact ⟨Nat.le_refl _, hc⟩
  | cons a acts ih =>
    simp only [List.foldl_cons]
    have hc' := cancelled_step s a hc
    obtain ⟨h1, h2⟩ := ih (Pipeline.step s a) hc'
    refine ⟨?_, h2⟩
    rcases mu_step s a hc with h | h
    · rw [h] at h1 ⊢; exact h1
    · omega

/-- the number of state-changing actions after a stop request is at most `mu s` -/
def effective : Pipeline.St → List Act → Nat
  | _, [] => 0
  | s, a :: acts => (if mu (Pipeline.step s a) < mu s then 1 else 0) + effective (Pipeline.step s a) acts

theorem shutdown_effective_bounded (s : Pipeline.St) (hc : s.cancelled = true) (acts : List Act) :
    effective s acts + mu (Pipeline.run s acts) ≤ mu s := by
  induction acts generalizing s with
  | nil => simp [effective, Pipeline.run]
  | cons a acts ih =>
    have hc' := cancelled_step s a hc
    have := ih (Pipeline.step s a) hc'
    simp only [effective, Pipeline.run, List.foldl_cons] at this ⊢
    rcases mu_step s a hc with h | h
    · rw [h] at this ⊢; simp; exact this
    · simp only [h, if_true]; omega

/-- … and shutdown cannot get stuck: after a stop request, unless the distributor has returned, some
action makes progress (a busy worker finishes its ingest, an idle one takes the Done branch, the
distributor leaves its loop / its wait). -/
theorem shutdown_progress (s : Pipeline.St) (hc : s.cancelled = true) (hd : s.dist ≠ .done) :
    ∃ a, mu (Pipeline.step s a) < mu s := by
  cases hdist : s.dist with
  | done => exact absurd hdist hd
  | loop => exact ⟨.dist false, by simp [Pipeline.step, hdist, hc, mu, wD]⟩
  | waiting =>
    by_cases hall : allExited s.workers = true
    · exact ⟨.dist false, by simp [Pipeline.step, hdist, hall, mu, wD]⟩
    · -- some worker has not exited: it is idle (can exit) or busy (can finish)
      have hex : ∃ w, w ∈ s.workers ∧ w ≠ Worker.exited := by
        cases hany : s.workers.any (fun w => w != Worker.exited) with
        | true =>
          obtain ⟨w, hw, hne⟩ := List.any_eq_true.mp hany
          exact ⟨w, hw, by simpa using hne⟩
        | false =>
          exfalso; apply hall
          unfold allExited
          rw [List.all_eq_true]
          intro w hw
          have := List.any_eq_false.mp hany w hw
          simpa using this
      obtain ⟨w, hw, hne⟩ := hex
      obtain ⟨i, hi, rfl⟩ := List.mem_iff_getElem.mp hw
      have hget : s.workers[i]? = some s.workers[i] := List.getElem?_eq_getElem hi
      cases hwi : s.workers[i] with
      | exited => exact absurd hwi hne
      | idle =>
        refine ⟨.exit i, ?_⟩
        rw [hwi] at hget
        have := wSum_set s.workers i .idle .exited hget
        simp [wW] at this
        simp only [Pipeline.step, hget, hc, if_true, mu]; omega
      | busy =>
        refine ⟨.finish i, ?_⟩
        rw [hwi] at hget
        have := wSum_set s.workers i .busy .idle hget
        simp [wW] at this
        simp only [Pipeline.step, hget, mu]; omega

/-- when the distributor has returned all workers are gone -/
theorem done_means_all_exited (s : Pipeline.St) (a : Act) (hd : s.dist ≠ .done)
    (h : (Pipeline.step s a).dist = .done) : allExited s.workers = true := by
  cases a with
  | cancel => simp [Pipeline.step] at h; exact absurd h hd
  | dist input =>
    cases hdist : s.dist with
    | done => exact absurd hdist hd
    | waiting =>
      by_cases hall : allExited s.workers = true
      · exact hall
      · simp [Pipeline.step, hdist, hall] at h
    | loop =>
      exfalso
      simp only [Pipeline.step, hdist] at h
      split at h
      · simp at h
      · split at h
        · rw [hdist] at h; cases h
        · split at h
          · simp only at h; first | cases h | (rw [hdist] at h; cases h)
          · split at h <;> (simp only at h; first | cases h | (rw [hdist] at h; cases h))
  | take i => simp only [Pipeline.step] at h; split at h <;> (try split at h) <;> exact absurd h hd
  | exit i => simp only [Pipeline.step] at h; split at h <;> (try split at h) <;> exact absurd h hd
  | finish i => simp only [Pipeline.step] at h; split at h <;> exact absurd h hd
  | bad i => simp only [Pipeline.step] at h; split at h <;> exact absurd h hd

/-! ## non-vacuity -/

def cfg0 : Cfg := { unusedT := 600, activeT := 21600, enabled := [1, 4] }

-- two workers with the same registration, a sweeper and a handler: a concrete world and schedule
def w0 : World :=
  { st := init,
    ths := [.ingest ("10.0.0.1", "aa") 1 0 true true false .start,
            .ingest ("10.0.0.1", "aa") 1 0 true true false .start,
            .sweeper 700 [] .start,
            .handler ("10.0.0.1", "aa") 1 .start] }

example : Reach cfg0 (w0.run cfg0 [0, 1, 0, 1, 2, 0, 0, 0, 3, 3, 1]).st :=
  interleaving_is_op_serial cfg0 w0 _ ⟨[], rfl⟩

example : (Pipeline.init 1 2).cancelled = false ∧ (Pipeline.init 1 2).dist = .loop := ⟨rfl, rfl⟩
example : mu (Pipeline.step (Pipeline.init 1 2) .cancel) = 4 := by decide
example : (Pipeline.run (Pipeline.init 1 2) [.dist true, .bad 0, .dist true, .finish 0]).rejected = 1 ∧
    (Pipeline.run (Pipeline.init 1 2) [.dist true, .bad 0, .dist true, .finish 0]).processed = 1 := by decide
example : ∀ t ∈ w0.ths, t.atStart = true := by decide

end CJ.Props.C09
