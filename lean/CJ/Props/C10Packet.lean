import CJ.Model.PacketPath
import CJ.Lemmas.Detector
import CJ.Props.C10
/-!
# C10, packet path: which packets the detector hands to the station, and for how long

Theorems about `CJ.PacketPath` (the model of `src/process_packet.rs` + `FlowTracker` + `update_session`),
for every state, packet, filter list and history:

* `packet_forwarded_iff` — a packet is forwarded iff it is TCP or UDP with a parsable transport header,
  its flow (source for IPv4 phantoms, destination, destination port, protocol) is a tracked session and
  its source is not one of the cluster's stations;
* `unannounced_never_forwarded` — over any history, a flow whose tag was not in the map at the start and
  that no station message announced is never forwarded (packets never create sessions);
* `announced_forwarded_for_lifetime` / `registrant_packets_forwarded_while_accepted` — after an
  announcement, through any history of further messages that are not a clear, packets of any kind and
  sweeps before the announced deadline, a packet of the announced flow is forwarded;
* `forwarding_ends_with_lifetime` — the only things that keep a session alive are announcements for its
  tag and forwarded packets of its own flow (+5 minutes each): when every such event promises no more
  than `D`, the first sweep at or after `D` ends the forwarding;
* `tag_check_only_for_watched_flows` — the registration-tag search runs only on TLS application data
  of a TCP/443 flow whose SYN was seen, at most once per SYN, and never on a forwarded packet.
-/
namespace CJ.Props.C10
open CJ.Detector CJ.PacketPath

/-! ### map facts for the packet path -/

theorem get?_eq_none_iff (m : Map) (k : Key) : Map.get? m k = none ↔ ∀ kv ∈ m, kv.1 ≠ k := by
  induction m with
  | nil => simp [get?_nil]
  | cons kv m ih =>
    rw [get?_cons]
    by_cases h : kv.1 = k
    · simp [h]
    · simp [h, ih]

theorem get?_mem {m : Map} {k : Key} {v : Nat} (h : Map.get? m k = some v) : (k, v) ∈ m := by
  induction m with
  | nil => simp [get?_nil] at h
  | cons kv m ih =>
    rw [get?_cons] at h
    by_cases hk : kv.1 = k
    · simp only [hk, if_true, Option.some.injEq] at h
      obtain ⟨a, b⟩ := kv
      simp only at hk h
      subst hk; subst h
      exact List.mem_cons_self ..
    · simp only [hk, if_false] at h
      exact List.mem_cons_of_mem _ (ih h)

theorem get?_updateSession (now : Nat) (m : Map) (k k' : Key) :
    Map.get? (updateSession now m k) k' =
      (Map.get? m k').map (fun v => if k' = k then (if v < now + timeoutPhantomsNs then now + timeoutPhantomsNs else v) else v) := by
  unfold updateSession
  by_cases ha : m.any (·.1 = k) = true
  · rw [if_pos ha]
    exact get?_map_update m k k' (fun x => if x < now + timeoutPhantomsNs then now + timeoutPhantomsNs else x)
  · rw [if_neg ha]
    rw [any_key_iff] at ha
    cases h : Map.get? m k' with
    | none => rfl
    | some v =>
      have : k' ≠ k := by
        intro hc; subst hc; rw [h] at ha; simp at ha
      simp [this]

theorem updateSession_entries (now : Nat) (m : Map) (k : Key) (kv : Key × Nat) (h : kv ∈ updateSession now m k) :
    ∃ kv0 ∈ m, kv0.1 = kv.1 ∧ (kv.2 = kv0.2 ∨ (kv.1 = k ∧ kv.2 = now + timeoutPhantomsNs)) := by
  unfold updateSession at h
  by_cases ha : m.any (·.1 = k) = true
  · rw [if_pos ha] at h
    obtain ⟨kv0, hm, he⟩ := List.mem_map.mp h
    refine ⟨kv0, hm, ?_⟩
    by_cases hk : kv0.1 = k
    · simp only [hk, if_true] at he
      subst he
      refine ⟨hk, ?_⟩
      by_cases hlt : kv0.2 < now + timeoutPhantomsNs
      · right; simp [hlt]
      · left; simp [hlt]
    · simp only [hk, if_false] at he
      subst he; exact ⟨rfl, Or.inl rfl⟩
  · rw [if_neg ha] at h
    exact ⟨kv, h, rfl, Or.inl rfl⟩

theorem addOrUpdate_entries (now : Nat) (m : Map) (s : Session) (kv : Key × Nat) (h : kv ∈ addOrUpdate now m s) :
    (∃ kv0 ∈ m, kv0.1 = kv.1 ∧ kv.2 = kv0.2) ∨ (kv.1 = .tag (tagOf s) ∧ kv.2 = now + s.timeout) := by
  unfold addOrUpdate at h
  simp only at h
  by_cases ha : m.any (·.1 = Key.tag (tagOf s)) = true
  · rw [if_pos ha] at h
    obtain ⟨kv0, hm, he⟩ := List.mem_map.mp h
    by_cases hk : kv0.1 = Key.tag (tagOf s)
    · simp only [hk, if_true] at he
      subst he
      by_cases hlt : kv0.2 < now + s.timeout
      · right; simp [hlt]
      · left; exact ⟨kv0, hm, by simp [hk], by simp [hlt]⟩
    · simp only [hk, if_false] at he
      subst he; left; exact ⟨kv0, hm, rfl, rfl⟩
  · rw [if_neg ha] at h
    rcases List.mem_append.mp h with h | h
    · left; exact ⟨kv, h, rfl, rfl⟩
    · right; simp only [List.mem_singleton] at h; subst h; exact ⟨rfl, rfl⟩

/-! ### one packet -/

/-- the condition under which the packet path forwards a packet -/
def fwdCond (filter : List IpAddr) (st : St) (p : Pkt) : Bool :=
  (decide (p.nh = 6) || decide (p.nh = 17)) && p.l4ok && isTracked st.sessions (lookupFlow p) && !filtered filter p.hdr.src

theorem checkTagged_eq (filter : List IpAddr) (now : Nat) (st : St) (f : FlowId) :
    checkTagged filter now st f =
      if isTracked st.sessions (noSrcPort f) && !filtered filter f.src then
        some { st with sessions := updateSession now st.sessions (.tag (flowTag (noSrcPort f))) }
      else none := by
  unfold checkTagged
  cases isTracked st.sessions (noSrcPort f) <;> cases filtered filter f.src <;> simp

theorem processPacket_fwd (filter : List IpAddr) (now : Nat) (st : St) (p : Pkt) (h : fwdCond filter st p = true) :
    processPacket filter now st p =
      ({ st with sessions := updateSession now st.sessions (.tag (flowTag (lookupFlow p))) }, [.fwd]) := by
  unfold fwdCond at h
  simp only [Bool.and_eq_true, Bool.or_eq_true, decide_eq_true_eq, Bool.not_eq_true'] at h
  obtain ⟨⟨⟨hnh, hl4⟩, htr⟩, hf⟩ := h
  unfold processPacket
  rcases hnh with hnh | hnh
  · have hsrc : (flowOf p 6).src = p.hdr.src := rfl
    have hlk : lookupFlow p = noSrcPort (flowOf p 6) := by unfold lookupFlow; rw [hnh]
    rw [hlk] at htr
    simp only [hnh, if_true, hl4]
    unfold handleTcp
    rw [checkTagged_eq, htr, hsrc, hf, hlk]
    simp
  · have hsrc : (flowOf p 17).src = p.hdr.src := rfl
    have hlk : lookupFlow p = noSrcPort (flowOf p 17) := by unfold lookupFlow; rw [hnh]
    rw [hlk] at htr
    have h6 : ¬ (p.nh = 6) := by omega
    simp only [h6, if_false, hnh, if_true, hl4]
    unfold handleUdp
    rw [checkTagged_eq, htr, hsrc, hf, hlk]
    simp

theorem processPacket_nofwd (filter : List IpAddr) (now : Nat) (st : St) (p : Pkt) (h : fwdCond filter st p = false) :
    (processPacket filter now st p).1.sessions = st.sessions ∧ Eff.fwd ∉ (processPacket filter now st p).2 := by
  unfold processPacket
  by_cases h6 : p.nh = 6
  · simp only [h6, if_true]
    cases hl4 : p.l4ok with
    | false => simp
    | true =>
      have hlk : lookupFlow p = noSrcPort (flowOf p 6) := by unfold lookupFlow; rw [h6]
      have hc : (isTracked st.sessions (noSrcPort (flowOf p 6)) && !filtered filter (flowOf p 6).src) = false := by
        have hsrc : (flowOf p 6).src = p.hdr.src := rfl
        unfold fwdCond at h
        rw [hlk, hl4, h6] at h
        rw [hsrc]
        simpa using h
      have hct : checkTagged filter now st (flowOf p 6) = none := by
        rw [checkTagged_eq, hc]; simp
      simp only [if_true]
      unfold handleTcp
      rw [hct]
      simp only
      by_cases h443 : p.dport = 443
      · simp only [h443, if_true]
        unfold processTls
        simp only [hl4, hct, Bool.not_true, Bool.false_eq_true, if_false]
        unfold beginTracking stopTracking
        split <;> (try split) <;> (try split) <;> (try split) <;> simp
      · simp [h443]
  · simp only [h6, if_false]
    by_cases h17 : p.nh = 17
    · simp only [h17, if_true]
      cases hl4 : p.l4ok with
      | false => simp
      | true =>
        have hlk : lookupFlow p = noSrcPort (flowOf p 17) := by unfold lookupFlow; rw [h17]
        have hc : (isTracked st.sessions (noSrcPort (flowOf p 17)) && !filtered filter (flowOf p 17).src) = false := by
          have hsrc : (flowOf p 17).src = p.hdr.src := rfl
          unfold fwdCond at h
          rw [hlk, hl4, h17] at h
          rw [hsrc]
          simpa using h
        have hct : checkTagged filter now st (flowOf p 17) = none := by
          rw [checkTagged_eq, hc]; simp
        simp only [if_true]
        unfold handleUdp
        rw [hct]
        simp only
        split <;> simp
    · simp [h17]

/-- **Which packets are forwarded.**  For every detector state, filter list, clock value and packet: the
packet is handed to the station iff it is TCP or UDP, its transport header parsed, the session map has
the tag of its flow (`FlowNoSrcPort::tag`: protocol, source for an IPv4 destination, destination,
destination port) and its source is not one of the stations of the cluster. -/
theorem packet_forwarded_iff (filter : List IpAddr) (now : Nat) (st : St) (p : Pkt) :
    Eff.fwd ∈ (processPacket filter now st p).2 ↔
      ((p.nh = 6 ∨ p.nh = 17) ∧ p.l4ok = true ∧ isTracked st.sessions (lookupFlow p) = true ∧
        filtered filter p.hdr.src = false) := by
  cases h : fwdCond filter st p with
  | true =>
    rw [processPacket_fwd filter now st p h]
    unfold fwdCond at h
    simp only [Bool.and_eq_true, Bool.or_eq_true, decide_eq_true_eq, Bool.not_eq_true'] at h
    obtain ⟨⟨⟨hnh, hl4⟩, htr⟩, hf⟩ := h
    simp [hnh, hl4, htr, hf]
  | false =>
    have := (processPacket_nofwd filter now st p h).2
    constructor
    · intro hc; exact absurd hc this
    · intro ⟨hnh, hl4, htr, hf⟩
      unfold fwdCond at h
      rw [hl4, htr, hf] at h
      rcases hnh with hnh | hnh <;> simp [hnh] at h

/-- the session map after a packet: untouched unless the packet was forwarded, in which case the one
session of its flow was extended (`update_session`) -/
theorem sessions_after_packet (filter : List IpAddr) (now : Nat) (st : St) (p : Pkt) :
    (processPacket filter now st p).1.sessions =
      if fwdCond filter st p then updateSession now st.sessions (.tag (flowTag (lookupFlow p))) else st.sessions := by
  cases h : fwdCond filter st p with
  | true => rw [processPacket_fwd filter now st p h]; simp
  | false => rw [(processPacket_nofwd filter now st p h).1]; simp

/-! ### histories -/

theorem runP_cons (filter : List IpAddr) (st : St) (e : PEvt) (es : List PEvt) :
    runP filter st (e :: es) = runP filter (stepEvt filter st e).1 es := by
  unfold runP; rw [List.foldl_cons]

/-- the event is a station message that announces (New or Update) a session with tag `t` -/
def announces (t : Tag) : PEvt → Prop
  | .msg _ m => ∃ s, dispatch m = .addOrUpdate s ∧ tagOf s = t
  | _ => False

theorem step_keeps_absent (filter : List IpAddr) (st : St) (e : PEvt) (t : Tag)
    (h0 : ∀ kv ∈ st.sessions, kv.1 ≠ .tag t) (he : ¬ announces t e) :
    ∀ kv ∈ (stepEvt filter st e).1.sessions, kv.1 ≠ .tag t := by
  cases e with
  | msg now m =>
    unfold stepEvt handle
    simp only
    cases hd : dispatch m with
    | ignored e => exact h0
    | unknownOp => exact h0
    | clear => intro kv hkv; simp [CJ.Detector.apply] at hkv
    | addOrUpdate s =>
      intro kv hkv
      rcases addOrUpdate_entries now st.sessions s kv hkv with ⟨kv0, hm, hk, _⟩ | ⟨hk, _⟩
      · rw [← hk]; exact h0 kv0 hm
      · intro hc
        rw [hk] at hc
        have : tagOf s = t := by injection hc
        exact he ⟨s, hd, this⟩
  | pkt now p =>
    unfold stepEvt
    simp only
    rw [sessions_after_packet]
    split
    · intro kv hkv
      obtain ⟨kv0, hm, hk, _⟩ := updateSession_entries now st.sessions _ kv hkv
      rw [← hk]; exact h0 kv0 hm
    · exact h0
  | sweep now =>
    unfold stepEvt sweepAll
    simp only
    intro kv hkv
    unfold dropStale at hkv
    exact h0 kv (List.mem_filter.mp hkv).1

/-- **An un-announced flow is never forwarded.**  Start from any detector state in which no session has
tag `t`; run any history of station messages, packets and sweeps in which no message announces a session
with tag `t`; then a packet whose flow has tag `t` is not forwarded — whatever its flags, payload, source
port or clock value, and however many such packets were seen before (packets never create or revive a
session). -/
theorem unannounced_never_forwarded (filter : List IpAddr) (st : St) (es : List PEvt) (t : Tag)
    (h0 : ∀ kv ∈ st.sessions, kv.1 ≠ .tag t) (hes : ∀ e ∈ es, ¬ announces t e)
    (now : Nat) (p : Pkt) (hp : flowTag (lookupFlow p) = t) :
    Eff.fwd ∉ (processPacket filter now (runP filter st es) p).2 := by
  have hinv : ∀ (es : List PEvt) (st : St), (∀ kv ∈ st.sessions, kv.1 ≠ .tag t) → (∀ e ∈ es, ¬ announces t e) →
      ∀ kv ∈ (runP filter st es).sessions, kv.1 ≠ .tag t := by
    intro es
    induction es with
    | nil => intro st h0 _; exact h0
    | cons e es ih =>
      intro st h0 hes
      rw [runP_cons]
      exact ih _ (step_keeps_absent filter st e t h0 (hes e (List.mem_cons_self ..)))
        (fun e' he' => hes e' (List.mem_cons_of_mem _ he'))
  have hnone := (get?_eq_none_iff _ _).mpr (hinv es st h0 hes)
  rw [packet_forwarded_iff]
  intro ⟨_, _, htr, _⟩
  unfold isTracked at htr
  rw [hp, hnone] at htr
  simp at htr

/-- an event that cannot end the forwarding of a session that is due to live until `deadline` -/
def harmlessP (deadline : Nat) : PEvt → Prop
  | .msg _ m => dispatch m ≠ .clear
  | .pkt _ _ => True
  | .sweep now => now < deadline

theorem step_keeps_live (filter : List IpAddr) (st : St) (e : PEvt) (k : Key) (D : Nat)
    (h0 : ∃ v, Map.get? st.sessions k = some v ∧ D ≤ v) (he : harmlessP D e) :
    ∃ v, Map.get? (stepEvt filter st e).1.sessions k = some v ∧ D ≤ v := by
  obtain ⟨v, hv, hle⟩ := h0
  cases e with
  | msg now m =>
    obtain ⟨v', hv', hle'⟩ := lifetime_never_shortened now st.sessions m k v hv he
    exact ⟨v', hv', by omega⟩
  | pkt now p =>
    unfold stepEvt
    simp only
    rw [sessions_after_packet]
    split
    · rw [get?_updateSession, hv]
      simp only [Option.map_some]
      split
      · split
        · exact ⟨_, rfl, by omega⟩
        · exact ⟨_, rfl, hle⟩
      · exact ⟨_, rfl, hle⟩
    · exact ⟨v, hv, hle⟩
  | sweep now =>
    have hnow : now < v := by
      have : now < D := he
      omega
    exact ⟨v, get?_dropStale now st.sessions k v hv hnow, hle⟩

/-- **An announced flow is forwarded for the announced lifetime.**  After a message that the detector
dispatches as add-or-update of session `s` is handled at `t0` (whatever the tables held), and after any
history of further station messages that are not a clear, packets of any kind (of this flow or others,
forwarded or not) and sweeps (`drop_all_stale_flows`) at instants before `t0 + s.timeout`, every TCP / UDP
packet whose flow has the session's tag and whose source is not a station of the cluster is forwarded. -/
theorem announced_forwarded_for_lifetime (filter : List IpAddr) (st : St) (t0 : Nat) (m : S2D) (s : Session)
    (es : List PEvt) (hd : dispatch m = .addOrUpdate s) (hes : ∀ e ∈ es, harmlessP (t0 + s.timeout) e)
    (now : Nat) (p : Pkt) (hp : flowTag (lookupFlow p) = tagOf s) (hnh : p.nh = 6 ∨ p.nh = 17)
    (hl4 : p.l4ok = true) (hf : filtered filter p.hdr.src = false) :
    Eff.fwd ∈ (processPacket filter now (runP filter (stepEvt filter st (.msg t0 m)).1 es) p).2 := by
  have hinv : ∀ (es : List PEvt) (st : St), (∀ e ∈ es, harmlessP (t0 + s.timeout) e) →
      (∃ v, Map.get? st.sessions (.tag (tagOf s)) = some v ∧ t0 + s.timeout ≤ v) →
      ∃ v, Map.get? (runP filter st es).sessions (.tag (tagOf s)) = some v ∧ t0 + s.timeout ≤ v := by
    intro es
    induction es with
    | nil => intro st _ h0; exact h0
    | cons e es ih =>
      intro st hes h0
      rw [runP_cons]
      exact ih _ (fun e' he' => hes e' (List.mem_cons_of_mem _ he'))
        (step_keeps_live filter st e _ _ h0 (hes e (List.mem_cons_self ..)))
  have h1 : ∃ v, Map.get? (stepEvt filter st (.msg t0 m)).1.sessions (.tag (tagOf s)) = some v ∧ t0 + s.timeout ≤ v := by
    unfold stepEvt handle
    simp only
    rw [hd]
    exact get?_addOrUpdate_self t0 st.sessions s
  obtain ⟨v, hv, _⟩ := hinv es _ hes h1
  rw [packet_forwarded_iff]
  refine ⟨hnh, hl4, ?_, hf⟩
  unfold isTracked
  rw [hp, hv]; rfl

/-- the same for the registration the station announced: packets from the registrant (any source for an
IPv6 phantom) to the registration's phantom and port with the transport's protocol are forwarded while
the station's own record is younger than its threshold -/
theorem registrant_packets_forwarded_while_accepted (filter : List IpAddr) (r : Reg) (h : Announceable r)
    (rs : RegState) (st : St) (t0 : Nat) (es : List PEvt)
    (hes : ∀ e ∈ es, harmlessP (t0 + stationLifetime rs) e) :
    ∃ ph cl, ipOf r.phantom = some ph ∧ ipOf r.registrant = some cl ∧
      ∀ (now : Nat) (p : Pkt), p.hdr.dst = ph → (ph.isV4 = true → p.hdr.src = cl) → p.dport = r.port →
        p.nh = nextHeader r.proto → p.l4ok = true → filtered filter p.hdr.src = false →
        Eff.fwd ∈ (processPacket filter now (runP filter (stepEvt filter st (.msg t0 (announce r rs))).1 es) p).2 := by
  obtain ⟨ph, cl, hph, hcl, hd⟩ := timeouts_match r h rs
  refine ⟨ph, cl, hph, hcl, ?_⟩
  intro now p hdst hsrc hport hnh hl4 hf
  let s : Session := { client := cl, phantom := ph, dstPort := r.port, srcPort := 0, proto := nextHeader r.proto,
                       timeout := stationLifetime rs }
  have htag : flowTag (lookupFlow p) = tagOf s :=
    flowTag_eq_tagOf s (lookupFlow p) hdst hport hnh hsrc
  have hnh' : p.nh = 6 ∨ p.nh = 17 := by
    rw [hnh]; unfold nextHeader; split <;> simp
  exact announced_forwarded_for_lifetime filter st t0 (announce r rs) s es hd hes now p htag hnh' hl4 hf

/-- every event that can write the expiry of a session with tag `t` promises no more than `D`: an
announcement for `t` handled at `now` with lifetime `timeout` has `now + timeout ≤ D`, a packet of the
flow seen at `now` has `now + 5 min ≤ D` -/
def quietAfter (t : Tag) (D : Nat) : PEvt → Prop
  | .msg now m => ∀ s, dispatch m = .addOrUpdate s → tagOf s = t → now + s.timeout ≤ D
  | .pkt now p => flowTag (lookupFlow p) = t → now + timeoutPhantomsNs ≤ D
  | .sweep _ => True

theorem step_keeps_bound (filter : List IpAddr) (st : St) (e : PEvt) (t : Tag) (D : Nat)
    (h0 : ∀ kv ∈ st.sessions, kv.1 = .tag t → kv.2 ≤ D) (he : quietAfter t D e) :
    ∀ kv ∈ (stepEvt filter st e).1.sessions, kv.1 = .tag t → kv.2 ≤ D := by
  cases e with
  | msg now m =>
    unfold stepEvt handle
    simp only
    cases hd : dispatch m with
    | ignored e => exact h0
    | unknownOp => exact h0
    | clear => intro kv hkv; simp [CJ.Detector.apply] at hkv
    | addOrUpdate s =>
      intro kv hkv hk
      rcases addOrUpdate_entries now st.sessions s kv hkv with ⟨kv0, hm, hk0, hv⟩ | ⟨hk', hv⟩
      · rw [hv]; exact h0 kv0 hm (hk0.trans hk)
      · rw [hv]
        rw [hk'] at hk
        have : tagOf s = t := by injection hk
        exact he s hd this
  | pkt now p =>
    unfold stepEvt
    simp only
    rw [sessions_after_packet]
    split
    · intro kv hkv hk
      obtain ⟨kv0, hm, hk0, hv | ⟨hk', hv⟩⟩ := updateSession_entries now st.sessions _ kv hkv
      · rw [hv]; exact h0 kv0 hm (hk0.trans hk)
      · rw [hv]
        rw [hk'] at hk
        have : flowTag (lookupFlow p) = t := by injection hk
        exact he this
    · exact h0
  | sweep now =>
    unfold stepEvt sweepAll
    simp only
    intro kv hkv
    unfold dropStale at hkv
    exact h0 kv (List.mem_filter.mp hkv).1

/-- **Forwarding ends with the lifetime.**  If every session with tag `t` expires by `D` at the start and
every later announcement for `t` and every packet of the flow (each forwarded packet extends the session
by five minutes from its own clock value) promises no more than `D`, then after the first sweep at or
after `D` a packet of the flow is no longer forwarded: nothing but announcements for this tag and the
flow's own traffic keeps a diversion alive. -/
theorem forwarding_ends_with_lifetime (filter : List IpAddr) (st : St) (es : List PEvt) (t : Tag) (D : Nat)
    (h0 : ∀ kv ∈ st.sessions, kv.1 = .tag t → kv.2 ≤ D) (hes : ∀ e ∈ es, quietAfter t D e)
    (sweepAt : Nat) (hD : D ≤ sweepAt) (now : Nat) (p : Pkt) (hp : flowTag (lookupFlow p) = t) :
    Eff.fwd ∉ (processPacket filter now (sweepAll sweepAt (runP filter st es)).1 p).2 := by
  have hinv : ∀ (es : List PEvt) (st : St), (∀ kv ∈ st.sessions, kv.1 = .tag t → kv.2 ≤ D) →
      (∀ e ∈ es, quietAfter t D e) → ∀ kv ∈ (runP filter st es).sessions, kv.1 = .tag t → kv.2 ≤ D := by
    intro es
    induction es with
    | nil => intro st h0 _; exact h0
    | cons e es ih =>
      intro st h0 hes
      rw [runP_cons]
      exact ih _ (step_keeps_bound filter st e t D h0 (hes e (List.mem_cons_self ..)))
        (fun e' he' => hes e' (List.mem_cons_of_mem _ he'))
  have hb := hinv es st h0 hes
  have hnone : Map.get? (sweepAll sweepAt (runP filter st es)).1.sessions (.tag t) = none := by
    rw [get?_eq_none_iff]
    intro kv hkv hk
    unfold sweepAll at hkv
    simp only at hkv
    have hlive := dropStale_keeps_only_live sweepAt _ kv hkv
    unfold dropStale at hkv
    have := hb kv (List.mem_filter.mp hkv).1 hk
    omega
  rw [packet_forwarded_iff]
  intro ⟨_, _, htr, _⟩
  unfold isTracked at htr
  rw [hp, hnone] at htr
  simp at htr

/-- **The registration-tag search runs only on flows that are being watched.**  `check_dark_decoy_tag` is
reached only by a TCP packet to port 443 that was not forwarded, that carries TLS application data, whose
flow (with source port) is in `tracked_flows` — i.e. a SYN of it was seen and neither a FIN / RST, a
timeout nor an earlier check removed it — and the flow is removed by the check (one search per SYN). -/
theorem tag_check_only_for_watched_flows (filter : List IpAddr) (now : Nat) (st : St) (p : Pkt)
    (h : Eff.tagCheck ∈ (processPacket filter now st p).2) :
    p.nh = 6 ∧ p.dport = 443 ∧ isTlsApp p.payload = true ∧ flowOf p 6 ∈ st.tracked ∧
      flowOf p 6 ∉ (processPacket filter now st p).1.tracked ∧ Eff.fwd ∉ (processPacket filter now st p).2 := by
  unfold processPacket at h ⊢
  by_cases h6 : p.nh = 6
  · simp only [h6, if_true] at h ⊢
    cases hl4 : p.l4ok with
    | false => rw [hl4] at h; simp at h
    | true =>
      rw [hl4] at h
      simp only [if_true] at h ⊢
      unfold handleTcp at h ⊢
      cases hct : checkTagged filter now st (flowOf p 6) with
      | some st' => rw [hct] at h; simp at h
      | none =>
        rw [hct] at h
        simp only at h ⊢
        by_cases h443 : p.dport = 443
        · simp only [h443, if_true] at h ⊢
          unfold processTls at h ⊢
          simp only [hl4, hct, Bool.not_true, Bool.false_eq_true, if_false] at h ⊢
          by_cases c1 : (hasFlag p.flags flagSYN && !hasFlag p.flags flagACK) = true
          · rw [if_pos c1] at h; simp at h
          · rw [if_neg c1] at h ⊢
            by_cases c2 : (hasFlag p.flags flagRST || hasFlag p.flags flagFIN) = true
            · rw [if_pos c2] at h; simp at h
            · rw [if_neg c2] at h ⊢
              by_cases c3 : (!st.tracked.contains (flowOf p 6)) = true
              · rw [if_pos c3] at h; simp at h
              · rw [if_neg c3] at h ⊢
                by_cases c4 : isTlsApp p.payload = true
                · rw [if_pos c4]
                  refine ⟨trivial, trivial, c4, ?_, ?_, by simp⟩
                  · simpa using c3
                  · unfold stopTracking; simp
                · rw [if_neg c4] at h; simp at h
        · simp [h443] at h
  · simp only [h6, if_false] at h
    by_cases h17 : p.nh = 17
    · simp only [h17, if_true] at h
      cases hl4 : p.l4ok with
      | false => rw [hl4] at h; simp at h
      | true =>
        rw [hl4] at h
        simp only [if_true] at h
        unfold handleUdp at h
        revert h
        split <;> (try split) <;> simp
    · simp [h17] at h

/-! ### the hypotheses are satisfiable -/

def pp4 : Pkt :=
  { hdr := .v4 [203, 0, 113, 5] [192, 122, 190, 5], nh := 6, l4ok := true, sport := 40000, dport := 443, flags := 2, payload := [] }
def ppSt0 : St := { sessions := [], tracked := [], drops := [] }

example : ∀ kv ∈ ppSt0.sessions, kv.1 ≠ .tag (flowTag (lookupFlow pp4)) := by intro kv h; cases h
example : ∀ e ∈ [PEvt.pkt 5 pp4, PEvt.sweep 7], ¬ announces (flowTag (lookupFlow pp4)) e := by
  intro e he
  simp only [List.mem_cons, List.mem_nil_iff, or_false] at he
  rcases he with rfl | rfl <;> exact fun h => h
example : ∃ s, dispatch (announce reg4 .fresh) = .addOrUpdate s ∧ flowTag (lookupFlow pp4) = tagOf s := by
  refine ⟨{ client := .v4 [203, 0, 113, 5], phantom := .v4 [192, 122, 190, 5], dstPort := 443, srcPort := 0, proto := 6,
             timeout := tenMinutesNs }, by decide, by decide⟩
example : ∀ e ∈ [PEvt.pkt 5 pp4, PEvt.sweep 7, PEvt.msg 9 (announce reg4 .used)], harmlessP (0 + stationLifetime .fresh) e := by
  intro e he
  simp only [List.mem_cons, List.mem_nil_iff, or_false] at he
  rcases he with rfl | rfl | rfl
  · trivial
  · show 7 < 0 + stationLifetime .fresh
    decide
  · show dispatch (announce reg4 .used) ≠ .clear
    decide
example : Eff.fwd ∈ (processPacket [] 11 (runP [] (stepEvt [] ppSt0 (.msg 0 (announce reg4 .fresh))).1 [PEvt.pkt 5 pp4, PEvt.sweep 7]) pp4).2 := by
  decide
example : ∀ e ∈ [PEvt.msg 0 (announce reg4 .fresh), PEvt.pkt 5 pp4],
    quietAfter (flowTag (lookupFlow pp4)) (tenMinutesNs + 5) e := by
  intro e he
  simp only [List.mem_cons, List.mem_nil_iff, or_false] at he
  rcases he with rfl | rfl
  · intro s hs _
    have : dispatch (announce reg4 .fresh) = .addOrUpdate
        { client := .v4 [203, 0, 113, 5], phantom := .v4 [192, 122, 190, 5], dstPort := 443, srcPort := 0, proto := 6, timeout := tenMinutesNs } := by decide
    rw [this] at hs
    injection hs with hs
    subst hs
    show 0 + tenMinutesNs ≤ tenMinutesNs + 5
    omega
  · intro _
    show 5 + timeoutPhantomsNs ≤ tenMinutesNs + 5
    decide
example : Eff.tagCheck ∈ (processPacket [] 3
    (processPacket [] 2 ppSt0 { pp4 with hdr := .v4 [203, 0, 113, 5] [198, 51, 100, 7] }).1
    { pp4 with hdr := .v4 [203, 0, 113, 5] [198, 51, 100, 7], flags := 24, payload := [0x17, 3, 3, 0, 1, 0] }).2 := by
  decide

end CJ.Props.C10
