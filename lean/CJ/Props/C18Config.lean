import CJ.Props.C18
import CJ.Model.LivenessText
import CJ.Lemmas.DurationText
/-!
# C18 — the configured lifetimes as written

The property speaks of "the configured lifetime".  What is configured is a *text*
(`cache_expiration_time`, `cache_expiration_nonlive`); `Init` parses it with `time.ParseDuration`
(`CJ.DurationText.parseDuration`, mirrored on bytes and corresponded on every run: lines `dur|`, `cachet|`).
The theorems below restate the freshness clause over the text, for **every** lifetime the parser can
produce - zero and negative ones included, for which the unchanged code never serves anything (every query
probes): a non-positive lifetime is a cache that is configured and always stale, not "no bound".
-/
namespace CJ.Props.C18Config
open CJ.Liveness CJ.DurationText CJ.Props.C18

/-- **The lifetime fits `time.Duration`**: whatever the text, an accepted lifetime lies in the int64 range, so the
model's unbounded `Int` and the machine's duration are the same number (no wrap-around can turn a huge
configured lifetime into a small or negative one, or back). -/
theorem lifetime_in_int64 (s : Bytes) (d : Int) (h : parseDuration s = .ok d) :
    -(two63 : Int) ≤ d ∧ d ≤ (two63 : Int) - 1 := by
  simp only [parseDuration] at h
  split at h
  · injection h with h; subst h; simp [two63]
  · split at h
    · cases h
    · split at h
      · cases h
      · cases h
      · rename_i m hl
        have hm := loop_done_le _ _ _ _ (by simp [two63]) hl
        split at h
        · injection h with h; subst h; simp only [two63] at *; omega
        · split at h
          · cases h
          · injection h with h; subst h; simp only [two63] at *; omega

/-- **The parser model is total**: the fuel of the group loop is never exhausted - every text is either accepted
with a lifetime or rejected, as in the code. -/
theorem parse_total (s : Bytes) : parseDuration s ≠ .fuel := by
  simp only [parseDuration]
  split
  · intro h; cases h
  · split
    · intro h; cases h
    · split
      · rename_i hl
        exact absurd hl (loop_no_fuel _ _ _ (Nat.le_refl _))
      · intro h; cases h
      · split
        · intro h; cases h
        · split <;> (intro h; cases h)

theorem durOf_ok (s : Bytes) (d : Int) (h : durOf s = .ok d) : s ≠ [] ∧ parseDuration s = .ok d := by
  unfold durOf at h
  split at h
  · cases h
  · rename_i hne
    refine ⟨hne, ?_⟩
    split at h
    · rename_i d' hp
      injection h with h; subst h; exact hp
    · cases h
    · cases h

theorem durOf_of_ok (s : Bytes) (d : Int) (hne : s ≠ []) (h : parseDuration s = .ok d) : durOf s = .ok d := by
  unfold durOf
  rw [if_neg hne, h]

theorem durOf_of_err (s : Bytes) (hne : s ≠ []) (h : parseDuration s = .err) : durOf s = .bad := by
  unfold durOf
  rw [if_neg hne, h]

theorem toConfig_dur (tc : TextConfig) (v : Bool) : tc.toConfig.dur v = durOf (tc.text v) := by
  cases v <;> rfl

/-- **Served only if fresh, over the text**: a verdict answered from the cache was measured less than the lifetime
*that the configured text denotes* ago - any history, any text. -/
theorem text_served_only_if_fresh (tc : TextConfig) (ops : List Op) (now : Int) (a : String) (p v : Bool)
    (h : answer tc.toConfig ops now a p = .cached v) :
    ∃ d tm, tc.text v ≠ [] ∧ parseDuration (tc.text v) = .ok d ∧ (tm, a, v) ∈ probes tc.toConfig ops ∧ now - tm < d := by
  obtain ⟨d, tm, hd, hm, hlt⟩ := served_only_if_fresh tc.toConfig ops now a p v h
  rw [toConfig_dur] at hd
  obtain ⟨hne, hp⟩ := durOf_ok _ _ hd
  exact ⟨d, tm, hne, hp, hm, hlt⟩

/-- **An entry older than the lifetime is never served, for every lifetime value**: in a chronological history,
when the address's last measurement (if it had verdict `v`) is at least the configured lifetime old, the query is
not answered `cached v` - whatever number the text denotes (positive, zero, negative, 1 ns, 2^63 - 1 ns). -/
theorem older_than_lifetime_never_served (tc : TextConfig) (ops : List Op) (now : Int) (a : String) (p v : Bool) (d : Int)
    (hd : parseDuration (tc.text v) = .ok d)
    (hc : Chronological (ops ++ [.query now a p]))
    (hold : ∀ tm, lastMeasured tc.toConfig ops a = some (tm, v) → d ≤ now - tm) :
    answer tc.toConfig ops now a p ≠ .cached v := by
  intro h
  obtain ⟨d', tm, hd', hl, _, hlt⟩ := served_verdict_was_measured tc.toConfig ops now a p v hc h
  rw [toConfig_dur] at hd'
  have hp := (durOf_ok _ _ hd').2
  rw [hd] at hp
  injection hp with hp
  have := hold tm hl
  omega

/-- **A lifetime that is not positive serves nothing**: with `"0s"`, `"0"`, `"-1s"` … configured for a verdict, no
query of any chronological history is answered from that verdict's cache (nothing is ever younger than the
lifetime).  The code has no "≤ 0 means for ever" reading. -/
theorem nonpositive_lifetime_never_served (tc : TextConfig) (ops : List Op) (now : Int) (a : String) (p v : Bool) (d : Int)
    (hd : parseDuration (tc.text v) = .ok d) (h0 : d ≤ 0)
    (hc : Chronological (ops ++ [.query now a p])) :
    answer tc.toConfig ops now a p ≠ .cached v := by
  intro h
  obtain ⟨d', tm, hd', _, hle, hlt⟩ := served_verdict_was_measured tc.toConfig ops now a p v hc h
  rw [toConfig_dur] at hd'
  have hp := (durOf_ok _ _ hd').2
  rw [hd] at hp
  injection hp with hp
  omega

/-- … so when every configured lifetime is non-positive, every query probes and returns the probe's verdict. -/
theorem nonpositive_lifetimes_always_probe (tc : TextConfig) (ops : List Op) (now : Int) (a : String) (p : Bool)
    (hall : ∀ v d, parseDuration (tc.text v) = .ok d → d ≤ 0)
    (hc : Chronological (ops ++ [.query now a p])) :
    answer tc.toConfig ops now a p = .probed p := by
  rcases answer_shape tc.toConfig ops now a p with ⟨v, h⟩ | h
  · exfalso
    obtain ⟨d, _, _, hp, _, _⟩ := text_served_only_if_fresh tc ops now a p v h
    exact nonpositive_lifetime_never_served tc ops now a p v d hp (hall v d hp) hc h
  · exact h

/-- **A text the parser rejects is not a configuration**: `New` returns the error (the station does not start). -/
theorem unparsable_live_text_rejected (tc : TextConfig) (hne : tc.liveText ≠ []) (he : parseDuration tc.liveText = .err) :
    (newText tc).2 = some .live := by
  have hb : tc.toConfig.durLive = .bad := durOf_of_err _ hne he
  unfold newText new
  rw [if_neg (by rw [hb]; intro h; cases h.1)]
  unfold initCached
  rw [hb]

theorem unparsable_nonlive_text_rejected (tc : TextConfig) (hl : tc.liveText = [] ∨ ∃ d, parseDuration tc.liveText = .ok d)
    (hne : tc.nonLiveText ≠ []) (he : parseDuration tc.nonLiveText = .err) :
    (newText tc).2 = some .nonLive := by
  have hb : tc.toConfig.durNonLive = .bad := durOf_of_err _ hne he
  unfold newText new
  rw [if_neg (by rw [hb]; intro h; cases h.2)]
  unfold initCached
  rw [hb]
  rcases hl with hl | ⟨d, hd⟩
  · have : tc.toConfig.durLive = .unset := by
      show durOf tc.liveText = .unset
      unfold durOf; rw [if_pos hl]
    rw [this]
  · by_cases hne' : tc.liveText = []
    · have : tc.toConfig.durLive = .unset := by
        show durOf tc.liveText = .unset
        unfold durOf; rw [if_pos hne']
      rw [this]
    · have : tc.toConfig.durLive = .ok d := durOf_of_ok _ _ hne' hd
      rw [this]

/-- an accepted text always builds the cache of its verdict, whatever lifetime it denotes (zero / negative too) -/
theorem text_cache_exists (tc : TextConfig) (v : Bool) (d : Int) (hne : tc.text v ≠ []) (hd : parseDuration (tc.text v) = .ok d)
    (hok : (newText tc).2 = none) (ops : List Op) : ∃ c, (run tc.toConfig ops).cacheFor v = some c :=
  cache_exists tc.toConfig v d (by rw [toConfig_dur]; exact durOf_of_ok _ _ hne hd) hok ops

/-! ## the hypotheses are satisfiable; what particular texts denote -/


example : parseDuration ([48, 115] : Bytes) = .ok 0 := by decide
example : parseDuration ([48] : Bytes) = .ok 0 := by decide
example : parseDuration ([45, 48] : Bytes) = .ok 0 := by decide
example : parseDuration ([45, 49, 115] : Bytes) = .ok (-1000000000) := by decide
example : parseDuration ([49, 110, 115] : Bytes) = .ok 1 := by decide
example : parseDuration ([49, 104] : Bytes) = .ok 3600000000000 := by decide
example : parseDuration ([49, 104, 51, 48, 109] : Bytes) = .ok 5400000000000 := by decide
example : parseDuration ([49, 194, 181, 115] : Bytes) = .ok 1000 := by decide
example : parseDuration ([] : Bytes) = .err := by decide
example : parseDuration ([57, 48] : Bytes) = .err := by decide          -- missing unit
example : parseDuration ([49, 100] : Bytes) = .err := by decide          -- unknown unit
example : parseDuration ([32, 49, 104] : Bytes) = .err := by decide
/-- the largest lifetime, and one nanosecond more -/
example : parseDuration ([57, 50, 50, 51, 51, 55, 50, 48, 51, 54, 56, 53, 52, 55, 55, 53, 56, 48, 55, 110, 115] : Bytes) = .ok 9223372036854775807 := by decide
example : parseDuration ([57, 50, 50, 51, 51, 55, 50, 48, 51, 54, 56, 53, 52, 55, 55, 53, 56, 48, 56, 110, 115] : Bytes) = .err := by decide
example : parseDuration ([45, 57, 50, 50, 51, 51, 55, 50, 48, 51, 54, 56, 53, 52, 55, 55, 53, 56, 48, 56, 110, 115] : Bytes) = .ok (-9223372036854775808) := by decide
/-- uint64 wrap-around in the sum of the groups (Go 1.23 `d += v` with d = v = 2^63): accepted, as zero -/
example : parseDuration ([57, 50, 50, 51, 51, 55, 50, 48, 51, 54, 56, 53, 52, 55, 55, 53, 56, 48, 56, 110, 115, 57, 50, 50, 51, 51, 55, 50, 48, 51, 54, 56, 53, 52, 55, 55, 53, 56, 48, 56, 110, 115] : Bytes) = .ok 0 := by decide

def tc0 : TextConfig := { liveText := [48, 115], capLive := 2, nonLiveText := [45, 49, 115], capNonLive := 0 }
example : ∀ v d, parseDuration (tc0.text v) = .ok d → d ≤ 0 := by
  intro v d h
  cases v
  · have : parseDuration (tc0.text false) = .ok (-1000000000) := by decide
    rw [this] at h; injection h with h; omega
  · have : parseDuration (tc0.text true) = .ok 0 := by decide
    rw [this] at h; injection h with h; omega
example : (newText tc0).2 = none := by decide
example : (newText { tc0 with liveText := [49, 104, 104] }).2 = some .live := by decide
example : Chronological ([.query 10 "a" true] ++ [.query 20 "a" true]) := by
  simp [Chronological, Op.time]

end CJ.Props.C18Config
