import CJ.Props.C06
import CJ.Model.CovertLit
/-!
# C06 — the address literals: parsing, formatting and containment are computed, not supplied

Theorems over `CJ.NetAddr` (the model of `netip.ParseAddr`, `IP.String`, `ParseCIDR`, `Contains`, `SplitHostPort`,
`JoinHostPort`, `ParseUint`) and over `CJ.CovertLit.admitLit`, the admission of a covert string with a literal host
decided from the *text* of configuration and covert string.
-/
namespace CJ.Props.C06Addr
open CJ.NetAddr CJ.Covert CJ.CovertLit

/-! ## dotted-quad: `ParseAddr ∘ appendTo4` is the identity on all four bytes -/

theorem octet_digits (b : Fin 256) : (fmtOctet b.val).all isDigit = true := by
  revert b; decide +kernel

theorem octet_roundtrip (b : Fin 256) :
    (fmtOctet b.val).foldlM digStep (0, 0) = some (b.val, (fmtOctet b.val).length) := by
  revert b; decide +kernel

/-- one byte of a CIDR mask keeps exactly the leading `8 - j` bits -/
theorem land_maskByte (a : Fin 256) (j : Fin 9) : a.val &&& (256 - 2 ^ j.val) = a.val / 2 ^ j.val * 2 ^ j.val := by
  revert a j; decide +kernel


theorem v4Loop_digits (ds rest : Str) (hd : ds.all isDigit = true) (v l : Nat) (fs : List Nat) :
    v4Loop (ds ++ rest) v l fs =
      match ds.foldlM digStep (v, l) with
      | some (v', l') => v4Loop rest v' l' fs
      | none => none := by
  induction ds generalizing v l with
  | nil => simp [List.foldlM]
  | cons c cs ih =>
    simp only [List.all_cons, Bool.and_eq_true] at hd
    simp only [List.cons_append, v4Loop, hd.1, if_true, List.foldlM_cons]
    cases h : digStep (v, l) c with
    | none => simp
    | some p => obtain ⟨v', l'⟩ := p; simp [ih hd.2]

theorem fmtOctet_ne_nil (b : Nat) : fmtOctet b ≠ [] := by
  unfold fmtOctet; split
  · simp
  · split <;> simp

/-- feeding the decimal text of a byte and a dot to the field loop stores that byte -/
theorem v4Loop_octet_dot (b : Nat) (hb : b < 256) (rest : Str) (hr : rest ≠ []) (fs : List Nat) (hfs : fs.length < 3) :
    v4Loop (fmtOctet b ++ '.' :: rest) 0 0 fs = v4Loop rest 0 0 (fs ++ [b]) := by
  rw [v4Loop_digits _ _ (octet_digits ⟨b, hb⟩), octet_roundtrip ⟨b, hb⟩]
  have hl : (fmtOctet b).length ≠ 0 := fun h => fmtOctet_ne_nil b (List.length_eq_zero_iff.mp h)
  have hne : rest.isEmpty = false := by cases rest with | nil => exact absurd rfl hr | cons _ _ => rfl
  have h3 : (fs.length == 3) = false := by simp; omega
  have hdot : isDigit '.' = false := by decide
  simp [v4Loop, hdot, hl, hne, h3]

/-- **`ParseAddr ∘ IP.String` on IPv4**, for all four bytes: the dotted text `IP.String()` prints is read back as
the same address (and as an `Is4()` address) -/
theorem parseIPv4_fmtIPv4 (a b c d : Nat) (ha : a < 256) (hb : b < 256) (hc : c < 256) (hd : d < 256) :
    parseIPv4 (fmtIPv4 [a, b, c, d]) = some [a, b, c, d] := by
  have e : fmtIPv4 [a, b, c, d] = fmtOctet a ++ '.' :: (fmtOctet b ++ '.' :: (fmtOctet c ++ '.' :: fmtOctet d)) := by
    simp [fmtIPv4, intercalate]
  have n1 : ∀ (x : Nat) (t : Str), fmtOctet x ++ t ≠ [] := fun x t h => fmtOctet_ne_nil x (List.append_eq_nil_iff.mp h).1
  rw [e, parseIPv4, v4Loop_octet_dot a ha _ (n1 _ _) [] (by simp),
    v4Loop_octet_dot b hb _ (n1 _ _) _ (by simp), v4Loop_octet_dot c hc _ (fmtOctet_ne_nil d) _ (by simp)]
  have := v4Loop_digits (fmtOctet d) [] (octet_digits ⟨d, hd⟩) 0 0 ([] ++ [a] ++ [b] ++ [c])
  rw [List.append_nil] at this
  rw [this, octet_roundtrip ⟨d, hd⟩]
  simp [v4Loop]


theorem find_after_digits (ds rest : Str) (hd : ds.all isDigit = true) :
    (ds ++ '.' :: rest).find? (fun c => c == '.' || c == ':' || c == '%') = some '.' := by
  induction ds with
  | nil => simp
  | cons c cs ih =>
    simp only [List.all_cons, Bool.and_eq_true] at hd
    have h1 : c ≠ '.' := fun h => by rw [h] at hd; exact absurd hd.1 (by decide)
    have h2 : c ≠ ':' := fun h => by rw [h] at hd; exact absurd hd.1 (by decide)
    have h3 : c ≠ '%' := fun h => by rw [h] at hd; exact absurd hd.1 (by decide)
    simp [h1, h2, h3, ih hd.2]

/-- **`ParseIP ∘ IP.String` is the identity on every IPv4 (IPv4-mapped) address**: the hypothesis
`L.parseIP (env.ipText ip) = some ip` of `accepted_parses_back` / `dialed_is_checked_literal`, discharged for the
modelled library on all 2^32 addresses of that family -/
theorem parseIP_ipString_v4 (a b c d : Nat) (ha : a < 256) (hb : b < 256) (hc : c < 256) (hd : d < 256) :
    ∃ t, ipString (v4InV6Prefix ++ [a, b, c, d]) = some t ∧ parseIP t = some (v4InV6Prefix ++ [a, b, c, d]) := by
  refine ⟨fmtIPv4 [a, b, c, d], by simp [ipString, to4, v4InV6Prefix], ?_⟩
  have e : fmtIPv4 [a, b, c, d] = fmtOctet a ++ '.' :: (fmtOctet b ++ '.' :: (fmtOctet c ++ '.' :: fmtOctet d)) := by
    simp [fmtIPv4, intercalate]
  have hf := find_after_digits (fmtOctet a) (fmtOctet b ++ '.' :: (fmtOctet c ++ '.' :: fmtOctet d)) (octet_digits ⟨a, ha⟩)
  have hp := parseIPv4_fmtIPv4 a b c d ha hb hc hd
  rw [e] at hp
  simp [parseIP, parseAddr, e, hf, hp, Addr.zone, Addr.as16]

/-! ## admission of a literal, from text -/

/-- what an accepted literal is known to satisfy (conclusion of `literal_accepted_is_permitted`) -/
def PermittedLiteral {Pat : Type} (ms : Pat → String → Bool) (pol : Policy IPNet Pat) (provided : String) (r : Result) : Prop :=
  ∃ host port ip,
      splitHostPort provided.toList = some (host, port) ∧ (parseUint16 port).isSome = true ∧
      resolveLiteral host = .addr ip [] ∧ isUnspecified ip = false ∧
      (∀ p ∈ pol.domains, ms p (String.ofList host) = false) ∧
      ¬ CJ.Props.C06.Forbids (env ms) pol ip ∧
      r.out = Covert.joinHostPort ((env ms).ipText ip) (String.ofList port)

/-- **Accepted ⇒ permitted literal, with nothing taken from the library on faith.**  If `ParseOrResolveBlocklisted`
(as modelled, on a covert string whose host is a literal) does not reject, then the string *does* split
(`SplitHostPort` as modelled) into a host and a port, the port *is* a decimal uint16, the host *is* an address literal
without zone whose 16 bytes are `ip`, `ip` is not the unspecified address, the configured prefixes — evaluated by
byte-wise mask arithmetic (`CJ.NetAddr.contains`) on the networks `ParseCIDR` built — do not forbid `ip`, and the
answer is `JoinHostPort(IP.String() of ip, port)`. -/
theorem literal_accepted_is_permitted {Pat : Type} (ms : Pat → String → Bool) (pol : Policy IPNet Pat)
    (provided : String) (r : Result) (h : admitLit ms pol provided = some r) (hout : r.out ≠ "") :
    PermittedLiteral ms pol provided r := by
  unfold admitLit at h
  -- in both branches `r` is a run of `parseOrResolve` on the computed answers
  have key : ∀ (rs : Resolver (List Nat)), r = parseOrResolve (env ms) pol (answersOf provided) rs 0 →
      (∀ hh pp, splitHostPort provided.toList = some (hh, pp) → ∀ ip0 z, rs 0 = .addr (some ip0) z →
        resolveLiteral hh = .addr ip0 z.toList) → PermittedLiteral ms pol provided r := by
    intro rs hr hlit
    unfold PermittedLiteral
    rw [hr] at hout
    obtain ⟨host, port, ip, hs, hk, hd, hres, hu, hf, ho⟩ :=
      CJ.Props.C06.accepted_is_permitted_literal (env ms) pol (answersOf provided) rs 0 hout
    unfold answersOf at hs hk
    cases hsp : splitHostPort provided.toList with
    | none => simp [hsp] at hs
    | some hp =>
      obtain ⟨h0, p0⟩ := hp
      simp only [hsp] at hs hk
      simp only [Option.some.injEq, Prod.mk.injEq] at hs
      refine ⟨h0, p0, ip, rfl, hk, ?_, hu, ?_, hf, ?_⟩
      · have := hlit h0 p0 hsp ip "" hres
        simpa using this
      · rw [hs.1]; exact hd
      · rw [hr, ho, hs.2]
  cases hl : litAnswer provided with
  | some a =>
    rw [hl] at h
    simp only [Option.some.injEq] at h
    apply key (fun _ => a) h.symm
    intro hh pp hsp ip0 z hres
    unfold litAnswer at hl
    rw [hsp] at hl
    simp only at hl hres
    cases hrl : resolveLiteral hh with
    | noIP => rw [hrl] at hl; simp at hl; rw [← hl] at hres; simp at hres
    | name => rw [hrl] at hl; simp at hl
    | addr ip1 z1 =>
      rw [hrl] at hl; simp at hl; rw [← hl] at hres
      simp only [Resolved.addr.injEq, Option.some.injEq] at hres
      rw [← hres.1, ← hres.2]; simp
  | none =>
    rw [hl] at h
    simp only at h
    split at h
    · rename_i hc
      simp only [Option.some.injEq] at h
      -- cursor 0 means the lookup was never reached: such a run rejects
      exfalso
      rw [← h] at hout
      have := CJ.Props.C06.accepted_resolved_exactly_once (env ms) pol (answersOf provided) (fun _ => .err) 0 hout
      simp at hc
      omega
    · cases h


/-! ## the hypotheses are satisfiable; the corner cases the repository's code meets -/

def pol1 : Policy IPNet Unit :=
  { block := [⟨[10, 0, 0, 0], [255, 0, 0, 0]⟩], allow := [], enableAllow := false, domains := [] }

-- "198.51.100.7:443"
def cov1 : Str := ['1','9','8','.','5','1','.','1','0','0','.','7',':','4','4','3']

example : splitHostPort cov1 = some (['1','9','8','.','5','1','.','1','0','0','.','7'], ['4','4','3']) := by decide +kernel
example : resolveLiteral ['1','9','8','.','5','1','.','1','0','0','.','7'] = .addr (v4InV6Prefix ++ [198, 51, 100, 7]) [] := by
  decide +kernel
example : contains ⟨[10, 0, 0, 0], [255, 0, 0, 0]⟩ (v4InV6Prefix ++ [198, 51, 100, 7]) = false := by decide +kernel
example : contains ⟨[10, 0, 0, 0], [255, 0, 0, 0]⟩ (v4InV6Prefix ++ [10, 51, 100, 7]) = true := by decide +kernel
-- `::ffff:10.0.0.0/104` is 10.0.0.0/8; `::/0` contains no IPv4 address
example : parseCIDR [':',':','f','f','f','f',':','1','0','.','0','.','0','.','0','/','1','0','4'] =
    some ⟨v4InV6Prefix ++ [10, 0, 0, 0], List.replicate 13 255 ++ [0, 0, 0]⟩ := by decide +kernel
example : contains ⟨v4InV6Prefix ++ [10, 0, 0, 0], List.replicate 13 255 ++ [0, 0, 0]⟩ [10, 9, 9, 9] = true := by decide +kernel
example : contains ⟨List.replicate 16 0, List.replicate 16 0⟩ [10, 9, 9, 9] = false := by decide +kernel
-- a zone, the empty zone, a leading zero, the `::` that must stand for at least one group
example : parseAddr ['f','e','8','0',':',':','1','%','l','o'] =
    some (.v6 ([254, 128] ++ List.replicate 13 0 ++ [1]) ['l','o']) := by decide +kernel
example : parseAddr ['f','e','8','0',':',':','1','%'] = none := by decide +kernel
example : parseAddr ['0','1','.','2','.','3','.','4'] = none := by decide +kernel
example : parseAddr ['1',':','2',':','3',':','4',':','5',':','6',':','7',':','8',':',':'] = none := by decide +kernel
-- the first longest run of zero groups is the one `IP.String` compresses: 1:0:0:2:0:0:0:3 → 1:0:0:2::3
example : ipString [0,1, 0,0, 0,0, 0,2, 0,0, 0,0, 0,0, 0,3] = some ['1',':','0',':','0',':','2',':',':','3'] := by decide +kernel

end CJ.Props.C06Addr
