import CJ.Lemmas.CodecDNS
/-!
# C15 — every encoder in the registration channels is inverted exactly by its decoder

Property theorems only; the models are in `CJ/Model/Codec.lean` (they mirror the code *after* the
`fix:` commits: range check in `AddRequestFormat` / `AddResponseFormat`, pointer-depth bound in
`messageBuilder.WriteName`, empty tag rejected by `XORObfuscator.Obfuscate`).

Every statement is for all payloads / names / messages / keys; no bound on any length.
Cryptographic facts are the fields of `CryptoLaws` / `B32Laws` / `ProtoLaws`, hypotheses of the
theorems that use them (never axioms); the last section shows they are satisfiable.
-/
namespace CJ.Props.C15
open CJ.Codec

/-! ## length framing (msgformat) -/

/-- one-byte prefix: every payload the encoder accepts comes back unchanged -/
theorem frame_roundtrip_request (p : Bytes) (h : p.length ≤ 255) :
    (addRequestFormat p).bind removeRequestFormat = .ok p := by
  have h' : ¬ p.length > 255 := by omega
  simp only [addRequestFormat, h', if_false, Outcome.bind]
  exact removeRequest_addRequest p h

/-- one-byte prefix: a payload whose length does not fit is rejected with an error, not truncated -/
theorem frame_rejects_oversize_request (p : Bytes) (h : 255 < p.length) :
    addRequestFormat p = .err .tooLong := by
  simp [addRequestFormat, h]

/-- two-byte prefix: round trip -/
theorem frame_roundtrip_response (p : Bytes) (h : p.length ≤ 65535) :
    (addResponseFormat p).bind removeResponseFormat = .ok p := by
  have h' : ¬ p.length > 65535 := by omega
  simp only [addResponseFormat, h', if_false, Outcome.bind]
  exact removeResponse_addResponse p h

/-- two-byte prefix: oversize rejected -/
theorem frame_rejects_oversize_response (p : Bytes) (h : 65535 < p.length) :
    addResponseFormat p = .err .tooLong := by
  simp [addResponseFormat, h]

/-- both formats at once: round trip up to the limit … -/
theorem frame_roundtrip :
    (∀ p : Bytes, p.length ≤ 255 → (addRequestFormat p).bind removeRequestFormat = .ok p) ∧
    (∀ p : Bytes, p.length ≤ 65535 → (addResponseFormat p).bind removeResponseFormat = .ok p) :=
  ⟨frame_roundtrip_request, frame_roundtrip_response⟩

/-- … and an error beyond it (256 / 65536 bytes and more) -/
theorem frame_rejects_oversize :
    (∀ p : Bytes, 255 < p.length → addRequestFormat p = .err .tooLong) ∧
    (∀ p : Bytes, 65535 < p.length → addResponseFormat p = .err .tooLong) :=
  ⟨frame_rejects_oversize_request, frame_rejects_oversize_response⟩

/-- the two cases are exhaustive: the encoders never fail for another reason and never panic -/
theorem frame_accepts_iff (p : Bytes) :
    ((addRequestFormat p).isOk = true ↔ p.length ≤ 255) ∧
    ((addResponseFormat p).isOk = true ↔ p.length ≤ 65535) := by
  constructor
  · unfold addRequestFormat; split <;> simp [Outcome.isOk] <;> omega
  · unfold addResponseFormat; split <;> simp [Outcome.isOk] <;> omega

/-- Why the range check is needed: the unchecked prefix (the code before the `fix:` commit) silently
alters a 256-byte request — it decodes to the empty message. -/
theorem frame_unchecked_alters :
    removeRequestFormat (addRequestFormatUnchecked (List.replicate 256 0)) = .ok [] := by
  have h0 : UInt8.ofNat (List.replicate 256 (0 : UInt8)).length = 0 := by
    rw [List.length_replicate]; rfl
  have key : ∀ rest : Bytes, removeRequestFormat (0 :: rest) = .ok [] := by
    intro rest
    have : ¬ (1 + (0 : UInt8).toNat > rest.length + 1) := by simp
    simp [removeRequestFormat, index, Outcome.bind, slice]
  simp only [addRequestFormatUnchecked, h0]
  exact key _

/-! ## TXT character strings -/

/-- `DecodeRDataTXT (EncodeRDataTXT p) = p` for every length (255, 256, 510, … included) -/
theorem txt_roundtrip (p : Bytes) : decodeTXT (encodeTXT p) = .ok p := by
  unfold decodeTXT
  rw [decodeTXTLoop_encodeTXT]; simp

/-! ## names -/

/-- exactly the names with labels of 1…63 bytes and an encoding of at most 255 bytes are accepted … -/
theorem name_accepts_iff (n : Name) :
    (newName n).isOk = true ↔ (∀ l ∈ n, 0 < l.length ∧ l.length ≤ 63) ∧ nameWireLen n ≤ 255 := by
  rw [← validName_iff]
  unfold validName newName
  split
  · simp [Outcome.isOk]
  · split <;> simp [Outcome.isOk]

/-- … and an accepted name is returned unaltered -/
theorem name_unaltered (ls : List Label) (n : Name) (h : newName ls = .ok n) : n = ls := newName_ok_eq h

/-- a 64-byte label is rejected with an error -/
theorem name_rejects_long_label (n : Name) (h : ∃ l ∈ n, 63 < l.length) : ∃ e, newName n = .err e := by
  have hv : ¬ validName n := by
    rw [validName_iff]; intro ⟨h1, _⟩
    obtain ⟨l, hl, h64⟩ := h
    have := (h1 l hl).2; omega
  unfold validName at hv
  unfold newName at *
  split
  · exact ⟨_, rfl⟩
  · rename_i hc
    rw [hc] at hv
    simp only at hv
    split
    · exact ⟨_, rfl⟩
    · rename_i hl; simp [hl] at hv

theorem name_rejects_empty_label (n : Name) (h : [] ∈ n) : ∃ e, newName n = .err e := by
  have hv : ¬ validName n := by
    rw [validName_iff]; intro ⟨h1, _⟩
    have := (h1 [] h).1; simp at this
  unfold validName at hv
  unfold newName at *
  split
  · exact ⟨_, rfl⟩
  · rename_i hc
    rw [hc] at hv
    simp only at hv
    split
    · exact ⟨_, rfl⟩
    · rename_i hl; simp [hl] at hv

/-- a name whose encoding takes 256 bytes or more is rejected with an error -/
theorem name_rejects_long_name (n : Name) (h : 255 < nameWireLen n) : ∃ e, newName n = .err e := by
  unfold newName
  split
  · exact ⟨_, rfl⟩
  · simp [h]

/-- all three at once: whatever is outside the limits (an empty label, a 64-byte label, a 256-byte
name) is rejected with an error -/
theorem name_rejects (n : Name) (h : (∃ l ∈ n, l.length = 0 ∨ 63 < l.length) ∨ 255 < nameWireLen n) :
    ∃ e, newName n = .err e := by
  rcases h with ⟨l, hl, h0 | h64⟩ | hlen
  · have : l = [] := List.length_eq_zero_iff.mp h0
    subst this
    exact name_rejects_empty_label n hl
  · exact name_rejects_long_label n ⟨l, hl, h64⟩
  · exact name_rejects_long_name n hlen

/-- an accepted name, written into an empty message and read back, is the same name, and the reader
stands right behind it -/
theorem name_roundtrip (n : Name) (h : validName n) :
    ∃ b, writeName {} n = .ok b ∧ readName b.w 0 = .ok (n, b.w.length) := by
  have hc : CacheOK ({} : Builder).w ({} : Builder).cache := by intro en hen; cases hen
  obtain ⟨b, enc, d, hw, _, _, hd, hdec⟩ := writeName_spec {} n ((validName_iff n).mp h).1 hc
  exact ⟨b, hw, readName_decodes hdec hd h⟩

/-- the same anywhere in a message under construction, with whatever is already in the suffix cache
(compression pointers included) and whatever is appended afterwards -/
theorem name_roundtrip_in_message (b : Builder) (n : Name) (h : validName n) (hc : CacheOK b.w b.cache) (x : Bytes) :
    ∃ b', writeName b n = .ok b' ∧ CacheOK b'.w b'.cache ∧
      readName (b'.w ++ x) b.w.length = .ok (n, b'.w.length) := by
  obtain ⟨b', enc, d, hw, _, hc', hd, hdec⟩ := writeName_spec b n ((validName_iff n).mp h).1 hc
  exact ⟨b', hw, hc', readName_decodes (hdec.mono x) hd h⟩

/-- base32 as a parameter: decoding inverts encoding, and the encoder's alphabet has no lower-case letters -/
structure B32Laws (enc : Bytes → Bytes) (dec : Bytes → Option Bytes) : Prop where
  inv : ∀ p, dec (enc p) = some p
  upper : ∀ p, ∀ b ∈ enc p, ¬ (97 ≤ b ∧ b ≤ 122)

/-- the request path of the DNS registrar: the packet that `send` packs into the query name (base32,
lower case, 63-byte labels, base domain) is the packet `responseFor` unpacks from it; a packet whose
name would not fit is rejected by `NewName` (see `name_rejects_*`) -/
theorem query_payload_roundtrip (enc : Bytes → Bytes) (dec : Bytes → Option Bytes) (L : B32Laws enc dec)
    (p : Bytes) (dom name : Name) (h : sendName (enc p) dom = .ok name) :
    (recvEncoded name dom).bind dec = some p := by
  rw [recvEncoded_sendName (enc p) dom name (L.upper p) h]
  simp [L.inv]

/-! ## messages -/

/-- **Full statement, proved** (for the writer with the pointer-depth bound of the `fix:` commit):
every message `WireFormat` accepts — names made by `NewName`, at most 65535 entries per section and
65535 bytes of RDATA — is returned unchanged by `MessageFromWireFormat`, whatever suffixes repeat and
however deep the compression chains would get. -/
theorem message_roundtrip (m : Message) (h : m.WF) :
    ∃ buf, wireFormat m = .ok buf ∧ messageFromWireFormat buf = .ok m :=
  wireFormat_roundtrip m h

/-- a section with more than 65535 entries is rejected with an error -/
theorem message_rejects_section_overflow (m : Message)
    (h : 65535 < m.question.length ∨ 65535 < m.answer.length ∨ 65535 < m.authority.length ∨
      65535 < m.additional.length) : wireFormat m = .err .overflow := by
  unfold wireFormat writeMessage
  simp only [writeCounts]
  by_cases h1 : m.question.length > 65535
  · simp [h1, Outcome.bind]
  · by_cases h2 : m.answer.length > 65535
    · simp [h1, h2, Outcome.bind]
    · by_cases h3 : m.authority.length > 65535
      · simp [h1, h2, h3, Outcome.bind]
      · have h4 : m.additional.length > 65535 := by omega
        simp [h1, h2, h3, h4, Outcome.bind]

/-- RDATA longer than 65535 bytes is rejected with an error -/
theorem rr_rejects_oversize (b : Builder) (r : RR) (hn : ∀ l ∈ r.name, 0 < l.length ∧ l.length ≤ 63)
    (hc : CacheOK b.w b.cache) (h : 65535 < r.data.length) : writeRR b r = .err .overflow := by
  obtain ⟨b1, _, _, hw, _⟩ := writeName_spec b r.name hn hc
  simp [writeRR, hw, Outcome.bind, h]

/-! ## tag obfuscators -/

/-- the mask of the two high bits of the representative: what `Obfuscate` sets from a random byte,
`TryReveal` clears again -/
theorem reveal_mask (r : Bytes) (rb : UInt8) (h : ∀ x ∈ r.drop 31, x &&& 0xc0 = 0) :
    clearHigh (setHigh r rb) = r := clearHigh_setHigh r rb h

theorem obfuscate_reveal_nil (pt ct : Bytes) (h : nilObfuscate pt = .ok ct) : nilReveal ct = .ok pt := by
  cases h; rfl

theorem obfuscate_reveal_xor (pad pt ct : Bytes) (h : xorObfuscate pad pt = .ok ct) : xorReveal ct = .ok pt :=
  xor_roundtrip pad pt ct h

/-- CTR variant, for every key pair, every sequence of ephemeral draws and every random byte -/
theorem obfuscate_reveal_ctr (C : Crypto) (pubOf : C.Priv → C.Pub) (L : CryptoLaws C pubOf)
    (draws : List C.Priv) (rb : UInt8) (pt : Bytes) (stPriv : C.Priv) (ct : Bytes)
    (h : ctrObfuscate C draws rb pt 32 (pubOf stPriv) = .ok ct) : ctrReveal C ct stPriv = .ok pt :=
  ctr_roundtrip C pubOf L draws rb pt stPriv ct h

/-- GCM variant -/
theorem obfuscate_reveal_gcm (C : Crypto) (pubOf : C.Priv → C.Pub) (L : CryptoLaws C pubOf)
    (draws : List C.Priv) (rb : UInt8) (pt : Bytes) (stPriv : C.Priv) (ct : Bytes)
    (h : gcmObfuscate C draws rb pt 32 (pubOf stPriv) = .ok ct) : gcmReveal C ct stPriv = .ok pt :=
  gcm_roundtrip C pubOf L draws rb pt stPriv ct h

/-- values the encoders cannot represent are rejected with an error -/
theorem obfuscate_rejects (C : Crypto) (draws : List C.Priv) (rb : UInt8) (pt pad : Bytes) (n : Nat)
    (pub : C.Pub) (hn : n ≠ 32) :
    ctrObfuscate C draws rb pt n pub = .err .keyLen ∧ gcmObfuscate C draws rb pt n pub = .err .keyLen ∧
    xorObfuscate pad [] = .err .emptyTag := by
  simp [ctrObfuscate, gcmObfuscate, xorObfuscate, hn]

/-- the first 32 bytes of a CTR / GCM encoding are the masked representative -/
theorem obfuscate_prefix_ctr (C : Crypto) (pubOf : C.Priv → C.Pub) (L : CryptoLaws C pubOf)
    (draws : List C.Priv) (rb : UInt8) (pt : Bytes) (pub : C.Pub) (ct : Bytes) (k : C.Priv) (r : Bytes)
    (hf : firstRepresentable C draws = some (k, r)) (h : ctrObfuscate C draws rb pt 32 pub = .ok ct) :
    ct.take 32 = setHigh r rb := by
  unfold ctrObfuscate at h
  simp only [ne_eq, not_true_eq_false, if_false, hf] at h
  split at h
  · cases h
  · split at h
    · cases h
    · cases h
      have hl : (setHigh r rb).length = 32 := by
        rw [setHigh_length, L.repr_len _ _ (firstRepresentable_some hf)]
      rw [List.take_left' hl]

theorem obfuscate_prefix_gcm (C : Crypto) (pubOf : C.Priv → C.Pub) (L : CryptoLaws C pubOf)
    (draws : List C.Priv) (rb : UInt8) (pt : Bytes) (pub : C.Pub) (ct : Bytes) (k : C.Priv) (r : Bytes)
    (hf : firstRepresentable C draws = some (k, r)) (h : gcmObfuscate C draws rb pt 32 pub = .ok ct) :
    ct.take 32 = setHigh r rb := by
  unfold gcmObfuscate at h
  simp only [ne_eq, not_true_eq_false, if_false, hf] at h
  split at h
  · cases h
  · split at h
    · cases h
    · cases h
      have hl : (setHigh r rb).length = 32 := by
        rw [setHigh_length, L.repr_len _ _ (firstRepresentable_some hf)]
      rw [List.take_left' hl]

/-- **fresh encodings** (CTR): two obfuscations of the same tag for the same station key whose
ephemeral representatives differ, or whose random high bits differ, are different byte strings -/
theorem fresh_encoding_ctr (C : Crypto) (pubOf : C.Priv → C.Pub) (L : CryptoLaws C pubOf)
    (d1 d2 : List C.Priv) (rb1 rb2 : UInt8) (pt : Bytes) (pub : C.Pub) (c1 c2 : Bytes)
    (k1 k2 : C.Priv) (r1 r2 : Bytes)
    (hf1 : firstRepresentable C d1 = some (k1, r1)) (hf2 : firstRepresentable C d2 = some (k2, r2))
    (h1 : ctrObfuscate C d1 rb1 pt 32 pub = .ok c1) (h2 : ctrObfuscate C d2 rb2 pt 32 pub = .ok c2)
    (hne : r1 ≠ r2 ∨ 0xc0 &&& rb1 ≠ 0xc0 &&& rb2) : c1 ≠ c2 := by
  intro heq
  have p1 := obfuscate_prefix_ctr C pubOf L d1 rb1 pt pub c1 k1 r1 hf1 h1
  have p2 := obfuscate_prefix_ctr C pubOf L d2 rb2 pt pub c2 k2 r2 hf2 h2
  rw [heq, p2] at p1
  have hr1 := firstRepresentable_some hf1
  have hr2 := firstRepresentable_some hf2
  obtain ⟨e1, e2⟩ := setHigh_inj r2 r1 rb2 rb1 (L.repr_len _ _ hr2) (L.repr_len _ _ hr1)
    (L.repr_high _ _ hr2) (L.repr_high _ _ hr1) p1
  rcases hne with hne | hne
  · exact hne e1.symm
  · exact hne e2.symm

theorem fresh_encoding_gcm (C : Crypto) (pubOf : C.Priv → C.Pub) (L : CryptoLaws C pubOf)
    (d1 d2 : List C.Priv) (rb1 rb2 : UInt8) (pt : Bytes) (pub : C.Pub) (c1 c2 : Bytes)
    (k1 k2 : C.Priv) (r1 r2 : Bytes)
    (hf1 : firstRepresentable C d1 = some (k1, r1)) (hf2 : firstRepresentable C d2 = some (k2, r2))
    (h1 : gcmObfuscate C d1 rb1 pt 32 pub = .ok c1) (h2 : gcmObfuscate C d2 rb2 pt 32 pub = .ok c2)
    (hne : r1 ≠ r2 ∨ 0xc0 &&& rb1 ≠ 0xc0 &&& rb2) : c1 ≠ c2 := by
  intro heq
  have p1 := obfuscate_prefix_gcm C pubOf L d1 rb1 pt pub c1 k1 r1 hf1 h1
  have p2 := obfuscate_prefix_gcm C pubOf L d2 rb2 pt pub c2 k2 r2 hf2 h2
  rw [heq, p2] at p1
  have hr1 := firstRepresentable_some hf1
  have hr2 := firstRepresentable_some hf2
  obtain ⟨e1, e2⟩ := setHigh_inj r2 r1 rb2 rb1 (L.repr_len _ _ hr2) (L.repr_len _ _ hr1)
    (L.repr_high _ _ hr2) (L.repr_high _ _ hr1) p1
  rcases hne with hne | hne
  · exact hne e1.symm
  · exact hne e2.symm

/-- fresh encodings (XOR): different pads give different encodings of the same tag -/
theorem fresh_encoding_xor (pad1 pad2 pt c1 c2 : Bytes) (h1 : xorObfuscate pad1 pt = .ok c1)
    (h2 : xorObfuscate pad2 pt = .ok c2) (hne : pad1.take pt.length ≠ pad2.take pt.length) : c1 ≠ c2 := by
  intro heq
  have p1 := xorObfuscate_prefix pad1 pt c1 h1
  have p2 := xorObfuscate_prefix pad2 pt c2 h2
  rw [heq, p2] at p1
  exact hne p1.symm

/-! ## URL-less transport parameters -/

/-- protobuf (un)marshalling as a parameter -/
structure ProtoLaws {M : Type} (marshal : M → Bytes) (unmarshal : Url → Bytes → Option M) (url : Url) : Prop where
  inv : ∀ m, unmarshal url (marshal m) = some m

/-- the client erases the type URL, the station restores the URL of the type it expects and gets the
client's parameters back -/
theorem any_roundtrip {M : Type} (marshal : M → Bytes) (unmarshal : Url → Bytes → Option M) (url : Url)
    (L : ProtoLaws marshal unmarshal url) (m : M) :
    unmarshalAnyTo unmarshal (some url) (some (eraseUrl ⟨url, marshal m⟩)) = .ok (some m) := by
  unfold unmarshalAnyTo
  rw [restoreUrl_erase]
  simp [Outcome.bind, L.inv]

/-- a URL that is kept (old clients) is accepted when it names the expected type (after the
`tapdance.` → `proto.` renaming) … -/
theorem any_roundtrip_with_url {M : Type} (marshal : M → Bytes) (unmarshal : Url → Bytes → Option M) (url src : Url)
    (L : ProtoLaws marshal unmarshal url) (m : M) (h : normalizeUrl src = url) :
    unmarshalAnyTo unmarshal (some url) (some ⟨src, marshal m⟩) = .ok (some m) := by
  unfold unmarshalAnyTo
  rw [restoreUrl_same url ⟨src, marshal m⟩ h]
  simp [Outcome.bind, L.inv]

/-- … and rejected with an error when it names another type -/
theorem any_rejects_wrong_type {M : Type} (unmarshal : Url → Bytes → Option M) (url : Url) (a : AnyMsg)
    (h0 : normalizeUrl a.typeUrl ≠ []) (h : normalizeUrl a.typeUrl ≠ url) :
    unmarshalAnyTo unmarshal (some url) (some a) = .err .wrongType := by
  unfold unmarshalAnyTo
  rw [restoreUrl_other url a h0 h]; rfl

/-- absent parameters stay absent -/
theorem any_absent {M : Type} (unmarshal : Url → Bytes → Option M) (url : Option Url) :
    unmarshalAnyTo unmarshal url none = .ok (none : Option M) := rfl

/-! ## non-vacuity: the hypotheses are satisfiable, and the round trips are exercised on concrete data -/

/-- a toy instance of the primitives: one key, representative `0…0`, CTR = xor with a constant,
GCM = append a 16-byte tag -/
def toyCrypto : Crypto where
  Priv := Unit
  Pub := Unit
  dh := fun _ _ => some [1, 2, 3]
  reprOf := fun _ => some (List.replicate 32 0)
  pubOfRepr := fun _ => ()
  hash := fun s => s ++ List.replicate 32 7
  ctr := fun _ _ x => some (x.map (· ^^^ 0x5a))
  gcmSeal := fun _ _ x => some (x ++ List.replicate 16 9)
  gcmOpen := fun _ _ y => some (y.take (y.length - 16))

theorem toyLaws : CryptoLaws toyCrypto (fun _ => ()) where
  dh_comm := fun _ _ => rfl
  repr_inv := fun _ _ _ => rfl
  repr_len := by intro _ r h; cases h; simp
  repr_high := by
    intro _ r h x hx; cases h
    have : x = 0 := by
      have := List.mem_of_mem_drop hx
      exact List.eq_of_mem_replicate this
    subst this; decide
  ctr_inv := by
    intro _ _ x y h; cases h
    simp only [toyCrypto, List.map_map, Option.some.injEq]
    conv => rhs; rw [← List.map_id x]
    apply List.map_congr_left
    intro b _
    simp [UInt8.xor_assoc]
  gcm_inv := by intro _ _ x y h; cases h; simp [toyCrypto]
  gcm_len := by intro _ _ x y h; cases h; simp

example : ctrObfuscate toyCrypto [()] 0xff [10, 20] 32 () =
    .ok (List.replicate 31 0 ++ [0xc0] ++ [10 ^^^ 0x5a, 20 ^^^ 0x5a]) := by decide
example : ∃ ct, gcmObfuscate toyCrypto [()] 0x40 [10, 20] 32 () = .ok ct := ⟨_, rfl⟩
/-- a toy text codec (two nibbles per byte) that satisfies `B32Laws`; the real base32 codec is checked
against the same two laws by the harness on every run -/
def toyEnc : Bytes → Bytes
  | [] => []
  | b :: bs => (b &&& 0x0f) :: (b >>> 4) :: toyEnc bs
def toyDec : Bytes → Option Bytes
  | [] => some []
  | [_] => none
  | lo :: hi :: rest => (toyDec rest).map fun r => (lo ||| (hi <<< 4)) :: r

set_option maxRecDepth 8000 in
theorem toyNibbles (b : UInt8) : ((b &&& (0x0f : UInt8)) ||| ((b >>> (4 : UInt8)) <<< (4 : UInt8))) = b ∧
    (b &&& (0x0f : UInt8)) < (97 : UInt8) ∧ (b >>> (4 : UInt8)) < (97 : UInt8) := by
  have key : ∀ k : Fin 256,
      ((UInt8.ofNat k.val &&& (0x0f : UInt8)) ||| ((UInt8.ofNat k.val >>> (4 : UInt8)) <<< (4 : UInt8))) = UInt8.ofNat k.val ∧
      (UInt8.ofNat k.val &&& (0x0f : UInt8)) < (97 : UInt8) ∧ (UInt8.ofNat k.val >>> (4 : UInt8)) < (97 : UInt8) := by decide
  have := key ⟨b.toNat, b.toNat_lt⟩
  simpa using this

theorem toyB32 : B32Laws toyEnc toyDec where
  inv := by
    intro p
    induction p with
    | nil => rfl
    | cons b bs ih =>
      have := (toyNibbles b).1
      simp [toyEnc, toyDec, ih, this]
  upper := by
    intro p
    induction p with
    | nil => simp [toyEnc]
    | cons b bs ih =>
      intro x hx
      simp only [toyEnc, List.mem_cons] at hx
      have h1 := (toyNibbles b).2.1
      have h2 := (toyNibbles b).2.2
      rcases hx with rfl | rfl | hx
      · intro ⟨h, _⟩; exact absurd (UInt8.lt_of_lt_of_le h1 h) (UInt8.lt_irrefl _)
      · intro ⟨h, _⟩; exact absurd (UInt8.lt_of_lt_of_le h2 h) (UInt8.lt_irrefl _)
      · exact ih x hx

example : ProtoLaws (M := Bytes) id (fun _ b => some b) "type.googleapis.com/proto.GenericTransportParams".toList :=
  ⟨fun _ => rfl⟩
example : validName [[0x61, 0x62], [0x63]] := by unfold validName; decide
example : (⟨1, 0x100, [⟨[[0x61]], 16, 1⟩], [], [], [⟨[], 41, 4096, 0, []⟩]⟩ : Message).WF := by
  constructor <;> simp [validName] <;> decide
example : xorObfuscate [1, 2, 3] [7, 7] = .ok [1, 2, 1 ^^^ 7, 2 ^^^ 7] := by decide

end CJ.Props.C15
