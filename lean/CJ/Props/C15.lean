import CJ.Lemmas.CodecPath
import CJ.Lemmas.Responder
import CJ.Gen.C15Loop
import CJ.Lemmas.Alive
/-!
# C15 — every encoder in the registration channels is inverted exactly by its decoder

Property theorems only; the models are in `CJ/Model/Codec.lean` (they mirror the code *after* the
`fix:` commits: range check in `AddRequestFormat` / `AddResponseFormat`, pointer-depth bound in
`messageBuilder.WriteName`, empty tag rejected by `XORObfuscator.Obfuscate`).

Every statement is for all payloads / names / messages / keys; no bound on any length.
Cryptographic facts are the fields of `CryptoLaws` / `B32Laws` / `ProtoLaws` / `NoiseLaws`, hypotheses
of the theorems that use them (never axioms); the last section shows they are satisfiable.

The section "the DNS registration channel end to end" composes the single codecs along the code paths
`sendHandshake` → `send` → `RecvAndRespond` → `responseFor` → callback and back through
`dnsRespToUDPResp` → `recvLoop` → `dnsResponsePayload` → `RequestAndRecv` (`request_path_roundtrip`,
`request_accepts_iff`, `response_path_roundtrip`, `exchange_roundtrip`).
-/
namespace CJ.Props.C15
open CJ.Codec

/-! ## length framing (msgformat) -/

/-- one-byte prefix: every payload the encoder accepts comes back unchanged, whatever bytes `x` follow
the framed payload in the decoder's input (the prefix is self-delimiting) -/
theorem frame_roundtrip_request (p : Bytes) (h : p.length ≤ 255) (x : Bytes) :
    (addRequestFormat p).bind (fun e => removeRequestFormat (e ++ x)) = .ok p := by
  have h' : ¬ p.length > 255 := by omega
  simp only [addRequestFormat, h', if_false, Outcome.bind, List.cons_append]
  exact removeRequest_addRequest_append p x h

/-- one-byte prefix: a payload whose length does not fit is rejected with an error, not truncated -/
theorem frame_rejects_oversize_request (p : Bytes) (h : 255 < p.length) :
    addRequestFormat p = .err .tooLong := by
  simp [addRequestFormat, h]

/-- two-byte prefix: round trip, whatever bytes `x` follow (the requester hands its whole zero-padded
4096-byte receive buffer to `RemoveResponseFormat`) -/
theorem frame_roundtrip_response (p : Bytes) (h : p.length ≤ 65535) (x : Bytes) :
    (addResponseFormat p).bind (fun e => removeResponseFormat (e ++ x)) = .ok p := by
  have h' : ¬ p.length > 65535 := by omega
  simp only [addResponseFormat, h', if_false, Outcome.bind]
  exact removeResponse_addResponse_append p x h

/-- two-byte prefix: oversize rejected -/
theorem frame_rejects_oversize_response (p : Bytes) (h : 65535 < p.length) :
    addResponseFormat p = .err .tooLong := by
  simp [addResponseFormat, h]

/-- both formats at once: round trip up to the limit, with arbitrary trailing bytes … -/
theorem frame_roundtrip :
    (∀ p x : Bytes, p.length ≤ 255 →
      (addRequestFormat p).bind (fun e => removeRequestFormat (e ++ x)) = .ok p) ∧
    (∀ p x : Bytes, p.length ≤ 65535 →
      (addResponseFormat p).bind (fun e => removeResponseFormat (e ++ x)) = .ok p) :=
  ⟨fun p x h => frame_roundtrip_request p h x, fun p x h => frame_roundtrip_response p h x⟩

/-- the special case without trailing bytes: the decoder applied to exactly the encoder's output -/
theorem frame_roundtrip_exact :
    (∀ p : Bytes, p.length ≤ 255 → (addRequestFormat p).bind removeRequestFormat = .ok p) ∧
    (∀ p : Bytes, p.length ≤ 65535 → (addResponseFormat p).bind removeResponseFormat = .ok p) := by
  constructor
  · intro p h
    have := frame_roundtrip_request p h []
    simpa using this
  · intro p h
    have := frame_roundtrip_response p h []
    simpa using this

/-- … and an error beyond it (256 / 65536 bytes and more) -/
theorem frame_rejects_oversize :
    (∀ p : Bytes, 255 < p.length → addRequestFormat p = .err .tooLong) ∧
    (∀ p : Bytes, 65535 < p.length → addResponseFormat p = .err .tooLong) :=
  ⟨frame_rejects_oversize_request, frame_rejects_oversize_response⟩

/-- the two cases are exhaustive: the encoders never fail for another reason and never panic -/
theorem frame_accepts_iff (p : Bytes) :
    ((addRequestFormat p).isOk = true ↔ p.length ≤ 255) ∧
    ((addResponseFormat p).isOk = true ↔ p.length ≤ 65535) := by
  constructor
  · unfold addRequestFormat; split <;> simp [Outcome.isOk] <;> omega
  · unfold addResponseFormat; split <;> simp [Outcome.isOk] <;> omega

/-- **Illustration, not an obligation of the property**: this is about `addRequestFormatUnchecked`, the
code *before* the `fix:` commit, which is not part of the modelled implementation. It shows why the
range check is needed: the unchecked prefix silently alters a 256-byte request — it decodes to the
empty message. -/
theorem frame_unchecked_alters :
    removeRequestFormat (addRequestFormatUnchecked (List.replicate 256 0)) = .ok [] := by
  have h0 : UInt8.ofNat (List.replicate 256 (0 : UInt8)).length = 0 := by
    rw [List.length_replicate]; rfl
  have key : ∀ rest : Bytes, removeRequestFormat (0 :: rest) = .ok [] := by
    intro rest
    have : ¬ (1 + (0 : UInt8).toNat > rest.length + 1) := by simp
    simp [removeRequestFormat, index, Outcome.bind, slice]
  simp only [addRequestFormatUnchecked, h0]
  exact key _

/-! ## TXT character strings -/

/-- `DecodeRDataTXT (EncodeRDataTXT p) = p` for every length (255, 256, 510, … included) -/
theorem txt_roundtrip (p : Bytes) : decodeTXT (encodeTXT p) = .ok p := by
  unfold decodeTXT
  rw [decodeTXTLoop_encodeTXT]; simp

/-! ## names -/

/-- exactly the names with labels of 1…63 bytes and an encoding of at most 255 bytes are accepted … -/
theorem name_accepts_iff (n : Name) :
    (newName n).isOk = true ↔ (∀ l ∈ n, 0 < l.length ∧ l.length ≤ 63) ∧ nameWireLen n ≤ 255 := by
  rw [← validName_iff]
  unfold validName newName
  split
  · simp [Outcome.isOk]
  · split <;> simp [Outcome.isOk]

/-- … and an accepted name is returned unaltered -/
theorem name_unaltered (ls : List Label) (n : Name) (h : newName ls = .ok n) : n = ls := newName_ok_eq h

/-- a 64-byte label is rejected with an error -/
theorem name_rejects_long_label (n : Name) (h : ∃ l ∈ n, 63 < l.length) : ∃ e, newName n = .err e := by
  have hv : ¬ validName n := by
    rw [validName_iff]; intro ⟨h1, _⟩
    obtain ⟨l, hl, h64⟩ := h
    have := (h1 l hl).2; omega
  unfold validName at hv
  unfold newName at *
  split
  · exact ⟨_, rfl⟩
  · rename_i hc
    rw [hc] at hv
    simp only at hv
    split
    · exact ⟨_, rfl⟩
    · rename_i hl; simp [hl] at hv

theorem name_rejects_empty_label (n : Name) (h : [] ∈ n) : ∃ e, newName n = .err e := by
  have hv : ¬ validName n := by
    rw [validName_iff]; intro ⟨h1, _⟩
    have := (h1 [] h).1; simp at this
  unfold validName at hv
  unfold newName at *
  split
  · exact ⟨_, rfl⟩
  · rename_i hc
    rw [hc] at hv
    simp only at hv
    split
    · exact ⟨_, rfl⟩
    · rename_i hl; simp [hl] at hv

/-- a name whose encoding takes 256 bytes or more is rejected with an error -/
theorem name_rejects_long_name (n : Name) (h : 255 < nameWireLen n) : ∃ e, newName n = .err e := by
  unfold newName
  split
  · exact ⟨_, rfl⟩
  · simp [h]

/-- all three at once: whatever is outside the limits (an empty label, a 64-byte label, a 256-byte
name) is rejected with an error -/
theorem name_rejects (n : Name) (h : (∃ l ∈ n, l.length = 0 ∨ 63 < l.length) ∨ 255 < nameWireLen n) :
    ∃ e, newName n = .err e := by
  rcases h with ⟨l, hl, h0 | h64⟩ | hlen
  · have : l = [] := List.length_eq_zero_iff.mp h0
    subst this
    exact name_rejects_empty_label n hl
  · exact name_rejects_long_label n ⟨l, hl, h64⟩
  · exact name_rejects_long_name n hlen

/-- an accepted name, written into an empty message and read back, is the same name, and the reader
stands right behind it -/
theorem name_roundtrip (n : Name) (h : validName n) :
    ∃ b, writeName {} n = .ok b ∧ readName b.w 0 = .ok (n, b.w.length) := by
  have hc : CacheOK ({} : Builder).w ({} : Builder).cache := by intro en hen; cases hen
  obtain ⟨b, enc, d, hw, _, _, hd, hdec⟩ := writeName_spec {} n ((validName_iff n).mp h).1 hc
  exact ⟨b, hw, readName_decodes hdec hd h⟩

/-- the same anywhere in a message under construction, with whatever is already in the suffix cache
(compression pointers included) and whatever is appended afterwards -/
theorem name_roundtrip_in_message (b : Builder) (n : Name) (h : validName n) (hc : CacheOK b.w b.cache) (x : Bytes) :
    ∃ b', writeName b n = .ok b' ∧ CacheOK b'.w b'.cache ∧
      readName (b'.w ++ x) b.w.length = .ok (n, b'.w.length) := by
  obtain ⟨b', enc, d, hw, _, hc', hd, hdec⟩ := writeName_spec b n ((validName_iff n).mp h).1 hc
  exact ⟨b', hw, hc', readName_decodes (hdec.mono x) hd h⟩

/-- base32 as a parameter: decoding inverts encoding, and the encoder's alphabet has no lower-case letters -/
structure B32Laws (enc : Bytes → Bytes) (dec : Bytes → Option Bytes) : Prop where
  inv : ∀ p, dec (enc p) = some p
  upper : ∀ p, ∀ b ∈ enc p, ¬ (97 ≤ b ∧ b ≤ 122)

/-- the request path of the DNS registrar: the packet that `send` packs into the query name (base32,
lower case, 63-byte labels, base domain) is the packet `responseFor` unpacks from it; a packet whose
name would not fit is rejected by `NewName` (see `name_rejects_*`) -/
theorem query_payload_roundtrip (enc : Bytes → Bytes) (dec : Bytes → Option Bytes) (L : B32Laws enc dec)
    (p : Bytes) (dom name : Name) (h : sendName (enc p) dom = .ok name) :
    (recvEncoded name dom).bind dec = some p := by
  rw [recvEncoded_sendName (enc p) dom name (L.upper p) h]
  simp [L.inv]

/-! ## messages -/

/-- **Full statement, proved** (for the writer with the pointer-depth bound of the `fix:` commit):
every message `WireFormat` accepts — names made by `NewName`, at most 65535 entries per section and
65535 bytes of RDATA — is returned unchanged by `MessageFromWireFormat`, whatever suffixes repeat and
however deep the compression chains would get. -/
theorem message_roundtrip (m : Message) (h : m.WF) :
    ∃ buf, wireFormat m = .ok buf ∧ messageFromWireFormat buf = .ok m :=
  wireFormat_roundtrip m h

/-- a section with more than 65535 entries is rejected with an error -/
theorem message_rejects_section_overflow (m : Message)
    (h : 65535 < m.question.length ∨ 65535 < m.answer.length ∨ 65535 < m.authority.length ∨
      65535 < m.additional.length) : wireFormat m = .err .overflow := by
  unfold wireFormat writeMessage
  simp only [writeCounts]
  by_cases h1 : m.question.length > 65535
  · simp [h1, Outcome.bind]
  · by_cases h2 : m.answer.length > 65535
    · simp [h1, h2, Outcome.bind]
    · by_cases h3 : m.authority.length > 65535
      · simp [h1, h2, h3, Outcome.bind]
      · have h4 : m.additional.length > 65535 := by omega
        simp [h1, h2, h3, h4, Outcome.bind]

/-- RDATA longer than 65535 bytes is rejected with an error -/
theorem rr_rejects_oversize (b : Builder) (r : RR) (hn : ∀ l ∈ r.name, 0 < l.length ∧ l.length ≤ 63)
    (hc : CacheOK b.w b.cache) (h : 65535 < r.data.length) : writeRR b r = .err .overflow := by
  obtain ⟨b1, _, _, hw, _⟩ := writeName_spec b r.name hn hc
  simp [writeRR, hw, Outcome.bind, h]

/-! ## the DNS registration channel end to end (requester ⇄ responder)

`requestEncode` = `sendHandshake` + `send`; `requestDecode` = `RecvAndRespond` up to the callback;
`responseEncode` = `AddResponseFormat` + `dnsRespToUDPResp`; `responseDecode` = `recvLoop` +
`dnsResponsePayload` + `RequestAndRecv`. Noise and base32 are parameters with the laws below. -/

/-- Noise as a parameter: the peer's `ReadMessage` / `Decrypt` inverts `WriteMessage` / `Encrypt` -/
structure NoiseLaws (seal_ : Bytes → Bytes) (open_ : Bytes → Option Bytes) : Prop where
  inv : ∀ p, open_ (seal_ p) = some p

/-- the name `send` builds for the registration `p`: the framed Noise message in base32, lower case,
63-byte labels, base domain -/
def requestName (seal_ enc : Bytes → Bytes) (dom : Name) (p : Bytes) : Name :=
  chunks ((enc (UInt8.ofNat (seal_ p).length :: seal_ p)).map toLowerB) 63 ++ dom

/-- **capacity** of a query name as arithmetic: a text of `L` bytes under `dom` takes `L` bytes, one
length byte per started 63-byte label, and the encoding of `dom` -/
theorem query_capacity (e : Bytes) (dom : Name) :
    nameWireLen (chunks e 63 ++ dom) = e.length + (e.length + 62) / 63 + nameWireLen dom :=
  nameWireLen_chunks e dom

/-- the domain of the harness, `t.example.com` (15 bytes on the wire) -/
def exampleDom : Name := [[0x74], [0x65, 0x78, 0x61, 0x6d, 0x70, 0x6c, 0x65], [0x63, 0x6f, 0x6d]]

/-- under `t.example.com`, `send` accepts a base32 text iff it has at most 236 characters
(`L + ⌈L/63⌉ + 15 ≤ 255`), i.e. at most 147 bytes of framed Noise message -/
theorem query_capacity_example (e : Bytes) :
    ((sendName e exampleDom).isOk = true ↔ e.length + (e.length + 62) / 63 + 15 ≤ 255) ∧
    (e.length + (e.length + 62) / 63 + 15 ≤ 255 ↔ e.length ≤ 236) := by
  refine ⟨?_, by omega⟩
  unfold sendName queryName
  rw [name_accepts_iff, query_capacity, List.length_map]
  have hd : ∀ l ∈ exampleDom, 0 < l.length ∧ l.length ≤ 63 := by decide
  have hw : nameWireLen exampleDom = 15 := by decide
  rw [hw]
  constructor
  · exact fun h => h.2
  · exact fun h => ⟨chunks_append_labels _ _ hd, h⟩

/-- **request path, round trip**: whatever `sendHandshake` + `send` put on the wire for the
registration `p`, `RecvAndRespond` hands exactly `p` to its callback — for every Noise / base32
satisfying the laws, every base domain, query ID and `maxUDPPayload ≤ 4096` (the size the query's OPT
RR announces) -/
theorem request_path_roundtrip (seal_ : Bytes → Bytes) (open_ : Bytes → Option Bytes) (N : NoiseLaws seal_ open_)
    (enc : Bytes → Bytes) (dec : Bytes → Option Bytes) (L : B32Laws enc dec) (dom : Name) (id : UInt16)
    (maxUDP : Nat) (hm : maxUDP ≤ 4096) (p buf : Bytes) (h : requestEncode seal_ enc dom id p = .ok buf) :
    requestDecode open_ dec dom maxUDP buf = some p := by
  unfold requestEncode at h
  obtain ⟨f, hf, hq⟩ := Outcome.bind_eq_ok h
  unfold addRequestFormat at hf
  split at hf
  · cases hf
  · rename_i hlen
    cases hf
    obtain ⟨hv, _, hparse⟩ := buildQuery_ok hq
    unfold requestDecode
    rw [lenientParse_of_ok hparse]
    rw [responseFor_queryMessage id _ dom maxUDP hm dec (UInt8.ofNat (seal_ p).length :: seal_ p)
      (by rw [upper_flatten_chunks_lower _ (L.upper _)]; exact L.inv _)]
    simp only
    rw [removeRequest_addRequest (seal_ p) (by omega)]
    exact N.inv p

/-- **request path, exactly what is accepted**: the encoder succeeds iff the Noise message fits the
one-byte length prefix and the name fits `NewName`; it never panics and has no other way to fail -/
theorem request_accepts_iff (seal_ enc : Bytes → Bytes) (dom : Name) (id : UInt16) (p : Bytes) :
    (requestEncode seal_ enc dom id p).isOk = true ↔
      (seal_ p).length ≤ 255 ∧ validName (requestName seal_ enc dom p) := by
  unfold requestEncode addRequestFormat requestName
  by_cases h : (seal_ p).length > 255
  · simp only [h, if_true, Outcome.bind, Outcome.isOk]
    constructor
    · intro h'; cases h'
    · intro h'; omega
  · simp only [h, if_false, Outcome.bind]
    rw [buildQuery_isOk_iff]
    constructor
    · exact fun hv => ⟨by omega, hv⟩
    · exact fun hv => hv.2

/-- a Noise message of more than 255 bytes is rejected with an error, not truncated -/
theorem request_rejects_oversize (seal_ enc : Bytes → Bytes) (dom : Name) (id : UInt16) (p : Bytes)
    (h : 255 < (seal_ p).length) : requestEncode seal_ enc dom id p = .err .tooLong := by
  simp [requestEncode, addRequestFormat, h, Outcome.bind]

/-- a registration whose name would take more than 255 bytes is rejected with `ErrNameTooLong`
(for a base domain with valid labels). With `request_rejects_oversize` and `request_path_roundtrip`
the three cases are exhaustive: see `request_accepts_iff_capacity`. -/
theorem request_rejects_long_name (seal_ enc : Bytes → Bytes) (dom : Name) (id : UInt16) (p : Bytes)
    (hp : (seal_ p).length ≤ 255) (hd : ∀ l ∈ dom, 0 < l.length ∧ l.length ≤ 63)
    (h : 255 < nameWireLen (requestName seal_ enc dom p)) :
    requestEncode seal_ enc dom id p = .err .nameTooLong := by
  unfold requestName at h
  have h' : ¬ (seal_ p).length > 255 := by omega
  have hc := (checkLabels_none_iff _).mpr (chunks_append_labels
    ((enc (UInt8.ofNat (seal_ p).length :: seal_ p)).map toLowerB) dom hd)
  simp [requestEncode, addRequestFormat, h', Outcome.bind, buildQuery, sendName, queryName, newName, hc, h]

/-- for a base domain with valid labels, acceptance is plain arithmetic on the two lengths: the Noise
message has at most 255 bytes and its base32 text `e` satisfies `|e| + ⌈|e|/63⌉ + |dom| ≤ 255` -/
theorem request_accepts_iff_capacity (seal_ enc : Bytes → Bytes) (dom : Name) (id : UInt16) (p : Bytes)
    (hd : ∀ l ∈ dom, 0 < l.length ∧ l.length ≤ 63) :
    (requestEncode seal_ enc dom id p).isOk = true ↔
      (seal_ p).length ≤ 255 ∧
      (enc (UInt8.ofNat (seal_ p).length :: seal_ p)).length +
        ((enc (UInt8.ofNat (seal_ p).length :: seal_ p)).length + 62) / 63 + nameWireLen dom ≤ 255 := by
  rw [request_accepts_iff, validName_iff]
  unfold requestName
  rw [query_capacity, List.length_map]
  constructor
  · exact fun h => ⟨h.1, h.2.2⟩
  · exact fun h => ⟨h.1, chunks_append_labels _ _ hd, h.2⟩

/-- **response path, round trip**: for a response message of the shape `responseFor` returns together
with a payload (`ResponseShape`: QR set, RCODE 0, one TXT question for a valid name under `dom`,
well-formed authority / additional sections) and every answer `r` whose framed Noise message fits the
requester's 4096-byte buffer, what `RequestAndRecv` returns for the datagram `dnsRespToUDPResp` builds
is exactly `r` — the zero padding of the buffer behind the payload is ignored -/
theorem response_path_roundtrip (sealR : Bytes → Bytes) (openR : Bytes → Option Bytes) (N : NoiseLaws sealR openR)
    (resp : Message) (dom : Name) (S : ResponseShape resp dom) (r buf : Bytes)
    (hlen : (sealR r).length + 2 ≤ 4096) (h : responseEncode sealR resp r = .ok buf) :
    responseDecode openR dom buf = some r := by
  unfold responseEncode at h
  obtain ⟨f, hf, hu⟩ := Outcome.bind_eq_ok h
  unfold addResponseFormat at hf
  split at hf
  · cases hf
  · cases hf
    have hfl : (be16 (sealR r).length ++ sealR r).length = (sealR r).length + 2 := by simp [be16]
    have htxt : (encodeTXT (be16 (sealR r).length ++ sealR r)).length ≤ 65535 := by
      rw [encodeTXT_length, hfl]; omega
    obtain ⟨q, buf', hq, hw, hparse⟩ := udpResponse_roundtrip resp dom S _ htxt
    rw [hu] at hw
    cases hw
    unfold responseDecode
    rw [hparse]
    simp only
    rw [dnsResponsePayload_answer resp dom S q hq, Option.getD_some, recvBuffer_of_le _ (by omega),
      removeResponse_addResponse_append _ _ (by omega)]
    exact N.inv r

/-- … and the encoder does succeed on all of these: no error, no panic -/
theorem response_path_total (sealR : Bytes → Bytes) (openR : Bytes → Option Bytes) (N : NoiseLaws sealR openR)
    (resp : Message) (dom : Name) (S : ResponseShape resp dom) (r : Bytes) (hlen : (sealR r).length + 2 ≤ 4096) :
    ∃ buf, responseEncode sealR resp r = .ok buf ∧ responseDecode openR dom buf = some r := by
  have hfl : (be16 (sealR r).length ++ sealR r).length = (sealR r).length + 2 := by simp [be16]
  have htxt : (encodeTXT (be16 (sealR r).length ++ sealR r)).length ≤ 65535 := by
    rw [encodeTXT_length, hfl]; omega
  obtain ⟨q, buf, hq, hw, hparse⟩ := udpResponse_roundtrip resp dom S _ htxt
  have he : responseEncode sealR resp r = .ok buf := by
    have h' : ¬ (sealR r).length > 65535 := by omega
    simp only [responseEncode, addResponseFormat, h', if_false, Outcome.bind]
    exact hw
  exact ⟨buf, he, response_path_roundtrip sealR openR N resp dom S r buf hlen he⟩

/-- the responder's size limit: a datagram within `maxUDPPayload` is sent as it is … -/
theorem response_send_fits (sealR : Bytes → Bytes) (resp : Message) (maxUDP : Nat) (r buf : Bytes)
    (h : responseEncode sealR resp r = .ok buf) (hfit : buf.length ≤ maxUDP) :
    responseSend sealR resp maxUDP r = .ok buf := by
  have : ¬ buf.length > maxUDP := by omega
  simp [responseSend, h, Outcome.bind, this]

/-- … and a longer one is **not delivered**: the responder logs an error and sends the response with an
empty payload instead, so `RequestAndRecv` ends in `Decrypt` of the empty string (an authentication
error with the real Noise). The answer is never delivered altered: the requester gets either `r` or
whatever `openR []` is. -/
theorem response_send_oversize (sealR : Bytes → Bytes) (openR : Bytes → Option Bytes) (resp : Message) (dom : Name)
    (S : ResponseShape resp dom) (maxUDP : Nat) (r b0 : Bytes)
    (h : responseEncode sealR resp r = .ok b0) (hbig : maxUDP < b0.length) :
    ∃ buf, responseSend sealR resp maxUDP r = .ok buf ∧ responseDecode openR dom buf = openR [] := by
  have htxt : (encodeTXT ([] : Bytes)).length ≤ 65535 := by rw [encodeTXT_length]; simp
  obtain ⟨q, buf, hq, hw, hparse⟩ := udpResponse_roundtrip resp dom S [] htxt
  refine ⟨buf, by simp [responseSend, h, Outcome.bind, hbig, hw], ?_⟩
  unfold responseDecode
  rw [hparse]
  simp only
  rw [dnsResponsePayload_answer resp dom S q hq, Option.getD_some, recvBuffer_of_le _ (by simp)]
  have hz : ([] : Bytes) ++ List.replicate (4096 - ([] : Bytes).length) (0 : UInt8) =
      be16 ([] : Bytes).length ++ [] ++ List.replicate 4094 0 := by
    show List.replicate (4094 + 2) (0 : UInt8) = _
    rw [List.replicate_succ, List.replicate_succ]
    rfl
  rw [hz, removeResponse_addResponse_append [] _ (by simp)]

/-- **the whole exchange**: the query `requestEncode` builds is decoded to `p`; `responseFor` answers it
with a message of the shape the response path needs; and every answer `r` that fits the buffer comes
back to the requester unchanged -/
theorem exchange_roundtrip (seal_ : Bytes → Bytes) (open_ : Bytes → Option Bytes) (Nq : NoiseLaws seal_ open_)
    (sealR : Bytes → Bytes) (openR : Bytes → Option Bytes) (Nr : NoiseLaws sealR openR)
    (enc : Bytes → Bytes) (dec : Bytes → Option Bytes) (L : B32Laws enc dec) (dom : Name) (id : UInt16)
    (maxUDP : Nat) (hm : maxUDP ≤ 4096) (p r qbuf : Bytes)
    (hq : requestEncode seal_ enc dom id p = .ok qbuf) (hlen : (sealR r).length + 2 ≤ 4096) :
    requestDecode open_ dec dom maxUDP qbuf = some p ∧
    ∃ resp f rbuf, responseFor (lenientParse qbuf) dom maxUDP dec = some (resp, some f) ∧
      ResponseShape resp dom ∧
      responseEncode sealR resp r = .ok rbuf ∧ responseDecode openR dom rbuf = some r := by
  refine ⟨request_path_roundtrip seal_ open_ Nq enc dec L dom id maxUDP hm p qbuf hq, ?_⟩
  unfold requestEncode at hq
  obtain ⟨f, hf, hq'⟩ := Outcome.bind_eq_ok hq
  obtain ⟨hv, _, hparse⟩ := buildQuery_ok hq'
  have hS := okResponse_shape id _ dom hv
  obtain ⟨rbuf, he, hd⟩ := response_path_total sealR openR Nr _ dom hS r hlen
  refine ⟨_, f, rbuf, ?_, hS, he, hd⟩
  rw [lenientParse_of_ok hparse]
  exact responseFor_queryMessage id _ dom maxUDP hm dec f
    (by rw [upper_flatten_chunks_lower _ (L.upper _)]; exact L.inv _)

/-! ## several requesters at once: the receive loop of the responder

`RecvAndRespond` receives into `var buf [4096]byte` declared **inside** the loop body and starts one
goroutine per datagram whose closure captures that array. `Loop` (CJ/Model/Responder.lean) is that loop
with the buffer as an explicit object and an arbitrary schedule. The theorems are for every schedule,
every number of datagrams and every handler function. -/

/-- **isolation**: whatever the schedule, when everything was received and every handler has run, the
datagrams written are — up to order — exactly what each datagram's handler writes when it reads its own
datagram, to that datagram's source address; likewise what the callback was given -/
theorem recvloop_isolated (respond : Bytes → Option Bytes × Option Bytes) (queue : List Dgram) (sched : List Step)
    (hq : (Loop.run true respond (Loop.init queue) sched).quiet) :
    (Loop.run true respond (Loop.init queue) sched).sent.Perm (queue.flatMap (outOf respond)) ∧
    (Loop.run true respond (Loop.init queue) sched).seen.Perm (queue.flatMap (seenOf respond)) := by
  obtain ⟨ds, hp, hs, hc⟩ := loopInv_run respond queue sched _ (loopInv_init respond queue)
  obtain ⟨hq1, hq2⟩ := hq
  rw [hq2] at hp
  have hds : ds = [] := by
    cases ds with
    | nil => rfl
    | cons d t => simp at hp
  subst hds
  rw [hq1] at hs hc
  simpa using And.intro hs hc

/-- … and at **every** moment of every schedule, a datagram written to an address is the response to a
datagram that came from that address, and what the callback was given was extracted from a datagram of
the burst: no handler ever acts on another handler's bytes -/
theorem recvloop_never_crosses (respond : Bytes → Option Bytes × Option Bytes) (queue : List Dgram) (sched : List Step) :
    (∀ a x, (a, x) ∈ (Loop.run true respond (Loop.init queue) sched).sent →
      ∃ d ∈ queue, d.addr = a ∧ (respond (received d.data)).2 = some x) ∧
    (∀ p ∈ (Loop.run true respond (Loop.init queue) sched).seen,
      ∃ d ∈ queue, (respond (received d.data)).1 = some p) := by
  obtain ⟨ds, _, hs, hc⟩ := loopInv_run respond queue sched _ (loopInv_init respond queue)
  constructor
  · intro a x hx
    have : (a, x) ∈ queue.flatMap (outOf respond) := hs.subset (List.mem_append_left _ hx)
    obtain ⟨d, hd, hm⟩ := List.mem_flatMap.mp this
    refine ⟨d, hd, ?_⟩
    unfold outOf at hm
    cases hr : (respond (received d.data)).2 with
    | none => rw [hr] at hm; simp at hm
    | some y =>
      rw [hr] at hm
      simp only [Option.map_some, Option.toList_some, List.mem_singleton, Prod.mk.injEq] at hm
      exact ⟨hm.1.symm, by rw [hm.2]⟩
  · intro p hp
    have : p ∈ queue.flatMap (seenOf respond) := hc.subset (List.mem_append_left _ hp)
    obtain ⟨d, hd, hm⟩ := List.mem_flatMap.mp this
    refine ⟨d, hd, ?_⟩
    unfold seenOf at hm
    cases hr : (respond (received d.data)).1 with
    | none => rw [hr] at hm; simp at hm
    | some y =>
      rw [hr] at hm
      simp only [Option.toList_some, List.mem_singleton] at hm
      rw [hm]

/-- the per-iteration buffer is what the theorems rest on: with one array in front of the loop (here of
4 bytes, its size does not matter), two datagrams and the schedule "receive, receive, run, run" the first
requester is sent the answer to the second one's datagram (and the callback sees that datagram twice) -/
theorem recvloop_hoisted_buffer_crosses :
    (Loop.run false (fun b => (some b, some b)) ⟨[⟨0, [1]⟩, ⟨1, [2]⟩], [0, 0, 0, 0], [], [], []⟩
      [.recv, .recv, .run 0, .run 0]).sent = [(0, [2]), (1, [2])] ∧
    (Loop.run true (fun b => (some b, some b)) ⟨[⟨0, [1]⟩, ⟨1, [2]⟩], [0, 0, 0, 0], [], [], []⟩
      [.recv, .recv, .run 0, .run 0]).sent = [(0, [1]), (1, [2])] := by
  decide

/-! ### the tie to the source: what the handler goroutine captures (regenerated table)

`CJ/Gen/C15Loop.lean` lists, for every `go func() { … }()` started inside a loop of the DNS registrar
packages, the variables of the enclosing function the literal uses, whether each is declared in the loop
body (a new variable per iteration) and whether the loop writes it. `Loop` with `perIter = true` is the
code's behaviour exactly when every captured variable the loop writes is per iteration. -/

/-- captured variables that the loop writes although they are declared in front of it, and why that is
harmless: `NewTLSPacketConn` (the requester's DNS-over-TLS transport) redials `conn` only after
`wg.Wait()` has joined the two goroutines that use it -/
def loopCaptureDischarged : List (String × String) := [("NewTLSPacketConn", "conn")]

/-- every variable a per-datagram goroutine captures and the loop writes — the receive buffer, the length
and the source address `ReadFrom` returned — is declared in the loop body -/
theorem recvloop_captures_per_iteration :
    ∀ c ∈ CJ.Gen.C15Loop.captures, c.loopWrites = true →
      c.perIteration = true ∨ (c.fn, c.name) ∈ loopCaptureDischarged := by decide

/-- the scan is not empty-handed: it found the handler of `RecvAndRespond` and its three per-datagram
variables -/
theorem recvloop_extractor_saw_the_code : 8 ≤ CJ.Gen.C15Loop.scannedFiles ∧
    (∀ v ∈ ["buf", "n", "addr"], ∃ c ∈ CJ.Gen.C15Loop.captures,
      c.fn = "RecvAndRespond" ∧ c.name = v ∧ c.perIteration = true ∧ c.loopWrites = true) := by decide

/-- a request of the burst: who sends it, the query ID, the registration, and the query on the wire -/
structure BurstReq where
  addr : Nat
  id : UInt16
  p : Bytes
  qbuf : Bytes

/-- what the responder's handler does with the query of one requester (any Noise / base32 with the laws):
the callback is given exactly the registration, and the datagram written is decoded by the requester to
the callback's answer — or, if that datagram would exceed `maxUDPPayload`, to what `Decrypt` makes of the
empty string (`response_send_oversize`) -/
theorem responder_handles_own_query (seal_ : Bytes → Bytes) (open_ : Bytes → Option Bytes) (Nq : NoiseLaws seal_ open_)
    (sealR : Bytes → Bytes) (openR : Bytes → Option Bytes) (Nr : NoiseLaws sealR openR)
    (enc : Bytes → Bytes) (dec : Bytes → Option Bytes) (L : B32Laws enc dec) (dom : Name) (id : UInt16)
    (maxUDP : Nat) (hm : maxUDP ≤ 4096) (cb : Bytes → Bytes) (p qbuf : Bytes)
    (hq : requestEncode seal_ enc dom id p = .ok qbuf) (hlen : (sealR (cb p)).length + 2 ≤ 4096) :
    ∃ out, responderRespond dom maxUDP dec open_ sealR (fun x => some (cb x)) qbuf = (some p, some out) ∧
      (responseDecode openR dom out = some (cb p) ∨ responseDecode openR dom out = openR []) := by
  obtain ⟨hdec, resp, f, rbuf, hrf, hS, henc, hback⟩ := exchange_roundtrip seal_ open_ Nq sealR openR Nr enc dec L dom id
    maxUDP hm p (cb p) qbuf hq hlen
  -- what `requestDecode = some p` says about the frame and the Noise message
  have hfg : ∃ g, removeRequestFormat f = .ok g ∧ open_ g = some p := by
    unfold requestDecode at hdec
    rw [hrf] at hdec
    simp only at hdec
    cases hr : removeRequestFormat f with
    | ok g => rw [hr] at hdec; exact ⟨g, rfl, hdec⟩
    | err e => rw [hr] at hdec; cases hdec
    | panic s => rw [hr] at hdec; cases hdec
    | hang => rw [hr] at hdec; cases hdec
  obtain ⟨g, hg, hopen⟩ := hfg
  -- the datagram the handler writes is `responseSend`
  have hsend : ∀ out, responseSend sealR resp maxUDP (cb p) = .ok out →
      handleDatagram dom maxUDP dec (fun f => (open_ f).bind fun p => (some (cb p)).map sealR) qbuf = .ok (some out) := by
    intro out ho
    unfold responseSend at ho
    obtain ⟨b, hb, ho⟩ := Outcome.bind_eq_ok ho
    unfold responseEncode at hb
    obtain ⟨fr, hfr, hb⟩ := Outcome.bind_eq_ok hb
    unfold handleDatagram handleDatagramWith
    rw [hrf]
    simp only [hg, orReturn, hopen, Option.bind_some, Option.map_some, hfr]
    have e1 : udpResponseWith true resp fr = udpResponse resp fr := udpResponseGo_eq resp fr
    have e0 : udpResponseWith true resp [] = udpResponse resp [] := udpResponseGo_eq resp []
    rw [e1, hb]
    simp only
    split at ho
    · rename_i hbig
      rw [if_pos hbig, e0, ho]
    · rename_i hfit
      rw [if_neg hfit]
      cases ho
      rfl
  by_cases hfit : rbuf.length ≤ maxUDP
  · have := response_send_fits sealR resp maxUDP (cb p) rbuf henc hfit
    refine ⟨rbuf, ?_, Or.inl hback⟩
    unfold responderRespond
    rw [hdec, hsend rbuf this]
  · obtain ⟨out, ho, hd⟩ := response_send_oversize sealR openR resp dom hS maxUDP (cb p) rbuf henc (by omega)
    refine ⟨out, ?_, Or.inr hd⟩
    unfold responderRespond
    rw [hdec, hsend out ho]

/-- **the exchange with any number of requesters at once**: `reqs` send their queries (each built by
`requestEncode`, from its own address), the responder receives them back to back and handles them in
any interleaving. When all handlers have run: the callback was given every registration exactly once
(a permutation of the list of registrations); exactly one datagram per request was written; and every
datagram written to an address is decoded by the requester at that address to the callback's answer to
**its** registration (or to `Decrypt` of nothing when the answer did not fit `maxUDPPayload`). -/
theorem concurrent_exchange_roundtrip (seal_ : Bytes → Bytes) (open_ : Bytes → Option Bytes) (Nq : NoiseLaws seal_ open_)
    (sealR : Bytes → Bytes) (openR : Bytes → Option Bytes) (Nr : NoiseLaws sealR openR)
    (enc : Bytes → Bytes) (dec : Bytes → Option Bytes) (L : B32Laws enc dec) (dom : Name)
    (maxUDP : Nat) (hm : maxUDP ≤ 4096) (cb : Bytes → Bytes) (reqs : List BurstReq)
    (henc : ∀ r ∈ reqs, requestEncode seal_ enc dom r.id r.p = .ok r.qbuf ∧ r.qbuf.length ≤ 4096 ∧
      (sealR (cb r.p)).length + 2 ≤ 4096)
    (sched : List Step)
    (hquiet : (Loop.run true (responderRespond dom maxUDP dec open_ sealR fun x => some (cb x))
      (Loop.init (reqs.map fun r => ⟨r.addr, r.qbuf⟩)) sched).quiet) :
    let s := Loop.run true (responderRespond dom maxUDP dec open_ sealR fun x => some (cb x))
      (Loop.init (reqs.map fun r => ⟨r.addr, r.qbuf⟩)) sched
    s.seen.Perm (reqs.map (·.p)) ∧ s.sent.length = reqs.length ∧
    ∀ a x, (a, x) ∈ s.sent → ∃ r ∈ reqs, r.addr = a ∧
      (responseDecode openR dom x = some (cb r.p) ∨ responseDecode openR dom x = openR []) := by
  intro s
  let respond := responderRespond dom maxUDP dec open_ sealR fun x => some (cb x)
  have hone : ∀ r ∈ reqs, ∃ out, respond (received r.qbuf) = (some r.p, some out) ∧
      (responseDecode openR dom out = some (cb r.p) ∨ responseDecode openR dom out = openR []) := by
    intro r hr
    obtain ⟨h1, h2, h3⟩ := henc r hr
    have : received r.qbuf = r.qbuf := by unfold received; exact List.take_of_length_le h2
    rw [this]
    exact responder_handles_own_query seal_ open_ Nq sealR openR Nr enc dec L dom r.id maxUDP hm cb r.p r.qbuf h1 h3
  obtain ⟨hsent, hseen⟩ := recvloop_isolated respond _ sched hquiet
  have hseenAll : ∀ (l : List BurstReq), (∀ r ∈ l, r ∈ reqs) →
      (l.map fun r => (⟨r.addr, r.qbuf⟩ : Dgram)).flatMap (seenOf respond) = l.map (·.p) ∧
      ((l.map fun r => (⟨r.addr, r.qbuf⟩ : Dgram)).flatMap (outOf respond)).length = l.length := by
    intro l
    induction l with
    | nil => intro _; exact ⟨rfl, rfl⟩
    | cons r t ih =>
      intro hl
      obtain ⟨out, ho, _⟩ := hone r (hl r (by simp))
      obtain ⟨i1, i2⟩ := ih (fun r' h' => hl r' (by simp [h']))
      constructor
      · simp only [List.map_cons, List.flatMap_cons, i1]
        simp [seenOf, ho]
      · simp only [List.map_cons, List.flatMap_cons, List.length_append, i2]
        simp [outOf, ho]
        omega
  obtain ⟨e1, e2⟩ := hseenAll reqs (fun _ h => h)
  refine ⟨by rw [← e1]; exact hseen, by rw [← e2]; exact hsent.length_eq, ?_⟩
  intro a x hx
  obtain ⟨d, hd, ha, hr⟩ := (recvloop_never_crosses respond _ sched).1 a x hx
  obtain ⟨r, hr', rfl⟩ := List.mem_map.mp hd
  obtain ⟨out, ho, hdecode⟩ := hone r hr'
  simp only at hr ha
  rw [ho] at hr
  simp only [Option.some.injEq] at hr
  subst hr
  exact ⟨r, hr', ha, hdecode⟩

/-! ## tag obfuscators -/

/-- the mask of the two high bits of the representative: what `Obfuscate` sets from a random byte,
`TryReveal` clears again -/
theorem reveal_mask (r : Bytes) (rb : UInt8) (h : ∀ x ∈ r.drop 31, x &&& 0xc0 = 0) :
    clearHigh (setHigh r rb) = r := clearHigh_setHigh r rb h

theorem obfuscate_reveal_nil (pt ct : Bytes) (h : nilObfuscate pt = .ok ct) : nilReveal ct = .ok pt := by
  cases h; rfl

theorem obfuscate_reveal_xor (pad pt ct : Bytes) (h : xorObfuscate pad pt = .ok ct) : xorReveal ct = .ok pt :=
  xor_roundtrip pad pt ct h

/-- CTR variant, for every key pair, every sequence of ephemeral draws and every random byte -/
theorem obfuscate_reveal_ctr (C : Crypto) (pubOf : C.Priv → C.Pub) (L : CryptoLaws C pubOf)
    (draws : List C.Priv) (rb : UInt8) (pt : Bytes) (stPriv : C.Priv) (ct : Bytes)
    (h : ctrObfuscate C draws rb pt 32 (pubOf stPriv) = .ok ct) : ctrReveal C ct stPriv = .ok pt :=
  ctr_roundtrip C pubOf L draws rb pt stPriv ct h

/-- GCM variant -/
theorem obfuscate_reveal_gcm (C : Crypto) (pubOf : C.Priv → C.Pub) (L : CryptoLaws C pubOf)
    (draws : List C.Priv) (rb : UInt8) (pt : Bytes) (stPriv : C.Priv) (ct : Bytes)
    (h : gcmObfuscate C draws rb pt 32 (pubOf stPriv) = .ok ct) : gcmReveal C ct stPriv = .ok pt :=
  gcm_roundtrip C pubOf L draws rb pt stPriv ct h

/-- a station key that is not 32 bytes long is rejected (CTR) -/
theorem obfuscate_rejects_keylen_ctr (C : Crypto) (draws : List C.Priv) (rb : UInt8) (pt : Bytes) (n : Nat)
    (pub : C.Pub) (hn : n ≠ 32) : ctrObfuscate C draws rb pt n pub = .err .keyLen := by
  simp [ctrObfuscate, hn]

/-- a station key that is not 32 bytes long is rejected (GCM) -/
theorem obfuscate_rejects_keylen_gcm (C : Crypto) (draws : List C.Priv) (rb : UInt8) (pt : Bytes) (n : Nat)
    (pub : C.Pub) (hn : n ≠ 32) : gcmObfuscate C draws rb pt n pub = .err .keyLen := by
  simp [gcmObfuscate, hn]

/-- the empty tag, which has no XOR encoding that `TryReveal` accepts, is rejected whatever the pad -/
theorem obfuscate_rejects_empty_xor (pad : Bytes) : xorObfuscate pad [] = .err .emptyTag := by
  simp [xorObfuscate]

/-- values the encoders cannot represent are rejected with an error (the three facts above at once) -/
theorem obfuscate_rejects (C : Crypto) (draws : List C.Priv) (rb : UInt8) (pt pad : Bytes) (n : Nat)
    (pub : C.Pub) (hn : n ≠ 32) :
    ctrObfuscate C draws rb pt n pub = .err .keyLen ∧ gcmObfuscate C draws rb pt n pub = .err .keyLen ∧
    xorObfuscate pad [] = .err .emptyTag :=
  ⟨obfuscate_rejects_keylen_ctr C draws rb pt n pub hn, obfuscate_rejects_keylen_gcm C draws rb pt n pub hn,
    obfuscate_rejects_empty_xor pad⟩

/-- a station key X25519 refuses (a low-order point, e.g. the all-zero key): an error, never an
encoding (CTR) -/
theorem obfuscate_rejects_low_order_ctr (C : Crypto) (draws : List C.Priv) (rb : UInt8) (pt : Bytes)
    (pub : C.Pub) (k : C.Priv) (r : Bytes) (hf : firstRepresentable C draws = some (k, r))
    (hdh : C.dh k pub = none) : ctrObfuscate C draws rb pt 32 pub = .err .crypto := by
  simp [ctrObfuscate, hf, hdh]

/-- the same for GCM -/
theorem obfuscate_rejects_low_order_gcm (C : Crypto) (draws : List C.Priv) (rb : UInt8) (pt : Bytes)
    (pub : C.Pub) (k : C.Priv) (r : Bytes) (hf : firstRepresentable C draws = some (k, r))
    (hdh : C.dh k pub = none) : gcmObfuscate C draws rb pt 32 pub = .err .crypto := by
  simp [gcmObfuscate, hf, hdh]

/-- the first 32 bytes of a CTR / GCM encoding are the masked representative -/
theorem obfuscate_prefix_ctr (C : Crypto) (pubOf : C.Priv → C.Pub) (L : CryptoLaws C pubOf)
    (draws : List C.Priv) (rb : UInt8) (pt : Bytes) (pub : C.Pub) (ct : Bytes) (k : C.Priv) (r : Bytes)
    (hf : firstRepresentable C draws = some (k, r)) (h : ctrObfuscate C draws rb pt 32 pub = .ok ct) :
    ct.take 32 = setHigh r rb := by
  unfold ctrObfuscate at h
  simp only [ne_eq, not_true_eq_false, if_false, hf] at h
  split at h
  · cases h
  · split at h
    · cases h
    · cases h
      have hl : (setHigh r rb).length = 32 := by
        rw [setHigh_length, L.repr_len _ _ (firstRepresentable_some hf)]
      rw [List.take_left' hl]

theorem obfuscate_prefix_gcm (C : Crypto) (pubOf : C.Priv → C.Pub) (L : CryptoLaws C pubOf)
    (draws : List C.Priv) (rb : UInt8) (pt : Bytes) (pub : C.Pub) (ct : Bytes) (k : C.Priv) (r : Bytes)
    (hf : firstRepresentable C draws = some (k, r)) (h : gcmObfuscate C draws rb pt 32 pub = .ok ct) :
    ct.take 32 = setHigh r rb := by
  unfold gcmObfuscate at h
  simp only [ne_eq, not_true_eq_false, if_false, hf] at h
  split at h
  · cases h
  · split at h
    · cases h
    · cases h
      have hl : (setHigh r rb).length = 32 := by
        rw [setHigh_length, L.repr_len _ _ (firstRepresentable_some hf)]
      rw [List.take_left' hl]

/-- **fresh encodings** (CTR): two obfuscations of the same tag for the same station key whose
ephemeral representatives differ, or whose random high bits differ, are different byte strings -/
theorem fresh_encoding_ctr (C : Crypto) (pubOf : C.Priv → C.Pub) (L : CryptoLaws C pubOf)
    (d1 d2 : List C.Priv) (rb1 rb2 : UInt8) (pt : Bytes) (pub : C.Pub) (c1 c2 : Bytes)
    (k1 k2 : C.Priv) (r1 r2 : Bytes)
    (hf1 : firstRepresentable C d1 = some (k1, r1)) (hf2 : firstRepresentable C d2 = some (k2, r2))
    (h1 : ctrObfuscate C d1 rb1 pt 32 pub = .ok c1) (h2 : ctrObfuscate C d2 rb2 pt 32 pub = .ok c2)
    (hne : r1 ≠ r2 ∨ 0xc0 &&& rb1 ≠ 0xc0 &&& rb2) : c1 ≠ c2 := by
  intro heq
  have p1 := obfuscate_prefix_ctr C pubOf L d1 rb1 pt pub c1 k1 r1 hf1 h1
  have p2 := obfuscate_prefix_ctr C pubOf L d2 rb2 pt pub c2 k2 r2 hf2 h2
  rw [heq, p2] at p1
  have hr1 := firstRepresentable_some hf1
  have hr2 := firstRepresentable_some hf2
  obtain ⟨e1, e2⟩ := setHigh_inj r2 r1 rb2 rb1 (L.repr_len _ _ hr2) (L.repr_len _ _ hr1)
    (L.repr_high _ _ hr2) (L.repr_high _ _ hr1) p1
  rcases hne with hne | hne
  · exact hne e1.symm
  · exact hne e2.symm

theorem fresh_encoding_gcm (C : Crypto) (pubOf : C.Priv → C.Pub) (L : CryptoLaws C pubOf)
    (d1 d2 : List C.Priv) (rb1 rb2 : UInt8) (pt : Bytes) (pub : C.Pub) (c1 c2 : Bytes)
    (k1 k2 : C.Priv) (r1 r2 : Bytes)
    (hf1 : firstRepresentable C d1 = some (k1, r1)) (hf2 : firstRepresentable C d2 = some (k2, r2))
    (h1 : gcmObfuscate C d1 rb1 pt 32 pub = .ok c1) (h2 : gcmObfuscate C d2 rb2 pt 32 pub = .ok c2)
    (hne : r1 ≠ r2 ∨ 0xc0 &&& rb1 ≠ 0xc0 &&& rb2) : c1 ≠ c2 := by
  intro heq
  have p1 := obfuscate_prefix_gcm C pubOf L d1 rb1 pt pub c1 k1 r1 hf1 h1
  have p2 := obfuscate_prefix_gcm C pubOf L d2 rb2 pt pub c2 k2 r2 hf2 h2
  rw [heq, p2] at p1
  have hr1 := firstRepresentable_some hf1
  have hr2 := firstRepresentable_some hf2
  obtain ⟨e1, e2⟩ := setHigh_inj r2 r1 rb2 rb1 (L.repr_len _ _ hr2) (L.repr_len _ _ hr1)
    (L.repr_high _ _ hr2) (L.repr_high _ _ hr1) p1
  rcases hne with hne | hne
  · exact hne e1.symm
  · exact hne e2.symm

/-- fresh encodings (XOR): different pads give different encodings of the same tag -/
theorem fresh_encoding_xor (pad1 pad2 pt c1 c2 : Bytes) (h1 : xorObfuscate pad1 pt = .ok c1)
    (h2 : xorObfuscate pad2 pt = .ok c2) (hne : pad1.take pt.length ≠ pad2.take pt.length) : c1 ≠ c2 := by
  intro heq
  have p1 := xorObfuscate_prefix pad1 pt c1 h1
  have p2 := xorObfuscate_prefix pad2 pt c2 h2
  rw [heq, p2] at p1
  exact hne p1.symm

/-! ## URL-less transport parameters -/

/-- protobuf (un)marshalling as a parameter -/
structure ProtoLaws {M : Type} (marshal : M → Bytes) (unmarshal : Url → Bytes → Option M) (url : Url) : Prop where
  inv : ∀ m, unmarshal url (marshal m) = some m

/-- the client erases the type URL, the station restores the URL of the type it expects and gets the
client's parameters back -/
theorem any_roundtrip {M : Type} (marshal : M → Bytes) (unmarshal : Url → Bytes → Option M) (url : Url)
    (L : ProtoLaws marshal unmarshal url) (m : M) :
    unmarshalAnyTo unmarshal (some url) (some (eraseUrl ⟨url, marshal m⟩)) = .ok (some m) := by
  unfold unmarshalAnyTo
  rw [restoreUrl_erase]
  simp [Outcome.bind, L.inv]

/-- a URL that is kept (old clients) is accepted when it names the expected type (after the
`tapdance.` → `proto.` renaming) … -/
theorem any_roundtrip_with_url {M : Type} (marshal : M → Bytes) (unmarshal : Url → Bytes → Option M) (url src : Url)
    (L : ProtoLaws marshal unmarshal url) (m : M) (h : normalizeUrl src = url) :
    unmarshalAnyTo unmarshal (some url) (some ⟨src, marshal m⟩) = .ok (some m) := by
  unfold unmarshalAnyTo
  rw [restoreUrl_same url ⟨src, marshal m⟩ h]
  simp [Outcome.bind, L.inv]

/-- … and rejected with an error when it names another type -/
theorem any_rejects_wrong_type {M : Type} (unmarshal : Url → Bytes → Option M) (url : Url) (a : AnyMsg)
    (h0 : normalizeUrl a.typeUrl ≠ []) (h : normalizeUrl a.typeUrl ≠ url) :
    unmarshalAnyTo unmarshal (some url) (some a) = .err .wrongType := by
  unfold unmarshalAnyTo
  rw [restoreUrl_other url a h0 h]; rfl

/-- absent parameters stay absent -/
theorem any_absent {M : Type} (unmarshal : Url → Bytes → Option M) (url : Option Url) :
    unmarshalAnyTo unmarshal url none = .ok (none : Option M) := rfl

/-! ### the destination is not an input of the decoder

`UnmarshalAnypbTo` is the one decoder of the registration channels that writes into a destination the
caller supplies (everything else returns a fresh value). `unmarshalAnyInto merge decode expected src prior`
is the call with `dst` holding `prior`; the code under test is `merge = false`. -/

/-- **the result does not depend on what the destination held**: for every source, every expected type,
every behaviour of the wire decoder and any two prior contents -/
theorem decode_ignores_prior_destination (decode : Url → Bytes → Option Fields) (expected : Option Url)
    (src : Option AnyMsg) (prior prior' : Fields) :
    unmarshalAnyInto false decode expected src prior = unmarshalAnyInto false decode expected src prior' := rfl

/-- … it is the function of the source alone that `unmarshalAnyTo` (the model the other theorems are
about) describes -/
theorem any_into_eq_any_to (decode : Url → Bytes → Option Fields) (expected : Option Url) (src : Option AnyMsg)
    (prior : Fields) :
    unmarshalAnyInto false decode expected src prior =
      unmarshalAnyTo (fun u b => (decode u b).map (mergeFields [])) expected src := by
  unfold unmarshalAnyInto unmarshalAnyTo unmarshalInto
  cases restoreUrl expected src with
  | ok r =>
    cases r with
    | none => rfl
    | some a => simp only [Outcome.bind]; cases decode a.typeUrl a.value <;> rfl
  | err e => rfl
  | panic s => rfl
  | hang => rfl

theorem setField_append (f : Nat × Bytes) : ∀ (acc : Fields), (∀ g ∈ acc, g.1 < f.1) → setField acc f = acc ++ [f] := by
  intro acc
  induction acc with
  | nil => intro _; rfl
  | cons g rest ih =>
    intro h
    have hg := h g (by simp)
    have h1 : ¬ f.1 < g.1 := by omega
    have h2 : ¬ f.1 = g.1 := by omega
    simp only [setField, h1, h2, if_false, List.cons_append]
    rw [ih (fun g' h' => h g' (by simp [h']))]

theorem mergeFields_canonical : ∀ (v acc : Fields), (acc ++ v).Pairwise (fun a b => a.1 < b.1) →
    mergeFields acc v = acc ++ v := by
  intro v
  induction v with
  | nil => intro acc _; simp [mergeFields]
  | cons f t ih =>
    intro acc h
    have hlt : ∀ g ∈ acc, g.1 < f.1 := by
      intro g hg
      exact (List.pairwise_append.mp h).2.2 g hg f (by simp)
    show mergeFields (setField acc f) t = acc ++ f :: t
    rw [setField_append f acc hlt, ih (acc ++ [f]) (by simpa [List.append_assoc] using h)]
    simp [List.append_assoc]

/-- **round trip into any destination**: a message in canonical form (fields ascending, one per number)
that the wire decoder reads back comes out of `UnmarshalAnypbTo` exactly, whatever the destination held
before — also the empty message, which is encoded as no bytes at all -/
theorem any_roundtrip_into (marshal : Fields → Bytes) (decode : Url → Bytes → Option Fields) (url : Url)
    (hinv : ∀ m, decode url (marshal m) = some m) (m prior : Fields)
    (hm : m.Pairwise (fun a b => a.1 < b.1)) :
    unmarshalAnyInto false decode (some url) (some (eraseUrl ⟨url, marshal m⟩)) prior = .ok (some m) := by
  unfold unmarshalAnyInto unmarshalInto
  rw [restoreUrl_erase]
  simp only [Outcome.bind, hinv, Option.map_some, Bool.false_eq_true, if_false]
  rw [mergeFields_canonical m [] (by simpa using hm)]
  rfl

/-- the reset is what the theorems rest on: with `Merge: true` the empty parameter message decodes to
whatever the destination held, and a field the value does not carry survives -/
theorem decode_merge_depends_on_destination :
    unmarshalAnyInto true (fun _ _ => some []) (some ['u']) (some ⟨[], []⟩) [(1, [3])] = .ok (some [(1, [3])]) ∧
    unmarshalAnyInto false (fun _ _ => some []) (some ['u']) (some ⟨[], []⟩) [(1, [3])] = .ok (some []) ∧
    unmarshalAnyInto true (fun _ _ => some [(4, [1])]) (some ['u']) (some ⟨[], [0x20, 1]⟩) [(1, [3]), (4, [0])] =
      .ok (some [(1, [3]), (4, [1])]) := by decide

/-! ## non-vacuity: the hypotheses are satisfiable, and the round trips are exercised on concrete data -/

/-- a toy instance of the primitives: one key, representative `0…0`, CTR = xor with a constant,
GCM = append a 16-byte tag -/
def toyCrypto : Crypto where
  Priv := Unit
  Pub := Unit
  dh := fun _ _ => some [1, 2, 3]
  reprOf := fun _ => some (List.replicate 32 0)
  pubOfRepr := fun _ => ()
  hash := fun s => s ++ List.replicate 32 7
  ctr := fun _ _ x => some (x.map (· ^^^ 0x5a))
  gcmSeal := fun _ _ x => some (x ++ List.replicate 16 9)
  gcmOpen := fun _ _ y => some (y.take (y.length - 16))

theorem toyLaws : CryptoLaws toyCrypto (fun _ => ()) where
  dh_comm := fun _ _ => rfl
  repr_inv := fun _ _ _ => rfl
  repr_len := by intro _ r h; cases h; simp
  repr_high := by
    intro _ r h x hx; cases h
    have : x = 0 := by
      have := List.mem_of_mem_drop hx
      exact List.eq_of_mem_replicate this
    subst this; decide
  ctr_inv := by
    intro _ _ x y h; cases h
    simp only [toyCrypto, List.map_map, Option.some.injEq]
    conv => rhs; rw [← List.map_id x]
    apply List.map_congr_left
    intro b _
    simp [UInt8.xor_assoc]
  gcm_inv := by intro _ _ x y h; cases h; simp [toyCrypto]
  gcm_len := by intro _ _ x y h; cases h; simp

example : ctrObfuscate toyCrypto [()] 0xff [10, 20] 32 () =
    .ok (List.replicate 31 0 ++ [0xc0] ++ [10 ^^^ 0x5a, 20 ^^^ 0x5a]) := by decide
example : ∃ ct, gcmObfuscate toyCrypto [()] 0x40 [10, 20] 32 () = .ok ct := ⟨_, rfl⟩
/-- a toy text codec (two nibbles per byte) that satisfies `B32Laws`; the real base32 codec is checked
against the same two laws by the harness on every run -/
def toyEnc : Bytes → Bytes
  | [] => []
  | b :: bs => (b &&& 0x0f) :: (b >>> 4) :: toyEnc bs
def toyDec : Bytes → Option Bytes
  | [] => some []
  | [_] => none
  | lo :: hi :: rest => (toyDec rest).map fun r => (lo ||| (hi <<< 4)) :: r

set_option maxRecDepth 8000 in
theorem toyNibbles (b : UInt8) : ((b &&& (0x0f : UInt8)) ||| ((b >>> (4 : UInt8)) <<< (4 : UInt8))) = b ∧
    (b &&& (0x0f : UInt8)) < (97 : UInt8) ∧ (b >>> (4 : UInt8)) < (97 : UInt8) := by
  have key : ∀ k : Fin 256,
      ((UInt8.ofNat k.val &&& (0x0f : UInt8)) ||| ((UInt8.ofNat k.val >>> (4 : UInt8)) <<< (4 : UInt8))) = UInt8.ofNat k.val ∧
      (UInt8.ofNat k.val &&& (0x0f : UInt8)) < (97 : UInt8) ∧ (UInt8.ofNat k.val >>> (4 : UInt8)) < (97 : UInt8) := by decide
  have := key ⟨b.toNat, b.toNat_lt⟩
  simpa using this

theorem toyB32 : B32Laws toyEnc toyDec where
  inv := by
    intro p
    induction p with
    | nil => rfl
    | cons b bs ih =>
      have := (toyNibbles b).1
      simp [toyEnc, toyDec, ih, this]
  upper := by
    intro p
    induction p with
    | nil => simp [toyEnc]
    | cons b bs ih =>
      intro x hx
      simp only [toyEnc, List.mem_cons] at hx
      have h1 := (toyNibbles b).2.1
      have h2 := (toyNibbles b).2.2
      rcases hx with rfl | rfl | hx
      · intro ⟨h, _⟩; exact absurd (UInt8.lt_of_lt_of_le h1 h) (UInt8.lt_irrefl _)
      · intro ⟨h, _⟩; exact absurd (UInt8.lt_of_lt_of_le h2 h) (UInt8.lt_irrefl _)
      · exact ih x hx

example : ProtoLaws (M := Bytes) id (fun _ b => some b) "type.googleapis.com/proto.GenericTransportParams".toList :=
  ⟨fun _ => rfl⟩
example : validName [[0x61, 0x62], [0x63]] := by unfold validName; decide
example : (⟨1, 0x100, [⟨[[0x61]], 16, 1⟩], [], [], [⟨[], 41, 4096, 0, []⟩]⟩ : Message).WF := by
  constructor <;> simp [validName] <;> decide
example : xorObfuscate [1, 2, 3] [7, 7] = .ok [1, 2, 1 ^^^ 7, 2 ^^^ 7] := by decide

/-! ### the DNS channel: toy Noise, concrete exchanges -/

/-- a toy stand-in for Noise that satisfies `NoiseLaws`: a one-byte header in front of the plaintext -/
def toySeal (p : Bytes) : Bytes := 0x4e :: p
def toyOpen : Bytes → Option Bytes
  | 0x4e :: p => some p
  | _ => none
theorem toyNoise : NoiseLaws toySeal toyOpen := ⟨fun _ => rfl⟩

example : (addRequestFormat [1, 2]).bind (fun e => removeRequestFormat (e ++ [9, 9, 9])) = .ok [1, 2] :=
  frame_roundtrip_request [1, 2] (by decide) [9, 9, 9]
example : (addResponseFormat [1, 2]).bind (fun e => removeResponseFormat (e ++ List.replicate 4092 0)) = .ok [1, 2] :=
  frame_roundtrip_response [1, 2] (by decide) _

/-- the request path is exercised: the encoder accepts a registration under `t.example.com`, and what
it produces is decoded to the registration -/
example : ∃ buf, requestEncode toySeal toyEnc exampleDom 7 [1, 2, 3] = .ok buf ∧
    requestDecode toyOpen toyDec exampleDom 1232 buf = some [1, 2, 3] := by
  have hok : (requestEncode toySeal toyEnc exampleDom 7 [1, 2, 3]).isOk = true :=
    (request_accepts_iff_capacity toySeal toyEnc exampleDom 7 [1, 2, 3] (by decide)).mpr (by decide)
  obtain ⟨buf, hb⟩ := Outcome.isOk_iff.mp hok
  exact ⟨buf, hb, request_path_roundtrip toySeal toyOpen toyNoise toyEnc toyDec toyB32 exampleDom 7 1232 (by omega)
    [1, 2, 3] buf hb⟩

/-- `request_rejects_oversize`: a Noise message of 256 bytes -/
example : 255 < ((fun p : Bytes => List.replicate 256 (0 : UInt8) ++ p) [1]).length := by
  show 255 < (List.replicate 256 (0 : UInt8) ++ [1]).length
  rw [List.length_append, List.length_replicate]
  decide

/-- `request_rejects_long_name`: a short registration under a 249-byte base domain -/
example : (toySeal [1, 2, 3]).length ≤ 255 ∧
    (∀ l ∈ List.replicate 4 (List.replicate 61 (0x61 : UInt8)), 0 < l.length ∧ l.length ≤ 63) ∧
    255 < nameWireLen (requestName toySeal toyEnc (List.replicate 4 (List.replicate 61 0x61)) [1, 2, 3]) := by
  refine ⟨by decide, by simp, ?_⟩
  rw [requestName, query_capacity]
  decide

/-- `ResponseShape` is what `responseFor` returns for an accepted query (see `exchange_roundtrip`) -/
example : ResponseShape (okResponse 7 ([[0x61]] ++ exampleDom)) exampleDom :=
  okResponse_shape 7 [[0x61]] exampleDom (by unfold validName; decide)

/-- the response path is exercised, including the size limit with both outcomes -/
example : ∃ buf, responseEncode toySeal (okResponse 7 ([[0x61]] ++ exampleDom)) [9, 9] = .ok buf ∧
    responseDecode toyOpen exampleDom buf = some [9, 9] ∧
    responseSend toySeal (okResponse 7 ([[0x61]] ++ exampleDom)) buf.length [9, 9] = .ok buf ∧
    (0 < buf.length) := by
  have hS := okResponse_shape 7 [[0x61]] exampleDom (by unfold validName; decide)
  obtain ⟨buf, he, hd⟩ := response_path_total toySeal toyOpen toyNoise _ exampleDom hS [9, 9] (by decide)
  refine ⟨buf, he, hd, response_send_fits toySeal _ buf.length [9, 9] buf he (Nat.le_refl _), ?_⟩
  -- the datagram parses (that is how `responseDecode` got a result), so it has a header
  unfold responseDecode at hd
  cases hp : messageFromWireFormat buf with
  | ok m => have := messageFromWireFormat_ok_length hp; omega
  | err e => rw [hp] at hd; cases hd
  | panic s => rw [hp] at hd; cases hd
  | hang => rw [hp] at hd; cases hd

/-- the whole exchange on the toy instance -/
example : ∃ qbuf resp f rbuf, requestEncode toySeal toyEnc exampleDom 7 [1, 2, 3] = .ok qbuf ∧
    requestDecode toyOpen toyDec exampleDom 1232 qbuf = some [1, 2, 3] ∧
    responseFor (lenientParse qbuf) exampleDom 1232 toyDec = some (resp, some f) ∧
    responseEncode toySeal resp [9, 9] = .ok rbuf ∧ responseDecode toyOpen exampleDom rbuf = some [9, 9] := by
  have hok : (requestEncode toySeal toyEnc exampleDom 7 [1, 2, 3]).isOk = true :=
    (request_accepts_iff_capacity toySeal toyEnc exampleDom 7 [1, 2, 3] (by decide)).mpr (by decide)
  obtain ⟨qbuf, hb⟩ := Outcome.isOk_iff.mp hok
  obtain ⟨h1, resp, f, rbuf, h2, _, h3, h4⟩ := exchange_roundtrip toySeal toyOpen toyNoise toySeal toyOpen toyNoise
    toyEnc toyDec toyB32 exampleDom 7 1232 (by omega) [1, 2, 3] [9, 9] qbuf hb (by decide)
  exact ⟨qbuf, resp, f, rbuf, hb, h1, h2, h3, h4⟩

/-- `responseFor` on the registrar's own query, computed: NOERROR with AA, the question echoed, its OPT RR -/
example : responseFor (queryMessage 7 [[0x41], [0x74]]) [[0x74]] 1232 (fun t => if t = [0x41] then some [0] else none) =
    some (⟨7, 0x8400, [⟨[[0x41], [0x74]], 16, 1⟩], [], [], [optRR 0]⟩, some [0]) := by decide
/-- … and on queries it refuses: a response (QR = 1) gets no answer at all, a second OPT RR gets FORMERR,
EDNS version 1 gets BADVERS (extended RCODE in the OPT TTL), a foreign name gets NXDOMAIN without AA -/
example : responseFor ⟨7, 0x8100, [], [], [], []⟩ [[0x74]] 1232 (fun _ => none) = none := by decide
example : responseFor ⟨7, 0x0100, [⟨[[0x74]], 16, 1⟩], [], [], [optRR 0, optRR 0]⟩ [[0x74]] 1232 (fun _ => none) =
    some (⟨7, 0x8001, [⟨[[0x74]], 16, 1⟩], [], [], [optRR 0]⟩, none) := by decide
example : responseFor ⟨7, 0x0100, [⟨[[0x74]], 16, 1⟩], [], [], [optRR 0x00010000]⟩ [[0x74]] 1232 (fun _ => none) =
    some (⟨7, 0x8000, [⟨[[0x74]], 16, 1⟩], [], [], [optRR 0x01000000]⟩, none) := by decide
example : responseFor ⟨7, 0x0100, [⟨[[0x75]], 16, 1⟩], [], [], [optRR 0]⟩ [[0x74]] 1232 (fun _ => none) =
    some (⟨7, 0x8003, [⟨[[0x75]], 16, 1⟩], [], [], [optRR 0]⟩, none) := by decide

/-- `response_send_oversize`: a limit below the datagram's length -/
example : ∃ b0, responseEncode toySeal (okResponse 7 ([[0x61]] ++ exampleDom)) [9, 9] = .ok b0 ∧ 0 < b0.length := by
  have hS := okResponse_shape 7 [[0x61]] exampleDom (by unfold validName; decide)
  obtain ⟨buf, he, hd⟩ := response_path_total toySeal toyOpen toyNoise _ exampleDom hS [9, 9] (by decide)
  refine ⟨buf, he, ?_⟩
  unfold responseDecode at hd
  cases hp : messageFromWireFormat buf with
  | ok m => have := messageFromWireFormat_ok_length hp; omega
  | err e => rw [hp] at hd; cases hd
  | panic s => rw [hp] at hd; cases hd
  | hang => rw [hp] at hd; cases hd

/-- a toy instance whose X25519 refuses one station key (`false`), for `obfuscate_rejects_low_order_*` -/
def toyCryptoLow : Crypto where
  Priv := Unit
  Pub := Bool
  dh := fun _ b => if b then some [1, 2, 3] else none
  reprOf := fun _ => some (List.replicate 32 0)
  pubOfRepr := fun _ => true
  hash := fun s => s ++ List.replicate 32 7
  ctr := fun _ _ x => some (x.map (· ^^^ 0x5a))
  gcmSeal := fun _ _ x => some (x ++ List.replicate 16 9)
  gcmOpen := fun _ _ y => some (y.take (y.length - 16))

example : firstRepresentable toyCryptoLow [()] = some ((), List.replicate 32 0) ∧
    toyCryptoLow.dh () false = none := ⟨rfl, rfl⟩
example : ctrObfuscate toyCryptoLow [()] 0 [1, 2] 32 false = .err .crypto :=
  obfuscate_rejects_low_order_ctr toyCryptoLow [()] 0 [1, 2] false () _ rfl rfl
example : gcmObfuscate toyCryptoLow [()] 0 [1, 2] 32 false = .err .crypto :=
  obfuscate_rejects_low_order_gcm toyCryptoLow [()] 0 [1, 2] false () _ rfl rfl
example : ctrObfuscate toyCrypto [()] 0 [1] 31 () = .err .keyLen :=
  obfuscate_rejects_keylen_ctr toyCrypto [()] 0 [1] 31 () (by decide)
example : gcmObfuscate toyCrypto [()] 0 [1] 33 () = .err .keyLen :=
  obfuscate_rejects_keylen_gcm toyCrypto [()] 0 [1] 33 () (by decide)

/-! ## several encodings alive at once (`CJ/Model/Alive.lean`)

The round-trip theorems above speak about values.  A caller of the Go code holds *objects*: the slice
an encoder returned is a view of a buffer.  The statements below are about histories of a caller that
keeps every result and copies nothing: any interleaving of encoder calls and of decoding what call `j`
returned. -/

open CJ.Alive in
/-- an encoder that takes its output object fresh: whatever the history, decoding what call `j`
returned is decoding the encoding of the `j`-th value - objects behave like values -/
theorem held_encodings_are_values {α β : Type} (enc : α → β) (dec : β → Option α) (ops : List (Op α)) :
    (run .fresh enc dec ops).out = spec enc dec ops :=
  runFrom_fresh enc dec ops {} [] ⟨rfl, rfl⟩

open CJ.Alive in
theorem specFrom_roundtrip {α β : Type} (enc : α → β) (dec : β → Option α) (law : ∀ x, dec (enc x) = some x)
    (ops : List (Op α)) : ∀ xs out, specFrom enc dec xs out ops = specFrom id some xs out ops := by
  induction ops with
  | nil => intro _ _; rfl
  | cons o r ih =>
    intro xs out
    cases o with
    | enc x => simpa [specFrom] using ih _ _
    | dec j => simp [specFrom, law, ih]

open CJ.Alive in
/-- … hence, for a codec that round-trips, every kept encoding decodes to its own value however many
other values were encoded in between and in whatever order they are decoded (`spec id some` answers
`D j` with the `j`-th encoded value) -/
theorem held_encodings_survive {α β : Type} (enc : α → β) (dec : β → Option α) (law : ∀ x, dec (enc x) = some x)
    (ops : List (Op α)) : (run .fresh enc dec ops).out = spec id some ops := by
  rw [held_encodings_are_values]
  exact specFrom_roundtrip enc dec law ops [] []

open CJ.Alive in
/-- the instance for TXT character strings (a total encoder); the other codecs instantiate `law` with
their round-trip theorems in the same way -/
theorem held_txt_encodings_survive (ops : List (Op Bytes)) :
    (run .fresh encodeTXT (fun b => match decodeTXT b with | .ok p => some p | _ => none) ops).out = spec id some ops :=
  held_encodings_survive _ _ (fun p => by simp [txt_roundtrip]) ops

open CJ.Alive in
/-- the fresh object is what the theorems rest on: an encoder that takes its buffer from a pool and
puts it back on return hands out a view of an object the next call writes - the first encoding, still
held, decodes to the second value -/
theorem pooled_buffer_overwrites_held_encoding :
    (run .pooled (id : Nat → Nat) some [.enc 1, .enc 2, .dec 0, .dec 1]).out = [some 2, some 2] ∧
    (run .fresh (id : Nat → Nat) some [.enc 1, .enc 2, .dec 0, .dec 1]).out = [some 1, some 2] := by decide

/-! ## the letter case of the query name

DNS names compare case-insensitively (RFC 1035 §2.3.3, RFC 4343) and resolvers on the path rewrite the
case of a query name (0x20 randomisation, normalisation).  `CaseEq n m`: the two names are the same
name for DNS. -/

/-- equal up to ASCII letter case, label by label -/
def CaseEq (n m : Name) : Prop := n.map (·.map toLowerB) = m.map (·.map toLowerB)

set_option maxRecDepth 8000 in
theorem toUpperB_toLowerB (b : UInt8) : toUpperB (toLowerB b) = toUpperB b ∧ toLowerB (toUpperB b) = toLowerB b := by
  have key : ∀ k : Fin 256, toUpperB (toLowerB (UInt8.ofNat k.val)) = toUpperB (UInt8.ofNat k.val) ∧
      toLowerB (toUpperB (UInt8.ofNat k.val)) = toLowerB (UInt8.ofNat k.val) := by decide
  have := key ⟨b.toNat, b.toNat_lt⟩
  simpa using this

theorem upper_of_lower_eq (a b : Bytes) (h : a.map toLowerB = b.map toLowerB) : a.map toUpperB = b.map toUpperB := by
  have e : ∀ l : Bytes, l.map toUpperB = (l.map toLowerB).map toUpperB := by
    intro l; simp [List.map_map, Function.comp_def, (toUpperB_toLowerB _).1]
  rw [e a, e b, h]

/-- the responder's extraction of the base32 text is a function of the DNS name, not of its spelling -/
theorem recvEncoded_case_insensitive (n m dom : Name) (h : CaseEq n m) : recvEncoded n dom = recvEncoded m dom := by
  unfold CaseEq at h
  have hl : n.length = m.length := by simpa using congrArg List.length h
  have hd : ∀ k, (n.drop k).map (·.map toLowerB) = (m.drop k).map (·.map toLowerB) := by
    intro k; rw [List.map_drop, List.map_drop, h]
  have ht : ∀ k, ((n.take k).flatten).map toUpperB = ((m.take k).flatten).map toUpperB := by
    intro k
    apply upper_of_lower_eq
    have : (n.take k).map (·.map toLowerB) = (m.take k).map (·.map toLowerB) := by
      rw [List.map_take, List.map_take, h]
    simpa [List.map_flatten] using congrArg List.flatten this
  unfold recvEncoded trimSuffix
  simp only [hl, hd]
  split
  · rfl
  · split
    · have := ht (m.length - dom.length)
      simpa [List.map_flatten, List.map_take] using this
    · rfl

/-- every spelling a path may produce is covered: e.g. the name in upper case throughout -/
theorem caseEq_upper (n : Name) : CaseEq (n.map (·.map toUpperB)) n := by
  unfold CaseEq
  simp [List.map_map, Function.comp_def, (toUpperB_toLowerB _).2]

theorem caseEq_lower (n : Name) : CaseEq (n.map (·.map toLowerB)) n := by
  unfold CaseEq
  have e : ∀ b, toLowerB (toLowerB b) = toLowerB b := by
    intro b
    have := (toUpperB_toLowerB (toLowerB b)).2
    rw [(toUpperB_toLowerB b).1, (toUpperB_toLowerB b).2] at this
    exact this.symm
  simp [List.map_map, Function.comp_def, e]

/-- the request path through a case-rewriting resolver: whatever spelling `m` of the query name
arrives, the responder hands the base32 decoder the text the requester encoded -/
theorem query_payload_roundtrip_recased (enc : Bytes → Bytes) (dec : Bytes → Option Bytes) (L : B32Laws enc dec)
    (p : Bytes) (dom n m : Name) (h : sendName (enc p) dom = .ok n) (hc : CaseEq m n) :
    (recvEncoded m dom).bind dec = some p := by
  rw [recvEncoded_case_insensitive m n dom hc]
  exact query_payload_roundtrip enc dec L p dom n h

/-- a decoder that does not fold case (the lower-case alphabet applied to the labels as they arrive)
is not a function of the DNS name: the same name in two spellings gives two texts -/
theorem unfolded_text_depends_on_spelling :
    CaseEq [[0x4d, 0x66], [0x74]] [[0x6d, 0x66], [0x74]] ∧
    (trimSuffix [[0x4d, 0x66], [0x74]] [[0x74]]).map List.flatten ≠ (trimSuffix [[0x6d, 0x66], [0x74]] [[0x74]]).map List.flatten := by
  refine ⟨by unfold CaseEq; decide, by decide⟩

end CJ.Props.C15
