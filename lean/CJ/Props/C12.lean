import CJ.Lemmas.Registrar
/-!
# C12 — what the registrar tells the client is what it tells the stations, unforgeably

Property theorems only, about `registerBidirectional` (`CJ/Model/Registrar.lean`), for every request,
every registrar configuration, every answer of the selector / transports / override, and every random draw.
-/
namespace CJ.Props.C12
open CJ.Registrar

/-- **The client's view is the forwarded view.** The response returned to the client (phantom addresses,
destination port, transport parameters) is the response carried by the wrapper published to the stations,
and, on an authenticated registrar, the signed copy as well. -/
theorem client_view_eq_forwarded (cfg : Cfg) (req : Req) (ext : Ext) (m : Nat) (a : Option String) (c : Resp) (f : Fwd)
    (h : registerBidirectional cfg req ext m a = .ok c f) :
    f.resp = some c ∧ (cfg.authenticated = true → f.signed = some c) ∧ (cfg.authenticated = false → f.signed = none) := by
  obtain ⟨hf, hbd, rfl, hr, hs⟩ := register_ok h
  have hal := final_aliased hbd
  rw [hal] at hr hs
  refine ⟨hr, ?_, ?_⟩
  · intro ha; simpa [ha] using hs
  · intro ha; simpa [ha] using hs

/-- the port is always decided by the registrar -/
theorem port_always_set (cfg : Cfg) (req : Req) (ext : Ext) (m : Nat) (a : Option String) (c : Resp) (f : Fwd)
    (h : registerBidirectional cfg req ext m a = .ok c f) : c.port.isSome = true := by
  obtain ⟨hf, hbd, rfl, _, _⟩ := register_ok h
  obtain ⟨h0, _, hpre, hsr⟩ := processBdReq_cases hbd
  cases hsr with
  | same => exact hpre.port
  | minSub s ip hs hw hr ht hx =>
    have := hpre.port
    rcases h0 with ⟨o0, o1, rp, wp⟩
    cases rp <;> simpa [Heap.updR, Heap.upd, Heap.get] using this
  | pfxSub s ip id pre fl hs hw hr ht hd hp hx => simp [Heap.get]

/-- **A station ingesting the forwarded message ends up with the same phantom, port and parameters** as
the client: the station applies the forwarded response by the rule of `NewRegistrationC2SWrapper`, whatever
it derived on its own. -/
theorem station_ends_with_same (cfg : Cfg) (req : Req) (ext : Ext) (m : Nat) (a : Option String) (c : Resp) (f : Fwd)
    (h : registerBidirectional cfg req ext m a = .ok c f) (d4 : Nat) (d6 : String) (dport : Nat) :
    let st := stationApply req.disable req.params d4 d6 dport f.resp
    (∀ x, c.v4 = some x → x ≠ 0 → st.phantom4 = some x) ∧
    (∀ x, c.v6 = some x → st.phantom6 = some x) ∧
    some st.port = c.port ∧
    st.params = clientParams req c := by
  obtain ⟨hfwd, _, _⟩ := client_view_eq_forwarded cfg req ext m a c f h
  have hport := port_always_set cfg req ext m a c f h
  simp only [hfwd, stationApply, clientParams]
  refine ⟨?_, ?_, ?_, trivial⟩
  · intro x hx hne; simp [hx, hne]
  · intro x hx; simp [hx]
  · cases hp : c.port with
    | none => simp [hp] at hport
    | some p => simp

/-- **Forged fields are discarded**: a registration response, serialized response or signature supplied
by the client has no influence on what is returned or forwarded. -/
theorem forged_fields_discarded (cfg : Cfg) (req : Req) (ext : Ext) (m : Nat) (a : Option String)
    (fr : Option Resp) (fb fs : String) :
    registerBidirectional cfg { req with forgedResp := fr, forgedBytes := fb, forgedSig := fs } ext m a =
      registerBidirectional cfg { req with forgedResp := none, forgedBytes := "", forgedSig := "" } ext m a := by
  rfl

/-- … in particular nothing of a forged signed response reaches the stations from an unauthenticated registrar -/
theorem unauthenticated_never_signs (cfg : Cfg) (req : Req) (ext : Ext) (m : Nat) (a : Option String) (c : Resp) (f : Fwd)
    (hauth : cfg.authenticated = false) (h : registerBidirectional cfg req ext m a = .ok c f) : f.signed = none :=
  (client_view_eq_forwarded cfg req ext m a c f h).2.2 hauth

/-- **Overrides of transport parameters only if allowed**: when the client has disabled registrar
overrides the response carries no transport parameters, so client and station keep the client's own. -/
theorem overrides_only_if_allowed (cfg : Cfg) (req : Req) (ext : Ext) (m : Nat) (a : Option String) (c : Resp) (f : Fwd)
    (hdis : req.disable = true) (h : registerBidirectional cfg req ext m a = .ok c f) :
    c.params = none ∧ clientParams req c = req.params ∧
      ∀ d4 d6 dport, (stationApply req.disable req.params d4 d6 dport f.resp).params = req.params := by
  obtain ⟨hf, hbd, rfl, _, _⟩ := register_ok h
  have hnone : (hf.get hf.rp).params = none := by
    obtain ⟨h0, _, hpre, hsr⟩ := processBdReq_cases hbd
    have hp := hpre.noParams hdis
    cases hsr with
    | same => exact hp
    | minSub s ip hs hw hr ht hx =>
      rcases h0 with ⟨o0, o1, rp, wp⟩
      cases rp <;> simpa [Heap.updR, Heap.upd, Heap.get] using hp
    | pfxSub s ip id pre fl hs hw hr ht hd hp' hx => simp [hdis] at hd
  refine ⟨hnone, by simp [clientParams, hnone], ?_⟩
  intro d4 d6 dport
  have hst := (station_ends_with_same cfg req ext m a _ f h d4 d6 dport).2.2.2
  rw [hst]; simp [clientParams, hnone]

/-- the override subnets configured for the transport of the request -/
def subnetsFor (cfg : Cfg) (req : Req) : List Subnet :=
  if req.transport = 1 then cfg.minSubnets else if req.transport = 4 then cfg.prefixSubnets else []

/-- **A substituted phantom comes from a configured override subnet of that transport** (one with a
non-zero weight): whenever the IPv4 phantom in the response is not the one the selector gave, it lies
inside such a subnet. -/
theorem substitute_in_configured_subnet (cfg : Cfg) (req : Req) (ext : Ext) (m : Nat) (a : Option String) (c : Resp) (f : Fwd)
    (hwf : ∀ s ∈ cfg.minSubnets ++ cfg.prefixSubnets, s.wf)
    (h : registerBidirectional cfg req ext m a = .ok c f) (hne : c.v4 ≠ selected4 req ext) :
    ∃ x s, c.v4 = some x ∧ s ∈ subnetsFor cfg req ∧ 0 < s.weight ∧ s.contains x = true := by
  obtain ⟨hf, hbd, rfl, _, _⟩ := register_ok h
  obtain ⟨h0, _, hpre, hsr⟩ := processBdReq_cases hbd
  have hsel : selected4 { req with forgedResp := none } ext = selected4 req ext := rfl
  rw [hsel] at hpre
  cases hsr with
  | same => exact absurd hpre.v4 hne
  | minSub s ip hs hw hr ht hx =>
    refine ⟨ip, s, ?_, ?_, hw, randAddr_contains (hwf s (List.mem_append_left _ hs)) hr⟩
    · rcases h0 with ⟨o0, o1, rp, wp⟩
      cases rp <;> simp [Heap.updR, Heap.upd, Heap.get]
    · simp only at ht; simp [subnetsFor, ht, hs]
  | pfxSub s ip id pre fl hs hw hr ht hd hp hx =>
    refine ⟨ip, s, by simp [Heap.get], ?_, hw, randAddr_contains (hwf s (List.mem_append_right _ hs)) hr⟩
    simp only at ht; simp [subnetsFor, ht, hs]

/-- **A phantom in an excluded subnet is never replaced.** -/
theorem excluded_never_replaced (cfg : Cfg) (req : Req) (ext : Ext) (m : Nat) (a : Option String) (c : Resp) (f : Fwd)
    (h : registerBidirectional cfg req ext m a = .ok c f) (x : Nat) (hsel : selected4 req ext = some x)
    (e : Subnet) (he : e ∈ cfg.exclusions) (hin : e.contains x = true) : c.v4 = some x := by
  obtain ⟨hf, hbd, rfl, _, _⟩ := register_ok h
  obtain ⟨h0, _, hpre, hsr⟩ := processBdReq_cases hbd
  have hsel' : selected4 { req with forgedResp := none } ext = selected4 req ext := rfl
  rw [hsel', hsel] at hpre
  have hexc : excluded cfg (h0.get h0.rp).v4 = true := by
    rw [hpre.v4]
    unfold excluded
    rw [List.any_eq_true]
    exact ⟨e, he, hin⟩
  cases hsr with
  | same => exact hpre.v4
  | minSub s ip hs hw hr ht hx => rw [hexc] at hx; cases hx
  | pfxSub s ip id pre fl hs hw hr ht hd hp hx => rw [hexc] at hx; cases hx

/-- **Every weighted subnet is reachable**: for each subnet with a non-zero weight there is a draw
`u = a / b ∈ [0, 1)` for which the weighted choice returns it … -/
theorem every_weighted_subnet_reachable (ws : List Nat) (i : Nat) (hi : i < ws.length) (hpos : 0 < ws[i]) :
    ∃ a b, a < b ∧ choose ws a b = some i :=
  choose_reachable ws i hi hpos

/-- … and only subnets with a non-zero weight are ever chosen. -/
theorem only_weighted_subnets_chosen (ws : List Nat) (a b i : Nat) (h : choose ws a b = some i) :
    ∃ hi : i < ws.length, 0 < ws[i] :=
  choose_some h

/-- Reachability through the whole registration: a Min registration on a registrar that overrides all
Min registrations, with a non-excluded phantom — for every IPv4 override subnet with a non-zero weight there
are draws for which the client (and, by `client_view_eq_forwarded`, the stations) get a phantom inside it. -/
theorem every_weighted_subnet_used (cfg : Cfg) (req : Req) (ext : Ext) (m : Nat) (a : Option String)
    (henf : cfg.enforce = true) (hpct : ext.pctDraw < cfg.pctMin) (ht : req.transport = 1)
    (c0 : Resp) (f0 : Fwd) (h0 : registerBidirectional cfg req ext m a = .ok c0 f0)
    (hnx : excluded cfg (selected4 req ext) = false)
    (i : Nat) (s : Subnet) (hs : cfg.minSubnets[i]? = some s) (hw : 0 < s.weight) (hv4 : s.isV4 = true) (hwf : s.wf) :
    ∃ uNum uDen c f, uNum < uDen ∧
      registerBidirectional cfg req { ext with uNum := uNum, uDen := uDen } m a = .ok c f ∧
      ∃ x, c.v4 = some x ∧ s.contains x = true := by
  have hi : i < (cfg.minSubnets.map (·.weight)).length := by
    have := (List.getElem?_eq_some_iff.mp hs).1; simpa using this
  have hwi : 0 < (cfg.minSubnets.map (·.weight))[i] := by
    have := (List.getElem?_eq_some_iff.mp hs).2
    simp only [List.getElem_map]; rw [this]; exact hw
  obtain ⟨uN, uD, hlt, hch⟩ := choose_reachable _ i hi hwi
  obtain ⟨hf, hbd, _, _, _⟩ := register_ok h0
  obtain ⟨hh, hps, hpre, rfl⟩ := processBdReq_ok hbd
  have hsel : selected4 { req with forgedResp := none } ext = selected4 req ext := rfl
  rw [hsel] at hpre
  obtain ⟨ip, hip⟩ : ∃ ip, randAddr s ext.hostDraw = some ip := by simp [randAddr, hv4]
  -- the draw `u` is read only by the subnet override: everything before it is unchanged
  have hps' : preStage cfg { req with forgedResp := none } { ext with uNum := uN, uDen := uD } = .ok hh := hps
  have hexc : excluded cfg (hh.get hh.rp).v4 = false := by rw [hpre.v4]; exact hnx
  have hsub : subnetOverride cfg { req with forgedResp := none } { ext with uNum := uN, uDen := uD } hh =
      hh.updR fun r => { r with v4 := some ip } := by
    unfold subnetOverride
    simp [henf, hexc, ht, hpct, hch, hs, hip]
  have hbd' : processBdReq cfg { req with forgedResp := none } { ext with uNum := uN, uDen := uD } =
      .ok (hh.updR fun r => { r with v4 := some ip }) := by
    unfold processBdReq; rw [hps']; simp only; rw [hsub]
  -- the wrapper stage does not read the draws either
  unfold registerBidirectional at h0
  simp only at h0
  rw [hbd] at h0
  simp only at h0
  split at h0
  · cases h0
  · rename_i fw hw
    split at h0
    · rename_i hsend
      -- same request, same wrapper fields; the response attached is the new one
      have hw' : ∃ fw', processC2SWrapper cfg { req with forgedResp := none }
          (Option.map (hh.updR fun r => { r with v4 := some ip }).get (hh.updR fun r => { r with v4 := some ip }).wp) m a = some fw' := by
        unfold processC2SWrapper at hw ⊢
        split at hw
        · cases hw
        · rename_i hsec; simp [hsec]
      obtain ⟨fw', hw'⟩ := hw'
      refine ⟨uN, uD, (hh.updR fun r => { r with v4 := some ip }).get (hh.updR fun r => { r with v4 := some ip }).rp,
        fw', hlt, ?_, ip, ?_, randAddr_contains hwf hip⟩
      · unfold registerBidirectional
        simp only
        rw [hbd']
        simp only
        rw [hw']
        simp only
        rw [if_pos hsend]
      · rcases hh with ⟨o0, o1, rp, wp⟩
        cases rp <;> simp [Heap.updR, Heap.upd, Heap.get]
    · cases h0

/-! ### non-vacuity: concrete registrations that satisfy the hypotheses -/

def cfg0 : Cfg :=
  { authenticated := true, hasOverrides := false, enforce := true, pctMin := 10000, pctPrefix := 10000,
    minSubnets := [⟨true, 167837952, 24, 1, 443, none⟩, ⟨true, 167903488, 24, 0, 80, none⟩, ⟨true, 167969024, 24, 2, 22, none⟩],
    prefixSubnets := [], exclusions := [⟨true, 3325256704, 24, 0, 0, none⟩] }
def req0 : Req :=
  { hasPayload := true, secretLen := 32, v4 := true, v6 := true, transport := 1, disable := false, params := none,
    source := 0, regAddr := none, forgedResp := some { v4 := some 101058054, port := some 70000 },
    forgedBytes := "forged", forgedSig := "sig" }
def ext0 : Ext :=
  { sel4 := .ok 3405803783 true, sel6 := .ok "20010db8007700000000000000000001" true, transportKnown := true, parseOk := true,
    ovSel := .nothing, unmarshal := some {}, port := some 443, pctDraw := 17, uNum := 1, uDen := 2, hostDraw := 77, sendOk := true }

-- a successful, substituted, signed registration: u = 1/2 falls into the third subnet (weights 1, 0, 2)
example : registerBidirectional cfg0 req0 ext0 4 (some "c6336407") =
    .ok { v4 := some (167969024 + 77), v6 := some "20010db8007700000000000000000001", port := some 443 }
        { source := 4, addr := some "c6336407",
          resp := some { v4 := some (167969024 + 77), v6 := some "20010db8007700000000000000000001", port := some 443 },
          signed := some { v4 := some (167969024 + 77), v6 := some "20010db8007700000000000000000001", port := some 443 } } := by
  decide
example : selected4 req0 ext0 = some 3405803783 ∧ excluded cfg0 (selected4 req0 ext0) = false := by decide
example : ∀ s ∈ cfg0.minSubnets ++ cfg0.prefixSubnets, s.wf := by
  intro s hs
  simp [cfg0] at hs
  rcases hs with rfl | rfl | rfl <;> intro _ <;> decide
-- an excluded phantom (198.51.100.7 in 198.51.100.0/24) keeps its address
example : (match registerBidirectional cfg0 req0 { ext0 with sel4 := .ok 3325256711 true } 4 none with
    | .ok c _ => c.v4 | _ => none) = some 3325256711 := by decide
-- the weighted choice over (1, 0, 2): thirds of [0, 1)
example : choose [1, 0, 2] 0 3 = some 0 ∧ choose [1, 0, 2] 1 3 = some 2 ∧ choose [1, 0, 2] 2 3 = some 2 := by decide

end CJ.Props.C12
